"""
Equivalence check of the refactoring (property C17) against the pristine code.

Run:  cd /tmp/wt/U17 && PYTHONPATH=/tmp/wt/U17/src /venv/bin/python _refactor/equiv.py
"""

import importlib.util
import logging
import os
import sys
import warnings
from unittest import mock

import numpy as np

HERE = os.path.dirname(os.path.abspath(__file__))
warnings.filterwarnings("ignore")

import pyoma2.algorithms.ssi as new_alg  # noqa: E402
import pyoma2.functions.ssi as new_fun  # noqa: E402
import tqdm  # noqa: E402

logging.disable(logging.CRITICAL)


def _load(name, fname):
    spec = importlib.util.spec_from_file_location(name, os.path.join(HERE, fname))
    mod = importlib.util.module_from_spec(spec)
    sys.modules[name] = mod
    spec.loader.exec_module(mod)
    return mod


old_fun = _load("pyoma2.functions._orig_ssi", "orig_functions_ssi.py")
old_alg = _load("pyoma2.algorithms._orig_ssi", "orig_algorithms_ssi.py")
old_alg.ssi = old_fun  # the pristine calling layer must call the pristine routines

# silence the progress bars
for m in (new_fun, old_fun):
    m.trange = lambda *a, **k: range(*a)
    m.tqdm = lambda it, *a, **k: it

N_CHECKS = {"exact": 0, "close": 0, "exc": 0}
SURVIVORS = []
WORST = {}


def same(a, b, what, exact=True, rtol=1e-9):
    """identical: type, dtype, shape, NaN pattern; values bitwise or within rtol of the scale"""
    if a is None or b is None:
        assert a is None and b is None, what
        return
    if isinstance(a, (list, tuple)):
        assert type(a) is type(b) and len(a) == len(b), what
        for i, (x, y) in enumerate(zip(a, b)):
            same(x, y, f"{what}[{i}]", exact, rtol)
        return
    if not isinstance(a, np.ndarray):
        assert type(a) is type(b) and a == b, (what, a, b)
        return
    assert isinstance(b, np.ndarray), what
    assert a.dtype == b.dtype, (what, a.dtype, b.dtype)
    assert a.shape == b.shape, (what, a.shape, b.shape)
    assert np.array_equal(np.isnan(a), np.isnan(b)), what + ": NaN pattern"
    if np.iscomplexobj(a):
        assert np.array_equal(np.isnan(a.real), np.isnan(b.real)), what
        assert np.array_equal(np.isnan(a.imag), np.isnan(b.imag)), what
    if exact:
        assert np.array_equal(a, b, equal_nan=True), what + ": not bitwise equal"
        N_CHECKS["exact"] += 1
    else:
        fin = np.isfinite(a)
        assert np.array_equal(fin, np.isfinite(b)), what + ": inf pattern"
        if fin.any():
            scale = np.max(np.abs(a[fin]))
            err = np.max(np.abs(a[fin] - b[fin]))
            assert err <= rtol * scale, (what, err, scale)
            # element-wise as well, for the entries that are not tiny
            big = fin & (np.abs(a) > 1e-6 * scale)
            rel = np.max(np.abs(a[big] - b[big]) / np.abs(a[big])) if big.any() else 0
            assert rel <= 1e3 * rtol, (what, "elementwise", rel)
            key = what.split(".")[-1]
            WORST[key] = max(WORST.get(key, 0.0), float(rel))
        N_CHECKS["close"] += 1


def both(f_old, f_new, *args, **kwargs):
    """call both; return (old, new) results or assert equal exception types"""
    try:
        ro = f_old(*args, **kwargs)
    except Exception as e:  # noqa: BLE001
        try:
            f_new(*args, **kwargs)
        except Exception as e2:  # noqa: BLE001
            assert type(e) is type(e2), (type(e), type(e2), e, e2)
            N_CHECKS["exc"] += 1
            return None
        raise AssertionError(f"only the original raised {type(e)}: {e}")
    rn = f_new(*args, **kwargs)
    return ro, rn


# -----------------------------------------------------------------------------
# data
# -----------------------------------------------------------------------------
def simulate(rng, nch, ndat, fs=50.0, freqs=(2.0, 5.5, 9.0), xis=(0.01, 0.015, 0.02), noise=0.05):
    """white-noise driven modal model, nch outputs"""
    dt = 1 / fs
    nm = len(freqs)
    Ad = np.zeros((2 * nm, 2 * nm))
    for k, (f, x) in enumerate(zip(freqs, xis)):
        w = 2 * np.pi * f
        lam = np.exp((-x * w + 1j * w * np.sqrt(1 - x**2)) * dt)
        Ad[2 * k : 2 * k + 2, 2 * k : 2 * k + 2] = [[lam.real, lam.imag], [-lam.imag, lam.real]]
    # nearly real mode shapes (a small out-of-phase part keeps them complex)
    Cm = rng.standard_normal((nch, 2 * nm))
    Cm[:, 1::2] = 0.05 * rng.standard_normal((nch, nm))
    x = np.zeros(2 * nm)
    Y = np.empty((ndat, nch))
    W = rng.standard_normal((ndat, 2 * nm))
    for k in range(ndat):
        x = Ad @ x + W[k]
        Y[k] = Cm @ x
    Y /= Y.std(axis=0)
    Y += noise * rng.standard_normal(Y.shape)
    return Y  # (ndat, nch)


# -----------------------------------------------------------------------------
# A. build_hank
# -----------------------------------------------------------------------------
def check_build_hank(rng):
    n = 0
    for trial in range(40):
        nch = int(rng.integers(1, 5))
        br = int(rng.integers(2, 6))
        ndat = int(rng.integers(300, 900))
        Y = rng.standard_normal((nch, ndat))
        nref = int(rng.integers(1, nch + 1))
        ref = list(rng.permutation(nch)[:nref])  # any order, not ascending in general
        Yref = Y[ref, :]
        N = ndat - br - (br + 1)
        # number of blocks: dividing N exactly (short last block) or not
        divisors = [d for d in range(2, 41) if N % d == 0]
        nbs = [int(rng.integers(2, 30))]
        if divisors:
            nbs.append(int(rng.choice(divisors)))
        if trial == 0:
            nbs.append(1)  # zero scaling -> inf / nan, must be the same
        for nb in nbs:
            r = both(old_fun.build_hank, new_fun.build_hank, Y, Yref, br, "cov_mm", True, nb)
            (Ho, To), (Hn, Tn) = r
            same(Ho, Hn, "H cov_mm")
            same(To, Tn, "T")
            assert To.flags["C_CONTIGUOUS"] and Tn.flags["C_CONTIGUOUS"]
            n += 1
        for method in ("cov_mm", "dat", "cov_R"):
            (Ho, To), (Hn, Tn) = both(
                old_fun.build_hank, new_fun.build_hank, Y, Yref, br, method, calc_unc=False
            )
            same(Ho, Hn, "H " + method)
            assert To is None and Tn is None
            assert Ho.flags["C_CONTIGUOUS"] == Hn.flags["C_CONTIGUOUS"]
        # errors
        assert both(old_fun.build_hank, new_fun.build_hank, Y, Yref, br, "dat", True, 10) is None
        assert both(old_fun.build_hank, new_fun.build_hank, Y, Yref, br, "foo") is None
    assert both(old_fun.build_hank, new_fun.build_hank, Y, Yref, br, "cov_mm", True, 0) is None
    return n


# -----------------------------------------------------------------------------
# B/C. SSI_fast + SSI_poles with uncertainty
# -----------------------------------------------------------------------------
def lowrank_hankel(rng, l, r, br, n):
    """exact low-rank plus small full-rank part"""
    rows, cols = (br + 1) * l, (br + 1) * r
    k = min(n, rows, cols)
    U, _ = np.linalg.qr(rng.standard_normal((rows, rows)))
    V, _ = np.linalg.qr(rng.standard_normal((cols, cols)))
    m = min(rows, cols)
    s = np.zeros(m)
    s[:k] = np.sort(rng.uniform(1.0, 10.0, k))[::-1]
    s[k:] = 1e-3 * np.sort(rng.uniform(0.1, 1.0, m - k))[::-1]
    S = np.zeros((rows, cols))
    S[:m, :m] = np.diag(s)
    return U @ S @ V.T


def check_propagation(rng):
    n = 0
    worst = 0.0
    for trial in range(60):
        l = int(rng.integers(1, 4))
        r = int(rng.integers(1, l + 1))
        br = int(rng.integers(2, 6))
        dt = 0.02
        maxord = min(8, (br + 1) * r, br * l)
        if maxord < 2:
            continue
        ordmax = int(rng.integers(2, maxord + 1))
        if trial % 2 == 0:
            H = lowrank_hankel(rng, l, r, br, ordmax)
            ncol = int(rng.integers(1, 21))
            T = 1e-3 * rng.standard_normal((H.size, ncol))
        else:
            Y = simulate(rng, l, 1500).T
            ref = list(rng.permutation(l)[:r])
            ncol = int(rng.integers(2, 21))
            H, T = old_fun.build_hank(Y, Y[ref, :], br, "cov_mm", True, ncol)
        step = 1 if trial % 5 else 2
        res = both(old_fun.SSI_fast, new_fun.SSI_fast, H, br, ordmax, step=step, calc_unc=True, T=T, nb=ncol)
        ro, rn = res
        same(ro[0], rn[0], "Obs")
        same(ro[1], rn[1], "A")
        same(ro[2], rn[2], "C")
        for k in range(3, 7):
            same(ro[k], rn[k], f"Q{k - 2}", exact=False, rtol=1e-9)
            sc = np.max(np.abs(ro[k]))
            if sc > 0:
                worst = max(worst, np.max(np.abs(ro[k] - rn[k])) / sc)
        # no uncertainty
        r0 = both(old_fun.SSI_fast, new_fun.SSI_fast, H, br, ordmax, step, False)
        same(list(r0[0]), list(r0[1]), "SSI_fast no unc")
        if step != 1:
            continue  # SSI_poles with uncertainty needs every order
        # poles: new pipeline against old pipeline
        po = old_fun.SSI_poles(ro[0], ro[1], ro[2], ordmax, dt, step=step, calc_unc=True,
                               Q1=ro[3], Q2=ro[4], Q3=ro[5], Q4=ro[6])
        pn = new_fun.SSI_poles(rn[0], rn[1], rn[2], ordmax, dt, step=step, calc_unc=True,
                               Q1=rn[3], Q2=rn[4], Q3=rn[5], Q4=rn[6])
        for k in range(4):
            same(po[k], pn[k], f"poles[{k}]")
        same(po[4], pn[4], "Fn_cov", exact=False, rtol=1e-8)
        same(po[5], pn[5], "Xi_cov", exact=False, rtol=1e-8)
        same(po[6], pn[6], "Phi_cov")
        n += 1
    # a single-column factor broadcast over nb columns, and mismatching factors
    H = lowrank_hankel(rng, 2, 2, 3, 4)
    T1 = 1e-3 * rng.standard_normal((H.size, 1))
    ro, rn = both(old_fun.SSI_fast, new_fun.SSI_fast, H, 3, 4, calc_unc=True, T=T1, nb=5)
    for k in range(3, 7):
        same(ro[k], rn[k], "Q broadcast", exact=False)
    T3 = 1e-3 * rng.standard_normal((H.size, 3))
    assert both(old_fun.SSI_fast, new_fun.SSI_fast, H, 3, 4, calc_unc=True, T=T3, nb=5) is None
    assert both(old_fun.SSI_fast, new_fun.SSI_fast, H, 3, 4, calc_unc=True, T=T3[:-1], nb=3) is None
    assert both(old_fun.SSI_fast, new_fun.SSI_fast, H, 3, 4, calc_unc=True, T=None, nb=3) is None
    return n, worst


# -----------------------------------------------------------------------------
# D. calling layer
# -----------------------------------------------------------------------------
RESULT_FIELDS = (
    "Obs A C H Lambds Fn_poles Xi_poles Phi_poles Lab Fn_poles_cov Xi_poles_cov "
    "Phi_poles_cov Fn Xi Phi order_out Fn_cov Xi_cov Phi_cov"
).split()
UNC_FIELDS = {"Fn_poles_cov", "Xi_poles_cov", "Fn_cov", "Xi_cov"}


def compare_results(ro, rn, what, unc):
    assert type(ro).__name__ == type(rn).__name__ == "SSIResult"
    assert set(type(ro).model_fields) == set(type(rn).model_fields) == set(RESULT_FIELDS)
    for f in RESULT_FIELDS:
        a, b = getattr(ro, f), getattr(rn, f)
        exact = not (unc and f in UNC_FIELDS)
        same(a, b, f"{what}.{f}", exact=exact, rtol=1e-8)


def run_pair(cls_name, data, fs, params):
    algs = []
    for mod in (old_alg, new_alg):
        cls = getattr(mod, cls_name)
        alg = cls(name="x", **{k: (dict(v) if isinstance(v, dict) else v) for k, v in params.items()})
        alg._set_data(data, fs)
        algs.append(alg)
    ao, an = algs
    out = both(ao.run, an.run)
    if out is None:
        return None
    ao._set_result(out[0])
    an._set_result(out[1])
    return ao, an


class FakeSFP:
    """stand-in of the interactive selection"""

    picked = None

    def __init__(self, algo, freqlim=None, plot=None):
        assert plot == "SSI"
        self.result = FakeSFP.picked


def check_mpe(ao, an, what, unc, sel, rng):
    Fn = ao.result.Fn_poles
    ordmax = ao.run_params.ordmax
    orders = [ordmax, [ordmax] * len(sel), "find_min"]
    for order in orders:
        for rtol in (5e-2, 2e-1):
            r = both(
                lambda: ao.mpe(sel_freq=list(sel), order=order, rtol=rtol),
                lambda: an.mpe(sel_freq=list(sel), order=order, rtol=rtol),
            )
            if r is not None:
                assert r == (None, None)
            compare_results(ao.result, an.result, what + f".mpe[{order}]", unc)
            assert ao.run_params.model_dump().keys() == an.run_params.model_dump().keys()
            for k in ("sel_freq", "order_in", "rtol"):
                assert getattr(ao.run_params, k) == getattr(an.run_params, k)
    # from plot
    FakeSFP.picked = (list(sel), ordmax)
    with mock.patch.object(old_alg, "SelFromPlot", FakeSFP), mock.patch.object(
        new_alg, "SelFromPlot", FakeSFP
    ):
        r = both(
            lambda: ao.mpe_from_plot(freqlim=(0, 20), rtol=0.1),
            lambda: an.mpe_from_plot(freqlim=(0, 20), rtol=0.1),
        )
    if r is not None:
        assert r == (None, None)
    assert ao.run_params.rtol == an.run_params.rtol == 0.1
    compare_results(ao.result, an.result, what + ".mpe_from_plot", unc)
    del Fn, rng


def check_single_setup(rng):
    n = 0
    fs = 50.0
    sel = (2.0, 5.5, 9.0)
    configs = [
        # class, params
        ("SSIcov", dict(br=6, ordmax=10, calc_unc=True, nb=20)),
        ("SSIcov", dict(br=6, ordmax=10, calc_unc=True, nb=13, ref_ind=[2, 0],
                        hc=dict(conj=True, xi_max=0.08, mpc_lim=0.5, mpd_lim=0.5, cov_max=1e-3))),
        ("SSIcov", dict(br=9, ordmax=8, calc_unc=True, nb=10, ref_ind=[1], ordmin=2,
                        hc=dict(conj=False, xi_max=0.2, mpc_lim=0.3, mpd_lim=0.6, cov_max=5e-4),
                        sc=dict(err_fn=0.05, err_xi=0.2, err_phi=0.1))),
        ("SSIcov", dict(br=8, ordmax=12, calc_unc=True, nb=25, method="cov_mm",
                        hc=dict(conj=True, xi_max=0.1, mpc_lim=0.7, mpd_lim=0.3, cov_max=1e3))),
        ("SSIcov", dict(br=8, ordmax=12, calc_unc=False)),
        ("SSIcov", dict(br=8, ordmax=12, method="cov_R", ref_ind=[2, 1], step=2)),
        ("SSIcov", dict(br=7, ordmax=12, step=3, ordmin=3,
                        hc=dict(conj=False, xi_max=0.05, mpc_lim=0.9, mpd_lim=0.1, cov_max=0.2))),
        ("SSIdat", dict(br=8, ordmax=12)),
        ("SSIdat", dict(br=6, ordmax=10, ref_ind=[0, 2], hc=dict(conj=True, xi_max=0.03, mpc_lim=0.0, mpd_lim=1.0, cov_max=0.2))),
        # errors: uncertainty only for cov_mm; incomplete criteria dictionaries
        ("SSIdat", dict(br=6, ordmax=10, calc_unc=True)),
        ("SSIcov", dict(br=6, ordmax=10, method="cov_R", calc_unc=True)),
        ("SSIcov", dict(br=6, ordmax=10, hc=dict(conj=True, xi_max=0.1, mpc_lim=0.7, mpd_lim=0.3))),
        ("SSIcov", dict(br=6, ordmax=10, sc=dict(err_fn=0.01, err_xi=0.05))),
        ("SSIcov", dict(br=6, ordmax=10, method="nope")),
    ]
    for rep in range(2):
        nch = 3
        data = simulate(rng, nch, 3000 + 500 * rep, fs=fs)
        for cls_name, params in configs:
            unc = bool(params.get("calc_unc"))
            pair = run_pair(cls_name, data, fs, params)
            if pair is None:
                continue
            ao, an = pair
            what = f"{cls_name}{params}"
            compare_results(ao.result, an.result, what, unc)
            if params.get("step", 1) == 1:
                check_mpe(ao, an, what, unc, sel, rng)
            # some poles must survive and some must be discarded, otherwise the
            # comparison of the criteria is empty
            n_fin = int(np.isfinite(ao.result.Fn_poles).sum())
            n_all = sum(range(1, ao.run_params.ordmax + 1, ao.run_params.step))
            SURVIVORS.append((cls_name, n_fin, n_all, int(ao.result.Lab.sum())))
            assert 0 < n_fin < n_all, (what, n_fin, n_all)
            if unc:
                assert np.isfinite(ao.result.Fn_poles_cov).sum() == n_fin, what
            n += 1
    # mpe before run
    for mod in (old_alg, new_alg):
        a = mod.SSIcov(name="x", br=4, ordmax=6)
        for call in (lambda: a.mpe(sel_freq=[1.0]), lambda: a.mpe_from_plot()):
            try:
                call()
            except ValueError:
                N_CHECKS["exc"] += 1
            else:
                raise AssertionError("no error before run")
    return n


def check_multi_setup(rng):
    n = 0
    fs = 50.0
    for cls_name, params in [
        ("SSIcov_MS", dict(br=6, ordmax=10)),
        ("SSIcov_MS", dict(br=6, ordmax=10, method="cov_R",
                           hc=dict(conj=False, xi_max=0.2, mpc_lim=0.4, mpd_lim=0.6, cov_max=0.2))),
        ("SSIdat_MS", dict(br=6, ordmax=10, ordmin=2,
                           sc=dict(err_fn=0.05, err_xi=0.2, err_phi=0.1))),
        ("SSIdat_MS", dict(br=6, ordmax=10, hc=dict(conj=True, xi_max=0.1))),
    ]:
        full = simulate(rng, 5, 3000, fs=fs).T  # (5, ndat)
        data = [
            {"ref": full[[0, 1], :], "mov": full[[2, 3], :]},
            {"ref": full[[0, 1], :] + 0.01 * rng.standard_normal((2, full.shape[1])), "mov": full[[4], :]},
        ]
        pair = run_pair(cls_name, data, fs, params)
        if pair is None:
            continue
        ao, an = pair
        compare_results(ao.result, an.result, cls_name, False)
        assert ao.result.H is None and an.result.H is None
        check_mpe(ao, an, cls_name, False, (2.0, 5.5, 9.0), rng)
        n += 1
    return n


def main():
    rng = np.random.default_rng(20261004)
    assert tqdm  # imported for the side effect only
    n_h = check_build_hank(rng)
    n_p, worst = check_propagation(rng)
    n_s = check_single_setup(rng)
    n_m = check_multi_setup(rng)
    print(f"build_hank cases with uncertainty: {n_h} (bitwise identical H and T)")
    print(f"SSI_fast/SSI_poles propagation cases: {n_p}; worst relative deviation of Q1..Q4: {worst:.2e}")
    print(f"single-setup algorithm runs compared: {n_s}; multi-setup runs: {n_m}")
    print("surviving poles / computed poles / stable labels per run:")
    print("  " + ", ".join(f"{c}:{a}/{b}/{lab}" for c, a, b, lab in SURVIVORS))
    print("worst element-wise relative deviation of the tolerance-compared tables:")
    print("  " + ", ".join(f"{k}: {v:.1e}" for k, v in sorted(WORST.items())))
    print(f"checks: {N_CHECKS}")
    print("PASS")


if __name__ == "__main__":
    main()
