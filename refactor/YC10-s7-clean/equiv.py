"""
Differential test: library under PYTHONPATH (CLEAN version applied) against the
pristine sources saved next to this file as orig_gen.py / orig_ssi.py.

Run as:  PYTHONPATH=<tree>/src /venv/bin/python equiv.py

Compared
  * gen.SC_apply on randomly generated pole tables / ordmin / ordmax / step /
    tolerances (labels with numpy.array_equal, exceptions by type),
  * gen._sc_columns against the order -> column mapping of the original loop,
  * SSIdat / SSIcov / SSIdat_MS / SSIcov_MS .run() (which now goes through
    _label_poles) on random data and run parameters: Lab equal, pole tables
    allclose(rtol=1e-12, equal_nan=True).
Prints PASS and exits 0 when everything agrees.
"""
import importlib.util
import logging
import os
import sys
import warnings

import numpy as np

warnings.filterwarnings("ignore")
os.environ.setdefault("TQDM_DISABLE", "1")

from pyoma2.algorithms import ssi as new_ssi  # noqa: E402
from pyoma2.functions import gen as new_gen  # noqa: E402

logging.disable(logging.CRITICAL)

HERE = os.path.dirname(os.path.abspath(__file__))


def load(name, fname):
    spec = importlib.util.spec_from_file_location(name, os.path.join(HERE, fname))
    mod = importlib.util.module_from_spec(spec)
    sys.modules[name] = mod
    spec.loader.exec_module(mod)
    return mod


orig_gen = load("pyoma2.functions._orig_gen", "orig_gen.py")
# the module name puts the copy in the package, so that its relative import works
orig_ssi = load("pyoma2.algorithms._orig_ssi", "orig_ssi.py")
orig_ssi.gen = orig_gen  # pristine algorithms on top of pristine SC_apply

failures = []


def outcome(fun, *args):
    try:
        return ("ok", fun(*args))
    except Exception as e:  # noqa: BLE001
        return ("exc", type(e))


def random_table(rng, n_rows, n_cols, n_ch, kind):
    Fn = rng.uniform(0.5, 10.0, (n_rows, n_cols))
    Xi = rng.uniform(0.001, 0.08, (n_rows, n_cols))
    Phi = rng.standard_normal((n_rows, n_cols, n_ch))
    if kind != "real":
        Phi = Phi + 1j * rng.standard_normal((n_rows, n_cols, n_ch))
    # poles that persist from one order to the next, in shuffled rows
    for c in range(1, n_cols):
        keep = rng.random(n_rows) < 0.6
        src = rng.permutation(n_rows)
        for i in np.flatnonzero(keep):
            j = src[i]
            s = rng.choice([1e-4, 5e-3, 3e-2])
            Fn[i, c] = Fn[j, c - 1] * (1 + s * rng.standard_normal())
            Xi[i, c] = abs(Xi[j, c - 1] * (1 + 5 * s * rng.standard_normal()))
            Phi[i, c] = Phi[j, c - 1] * (1 + s * rng.standard_normal(n_ch))
    if kind == "dups":
        # conjugate pairs: identical frequency / damping, conjugated shape
        for c in range(n_cols):
            for i in range(0, n_rows - 1, 2):
                Fn[i + 1, c] = Fn[i, c]
                Xi[i + 1, c] = Xi[i, c]
                Phi[i + 1, c] = np.conj(Phi[i, c])
        # exact ties in distance
        Fn[:, 0] = np.round(Fn[:, 0])
    # joint rejection pattern
    mask = rng.random((n_rows, n_cols)) < rng.choice([0.0, 0.2, 0.6])
    if kind == "triangular":
        for c in range(n_cols):
            mask[c:, c] = True
    Fn[mask] = np.nan
    Xi[mask] = np.nan
    Phi[mask] = np.nan
    if kind == "ragged":
        # NaN patterns that differ between the three tables, zeros, empty columns
        Xi[rng.random(Xi.shape) < 0.1] = np.nan
        Phi[rng.random(Fn.shape) < 0.1] = np.nan
        Fn[rng.random(Fn.shape) < 0.03] = 0.0
        Xi[rng.random(Fn.shape) < 0.03] = 0.0
        Phi[rng.random(Fn.shape) < 0.03] = 0.0
        if n_cols > 2:
            Fn[:, rng.integers(0, n_cols)] = np.nan
    return Fn, Xi, Phi


def test_sc_apply(rng, n_cases=120):
    kinds = ["complex", "real", "dups", "triangular", "ragged"]
    n_stable = 0
    for case in range(n_cases):
        kind = kinds[case % len(kinds)]
        step = int(rng.choice([1, 1, 1, 2, 3]))
        ordmax = int(rng.integers(1, 41))
        n_cols = ordmax // step + 1
        n_rows = int(rng.integers(1, 41))
        n_ch = int(rng.integers(1, 7))
        Fn, Xi, Phi = random_table(rng, n_rows, n_cols, n_ch, kind)
        ordmin = int(rng.integers(0, ordmax + 1))
        tol = [
            float(rng.choice([0.0, 0.001, 0.01, 0.05, 0.5, np.inf])),
            float(rng.choice([0.0, 0.01, 0.05, 0.3, np.inf])),
            float(rng.choice([0.0, 0.001, 0.03, 0.3, 2.0])),
        ]
        om = ordmax
        if case % 17 == 5:
            om = ordmax - 1  # the way pLSCF calls it (one column less than orders)
            ordmin = min(ordmin, om)
        if case % 23 == 7:
            om = ordmax + 2 * step  # more orders than columns -> IndexError
        if case % 29 == 11:
            step = 0  # ValueError from range
        if case % 31 == 13:
            Fn, Xi, Phi = Fn[:0], Xi[:0], Phi[:0]  # no rows
        copies = (Fn.copy(), Xi.copy(), Phi.copy())
        a = outcome(orig_gen.SC_apply, Fn, Xi, Phi, ordmin, om, step, *tol)
        b = outcome(new_gen.SC_apply, Fn, Xi, Phi, ordmin, om, step, *tol)
        same = a[0] == b[0] and (
            (a[0] == "exc" and a[1] is b[1])
            or (
                a[0] == "ok"
                and a[1].shape == b[1].shape
                and a[1].dtype == b[1].dtype
                and np.array_equal(a[1], b[1])
            )
        )
        if not same:
            failures.append(
                f"SC_apply case {case} ({kind}, rows={n_rows}, ordmin={ordmin}, "
                f"ordmax={om}, step={step}, tol={tol}): {a[0]} vs {b[0]}"
            )
        if a[0] == "ok":
            n_stable += int(a[1].sum())
        for x, y in zip(copies, (Fn, Xi, Phi)):
            if not np.array_equal(x, y, equal_nan=True):
                failures.append(f"SC_apply case {case}: input modified")
        if step > 0:
            cols_old = [int(oo / step) for oo in range(ordmin, om + 1, step)]
            if list(new_gen._sc_columns(ordmin, om, step)) != cols_old:
                failures.append(f"_sc_columns({ordmin}, {om}, {step}) differs")
    return n_stable


def simulate(rng, n, fs, n_ch):
    t = np.arange(n) / fs
    freqs = rng.uniform(1.0, 0.4 * fs, 3)
    y = np.zeros((n, n_ch))
    for f in freqs:
        shape = rng.standard_normal(n_ch)
        h = np.exp(-0.02 * 2 * np.pi * f * t) * np.sin(2 * np.pi * f * t)
        q = np.convolve(rng.standard_normal(n), h)[:n]
        y += np.outer(q, shape)
    y /= y.std()
    return y + 0.05 * rng.standard_normal(y.shape)


FIELDS = ["Fn_poles", "Xi_poles", "Phi_poles", "Lambds"]


def compare_results(tag, ra, rb):
    if ra[0] != rb[0]:
        failures.append(f"{tag}: {ra} vs {rb}")
        return 0
    if ra[0] == "exc":
        if ra[1] is not rb[1]:
            failures.append(f"{tag}: exception {ra[1]} vs {rb[1]}")
        return 0
    a, b = ra[1], rb[1]
    if not np.array_equal(np.asarray(a.Lab), np.asarray(b.Lab)):
        failures.append(f"{tag}: Lab differs")
    for name in FIELDS:
        if not np.allclose(
            getattr(a, name), getattr(b, name), rtol=1e-12, atol=0, equal_nan=True
        ):
            failures.append(f"{tag}: {name} differs")
    return int(np.asarray(a.Lab).sum())


def test_algorithms(rng, n_cases=12):
    n_stable = 0
    for case in range(n_cases):
        fs = 40.0
        ordmax = 2 * int(rng.integers(4, 11))  # even, so that step=2 fits
        br = ordmax // 3 + int(rng.integers(3, 6))
        params = dict(
            br=br,
            ordmax=ordmax,
            ordmin=int(rng.integers(0, ordmax + 1)),
            step=int(rng.choice([1, 1, 1, 1, 2])),  # step > 1 fails in SSI_poles at HEAD
            sc=dict(
                err_fn=float(rng.choice([0.01, 0.03, 0.1])),
                err_xi=float(rng.choice([0.05, 0.2, 1.0])),
                err_phi=float(rng.choice([0.03, 0.1, 0.5])),
            ),
        )
        if case % 4 == 3:
            params["ref_ind"] = [0, 2]
        if case % 3 != 2:
            name = ["SSIdat", "SSIcov"][case % 2]
            data = simulate(rng, 1500, fs, 4)
        else:
            name = ["SSIdat_MS", "SSIcov_MS"][case % 2]
            params.pop("ref_ind", None)
            full = [simulate(rng, 1500, fs, 5).T for _ in range(2)]
            data = [
                {"ref": full[0][:2], "mov": full[0][2:4]},
                {"ref": full[1][:2], "mov": full[1][3:5]},
            ]
        res = []
        for mod in (orig_ssi, new_ssi):
            alg = getattr(mod, name)(**params)
            alg._set_data(data, fs)
            res.append(outcome(alg.run))
        n_stable += compare_results(f"{name} case {case} {params}", *res)
    return n_stable


def main():
    if new_gen.SC_apply is orig_gen.SC_apply or new_ssi.SSIdat is orig_ssi.SSIdat:
        failures.append("pristine copies were not loaded separately")
    rng = np.random.default_rng(31415)
    s1 = test_sc_apply(rng)
    s2 = test_algorithms(rng)
    if s1 == 0 or s2 == 0:
        failures.append("no stable pole in the generated inputs - test is vacuous")
    if failures:
        print("FAIL")
        for f in failures[:20]:
            print("  " + f)
        return 1
    print(f"PASS (120 SC_apply cases, {s1} stable labels; 12 runs, {s2} stable labels)")
    return 0


if __name__ == "__main__":
    sys.exit(main())
