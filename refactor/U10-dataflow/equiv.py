"""
Equivalence check of the C10 refactoring (gen.SC_apply, gen.MAC and the run()/mpe()
plumbing of the SSI and pLSCF algorithm classes) against the pristine HEAD sources.

Run:  cd /tmp/wt/U10 && PYTHONPATH=/tmp/wt/U10/src /venv/bin/python _refactor/equiv.py
"""
import importlib.util
import logging
import os
import sys
import warnings

import numpy as np

warnings.filterwarnings("ignore")
logging.disable(logging.CRITICAL)

HERE = os.path.dirname(os.path.abspath(__file__))

import pyoma2.algorithms.plscf as new_plscf_alg  # noqa: E402
import pyoma2.algorithms.ssi as new_ssi_alg  # noqa: E402
import pyoma2.functions.gen as new_gen  # noqa: E402


def load(fname, modname):
    spec = importlib.util.spec_from_file_location(modname, os.path.join(HERE, fname))
    mod = importlib.util.module_from_spec(spec)
    sys.modules[modname] = mod
    spec.loader.exec_module(mod)
    return mod


orig_gen = load("orig_functions_gen.py", "pyoma2.functions._orig_gen")
orig_ssi_alg = load("orig_algorithms_ssi.py", "pyoma2.algorithms._orig_ssi")
orig_plscf_alg = load("orig_algorithms_plscf.py", "pyoma2.algorithms._orig_plscf")
# the original calling layer must call the original numerical routines
orig_ssi_alg.gen = orig_gen
orig_plscf_alg.gen = orig_gen
assert new_ssi_alg.gen is new_gen and new_plscf_alg.gen is new_gen

N_CHECKS = 0


def same(a, b, what):
    """Strict equality: type, dtype, shape, NaN pattern (real and imaginary), values."""
    global N_CHECKS
    N_CHECKS += 1
    if a is None or b is None:
        assert a is None and b is None, what
        return
    if isinstance(a, (list, tuple)):
        assert type(a) is type(b) and len(a) == len(b), what
        for k, (x, y) in enumerate(zip(a, b)):
            same(x, y, f"{what}[{k}]")
        return
    if isinstance(a, np.ndarray) or isinstance(b, np.ndarray):
        assert isinstance(a, np.ndarray) and isinstance(b, np.ndarray), what
        assert a.dtype == b.dtype, (what, a.dtype, b.dtype)
        assert a.shape == b.shape, (what, a.shape, b.shape)
        if np.iscomplexobj(a):
            same(np.ascontiguousarray(a.real), np.ascontiguousarray(b.real), what + ".re")
            same(np.ascontiguousarray(a.imag), np.ascontiguousarray(b.imag), what + ".im")
            return
        if a.dtype.kind == "f":
            assert np.array_equal(np.isnan(a), np.isnan(b)), what + " NaN pattern"
            assert np.array_equal(a, b, equal_nan=True), what
        else:
            assert np.array_equal(a, b), what
        return
    assert type(a) is type(b), (what, type(a), type(b))
    if isinstance(a, float) or isinstance(a, np.floating):
        assert (a == b) or (np.isnan(a) and np.isnan(b)), what
    else:
        assert a == b, what


def call(f, *a, **k):
    try:
        return ("ok", f(*a, **k))
    except Exception as e:  # noqa: BLE001
        return ("exc", type(e), str(e))


def same_call(f_new, f_old, args_new, args_old, what, kw=None):
    kw = kw or {}
    r_new, r_old = call(f_new, *args_new, **kw), call(f_old, *args_old, **kw)
    assert r_new[0] == r_old[0], (what, r_new, r_old)
    if r_new[0] == "exc":
        assert r_new[1:] == r_old[1:], (what, r_new, r_old)
    else:
        same(r_new[1], r_old[1], what)
    return r_new


# =============================================================================
# 1) gen.MAC
# =============================================================================
def check_mac(rng):
    for t in range(120):
        n = int(rng.integers(1, 7))
        kind = t % 6
        cplx = rng.random() < 0.6

        def shape(*s):
            x = rng.standard_normal(s)
            if cplx:
                x = x + 1j * rng.standard_normal(s)
            return x

        if kind == 0:
            X, A = shape(n), shape(n)
        elif kind == 1:
            X, A = shape(n, int(rng.integers(1, 5))), shape(n, int(rng.integers(1, 5)))
        elif kind == 2:
            X, A = shape(n), shape(n, int(rng.integers(1, 5)))
        elif kind == 3:  # NaN / zero entries, identical shapes
            X = shape(n)
            A = X.copy() if rng.random() < 0.5 else shape(n)
            if rng.random() < 0.5:
                X[int(rng.integers(0, n))] = np.nan
            if rng.random() < 0.3:
                A[:] = 0
        elif kind == 4:  # errors
            X, A = shape(n, 2, 2), shape(n)
            if rng.random() < 0.5:
                X, A = shape(n), shape(n + 1)
        else:  # non contiguous views (as taken from Phi[:, o, :])
            P = shape(5, 4, n)
            X, A = P[int(rng.integers(0, 5)), 1, :], P[:, 2, :].T
        same_call(new_gen.MAC, orig_gen.MAC, (X, A), (X, A), f"MAC#{t}")


# =============================================================================
# 2) gen.SC_apply on random pole tables
# =============================================================================
def random_tables(rng, n_pol, n_col, n_ch):
    """Pole tables with duplicates, closely spaced frequencies and NaN patterns."""
    base = np.sort(rng.uniform(0.5, 20.0, size=n_pol))
    Fn = base[:, None] * (1 + rng.choice([1e-4, 5e-3, 5e-2], size=(1, n_col)) *
                          rng.standard_normal((n_pol, n_col)))
    Xi = 0.02 * (1 + rng.choice([1e-3, 3e-2, 0.3]) * rng.standard_normal((n_pol, n_col)))
    shapes = rng.standard_normal((n_pol, 1, n_ch)) + 1j * rng.choice([0.0, 0.3]) * \
        rng.standard_normal((n_pol, 1, n_ch))
    Phi = shapes + rng.choice([1e-3, 5e-2, 0.5]) * (
        rng.standard_normal((n_pol, n_col, n_ch)) + 1j * rng.standard_normal((n_pol, n_col, n_ch))
    )
    Phi = Phi.astype(complex)
    # shuffle the rows of each order (poles are not sorted in the real tables)
    for c in range(n_col):
        if rng.random() < 0.5:
            p = rng.permutation(n_pol)
            Fn[:, c], Xi[:, c], Phi[:, c, :] = Fn[p, c], Xi[p, c], Phi[p, c, :]
    # exact duplicates inside an order and between consecutive orders
    for _ in range(int(rng.integers(0, 6))):
        c = int(rng.integers(0, n_col))
        i, j = rng.integers(0, n_pol, size=2)
        Fn[i, c] = Fn[j, c]
        if rng.random() < 0.5:
            Xi[i, c], Phi[i, c] = Xi[j, c], Phi[j, c]
    for _ in range(int(rng.integers(0, 6))):
        c = int(rng.integers(1, n_col)) if n_col > 1 else 0
        i, j = rng.integers(0, n_pol, size=2)
        Fn[i, c], Xi[i, c], Phi[i, c] = Fn[j, c - 1], Xi[j, c - 1], Phi[j, c - 1]
    # exact frequency ties: two poles of the previous order at the same distance
    if n_col > 1 and n_pol > 2 and rng.random() < 0.5:
        c = int(rng.integers(1, n_col))
        Fn[0, c - 1], Fn[1, c - 1], Fn[2, c] = 3.0, 5.0, 4.0
    # NaN patterns
    mode = int(rng.integers(0, 5))
    nanmask = rng.random((n_pol, n_col)) < [0.0, 0.15, 0.5, 0.85, 0.3][mode]
    if mode == 4:  # upper-triangular like the real tables (order o has o poles)
        nanmask |= np.arange(n_pol)[:, None] >= np.arange(n_col)[None, :]
    if rng.random() < 0.4:
        nanmask[:, int(rng.integers(0, n_col))] = True  # an empty order
    if rng.random() < 0.3:
        nanmask[int(rng.integers(0, n_pol)), :] = True
    Fn[nanmask], Xi[nanmask], Phi[nanmask] = np.nan, np.nan, np.nan
    # NaN only in one of the tables (cannot happen after applymask, but allowed)
    if rng.random() < 0.3:
        Xi[rng.random((n_pol, n_col)) < 0.1] = np.nan
    if rng.random() < 0.3:
        Phi[rng.random((n_pol, n_col)) < 0.1] = np.nan
    if rng.random() < 0.1:
        Fn[rng.random((n_pol, n_col)) < 0.05] = np.inf
    if rng.random() < 0.1:
        Fn[rng.random((n_pol, n_col)) < 0.05] = 0.0
    if rng.random() < 0.2:
        Phi = Phi.real.copy()  # real mode shapes
    return Fn, Xi, Phi


def check_sc_apply(rng):
    n_lab = 0
    for t in range(260):
        ordmax = int(rng.integers(1, 41))
        plscf_like = t % 3 == 0
        if plscf_like:
            step, n_col, om = 1, ordmax, ordmax - 1  # columns = orders 1..ordmax
        else:
            step = int(rng.choice([1, 1, 2, 3, 5]))
            n_col, om = int(ordmax / step + 1), ordmax  # columns = orders 0..ordmax
        n_pol = int(rng.integers(1, 14))
        n_ch = int(rng.integers(1, 7))
        Fn, Xi, Phi = random_tables(rng, n_pol, n_col, n_ch)
        ordmin = int(rng.integers(0, max(om, 0) + 1))
        tol = (
            float(rng.choice([1e-4, 1e-2, 5e-2, 0.5, 0.0, 10.0])),
            float(rng.choice([1e-3, 5e-2, 0.5, 0.0, 10.0])),
            float(rng.choice([1e-3, 3e-2, 0.5, 0.0, 2.0])),
        )
        if t % 37 == 0:
            tol = (np.float64(tol[0]), np.float32(0.05), 1)
        if t % 53 == 0:
            tol = (None, 0.05, 0.03)  # comparison error swallowed row by row
        args = (ordmin, om, step) + tuple(tol)
        r = same_call(
            new_gen.SC_apply, orig_gen.SC_apply,
            (Fn.copy(), Xi.copy(), Phi.copy()) + args,
            (Fn.copy(), Xi.copy(), Phi.copy()) + args,
            f"SC_apply#{t}",
        )
        if r[0] == "ok":
            n_lab += int(r[1].sum())
        # keyword call (the new calling layer uses keywords)
        kw = dict(zip(("ordmin", "ordmax", "step", "err_fn", "err_xi", "err_phi"), args))
        same_call(new_gen.SC_apply, orig_gen.SC_apply, (Fn, Xi, Phi), (Fn, Xi, Phi),
                  f"SC_apply-kw#{t}", kw=kw)
    # out-of-range order -> same IndexError; empty tables
    Fn, Xi, Phi = random_tables(rng, 5, 4, 3)
    same_call(new_gen.SC_apply, orig_gen.SC_apply, (Fn, Xi, Phi, 0, 9, 1, .1, .1, .1),
              (Fn, Xi, Phi, 0, 9, 1, .1, .1, .1), "SC_apply-IndexError")
    E = np.zeros((0, 4))
    same_call(new_gen.SC_apply, orig_gen.SC_apply, (E, E, np.zeros((0, 4, 3)), 0, 3, 1, .1, .1, .1),
              (E, E, np.zeros((0, 4, 3)), 0, 3, 1, .1, .1, .1), "SC_apply-empty")
    assert n_lab > 500, n_lab  # the comparison is not vacuous
    return n_lab


# =============================================================================
# 3) calling layer: run() / mpe() of the SSI and pLSCF classes
# =============================================================================
def synth(rng, n_ch, N, fs=100.0, fn=(3.1, 7.4, 12.9, 13.3), xi=0.015):
    """Random response of a few damped oscillators seen by n_ch channels + noise."""
    t = np.arange(N) / fs
    Y = np.zeros((N, n_ch))
    for f in fn:
        w = 2 * np.pi * f
        h = np.exp(-xi * w * t[:400]) * np.sin(w * np.sqrt(1 - xi**2) * t[:400])
        q = np.convolve(rng.standard_normal(N), h)[:N]
        Y += np.outer(q, rng.standard_normal(n_ch))
    Y /= Y.std()
    return Y + 0.05 * rng.standard_normal(Y.shape), fs


def result_fields(res):
    return {k: getattr(res, k) for k in type(res).model_fields}


def compare_results(r_new, r_old, what):
    assert type(r_new).__name__ == type(r_old).__name__, what
    d_new, d_old = result_fields(r_new), result_fields(r_old)
    assert list(d_new) == list(d_old), what
    for k in d_new:
        same(d_new[k], d_old[k], f"{what}.{k}")


def run_pair(cls_new, cls_old, data, fs, what, **params):
    out = []
    for cls in (cls_new, cls_old):
        alg = cls(name="a", **params)
        alg._set_data(data=data, fs=fs)
        out.append((alg, call(alg.run)))
    (a_new, r_new), (a_old, r_old) = out
    assert r_new[0] == r_old[0], (what, r_new, r_old)
    if r_new[0] == "exc":
        assert r_new[1:] == r_old[1:], (what, r_new, r_old)
        if os.environ.get("EQUIV_VERBOSE"):
            print(what, "-> same exception:", r_new[1].__name__, r_new[2][:200])
        return None
    compare_results(r_new[1], r_old[1], what)
    a_new._set_result(r_new[1])
    a_old._set_result(r_old[1])
    return a_new, a_old


def check_ssi_runs(rng):
    Y, fs = synth(rng, 5, 3000)
    n_stable = 0
    cases = [
        ("SSIcov", dict(br=8, ordmax=16)),
        ("SSIcov", dict(br=8, ordmax=18, ordmin=4, ref_ind=[3, 0],
                        sc=dict(err_fn=0.02, err_xi=0.2, err_phi=0.1),
                        hc=dict(conj=False, xi_max=0.2, mpc_lim=0.3, mpd_lim=0.6, cov_max=0.5))),
        ("SSIcov", dict(br=6, ordmax=12, method="cov_R", ordmin=3,
                        sc=dict(err_fn=0.05, err_xi=0.5, err_phi=0.3, extra="ignored"),
                        hc=dict(conj=True, xi_max=0.05, mpc_lim=0.9, mpd_lim=0.1, cov_max=0.2))),
        ("SSIdat", dict(br=6, ordmax=12, ordmin=2,
                        hc=dict(conj=True, xi_max=0.3, mpc_lim=0.1, mpd_lim=0.9, cov_max=0.2))),
        # uncertainty computation switched on -> covariance tables and HC_cov are exercised
        ("SSIcov", dict(br=6, ordmax=10, calc_unc=True, nb=20, ref_ind=[2, 0, 1],
                        hc=dict(conj=True, xi_max=0.2, mpc_lim=0.3, mpd_lim=0.6, cov_max=0.05),
                        sc=dict(err_fn=0.03, err_xi=0.3, err_phi=0.2))),
        ("SSIcov", dict(br=5, ordmax=8, calc_unc=True, nb=15, ordmin=2,
                        hc=dict(conj=False, xi_max=0.2, mpc_lim=0.3, mpd_lim=0.6, cov_max=10.0))),
        ("SSIcov", dict(br=6, ordmax=9, calc_unc=True, nb=25, ordmin=9,
                        hc=dict(conj=True, xi_max=0.08, mpc_lim=0.6, mpd_lim=0.4, cov_max=1e-3),
                        sc=dict(err_fn=0.1, err_xi=0.9, err_phi=0.5))),
        # step > 1 and uncertainties with the data-driven method fail inside the library
        # (ssi.SSI_poles / ssi.build_hank) before the criteria: same exception expected
        ("SSIcov", dict(br=8, ordmax=18, step=2)),
        ("SSIdat", dict(br=5, ordmax=8, calc_unc=True, nb=15)),
        # missing keys -> same KeyError
        ("SSIcov", dict(br=6, ordmax=8, sc=dict(err_fn=0.05, err_xi=0.5))),
        ("SSIcov", dict(br=6, ordmax=8, hc=dict(conj=True, xi_max=0.05, mpc_lim=0.9, mpd_lim=0.1))),
    ]
    for k, (name, params) in enumerate(cases):
        pair = run_pair(getattr(new_ssi_alg, name), getattr(orig_ssi_alg, name), Y, fs,
                        f"{name}#{k}", **params)
        if pair is None:
            continue
        a_new, a_old = pair
        n_stable += int(a_new.result.Lab.sum())
        # labels are a pure function of the stored tables (property C10, result level)
        rp = a_new.run_params
        lab = orig_gen.SC_apply(a_new.result.Fn_poles, a_new.result.Xi_poles, a_new.result.Phi_poles,
                                rp.ordmin, rp.ordmax, rp.step,
                                rp.sc["err_fn"], rp.sc["err_xi"], rp.sc["err_phi"])
        same(a_new.result.Lab, lab, f"{name}#{k} Lab from tables")
        # mpe(): consumes Lab and the tables
        for order in ("find_min", int(rp.ordmax) - 2):
            kw = dict(sel_freq=[3.1, 7.4, 13.0], order=order, rtol=0.08)
            o_new, o_old = call(a_new.mpe, **kw), call(a_old.mpe, **kw)
            assert o_new[0] == o_old[0] and (o_new[0] == "ok" or o_new[1:] == o_old[1:]), \
                (name, k, order, o_new, o_old)
            compare_results(a_new.result, a_old.result, f"{name}#{k}.mpe({order})")
            same(a_new.run_params.model_dump(), a_old.run_params.model_dump(), "run_params") \
                if False else None
            assert str(a_new.run_params.model_dump()) == str(a_old.run_params.model_dump())

        # mpe_from_plot(): the interactive selection is replaced by a stub in both modules
        class _SFP:
            def __init__(self, algo, freqlim, plot):
                assert plot == "SSI"
                self.result = ([3.1, 7.4], int(algo.run_params.ordmax) - 2)

        new_ssi_alg.SelFromPlot, orig_ssi_alg.SelFromPlot, keep = _SFP, _SFP, (
            new_ssi_alg.SelFromPlot, orig_ssi_alg.SelFromPlot)
        try:
            o_new = call(a_new.mpe_from_plot, freqlim=(0, 20), rtol=0.07)
            o_old = call(a_old.mpe_from_plot, freqlim=(0, 20), rtol=0.07)
        finally:
            new_ssi_alg.SelFromPlot, orig_ssi_alg.SelFromPlot = keep
        assert o_new[0] == o_old[0] and (o_new[0] == "ok" or o_new[1:] == o_old[1:]), (o_new, o_old)
        compare_results(a_new.result, a_old.result, f"{name}#{k}.mpe_from_plot")
        assert str(a_new.run_params.model_dump()) == str(a_old.run_params.model_dump())

    # multi setup
    Yb, fs = synth(rng, 6, 2500)
    data = [
        {"ref": Yb[:, [0, 1]].T.copy(), "mov": Yb[:, [2, 3]].T.copy()},
        {"ref": Yb[::-1, [0, 1]].T.copy(), "mov": Yb[::-1, [4, 5]].T.copy()},
    ]
    ms_cases = [
        ("SSIcov_MS", dict(br=6, ordmax=12)),
        ("SSIdat_MS", dict(br=5, ordmax=10, ordmin=3,
                           sc=dict(err_fn=0.05, err_xi=0.4, err_phi=0.2),
                           hc=dict(conj=False, xi_max=0.3, mpc_lim=0.2, mpd_lim=0.8, cov_max=0.2))),
        ("SSIcov_MS", dict(br=6, ordmax=12, step=2, ordmin=2)),
    ]
    for k, (name, params) in enumerate(ms_cases):
        pair = run_pair(getattr(new_ssi_alg, name), getattr(orig_ssi_alg, name), data, fs,
                        f"{name}#{k}", **params)
        if pair is not None:
            n_stable += int(pair[0].result.Lab.sum())
    assert n_stable > 20, n_stable
    return n_stable


def check_plscf_runs(rng):
    Y, fs = synth(rng, 4, 6000)
    n_stable = 0
    cases = [
        dict(ordmax=12, nxseg=512),
        dict(ordmax=14, ordmin=3, nxseg=256, method_SD="cor", pov=0.0,
             sc=dict(err_fn=0.03, err_xi=0.3, err_phi=0.1),
             hc=dict(conj=False, xi_max=0.2, mpc_lim=0.3, mpd_lim=0.7)),
        dict(ordmax=10, ordmin=10, nxseg=512, pov=0.25,
             sc=dict(err_fn=0.1, err_xi=1.0, err_phi=0.5, other=1),
             hc=dict(conj=True, xi_max=0.03, mpc_lim=0.95, mpd_lim=0.05)),
        dict(ordmax=12, ordmin=1, nxseg=512, pov=0.25,
             sc=dict(err_fn=0.05, err_xi=0.6, err_phi=0.3),
             hc=dict(conj=True, xi_max=0.06, mpc_lim=0.8, mpd_lim=0.25)),
        dict(ordmax=8, nxseg=512, hc=dict(conj=True, xi_max=0.5, mpc_lim=0.0, mpd_lim=2.0)),
        dict(ordmax=8, nxseg=512, sc=dict(err_fn=0.1)),  # KeyError
    ]
    for k, params in enumerate(cases):
        pair = run_pair(new_plscf_alg.pLSCF, orig_plscf_alg.pLSCF, Y, fs, f"pLSCF#{k}", **params)
        if pair is None:
            continue
        a_new, a_old = pair
        n_stable += int(a_new.result.Lab.sum())
        rp = a_new.run_params
        lab = orig_gen.SC_apply(a_new.result.Fn_poles, a_new.result.Xi_poles, a_new.result.Phi_poles,
                                rp.ordmin, rp.ordmax - 1, 1,
                                rp.sc["err_fn"], rp.sc["err_xi"], rp.sc["err_phi"])
        same(a_new.result.Lab, lab, f"pLSCF#{k} Lab from tables")
        kw = dict(sel_freq=[3.1, 7.4], order="find_min", rtol=0.08)
        o_new, o_old = call(a_new.mpe, **kw), call(a_old.mpe, **kw)
        assert o_new[0] == o_old[0] and (o_new[0] == "ok" or o_new[1:] == o_old[1:]), (o_new, o_old)
        compare_results(a_new.result, a_old.result, f"pLSCF#{k}.mpe")

    Yb, fs = synth(rng, 6, 5000)
    data = [
        {"ref": Yb[:, [0, 1]].T.copy(), "mov": Yb[:, [2, 3]].T.copy()},
        {"ref": Yb[::-1, [0, 1]].T.copy(), "mov": Yb[::-1, [4, 5]].T.copy()},
    ]
    ms_cases = [
        dict(ordmax=10, nxseg=512),
        dict(ordmax=9, ordmin=2, nxseg=256, method_SD="cor", pov=0.0,
             sc=dict(err_fn=0.05, err_xi=0.5, err_phi=0.2),
             hc=dict(conj=False, xi_max=0.3, mpc_lim=0.2, mpd_lim=0.9)),
    ]
    for k, params in enumerate(ms_cases):
        pair = run_pair(new_plscf_alg.pLSCF_MS, orig_plscf_alg.pLSCF_MS, data, fs,
                        f"pLSCF_MS#{k}", **params)
        if pair is not None:
            n_stable += int(pair[0].result.Lab.sum())
    assert n_stable > 10, n_stable
    return n_stable


# =============================================================================
# 4) calling layer on random pole tables (library routines replaced by stubs that
#    return the same random tables to the original and to the refactored run())
# =============================================================================
def random_raw_poles(rng, n_pol, n_col, n_ch, with_cov):
    Fn, Xi, Phi = random_tables(rng, n_pol, n_col, n_ch)
    Phi = Phi.astype(complex)
    # damping: some negative, some above the limit, some exactly zero
    r = rng.random(Xi.shape)
    Xi = np.where(r < 0.15, -Xi, Xi)
    Xi = np.where((r > 0.15) & (r < 0.3), 10 * Xi, Xi)
    Xi = np.where((r > 0.3) & (r < 0.33), 0.0, Xi)
    # mode shapes: real-ish (collinear) or strongly complex, row by row
    cplx = rng.random(Fn.shape) < 0.4
    Phi = np.where(cplx[..., None], Phi * np.exp(1j * rng.uniform(0, np.pi, Phi.shape)),
                   Phi.real * np.exp(1j * rng.uniform(0, np.pi, Fn.shape))[..., None])
    # eigenvalues: conjugate pairs present for a part of the poles only
    lam = rng.standard_normal(Fn.shape) + 1j * rng.standard_normal(Fn.shape)
    lam[np.isnan(Fn)] = np.nan
    for c in range(n_col):
        for i in range(0, n_pol - 1, 2):
            if rng.random() < 0.6:
                lam[i + 1, c] = np.conj(lam[i, c])
    cov = (None, None, None)
    if with_cov:
        Fc = np.abs(rng.standard_normal(Fn.shape)) * rng.choice([1e-3, 0.1, 1.0])
        Fc[np.isnan(Fn)] = np.nan
        Xc = np.abs(rng.standard_normal(Fn.shape))
        Pc = np.abs(rng.standard_normal(Phi.shape))
        cov = (Fc, Xc, Pc)
    return (Fn, Xi, Phi, lam) + cov


def check_plumbing_random(rng):
    import pyoma2.functions.fdd as f_fdd
    import pyoma2.functions.plscf as f_plscf
    import pyoma2.functions.ssi as f_ssi

    assert new_ssi_alg.ssi is f_ssi and orig_ssi_alg.ssi is f_ssi
    assert new_plscf_alg.plscf is f_plscf and orig_plscf_alg.plscf is f_plscf
    saved = {(m, n): getattr(m, n) for m, n in [
        (f_ssi, "build_hank"), (f_ssi, "SSI_fast"), (f_ssi, "SSI_poles"), (f_ssi, "SSI_multi_setup"),
        (f_fdd, "SD_est"), (f_fdd, "SD_PreGER"), (f_plscf, "pLSCF"), (f_plscf, "pLSCF_poles")]}
    box = {}
    n_stable = n_rej = 0
    try:
        Z = np.zeros((2, 2))
        f_ssi.build_hank = lambda **k: (Z, None)
        f_ssi.SSI_fast = lambda *a, **k: (Z, [Z], [Z], 1, 2, 3, 4)
        f_ssi.SSI_multi_setup = lambda *a, **k: (Z, [Z], [Z])
        f_ssi.SSI_poles = lambda *a, **k: tuple(None if x is None else x.copy() for x in box["p"])
        f_fdd.SD_est = lambda *a, **k: (np.arange(3.0), np.zeros((2, 2, 3)))
        f_fdd.SD_PreGER = lambda *a, **k: (np.arange(3.0), np.zeros((2, 2, 3)))
        f_plscf.pLSCF = lambda *a, **k: (np.zeros((2, 2, 2)), np.zeros((2, 2, 2)))

        def _plscf_poles(*a, **k):
            Fn, Xi, Phi, lam = (x.copy() for x in box["p"][:4])
            # like the library: the mode shape table is a moveaxis view
            return Fn, Xi, np.moveaxis(np.ascontiguousarray(np.moveaxis(Phi, 0, 1)), 1, 0), lam

        f_plscf.pLSCF_poles = _plscf_poles

        for t in range(60):
            ordmax = int(rng.integers(2, 25))
            n_pol, n_ch = int(rng.integers(2, 14)), int(rng.integers(2, 6))
            hc = dict(conj=bool(rng.random() < 0.6), xi_max=float(rng.choice([0.03, 0.1, 1.0])),
                      mpc_lim=float(rng.choice([0.0, 0.5, 0.9])), mpd_lim=float(rng.choice([0.1, 0.5, 2.0])),
                      cov_max=float(rng.choice([0.01, 0.2, 5.0])))
            sc = dict(err_fn=float(rng.choice([1e-3, 0.02, 0.2])), err_xi=float(rng.choice([0.05, 0.5, 5.0])),
                      err_phi=float(rng.choice([0.02, 0.3, 1.5])))
            ordmin = int(rng.integers(0, ordmax + 1))
            # --- SSI (columns = orders 0..ordmax), single and multi setup
            box["p"] = random_raw_poles(rng, n_pol, ordmax + 1, n_ch, with_cov=t % 2 == 0)
            raw_finite = int(np.isfinite(box["p"][0]).sum())
            for name, data in (("SSIcov", np.zeros((10, 3))), ("SSIdat_MS", [{}])):
                pair = run_pair(getattr(new_ssi_alg, name), getattr(orig_ssi_alg, name), data, 10.0,
                                f"stub-{name}#{t}", br=3, ordmax=ordmax, ordmin=ordmin,
                                hc=dict(hc), sc=dict(sc), calc_unc=t % 2 == 0,
                                ref_ind=[2, 0] if t % 3 == 0 else None)
                assert pair is not None
                n_stable += int(pair[0].result.Lab.sum())
                n_rej += raw_finite - int(np.isfinite(pair[0].result.Fn_poles).sum())
            # --- pLSCF (columns = orders 1..ordmax)
            box["p"] = random_raw_poles(rng, n_pol, ordmax, n_ch, with_cov=False)
            hc4 = {k: v for k, v in hc.items() if k != "cov_max"}
            for name, data in (("pLSCF", np.zeros((10, 3))), ("pLSCF_MS", [{}])):
                pair = run_pair(getattr(new_plscf_alg, name), getattr(orig_plscf_alg, name), data, 10.0,
                                f"stub-{name}#{t}", ordmax=ordmax, ordmin=min(ordmin, ordmax - 1),
                                hc=dict(hc4), sc=dict(sc), method_SD="per" if t % 2 else "cor")
                assert pair is not None
                n_stable += int(pair[0].result.Lab.sum())
    finally:
        for (m, n), f in saved.items():
            setattr(m, n, f)
    assert n_stable > 100 and n_rej > 100, (n_stable, n_rej)
    return n_stable, n_rej


def main():
    rng = np.random.default_rng(20261004)
    check_mac(rng)
    print("MAC ok")
    n1 = check_sc_apply(rng)
    print(f"SC_apply ok ({n1} stable labels compared)")
    n2 = check_ssi_runs(rng)
    print(f"SSI run/mpe/mpe_from_plot ok ({n2} stable labels)")
    n3 = check_plscf_runs(rng)
    print(f"pLSCF run/mpe ok ({n3} stable labels)")
    n4 = check_plumbing_random(rng)
    print(f"run() on random pole tables ok ({n4[0]} stable labels, {n4[1]} poles rejected by the hard criteria)")
    print(f"{N_CHECKS} object comparisons")
    print("PASS")


if __name__ == "__main__":
    main()
