"""
Differential test: the library on PYTHONPATH (CLEAN version of the commit) against the
pristine implementation kept next to this file (orig_functions_ssi.py, orig_algorithms_ssi.py).

Run as:  PYTHONPATH=<tree>/src /venv/bin/python equiv.py
Prints PASS and exits 0 when every compared output (including raised exceptions) agrees.
"""

import importlib.util
import logging
import os
import sys
import warnings
from pathlib import Path

os.environ.setdefault("TQDM_DISABLE", "1")
for _v in ("OMP_NUM_THREADS", "OPENBLAS_NUM_THREADS", "MKL_NUM_THREADS"):
    os.environ.setdefault(_v, "1")  # small matrices: threads only add overhead
warnings.filterwarnings("ignore")
logging.disable(logging.CRITICAL)

import numpy as np  # noqa: E402

import pyoma2.algorithms  # noqa: E402,F401  (parent package for the relative import below)
from pyoma2.algorithms import ssi as new_alg  # noqa: E402
from pyoma2.functions import ssi as new_fun  # noqa: E402
from pyoma2.setup import SingleSetup  # noqa: E402

HERE = Path(__file__).resolve().parent


def _load(name, filename):
    spec = importlib.util.spec_from_file_location(name, HERE / filename)
    mod = importlib.util.module_from_spec(spec)
    sys.modules[name] = mod
    spec.loader.exec_module(mod)
    return mod


old_fun = _load("pyoma2.functions._orig_ssi", "orig_functions_ssi.py")
old_alg = _load("pyoma2.algorithms._orig_ssi", "orig_algorithms_ssi.py")
old_alg.ssi = old_fun  # the pristine algorithm classes call the pristine functions

FAILS = []
NCMP = 0
NOT_BITWISE = 0


def same(a, b):
    """Structural comparison; arrays with array_equal or allclose(rtol=1e-12)."""
    if a is None or b is None:
        return a is None and b is None
    if isinstance(a, (list, tuple)):
        return (
            isinstance(b, (list, tuple))
            and len(a) == len(b)
            and all(same(x, y) for x, y in zip(a, b))
        )
    a = np.asarray(a)
    b = np.asarray(b)
    if a.shape != b.shape or a.dtype != b.dtype:
        return False
    if np.array_equal(a, b, equal_nan=True):
        return True
    global NOT_BITWISE
    NOT_BITWISE += 1
    return bool(np.allclose(a, b, rtol=1e-12, atol=0.0, equal_nan=True))


def outcome(f, *args, **kwargs):
    try:
        return ("ok", f(*args, **kwargs))
    except Exception as e:  # noqa: BLE001
        return ("raised", type(e).__name__)


def check(label, new, old):
    global NCMP
    NCMP += 1
    if new[0] != old[0]:
        FAILS.append(f"{label}: {new[0]} vs {old[0]} ({new[1] if new[0]=='raised' else ''}"
                     f"{old[1] if old[0]=='raised' else ''})")
    elif new[0] == "raised":
        if new[1] != old[1]:
            FAILS.append(f"{label}: raised {new[1]} vs {old[1]}")
    elif not same(new[1], old[1]):
        FAILS.append(f"{label}: outputs differ")


def simulate(rng, nch, ndat, fs):
    """Random response of a lightly damped chain of masses to white noise (plus noise)."""
    ndof = nch
    k = 2000.0 * (1 + rng.random(ndof + 1))
    K = np.zeros((ndof, ndof))
    for i in range(ndof):
        K[i, i] = k[i] + k[i + 1]
        if i + 1 < ndof:
            K[i, i + 1] = K[i + 1, i] = -k[i + 1]
    w2, V = np.linalg.eigh(K)
    wn = np.sqrt(w2)
    zeta = 0.01 + 0.01 * rng.random(ndof)
    dt = 1 / fs
    q = np.zeros((ndat, ndof))
    f = rng.standard_normal((ndat, ndof)) @ V
    for m in range(ndof):
        wd = wn[m] * np.sqrt(1 - zeta[m] ** 2)
        a1 = 2 * np.exp(-zeta[m] * wn[m] * dt) * np.cos(wd * dt)
        a2 = -np.exp(-2 * zeta[m] * wn[m] * dt)
        x = np.zeros(ndat)
        for n in range(2, ndat):
            x[n] = a1 * x[n - 1] + a2 * x[n - 2] + f[n - 1, m]
        q[:, m] = x
    y = q @ V.T
    y /= y.std()
    return y + 0.02 * rng.standard_normal(y.shape)


# ----------------------------------------------------------------------------- build_hank
def test_build_hank(rng):
    for t in range(36):
        nch = int(rng.integers(2, 9))
        ndat = int(rng.integers(200, 1500))
        br = int(rng.integers(2, 13))
        method = ["cov_mm", "cov_R", "dat"][t % 3]
        Y = rng.standard_normal((nch, ndat)) * 10.0 ** rng.integers(-6, 7)
        kind = t % 4
        if kind == 0:
            Yref = Y
        elif kind == 1:
            Yref = Y.copy()
        else:
            nref = int(rng.integers(1, nch + 1))
            Yref = Y[list(rng.permutation(nch)[:nref]), :]
        if t % 7 == 3:
            Y = np.round(Y / np.abs(Y).max() * 1000).astype(int)
            Yref = Y if kind == 0 else Y[: max(1, nch // 2)]
        if t % 11 == 5:
            Y = Y.astype(np.float32)
            Yref = Y if kind == 0 else Y[: max(1, nch // 2)]
        calc_unc = method == "cov_mm" and t % 2 == 0
        nb = int(rng.integers(5, 30))
        kw = dict(br=br, method=method, calc_unc=calc_unc, nb=nb)
        check(
            f"build_hank[{t}] {method} nch={nch} ref={'Y' if Yref is Y else Yref.shape[0]}",
            outcome(new_fun.build_hank, Y, Yref, **kw),
            outcome(old_fun.build_hank, Y, Yref, **kw),
        )
    Y = rng.standard_normal((3, 300))
    for kw in (
        dict(br=4, method="YfYp"),
        dict(br=4, method="dat", calc_unc=True),
        dict(br=4, method="cov_R", calc_unc=True),
        dict(br=4, method="nope", calc_unc=True),
    ):
        check(
            f"build_hank {kw}",
            outcome(new_fun.build_hank, Y, Y, **kw),
            outcome(old_fun.build_hank, Y, Y, **kw),
        )
    # the unit-test example (integer data, one channel)
    y = np.array([[1, 2, 3, 4, 5]])
    for method in ("cov_mm", "cov_R", "dat"):
        check(
            f"build_hank tiny {method}",
            outcome(new_fun.build_hank, y, y, 1, method),
            outcome(old_fun.build_hank, y, y, 1, method),
        )


# ----------------------------------------------------------------------------- ac2mp
def test_ac2mp(rng):
    for t in range(40):
        n = int(rng.integers(1, 31))
        nch = int(rng.integers(1, 9))
        A = rng.standard_normal((n, n)) / np.sqrt(n)
        C = rng.standard_normal((nch, n)) * 10.0 ** rng.integers(-6, 7)
        if t % 9 == 4:
            C[:, 0] = 0.0  # a mode without any component
        dt = float(10.0 ** rng.uniform(-3, 1))
        for cu in (False, True):
            check(
                f"ac2mp[{t}] n={n} nch={nch} calc_unc={cu}",
                outcome(new_fun.ac2mp, A, C, dt, calc_unc=cu),
                outcome(old_fun.ac2mp, A, C, dt, calc_unc=cu),
            )
    A = np.array([[-1, -2], [3, -4]])
    C = np.array([[1, 0], [0, 1]])
    check("ac2mp unit", outcome(new_fun.ac2mp, A, C, 0.1), outcome(old_fun.ac2mp, A, C, 0.1))
    check(
        "ac2mp empty",
        outcome(new_fun.ac2mp, np.zeros((0, 0)), np.zeros((3, 0)), 0.1),
        outcome(old_fun.ac2mp, np.zeros((0, 0)), np.zeros((3, 0)), 0.1),
    )


# ----------------------------------------------------------------------------- SSI_poles
def test_poles(rng):
    for t in range(8):
        nch = int(rng.integers(2, 6))
        nref = nch if t % 2 == 0 else int(rng.integers(1, nch + 1))
        Y = simulate(rng, nch, 1200, 50.0).T
        Yref = Y if nref == nch else Y[:nref]
        br = int(rng.integers(3, 7))
        ordmax = int(rng.integers(4, min(10, (br + 1) * nref) + 1))
        calc_unc = t % 4 == 1
        method = "cov_mm" if calc_unc else ["cov_mm", "cov_R", "dat"][t % 3]
        nb = 20
        res = []
        for fun in (new_fun, old_fun):

            def pipeline(fun=fun):
                H, T = fun.build_hank(Y, Yref, br, method, calc_unc=calc_unc, nb=nb)
                Obs, A, C, Q1, Q2, Q3, Q4 = fun.SSI_fast(
                    H, br, ordmax, step=1, calc_unc=calc_unc, T=T, nb=nb
                )
                return fun.SSI_poles(
                    Obs, A, C, ordmax, 0.02, step=1, calc_unc=calc_unc,
                    Q1=Q1, Q2=Q2, Q3=Q3, Q4=Q4,
                )

            res.append(outcome(pipeline))
        check(f"SSI_poles[{t}] {method} calc_unc={calc_unc}", res[0], res[1])


# ----------------------------------------------------------------------------- multi setup
def test_multi(rng):
    for t in range(6):
        nref = int(rng.integers(1, 4))
        nset = int(rng.integers(2, 4))
        full = simulate(rng, nref + 2 * nset, 1500, 40.0).T
        Y = []
        for k in range(nset):
            nm = int(rng.integers(1, 3))
            Y.append({"ref": full[:nref], "mov": full[nref + 2 * k : nref + 2 * k + nm]})
        br = int(rng.integers(4, 8))
        ordmax = int(min(8, br * nref))
        method = ["cov_mm", "dat", "cov_R"][t % 3]
        res = []
        for fun in (new_fun, old_fun):

            def pipeline(fun=fun):
                Obs, A, C = fun.SSI_multi_setup(Y, 40.0, br, ordmax, method_hank=method)
                return Obs, A, C, fun.SSI_poles(Obs, A, C, ordmax, 1 / 40.0, step=1)

            res.append(outcome(pipeline))
        check(f"SSI_multi_setup[{t}] {method}", res[0], res[1])


# ----------------------------------------------------------------------------- algorithms
FIELDS = [
    "Obs", "A", "C", "H", "Lambds", "Fn_poles", "Xi_poles", "Phi_poles", "Lab",
    "Fn_poles_cov", "Xi_poles_cov", "Phi_poles_cov", "Fn", "Xi", "Phi", "order_out",
]


def snapshot(alg):
    return [getattr(alg.result, f, None) for f in FIELDS]


def run_fresh(cls, data, fs, params, mpe):
    alg = cls(name="ref", **params)
    ss = SingleSetup(data, fs=fs)
    ss.add_algorithms(alg)
    ss.run_all()
    if mpe is not None:
        ss.mpe("ref", **mpe)
    return snapshot(alg)


def test_algorithms(rng):
    for t in range(10):
        nch = int(rng.integers(3, 7))
        fs = float(rng.choice([20.0, 50.0, 128.0]))
        data = simulate(rng, nch, 2500, fs)
        cls_name = ["SSIcov", "SSIdat"][t % 2]
        new_cls, old_cls = getattr(new_alg, cls_name), getattr(old_alg, cls_name)
        method = None
        if cls_name == "SSIcov" and t % 4 == 2:
            method = "cov_R"
        ref_ind = None if t % 3 else [int(i) for i in rng.permutation(nch)[: max(2, nch // 2)]]
        params = dict(br=int(rng.integers(5, 9)), ordmax=12, ref_ind=ref_ind)
        if method is not None:
            params["method"] = method
        if cls_name == "SSIcov" and method is None and t % 6 == 0:
            params.update(calc_unc=True, nb=20, ordmax=6)
        mpe = dict(sel_freq=[1.0, 3.0], order=params["ordmax"], rtol=1.0)

        # 1) first run on a fresh object
        alg = new_cls(name="a", **params)
        ss = SingleSetup(data, fs=fs)
        ss.add_algorithms(alg)
        got = outcome(lambda: (ss.run_all(), ss.mpe("a", **mpe), snapshot(alg))[2])
        check(f"{cls_name}[{t}] run", got, outcome(run_fresh, old_cls, data, fs, params, mpe))

        # 2) same object, same data: other model orders / criteria, Hankel parameters untouched
        p2 = dict(params, ordmax=params["ordmax"] - 2, ordmin=2,
                  hc=dict(conj=True, xi_max=0.2, mpc_lim=0.5, mpd_lim=0.5, cov_max=0.2))
        alg.set_run_params(new_cls.RunParamCls(**p2))
        mpe2 = dict(mpe, order=p2["ordmax"])
        got = outcome(lambda: (ss.run_all(), ss.mpe("a", **mpe2), snapshot(alg))[2])
        check(f"{cls_name}[{t}] re-run, new orders",
              got, outcome(run_fresh, old_cls, data, fs, p2, mpe2))

        # 3) same object, same data: other Hankel parameters
        p3 = dict(p2, br=p2["br"] + 1,
                  ref_ind=[0, nch - 1] if p2["ref_ind"] is None else None)
        alg.set_run_params(new_cls.RunParamCls(**p3))
        got = outcome(lambda: (ss.run_all(), ss.mpe("a", **mpe2), snapshot(alg))[2])
        check(f"{cls_name}[{t}] re-run, new br/ref",
              got, outcome(run_fresh, old_cls, data, fs, p3, mpe2))

        # 4) same object bound to other data (channels permuted and mixed, gain, other fs)
        perm = rng.permutation(nch)
        Q, _ = np.linalg.qr(rng.standard_normal((nch, nch)))
        for k, (d2, fs2) in enumerate(
            [(data[:, perm] * 1e3, fs * 2.5), (data @ Q.T, fs), (simulate(rng, nch, 2100, fs), fs)]
        ):
            ss2 = SingleSetup(d2, fs=fs2)
            ss2.add_algorithms(alg)
            got = outcome(lambda: (ss2.run_all(), ss2.mpe("a", **mpe2), snapshot(alg))[2])
            check(f"{cls_name}[{t}] re-bound to other data #{k}",
                  got, outcome(run_fresh, old_cls, d2, fs2, p3, mpe2))


def main():
    rng = np.random.default_rng(20240808)
    test_build_hank(rng)
    test_ac2mp(rng)
    test_poles(rng)
    test_multi(rng)
    test_algorithms(rng)
    if FAILS:
        print(f"FAIL ({len(FAILS)} of {NCMP} comparisons differ)")
        for f in FAILS[:40]:
            print("  ", f)
        return 1
    print(f"PASS ({NCMP} comparisons, {NOT_BITWISE} arrays equal within rtol=1e-12 only)")
    return 0


if __name__ == "__main__":
    sys.exit(main())
