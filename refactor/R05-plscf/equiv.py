"""
Equivalence check: refactored pyoma2.functions.plscf vs. the pristine HEAD copy.

Run with
    cd /tmp/wt/R05 && PYTHONPATH=/tmp/wt/R05/src /venv/bin/python _refactor/equiv.py

Everything is compared BITWISE (same shape, same dtype, same NaN pattern,
np.array_equal(..., equal_nan=True)); no tolerance is used.
"""

import importlib.util
import logging
import pathlib
import sys
import warnings

import numpy as np

warnings.filterwarnings("ignore")
logging.disable(logging.CRITICAL)

HERE = pathlib.Path(__file__).resolve().parent


def _load(name, path):
    spec = importlib.util.spec_from_file_location(name, path)
    mod = importlib.util.module_from_spec(spec)
    sys.modules[name] = mod
    spec.loader.exec_module(mod)
    return mod


orig = _load("orig_functions_plscf", HERE / "orig_functions_plscf.py")
from pyoma2.functions import plscf as new  # noqa: E402

assert pathlib.Path(new.__file__).resolve() == (
    HERE.parent / "src/pyoma2/functions/plscf.py"
), new.__file__

# silence the tqdm progress bars of both modules
for _m in (orig, new):
    _m.trange = lambda *a, **k: range(*a)

N_CMP = 0


def same(a, b, what):
    """Bitwise equality of arrays / nested lists-tuples of arrays."""
    global N_CMP
    if isinstance(a, (list, tuple)):
        assert type(a) is type(b), (what, type(a), type(b))
        assert len(a) == len(b), (what, len(a), len(b))
        for k, (x, y) in enumerate(zip(a, b)):
            same(x, y, f"{what}[{k}]")
        return
    a = np.asarray(a)
    b = np.asarray(b)
    assert a.shape == b.shape, (what, a.shape, b.shape)
    assert a.dtype == b.dtype, (what, a.dtype, b.dtype)
    if not np.array_equal(a, b, equal_nan=True):
        dev = np.nanmax(np.abs(a - b))
        raise AssertionError(f"{what}: values differ, max abs deviation {dev:g}")
    # identical NaN pattern separately in real and imaginary parts
    assert np.array_equal(np.isnan(a.real), np.isnan(b.real)), what
    assert np.array_equal(np.isnan(a.imag), np.isnan(b.imag)), what
    # identical sign of zeros / infinities
    assert np.array_equal(np.signbit(a.real), np.signbit(b.real)), what
    N_CMP += 1


def call(f, *args, **kw):
    try:
        return ("ok", f(*args, **kw))
    except Exception as e:  # noqa: BLE001
        return ("exc", type(e))


def both(fname, *args, **kw):
    """Call orig.<fname> and new.<fname> on deep copies; compare outcome."""
    import copy

    r_o = call(getattr(orig, fname), *copy.deepcopy(args), **copy.deepcopy(kw))
    r_n = call(getattr(new, fname), *copy.deepcopy(args), **copy.deepcopy(kw))
    assert r_o[0] == r_n[0], (fname, r_o, r_n)
    if r_o[0] == "exc":
        assert r_o[1] is r_n[1], (fname, r_o[1], r_n[1])
    else:
        same(r_o[1], r_n[1], fname)
    return r_o, r_n


# --------------------------------------------------------------------------
# input generators
# --------------------------------------------------------------------------
def rational_spectrum(rng, n, Nch, Nref, Nf, dt, sgn):
    """Sy[:, :, f] = B(z_f) A(z_f)^-1 with real coefficient matrices of order n."""
    Acoef = rng.standard_normal((n + 1, Nch, Nch))
    Bcoef = rng.standard_normal((n + 1, Nref, Nch))
    # keep the constrained coefficient well conditioned
    Acoef[0] += 3 * np.eye(Nch)
    Acoef[-1] += 3 * np.eye(Nch)
    omega = 2 * np.pi * np.linspace(0.0, 1 / dt / 2, Nf)
    z = np.exp(sgn * 1j * omega * dt)
    Sy = np.empty((Nref, Nch, Nf), dtype=complex)
    for f, zf in enumerate(z):
        Az = sum(Acoef[k] * zf**k for k in range(n + 1))
        Bz = sum(Bcoef[k] * zf**k for k in range(n + 1))
        Sy[:, :, f] = Bz @ np.linalg.inv(Az)
    return Sy


def main():
    rng = np.random.default_rng(20261003)
    n_cases = 0

    # ---- 1. full chain on exactly rational spectra (the property's quantifier)
    for case in range(48):
        n = int(rng.integers(1, 9))
        Nch = int(rng.integers(2, 6))
        Nref = int(rng.integers(1, 6))
        Nf = 4 * (n + 1) + int(rng.integers(0, 40))
        dt = float(rng.choice([1e-3, 0.01, 0.05, 0.1, 1.0, 2.5])) * float(
            rng.uniform(0.5, 1.5)
        )
        sgn = int(rng.choice([-1, 1]))
        ordmax = n + int(rng.integers(0, 4))
        Sy = rational_spectrum(rng, n, Nch, Nref, Nf, dt, sgn)
        # also exercise float sgn_basf (the declared default is -1.0)
        sgn_arg = float(sgn) if case % 3 == 0 else sgn

        (_, (Ad, Bn)), _ = both("pLSCF", Sy, dt, ordmax, sgn_arg)
        assert len(Ad) == ordmax and Ad[n - 1].shape == (n + 1, Nch, Nch)
        for method in ("per", "cor"):
            nxseg = int(rng.integers(16, 2048))
            both("pLSCF_poles", Ad, Bn, dt, method, nxseg)
            both("pLSCF_poles", Ad, Bn, dt, nxseg=nxseg, methodSy=method)
            for A_den, B_num in zip(Ad, Bn):
                (_, (A, C)), _ = both("rmfd2ac", A_den, B_num)
                both("ac2mp_poly", A, C, dt, method, nxseg)
        n_cases += 1

    # ---- 2. generic (non rational, noisy, real-valued) spectra
    for case in range(16):
        Nch = int(rng.integers(1, 6))
        Nref = int(rng.integers(1, 6))
        Nf = int(rng.integers(20, 200))
        ordmax = int(rng.integers(1, 9))
        dt = float(rng.uniform(1e-3, 1.0))
        if case % 2:
            Sy = rng.random((Nref, Nch, Nf))  # as in the unit test
        else:
            Sy = rng.standard_normal((Nref, Nch, Nf)) + 1j * rng.standard_normal(
                (Nref, Nch, Nf)
            )
        for sgn in (-1, 1):
            (_, (Ad, Bn)), _ = both("pLSCF", Sy, dt, ordmax, sgn)
            both("pLSCF_poles", Ad, Bn, dt, "per", 64)
            both("pLSCF_poles", Ad, Bn, dt, "cor", 64)
        n_cases += 1

    # ---- 3. direct random inputs for the two low-level functions
    for case in range(40):
        n = int(rng.integers(1, 10))
        m = int(rng.integers(1, 6))
        l_ = int(rng.integers(1, 6))
        A_den = rng.standard_normal((n, m, m))
        B_num = rng.standard_normal((n, l_, m))
        (_, (A, C)), _ = both("rmfd2ac", A_den, B_num)
        dt = float(rng.uniform(1e-3, 2.0))
        both("ac2mp_poly", A, C, dt, "per", 128)
        both("ac2mp_poly", A, C, dt, "cor", 128)
        # arbitrary (non companion) state matrices, incl. symmetric ones -> real spectrum
        A2 = rng.standard_normal((n * m, n * m))
        if case % 4 == 0:
            A2 = A2 + A2.T
        both("ac2mp_poly", A2, C, dt, "per", 128)
        both("ac2mp_poly", A2, C, dt, "cor", 77)
        n_cases += 1

    # ---- 4. inputs of the existing unit tests and edge cases / exceptions
    Ad_t = np.array([[[[1, -0.5], [1, -0.7]]]])
    Bn_t = np.array([[[[7, 8], [9, 10]]]])
    both("pLSCF_poles", Ad_t, Bn_t, 0.01, "per", 10)
    both(
        "rmfd2ac",
        np.array([[[1, 2], [3, 4]]]),
        np.array([[[1, 2]], [[3, 4]], [[5, 6]]]),
    )
    both("ac2mp_poly", np.array([[-1, -2], [1, 0]]), np.array([[1, 0], [0, 1]]), 0.1, "cor", 100)
    # unstable + stable + zero eigenvalues (log(0) = -inf -> fn inf -> NaN in the table)
    both("ac2mp_poly", np.diag([1.5, 0.5, 0.0, -0.3]), np.ones((2, 4)), 0.1, "per", 10)
    both(
        "pLSCF_poles",
        [np.stack([np.zeros((2, 2)), np.eye(2), np.eye(2)])],
        [np.stack([np.ones((1, 2)), np.ones((1, 2)), np.ones((1, 2))])],
        0.1,
        "per",
        10,
    )
    # singular leading denominator -> LinAlgError in both
    r_o, _ = both("rmfd2ac", np.zeros((3, 2, 2)), np.ones((3, 1, 2)))
    assert r_o[0] == "exc"
    # invalid basis-function sign -> same exception type in both
    r_o, _ = both("pLSCF", rng.random((2, 2, 30)), 0.1, 3, 2)
    assert r_o[0] == "exc"
    # ordmax = 0 -> two empty lists, then pLSCF_poles fails identically
    (_, (Ad0, Bn0)), _ = both("pLSCF", rng.random((2, 2, 30)), 0.1, 0, -1)
    assert Ad0 == [] and Bn0 == []
    r_o, _ = both("pLSCF_poles", Ad0, Bn0, 0.1, "per", 10)
    assert r_o[0] == "exc"
    # too few frequency lines -> singular normal equations or not, same outcome
    both("pLSCF", rng.random((2, 3, 3)), 0.1, 4, -1)
    both("pLSCF", rng.random((2, 3, 3)), 0.1, 4, 1)
    # malformed inputs: wrong rank of Sy, Ad / Bn of different lengths
    for bad_Sy in (rng.random((3, 30)), rng.random(30), rng.random((2, 2, 30, 2))):
        both("pLSCF", bad_Sy, 0.1, 3, -1)
    (_, (Ad3, Bn3)), _ = both("pLSCF", rng.random((2, 2, 40)), 0.1, 4, -1)
    r_o, _ = both("pLSCF_poles", Ad3, Bn3[:-1], 0.1, "per", 10)
    assert r_o[0] == "exc"
    r_o, _ = both("pLSCF_poles", Ad3[:-1], Bn3, 0.1, "per", 10)
    assert r_o[0] == "ok"
    n_cases += 1

    # ---- 5. the algorithm class end to end (pLSCF.result after run)
    n_cases += algorithm_end_to_end(rng)

    print(f"cases: {n_cases}, bitwise array comparisons: {N_CMP}")
    print("PASS")


def algorithm_end_to_end(rng):
    import pyoma2.algorithms.plscf as alg_mod
    from pyoma2.algorithms import pLSCF
    from pyoma2.setup import SingleSetup

    alg_mod.plscf.trange = lambda *a, **k: range(*a)
    fs = 50.0
    t = np.arange(3000) / fs
    data = np.column_stack(
        [
            np.sin(2 * np.pi * 3.1 * t + p) * a + np.sin(2 * np.pi * 7.7 * t) * b
            for p, a, b in [(0.0, 1.0, 0.3), (0.4, 0.7, -0.5), (1.1, -0.4, 0.9)]
        ]
    ) + 0.05 * rng.standard_normal((3000, 3))

    done = 0
    for method in ("per", "cor"):
        results = []
        for module in (orig, new):
            alg_mod.plscf = module
            try:
                ss = SingleSetup(data.copy(), fs=fs)
                alg = pLSCF(name="pl", ordmax=12, nxseg=256, method_SD=method)
                ss.add_algorithms(alg)
                ss.run_by_name("pl")
                results.append(alg.result)
            finally:
                alg_mod.plscf = new
        r_o, r_n = results
        for field in ("freq", "Sy", "Fn_poles", "Xi_poles", "Phi_poles", "Lab"):
            same(getattr(r_o, field), getattr(r_n, field), f"result.{field}[{method}]")
        same(list(r_o.Ad), list(r_n.Ad), f"result.Ad[{method}]")
        same(list(r_o.Bn), list(r_n.Bn), f"result.Bn[{method}]")
        assert np.isfinite(r_n.Fn_poles).any()
        done += 1
    return done


if __name__ == "__main__":
    main()
