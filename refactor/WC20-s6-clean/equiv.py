"""
Differential test: the library under test (pyoma2.functions.plot, and the algorithm
classes' plot methods that call it) against the pristine implementation saved next to
this file as orig_plot.py.

Run as:  PYTHONPATH=<tree>/src /venv/bin/python equiv.py
Prints PASS and exits 0 when every artist handed to matplotlib (data, style, limits,
legend) and every raised exception is the same for all generated inputs.
"""

import importlib.util
import logging
import os
import sys
import warnings

import matplotlib

matplotlib.use("Agg")
import matplotlib.pyplot as plt  # noqa: E402
import numpy as np  # noqa: E402
from matplotlib.collections import LineCollection, PathCollection  # noqa: E402
from scipy import signal  # noqa: E402

warnings.filterwarnings("ignore")
logging.disable(logging.CRITICAL)

import pyoma2.functions  # noqa: E402,F401  (package of the pristine copy's relative import)
from pyoma2.functions import plot as new_plot  # noqa: E402

HERE = os.path.dirname(os.path.abspath(__file__))
spec = importlib.util.spec_from_file_location(
    "pyoma2.functions.orig_plot", os.path.join(HERE, "orig_plot.py")
)
orig_plot = importlib.util.module_from_spec(spec)
sys.modules[spec.name] = orig_plot
spec.loader.exec_module(orig_plot)

RTOL = 1e-12
mismatches = []
n_cases = 0


def arr_eq(a, b):
    a = np.ma.filled(np.ma.asarray(a, dtype=float), np.nan)
    b = np.ma.filled(np.ma.asarray(b, dtype=float), np.nan)
    if a.shape != b.shape:
        return False
    return np.array_equal(a, b, equal_nan=True) or np.allclose(
        a, b, rtol=RTOL, atol=0, equal_nan=True
    )


def snapshot(ax):
    """Everything the axes were given, in drawing order."""
    snap = []
    for ln in ax.get_lines():
        snap.append(
            (
                "line",
                np.asarray(ln.get_xdata(orig=True)),
                np.asarray(ln.get_ydata(orig=True)),
                (
                    ln.get_marker(),
                    ln.get_linestyle(),
                    matplotlib.colors.to_hex(ln.get_color()),
                    ln.get_linewidth(),
                    ln.get_markersize(),
                    ln.get_label() if not ln.get_label().startswith("_") else "_",
                ),
            )
        )
    for col in ax.collections:
        if isinstance(col, PathCollection):
            off = np.asarray(np.ma.filled(col.get_offsets(), np.nan))
            snap.append(
                (
                    "scatter",
                    off[:, 0],
                    off[:, 1],
                    (tuple(col.get_sizes()), col.get_label()),
                )
            )
        elif isinstance(col, LineCollection):
            segs = col.get_segments()
            seg = np.full((len(segs), 4), np.nan)
            for i, sg in enumerate(segs):
                flat = np.asarray(sg, dtype=float).ravel()[:4]
                seg[i, : flat.size] = flat
            snap.append(
                (
                    "bars",
                    seg[:, :2].ravel(),
                    seg[:, 2:].ravel(),
                    (tuple(map(tuple, np.round(col.get_colors(), 6))),),
                )
            )
    leg = ax.get_legend()
    meta = (
        ax.get_title(),
        ax.get_xlabel(),
        ax.get_ylabel(),
        tuple(np.round(ax.get_xlim(), 12)),
        tuple(np.round(ax.get_ylim(), 12)),
        tuple(t.get_text() for t in leg.get_texts()) if leg is not None else None,
    )
    return snap, meta


def run(func, *args, **kwargs):
    try:
        fig, ax = func(*args, **kwargs)
    except Exception as e:  # noqa: BLE001
        plt.close("all")
        return ("exc", type(e).__name__)
    out = ("ok", snapshot(ax))
    plt.close("all")
    return out


def compare(tag, got, exp):
    global n_cases
    n_cases += 1
    if got[0] != exp[0]:
        mismatches.append(f"{tag}: outcome {got[0]} {got[1] if got[0]=='exc' else ''} "
                          f"vs {exp[0]} {exp[1] if exp[0]=='exc' else ''}")
        return
    if got[0] == "exc":
        if got[1] != exp[1]:
            mismatches.append(f"{tag}: raised {got[1]}, original raised {exp[1]}")
        return
    (snap_g, meta_g), (snap_e, meta_e) = got[1], exp[1]
    if meta_g != meta_e:
        mismatches.append(f"{tag}: axes meta differ: {meta_g} vs {meta_e}")
    if len(snap_g) != len(snap_e):
        mismatches.append(f"{tag}: {len(snap_g)} artists vs {len(snap_e)}")
        return
    for k, (g, e) in enumerate(zip(snap_g, snap_e)):
        if g[0] != e[0] or g[3] != e[3]:
            mismatches.append(f"{tag}: artist {k} kind/style {g[0]},{g[3]} vs {e[0]},{e[3]}")
        elif not (arr_eq(g[1], e[1]) and arr_eq(g[2], e[2])):
            mismatches.append(f"{tag}: artist {k} ({g[0]}) data differ")


# ----------------------------------------------------------------------------
def random_tables(rng):
    n_rows = int(rng.integers(1, 61))
    n_ord = int(rng.integers(1, 62))
    Fn = rng.uniform(0.1, 30.0, size=(n_rows, n_ord))
    Xi = rng.uniform(-0.01, 0.12, size=(n_rows, n_ord))
    pattern = rng.integers(0, 4)
    if pattern == 0:  # ragged, like the tables of the algorithms
        for j in range(n_ord):
            Fn[min(j, n_rows):, j] = np.nan
    elif pattern == 1:  # random holes
        Fn[rng.random(Fn.shape) < rng.uniform(0, 0.9)] = np.nan
    elif pattern == 2:  # everything rejected
        Fn[:] = np.nan
    Xi[rng.random(Fn.shape) < 0.1] = np.nan
    kind = rng.integers(0, 3)
    if kind == 0:
        Lab = (rng.random(Fn.shape) < 0.5).astype(int)
    elif kind == 1:  # other labels / float labels with NaN
        Lab = rng.integers(0, 4, size=Fn.shape).astype(float)
        Lab[rng.random(Fn.shape) < 0.1] = np.nan
    else:
        Lab = rng.random(Fn.shape) < 0.3  # boolean labels
    Fn_cov = None
    if rng.random() < 0.5:
        Fn_cov = rng.uniform(0.0, 0.1, size=Fn.shape)
        Fn_cov[rng.random(Fn.shape) < 0.2] = np.nan
    if rng.random() < 0.2:  # Fortran-ordered inputs
        Fn, Xi, Lab = (np.asfortranarray(a) for a in (Fn, Xi, Lab))
    return Fn, Xi, Lab, Fn_cov


def functions_part(rng, n=48):
    for c in range(n):
        Fn, Xi, Lab, Fn_cov = random_tables(rng)
        step = int(rng.choice([1, 1, 2, 3, 5]))
        ordmin = int(rng.integers(0, 5))
        ordmax = (Fn.shape[1] - 1) * step
        freqlim = None if rng.random() < 0.5 else tuple(np.sort(rng.uniform(0, 30, 2)))
        hide = bool(rng.random() < 0.5)
        keep = (Fn.copy(), Lab.copy(), None if Fn_cov is None else Fn_cov.copy())
        # drawn twice on purpose: a refresh must give the same chart
        for rep in (1, 2):
            tag = f"stab_plot case {c} rep {rep} shape={Fn.shape} step={step} hide={hide} cov={Fn_cov is not None}"
            got = run(new_plot.stab_plot, Fn, Lab, step, ordmax, ordmin=ordmin,
                      freqlim=freqlim, hide_poles=hide, Fn_cov=Fn_cov)
            exp = run(orig_plot.stab_plot, Fn, Lab, step, ordmax, ordmin=ordmin,
                      freqlim=freqlim, hide_poles=hide, Fn_cov=Fn_cov)
            compare(tag, got, exp)
        tag = f"cluster_plot case {c} shape={Fn.shape} hide={hide}"
        compare(tag,
                run(new_plot.cluster_plot, Fn, Xi, Lab, ordmin=ordmin, freqlim=freqlim, hide_poles=hide),
                run(orig_plot.cluster_plot, Fn, Xi, Lab, ordmin=ordmin, freqlim=freqlim, hide_poles=hide))
        # the inputs are left alone
        if not (arr_eq(Fn, keep[0]) and arr_eq(Lab, keep[1])
                and (Fn_cov is None or arr_eq(Fn_cov, keep[2]))):
            mismatches.append(f"case {c}: input tables modified")

    # on given axes (as the interactive selection does), positional arguments
    Fn, Xi, Lab, _ = random_tables(rng)
    for step in (1, 2):
        res = []
        for mod in (new_plot, orig_plot):
            fig, ax = plt.subplots()
            res.append(run(mod.stab_plot, Fn, Lab, step, Fn.shape[1], 0, None, True, fig, ax))
        compare(f"stab_plot on given axes step={step}", *res)

    # shape mismatch -> same exception
    compare("stab_plot shape mismatch",
            run(new_plot.stab_plot, np.ones((4, 5)), np.ones((3, 5)), 1, 4),
            run(orig_plot.stab_plot, np.ones((4, 5)), np.ones((3, 5)), 1, 4))
    compare("cluster_plot shape mismatch",
            run(new_plot.cluster_plot, np.ones((4, 5)), np.ones((4, 6)), np.ones((4, 5))),
            run(orig_plot.cluster_plot, np.ones((4, 5)), np.ones((4, 6)), np.ones((4, 5))))

    # singular values
    for c in range(40):
        n_ch = int(rng.integers(1, 8))
        n_f = int(rng.integers(2, 300))
        S_val = rng.uniform(1e-6, 10.0, size=(n_ch, n_ch, n_f))
        if rng.random() < 0.5:  # as produced by the SVD: diagonal, sorted
            sv = np.sort(rng.uniform(1e-6, 10.0, size=(n_ch, n_f)), axis=0)[::-1]
            S_val = np.zeros((n_ch, n_ch, n_f))
            for k in range(n_ch):
                S_val[k, k] = sv[k]
        if rng.random() < 0.15:
            S_val[0, 0, int(rng.integers(0, n_f))] = np.nan
        freq = np.linspace(0, 50, n_f)
        freqlim = None if rng.random() < 0.5 else tuple(np.sort(rng.uniform(0, 50, 2)))
        choices = ["all"] * 3 + list(range(n_ch)) * 2 + ["invalid", n_ch, n_ch + 1, -1, 1.0, "1", None]
        nSv = choices[int(rng.integers(0, len(choices)))]
        compare(f"CMIF_plot case {c} n_ch={n_ch} nSv={nSv!r}",
                run(new_plot.CMIF_plot, S_val, freq, freqlim=freqlim, nSv=nSv),
                run(orig_plot.CMIF_plot, S_val, freq, freqlim=freqlim, nSv=nSv))
    # non-square singular value array
    S_val = rng.uniform(1e-3, 1, size=(2, 4, 20))
    for nSv in ("all", 1, 2, 3):
        compare(f"CMIF_plot non-square nSv={nSv}",
                run(new_plot.CMIF_plot, S_val, np.arange(20.0), nSv=nSv),
                run(orig_plot.CMIF_plot, S_val, np.arange(20.0), nSv=nSv))


# ----------------------------------------------------------------------------
def classes_part():
    from pyoma2.algorithms.fdd import EFDD, FDD
    from pyoma2.algorithms.plscf import pLSCF
    from pyoma2.algorithms.ssi import SSIcov, SSIdat
    from pyoma2.setup.single import SingleSetup

    rng = np.random.default_rng(5)
    fs, n = 50.0, 5000
    y = np.zeros((n, 3))
    shapes = np.array([[1.0, 0.8, 0.45], [0.8, -0.45, -1.0], [0.45, -1.0, 0.8]])
    for fn, xi, phi in zip([2.1, 5.3, 8.7], [0.015, 0.012, 0.01], shapes):
        wn = 2 * np.pi * fn
        sysd = signal.cont2discrete(([wn**2], [1.0, 2 * xi * wn, wn**2]), 1 / fs)
        y += np.outer(signal.lfilter(sysd[0].ravel(), sysd[1], rng.standard_normal(n)), phi)
    y += 0.02 * y.std() * rng.standard_normal(y.shape)

    ss = SingleSetup(y, fs=fs)
    algs = [
        SSIcov(name="SSIcov", br=10, ordmax=14, ordmin=2),
        SSIdat(name="SSIdat", br=8, ordmax=10),
        SSIcov(name="SSIcov_unc", br=6, ordmax=10, calc_unc=True, nb=20),
        pLSCF(name="pLSCF", ordmax=9, nxseg=512),
        FDD(name="FDD", nxseg=512),
        EFDD(name="EFDD", nxseg=256),
    ]
    ss.add_algorithms(*algs)
    ss.run_all()
    for alg in algs[:4]:
        res, rp = alg.result, alg.run_params
        for hide in (True, False):
            for freqlim in (None, (1.0, 10.0)):
                exp = run(orig_plot.stab_plot, Fn=res.Fn_poles, Lab=res.Lab,
                          step=getattr(rp, "step", 1), ordmax=rp.ordmax, ordmin=rp.ordmin,
                          freqlim=freqlim, hide_poles=hide, fig=None, ax=None,
                          Fn_cov=getattr(res, "Fn_poles_cov", None))
                compare(f"{alg.name}.plot_stab hide={hide} freqlim={freqlim}",
                        run(alg.plot_stab, freqlim=freqlim, hide_poles=hide), exp)
                exp = run(orig_plot.cluster_plot, Fn=res.Fn_poles, Xi=res.Xi_poles,
                          Lab=res.Lab, ordmin=rp.ordmin, freqlim=freqlim, hide_poles=hide)
                compare(f"{alg.name}.plot_cluster hide={hide} freqlim={freqlim}",
                        run(alg.plot_cluster, freqlim=freqlim, hide_poles=hide), exp)
    for alg in algs[4:]:
        res = alg.result
        for nSv in ("all", 0, 1, 2, 3):
            for freqlim in (None, (1.0, 10.0)):
                compare(f"{alg.name}.plot_CMIF nSv={nSv} freqlim={freqlim}",
                        run(alg.plot_CMIF, freqlim=freqlim, nSv=nSv),
                        run(orig_plot.CMIF_plot, S_val=res.S_val, freq=res.freq,
                            freqlim=freqlim, nSv=nSv))


def main():
    rng = np.random.default_rng(2020)
    functions_part(rng)
    classes_part()
    if mismatches:
        print(f"FAIL: {len(mismatches)} of {n_cases} comparisons differ")
        for m in mismatches[:15]:
            print("  -", m)
        return 1
    print(f"PASS ({n_cases} comparisons identical to the original implementation)")
    return 0


if __name__ == "__main__":
    sys.exit(main())
