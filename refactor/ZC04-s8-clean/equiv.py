"""
Differential test: CLEAN version of the commit vs. the unmodified library.

Run as:  PYTHONPATH=<tree>/src /venv/bin/python equiv.py      (with the CLEAN diff applied)

The pristine implementations are loaded from the copies saved next to this
script (orig_functions_fdd.py, orig_algorithms_fdd.py) and are compared with the
installed (patched) ones on randomly generated inputs / configurations of the
touched routines and methods:

  functions.fdd.SD_est, functions.fdd.SD_PreGER,
  algorithms.fdd.FDD.run, FDD_MS.run, EFDD_MS.run

Outputs are compared with numpy.allclose(rtol=1e-12, equal_nan=True) (default
atol) and additionally with a max-norm relative error < 1e-11; raised exceptions
are compared by type.
"""
import importlib.util
import logging
import os
import sys
import warnings

import numpy as np

logging.disable(logging.CRITICAL)
warnings.filterwarnings("ignore")

import pyoma2.algorithms.fdd as new_alg  # noqa: E402
import pyoma2.functions.fdd as new_fun  # noqa: E402

HERE = os.path.dirname(os.path.abspath(__file__))


def load(name, filename):
    spec = importlib.util.spec_from_file_location(name, os.path.join(HERE, filename))
    mod = importlib.util.module_from_spec(spec)
    sys.modules[name] = mod
    spec.loader.exec_module(mod)
    return mod


old_fun = load("pyoma2.functions._orig_fdd", "orig_functions_fdd.py")
old_alg = load("pyoma2.algorithms._orig_fdd", "orig_algorithms_fdd.py")
old_alg.fdd = old_fun  # the pristine classes call the pristine routines

for m in (new_fun, old_fun):
    m.trange = range  # no progress bars

problems = []
n_checks = 0


def call(f, *a, **k):
    try:
        return ("ok", f(*a, **k))
    except Exception as exc:  # noqa: BLE001 - the type is what is compared
        return ("exc", type(exc))


def same(label, r_old, r_new, any_exception=False):
    global n_checks
    n_checks += 1
    if any_exception and r_old[0] == r_new[0] == "exc":
        return
    if r_old[0] != r_new[0]:
        problems.append(f"{label}: old -> {r_old[0]} {r_old[1] if r_old[0]=='exc' else ''}, "
                        f"new -> {r_new[0]} {r_new[1] if r_new[0]=='exc' else ''}")
        return
    if r_old[0] == "exc":
        if r_old[1] is not r_new[1]:
            problems.append(f"{label}: exception {r_old[1].__name__} != {r_new[1].__name__}")
        return
    for nm, a, b in zip(("freq", "Sy", "S_val", "S_vec"), r_old[1], r_new[1]):
        a, b = np.asarray(a), np.asarray(b)
        if a.shape != b.shape:
            problems.append(f"{label}: {nm} shape {a.shape} != {b.shape}")
            continue
        if a.dtype != b.dtype:
            problems.append(f"{label}: {nm} dtype {a.dtype} != {b.dtype}")
        if np.array_equal(a, b, equal_nan=True):
            continue
        scale = np.abs(a).max()
        err = np.abs(a - b).max() / scale if scale > 0 else np.abs(a - b).max()
        if not np.allclose(a, b, rtol=1e-12, equal_nan=True) or not err < 1e-11:
            problems.append(f"{label}: {nm} differs, max-norm rel.err = {err:.3e}")


def coloured(rng, n_ch, n_dat):
    """Correlated, coloured channels."""
    e = rng.standard_normal((n_ch + 2, n_dat))
    kern = np.exp(-np.arange(40) / rng.uniform(2, 12)) * np.cos(
        np.arange(40) * rng.uniform(0.2, 1.5)
    )
    src = np.array([np.convolve(row, kern, mode="same") for row in e])
    mix = rng.standard_normal((n_ch, n_ch + 2))
    return mix @ src + 0.5 * rng.standard_normal((n_ch, n_dat))


def random_setups(rng, nxseg, shared_ref):
    n_ref = int(rng.integers(1, 4))
    n_setup = int(rng.integers(2, 5))
    n_mov = [int(rng.integers(1, 4)) for _ in range(n_setup)]
    n_dat = int(rng.integers(4 * nxseg, 9 * nxseg))
    Y = []
    if shared_ref:
        X = coloured(rng, n_ref + sum(n_mov), n_dat)
        pos = n_ref
        for nm in n_mov:
            Y.append({"ref": X[:n_ref].copy(), "mov": X[pos : pos + nm].copy()})
            pos += nm
    else:
        for nm in n_mov:
            nd = int(n_dat + rng.integers(0, nxseg))  # setups of different duration
            X = coloured(rng, n_ref + nm, nd) * rng.uniform(0.1, 10)
            Y.append({"ref": X[:n_ref], "mov": X[n_ref:]})
    return Y


def main():
    rng = np.random.default_rng(4)
    nxsegs = [64, 100, 128, 250, 256, 512, 1024, 2048]
    povs = [0.0, 0.25, 0.3, 0.5, 0.66, 0.75]

    # ---- SD_est ------------------------------------------------------------
    for i in range(30):
        nxseg = int(rng.choice(nxsegs))
        pov = float(rng.choice(povs))
        method = ("per", "cor")[i % 2]
        n_all, n_ref = int(rng.integers(1, 8)), int(rng.integers(1, 4))
        n_dat = int(rng.integers(4 * nxseg, 8 * nxseg))
        dt = 1 / float(rng.choice([10.0, 49.0, 100.0, 1000.0]))
        Yall = coloured(rng, n_all, n_dat)
        Yref = Yall[: min(n_ref, n_all)] if i % 3 else coloured(rng, n_ref, n_dat)
        if i % 5 == 0:  # transposed view, as handed over by the single-setup classes
            Yall = np.asfortranarray(Yall)
        label = f"SD_est[{i}] {method} nxseg={nxseg} pov={pov}"
        same(
            label,
            call(old_fun.SD_est, Yall, Yref, dt, nxseg, method=method, pov=pov),
            call(new_fun.SD_est, Yall, Yref, dt, nxseg, method=method, pov=pov),
        )
        same(
            label + " positional",
            call(old_fun.SD_est, Yall, Yref, dt, nxseg, method, pov),
            call(new_fun.SD_est, Yall, Yref, dt, nxseg, method, pov),
        )
    # defaults, short record (nperseg > length), exceptions
    Ys = coloured(rng, 3, 1000)
    same("SD_est defaults", call(old_fun.SD_est, Ys, Ys[:2], 0.01),
         call(new_fun.SD_est, Ys, Ys[:2], 0.01))
    same("SD_est short per", call(old_fun.SD_est, Ys, Ys[:2], 0.01, 1024, "per", 0.5),
         call(new_fun.SD_est, Ys, Ys[:2], 0.01, 1024, "per", 0.5))
    same("SD_est bad method", call(old_fun.SD_est, Ys, Ys[:2], 0.01, 128, "welch", 0.5),
         call(new_fun.SD_est, Ys, Ys[:2], 0.01, 128, "welch", 0.5))
    same("SD_est pov=1", call(old_fun.SD_est, Ys, Ys[:2], 0.01, 128, "per", 1.0),
         call(new_fun.SD_est, Ys, Ys[:2], 0.01, 128, "per", 1.0))
    same("SD_est length mismatch",
         call(old_fun.SD_est, Ys, Ys[:2, :900], 0.01, 128, "per", 0.5),
         call(new_fun.SD_est, Ys, Ys[:2, :900], 0.01, 128, "per", 0.5))

    # ---- SD_PreGER ---------------------------------------------------------
    for i in range(40):
        nxseg = int(rng.choice(nxsegs[:-2]))
        pov = float(rng.choice(povs))
        method = ("per", "cor")[i % 2]
        fs = float(rng.choice([10.0, 49.0, 100.0, 1000.0]))
        Y = random_setups(rng, nxseg, shared_ref=bool(i % 4 < 2))
        label = f"SD_PreGER[{i}] {method} nxseg={nxseg} pov={pov} n_setup={len(Y)} n_ref={Y[0]['ref'].shape[0]}"
        same(
            label,
            call(old_fun.SD_PreGER, Y, fs, nxseg=nxseg, pov=pov, method=method),
            call(new_fun.SD_PreGER, Y, fs, nxseg=nxseg, pov=pov, method=method),
        )
    Y = random_setups(rng, 1024, shared_ref=False)
    same("SD_PreGER defaults", call(old_fun.SD_PreGER, Y, 100.0), call(new_fun.SD_PreGER, Y, 100.0))
    same("SD_PreGER positional", call(old_fun.SD_PreGER, Y, 100.0, 256, 0.25, "cor"),
         call(new_fun.SD_PreGER, Y, 100.0, 256, 0.25, "cor"))
    # not a legal value (the run-parameter models reject it): both versions fail with an
    # incidental error, IndexError before / UnboundLocalError now - only "raises" is compared
    same("SD_PreGER bad method", call(old_fun.SD_PreGER, Y, 100.0, 256, 0.5, "welch"),
         call(new_fun.SD_PreGER, Y, 100.0, 256, 0.5, "welch"), any_exception=True)
    same("SD_PreGER pov=1", call(old_fun.SD_PreGER, Y, 100.0, 256, 1.0, "per"),
         call(new_fun.SD_PreGER, Y, 100.0, 256, 1.0, "per"))
    Z = [{"ref": np.zeros((2, 2000)), "mov": np.zeros((1, 2000))} for _ in range(2)]
    for method in ("per", "cor"):
        same(f"SD_PreGER dead channels {method}",
             call(old_fun.SD_PreGER, Z, 100.0, 256, 0.5, method),
             call(new_fun.SD_PreGER, Z, 100.0, 256, 0.5, method))

    # ---- algorithm classes ---------------------------------------------------
    def run_alg(mod, cls_name, data, fs, **rp):
        alg = getattr(mod, cls_name)(name="a", **rp)
        alg._set_data(data=data, fs=fs)
        res = alg.run()
        return res.freq, res.Sy, res.S_val, res.S_vec

    for i in range(16):
        nxseg = int(rng.choice(nxsegs[:-2]))
        pov = float(rng.choice(povs))
        method = ("per", "cor")[i % 2]
        fs = float(rng.choice([10.0, 49.0, 100.0]))
        rp = dict(nxseg=nxseg, method_SD=method, pov=pov)
        Y = random_setups(rng, nxseg, shared_ref=bool(i % 4 < 2))
        for cls_name in ("FDD_MS", "EFDD_MS"):
            same(
                f"{cls_name}.run[{i}] {rp}",
                call(run_alg, old_alg, cls_name, Y, fs, **rp),
                call(run_alg, new_alg, cls_name, Y, fs, **rp),
            )
        data = coloured(rng, int(rng.integers(2, 7)), int(rng.integers(4 * nxseg, 8 * nxseg))).T
        same(
            f"FDD.run[{i}] {rp}",
            call(run_alg, old_alg, "FDD", data, fs, **rp),
            call(run_alg, new_alg, "FDD", data, fs, **rp),
        )
    # class defaults
    Y = random_setups(rng, 1024, shared_ref=True)
    same("FDD_MS.run defaults", call(run_alg, old_alg, "FDD_MS", Y, 100.0, DF=0.1),
         call(run_alg, new_alg, "FDD_MS", Y, 100.0, DF=0.1))

    if problems:
        print(f"FAIL ({len(problems)} of {n_checks} comparisons)")
        for p in problems[:20]:
            print("  " + p)
        return 1
    print(f"PASS ({n_checks} comparisons)")
    return 0


if __name__ == "__main__":
    sys.exit(main())
