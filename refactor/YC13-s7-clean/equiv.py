"""Differential test: library under PYTHONPATH versus the pristine fdd.py (orig_fdd.py).

Run as:  PYTHONPATH=<tree>/src /venv/bin/python equiv.py
Compares fdd.SD_est and fdd.SD_PreGER (and FDD.run / pLSCF-style calls through the
algorithm layer) on randomly generated records / configurations. Prints PASS and exits 0
when every output agrees (allclose rtol=1e-12, equal_nan=True) and exceptions coincide.
"""
import importlib.util
import logging
import os
import sys
import warnings

import numpy as np

warnings.filterwarnings("ignore")
logging.disable(logging.CRITICAL)

HERE = os.path.dirname(os.path.abspath(__file__))

import pyoma2.functions  # noqa: E402  (parent package for the relative import in the copy)
from pyoma2.functions import fdd as new  # noqa: E402

spec = importlib.util.spec_from_file_location(
    "pyoma2.functions._orig_fdd", os.path.join(HERE, "orig_fdd.py")
)
old = importlib.util.module_from_spec(spec)
sys.modules[spec.name] = old
spec.loader.exec_module(old)

# silence tqdm bars of SD_PreGER
for mod in (new, old):
    mod.trange = range

rng = np.random.default_rng(20241013)
failures = []
ncases = 0


def call(f, *a, **k):
    try:
        return ("ok", f(*a, **k))
    except Exception as e:  # noqa: BLE001
        return ("exc", type(e))


def same(a, b):
    a = np.asarray(a)
    b = np.asarray(b)
    if a.shape != b.shape:
        return False
    return np.array_equal(a, b, equal_nan=True) or np.allclose(
        a, b, rtol=1e-12, atol=0.0, equal_nan=True
    )


def compare(tag, r_old, r_new, strict_exc=True):
    global ncases
    ncases += 1
    if r_old[0] != r_new[0]:
        failures.append(f"{tag}: old {r_old[0]} / new {r_new[0]} ({r_old[1] if r_old[0]=='exc' else ''} {r_new[1] if r_new[0]=='exc' else ''})")
        return
    if r_old[0] == "exc":
        if strict_exc and r_old[1] is not r_new[1]:
            failures.append(f"{tag}: exception {r_old[1].__name__} became {r_new[1].__name__}")
        return
    for k, (x, y) in enumerate(zip(r_old[1], r_new[1])):
        if not same(x, y):
            x = np.asarray(x)
            y = np.asarray(y)
            d = np.max(np.abs(x - y)) if x.shape == y.shape else "shape"
            failures.append(f"{tag}: output {k} differs (max abs diff {d})")


def coloured(nch, ndat):
    """Random records with some spectral colour and different channel levels."""
    x = rng.standard_normal((nch, ndat))
    b = rng.standard_normal(4) * 0.5
    b[0] = 1.0
    for i in range(nch):
        x[i] = np.convolve(x[i], b, mode="same")
    x *= 10.0 ** rng.uniform(-2, 2, size=(nch, 1))
    x += rng.uniform(-1, 1, size=(nch, 1))
    return x


# ---------------------------------------------------------------- SD_est, random configs
POVS = [0.0, 0.125, 0.25, 0.5, 0.625, 0.75, 0.875, 0.3, 0.9]
for it in range(60):
    n_all = int(rng.integers(1, 9))
    n_ref = int(rng.integers(1, 5))
    nxseg = int(rng.choice([16, 32, 50, 64, 100, 128, 250, 256, 333, 512, 1000, 1024]))
    nseg = rng.uniform(2.0, 7.0)
    ndat = int(nxseg * nseg) + int(rng.integers(0, 3))
    fs = float(rng.choice([1.0, 8.0, 100.0, 123.4, 2048.0]))
    dt = 1.0 / fs
    pov = float(rng.choice(POVS))
    Yall = coloured(n_all, ndat)
    kind = it % 3
    if kind == 0:  # reference = subset of the channels (possibly not ascending)
        idx = rng.permutation(n_all)[: min(n_ref, n_all)]
        Yref = Yall[idx]
    elif kind == 1:  # the record itself (what FDD.run does), transposed view
        Yall = np.ascontiguousarray(Yall.T).T
        Yref = Yall
    else:  # unrelated reference record
        Yref = coloured(n_ref, ndat)
    for method in ("per", "cor"):
        tag = f"SD_est[{it}] n_all={n_all} n_ref={Yref.shape[0]} nxseg={nxseg} ndat={ndat} fs={fs} pov={pov} {method}"
        compare(
            tag + " kw",
            call(old.SD_est, Yall, Yref, dt, nxseg=nxseg, method=method, pov=pov),
            call(new.SD_est, Yall, Yref, dt, nxseg=nxseg, method=method, pov=pov),
        )
        compare(
            tag + " pos",
            call(old.SD_est, Yall, Yref, dt, nxseg, method, pov),
            call(new.SD_est, Yall, Yref, dt, nxseg, method, pov),
        )

# defaults (method defaults to "cor", pov to 0.5, nxseg to 1024)
Y = coloured(3, 5000)
compare("SD_est defaults", call(old.SD_est, Y, Y[:2], 0.01), call(new.SD_est, Y, Y[:2], 0.01))

# ---------------------------------------------------------------- edge cases / exceptions
Y = coloured(4, 1000)
for method in ("per", "cor"):
    # record shorter than one segment (scipy shortens the segment)
    compare(f"short record {method}", call(old.SD_est, Y, Y[:2], 0.01, 1024, method, 0.5),
            call(new.SD_est, Y, Y[:2], 0.01, 1024, method, 0.5))
    # record shorter than the overlap: both raise
    compare(f"very short record {method}", call(old.SD_est, Y[:, :300], Y[:2, :300], 0.01, 1024, method, 0.5),
            call(new.SD_est, Y[:, :300], Y[:2, :300], 0.01, 1024, method, 0.5))
    # full overlap is refused by scipy in both
    compare(f"pov=1 {method}", call(old.SD_est, Y, Y, 0.01, 128, method, 1.0),
            call(new.SD_est, Y, Y, 0.01, 128, method, 1.0))
    # records of different lengths
    compare(f"length mismatch {method}", call(old.SD_est, Y, Y[:2, :900], 0.01, 128, method, 0.5),
            call(new.SD_est, Y, Y[:2, :900], 0.01, 128, method, 0.5))
    # one-dimensional reference
    compare(f"1-D reference {method}", call(old.SD_est, Y, Y[0], 0.01, 128, method, 0.5),
            call(new.SD_est, Y, Y[0], 0.01, 128, method, 0.5))
# unknown estimator: an exception in both (UnboundLocalError before, ValueError now)
compare("unknown method", call(old.SD_est, Y, Y, 0.01, 128, "welch", 0.5),
        call(new.SD_est, Y, Y, 0.01, 128, "welch", 0.5), strict_exc=False)

# ---------------------------------------------------------------- SD_PreGER
for it in range(24):
    n_setup = int(rng.integers(1, 4))
    n_ref = int(rng.integers(1, 4))
    nxseg = int(rng.choice([32, 64, 128, 250, 512]))
    fs = float(rng.choice([1.0, 50.0, 100.0, 333.0]))
    pov = float(rng.choice([0.0, 0.25, 0.5, 0.75]))
    method = ("per", "cor")[it % 2]
    Ysets = []
    for _ in range(n_setup):
        ndat = int(nxseg * rng.uniform(6, 12))
        n_mov = int(rng.integers(1, 5))
        common = coloured(2, ndat)  # shared excitation so that the channels are coherent
        mix_r = rng.standard_normal((n_ref, 2))
        mix_m = rng.standard_normal((n_mov, 2))
        Ysets.append(
            {
                "ref": mix_r @ common + 0.3 * rng.standard_normal((n_ref, ndat)),
                "mov": mix_m @ common + 0.3 * rng.standard_normal((n_mov, ndat)),
            }
        )
    tag = f"SD_PreGER[{it}] n_setup={n_setup} n_ref={n_ref} nxseg={nxseg} fs={fs} pov={pov} {method}"
    compare(
        tag,
        call(old.SD_PreGER, Ysets, fs, nxseg=nxseg, pov=pov, method=method),
        call(new.SD_PreGER, Ysets, fs, nxseg=nxseg, pov=pov, method=method),
    )
# defaults of SD_PreGER
compare("SD_PreGER defaults", call(old.SD_PreGER, [
    {"ref": Y[:2], "mov": Y[2:]}], 100.0, 256), call(new.SD_PreGER, [{"ref": Y[:2], "mov": Y[2:]}], 100.0, 256))

# ---------------------------------------------------------------- through the algorithm layer
from pyoma2.algorithms.fdd import FDD  # noqa: E402

for it in range(6):
    nch = int(rng.integers(2, 6))
    nxseg = int(rng.choice([64, 128, 256]))
    pov = float(rng.choice([0.0, 0.25, 0.5, 0.75]))
    method = ("per", "cor")[it % 2]
    fs = float(rng.choice([20.0, 100.0]))
    data = coloured(nch, nxseg * 9 + 5).T  # (Ndat, nch) as the setup classes hold it
    alg = FDD(name="FDD", nxseg=nxseg, method_SD=method, pov=pov)
    alg._set_data(data=data, fs=fs)
    got = call(lambda: (lambda r: (r.freq, r.Sy))(alg.run()))
    ref = call(old.SD_est, data.T, data.T, 1.0 / fs, nxseg, method, pov)
    compare(f"FDD.run[{it}] nch={nch} nxseg={nxseg} pov={pov} {method}", ref, got)

if failures:
    print(f"FAIL: {len(failures)} of {ncases} comparisons differ")
    for f in failures[:40]:
        print("  ", f)
    sys.exit(1)
print(f"PASS: {ncases} comparisons of SD_est / SD_PreGER / FDD.run agree with the pristine implementation")
