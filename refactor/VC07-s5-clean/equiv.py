"""
Differential test: the working tree (CLEAN version of the commit) against the pristine
implementation saved next to this file (orig_functions_fdd.py, orig_algorithms_fdd.py).

Run as:  PYTHONPATH=<tree>/src /venv/bin/python equiv.py
Prints PASS and exits 0 when all outputs (and raised exceptions) agree.
"""
import importlib.util
import logging
import os
import sys
import warnings

os.environ["TQDM_DISABLE"] = "1"

import numpy as np  # noqa: E402

warnings.filterwarnings("ignore")
logging.disable(logging.CRITICAL)

import pyoma2.algorithms.fdd as new_algo  # noqa: E402
import pyoma2.functions.fdd as new_fdd  # noqa: E402

HERE = os.path.dirname(os.path.abspath(__file__))


def _load(name, fname):
    spec = importlib.util.spec_from_file_location(name, os.path.join(HERE, fname))
    mod = importlib.util.module_from_spec(spec)
    sys.modules[name] = mod
    spec.loader.exec_module(mod)
    return mod


old_fdd = _load("pyoma2.functions._orig_fdd", "orig_functions_fdd.py")
old_algo = _load("pyoma2.algorithms._orig_fdd", "orig_algorithms_fdd.py")
old_algo.fdd = old_fdd  # the pristine classes call the pristine functions

RTOL = 1e-12
failures = []
n_checks = 0


def same(a, b):
    if isinstance(a, (list, tuple)):
        return (
            isinstance(b, (list, tuple))
            and len(a) == len(b)
            and all(same(x, y) for x, y in zip(a, b))
        )
    a = np.asarray(a)
    b = np.asarray(b)
    if a.shape != b.shape:
        return False
    if np.array_equal(a, b, equal_nan=True):
        return True
    scale = max(float(np.nanmax(np.abs(b))) if b.size else 0.0, 0.0)
    return bool(np.allclose(a, b, rtol=RTOL, atol=1e-14 * scale, equal_nan=True))


def call(f, *a, **k):
    try:
        return ("ok", f(*a, **k))
    except Exception as e:  # noqa: BLE001
        return ("exc", type(e).__name__)


def compare(tag, r_old, r_new):
    global n_checks
    n_checks += 1
    if r_old[0] != r_new[0]:
        failures.append(f"{tag}: old {r_old[0]} {r_old[1] if r_old[0]=='exc' else ''} / "
                        f"new {r_new[0]} {r_new[1] if r_new[0]=='exc' else ''}")
    elif r_old[0] == "exc":
        if r_old[1] != r_new[1]:
            failures.append(f"{tag}: exception {r_old[1]} vs {r_new[1]}")
    elif not same(r_old[1], r_new[1]):
        failures.append(f"{tag}: values differ")


# ----------------------------------------------------------------------------- inputs
def modal_spectrum(rng, fs, nxseg, nch, nmodes, complex_modes=False, noise=1e-3):
    """Sum of SDOF bells times mode-shape dyads plus a random Hermitian PSD floor."""
    freq = np.arange(nxseg // 2 + 1) * fs / nxseg
    Sy = np.zeros((nch, nch, len(freq)), dtype=complex)
    fns = np.sort(rng.uniform(0.06, 0.4, nmodes)) * fs
    for fn in fns:
        xi = rng.uniform(0.01, 0.06)
        S = 1.0 / ((fn**2 - freq**2) ** 2 + (2 * xi * fn * freq) ** 2)
        S = S / S.max() * rng.uniform(0.3, 3.0)
        phi = rng.normal(size=nch)
        if complex_modes:
            phi = phi + 0.3j * rng.normal(size=nch)
        Sy += S[None, None, :] * np.outer(phi, phi.conj())[:, :, None]
    for k in range(len(freq)):
        A = rng.normal(size=(nch, nch)) + 1j * rng.normal(size=(nch, nch))
        Sy[:, :, k] += noise * (A @ A.conj().T)
    return freq, Sy, fns


def main():
    rng = np.random.default_rng(20240607)

    # ------------------------------------------------------------------ SD_svalsvec
    for i in range(12):
        nr = int(rng.integers(2, 7))
        nc = nr if i % 3 else int(rng.integers(1, nr + 1))  # also tall (multi-setup) ones
        nf = int(rng.integers(5, 60))
        SD = rng.normal(size=(nr, nc, nf))
        if i % 2:
            SD = SD + 1j * rng.normal(size=(nr, nc, nf))
        if nr == nc and i % 4 == 1:
            SD = np.einsum("ikf,jkf->ijf", SD, SD.conj())  # Hermitian PSD
        compare(f"SD_svalsvec[{i}]", call(old_fdd.SD_svalsvec, SD), call(new_fdd.SD_svalsvec, SD))

    # ---------------------------------------------------------------- SDOF_bellandMS
    for i in range(24):
        method = ("FSDD", "EFDD", "other")[i % 3] if i % 8 else ("FSDD", "EFDD")[i % 2]
        nch = int(rng.integers(2, 7))
        if i < 8:  # unstructured input, as in the unit tests
            nf = int(rng.integers(40, 200))
            dt = float(rng.uniform(0.002, 0.05))
            Sy = rng.random((nch, nch, nf)) + 1j * rng.random((nch, nch, nf))
            phi = rng.random(nch) + 1j * rng.random(nch)
            sel_fn = float(rng.uniform(0.1, 0.9) / (2 * dt))
            DF = float(rng.uniform(0.02, 0.6) / (2 * dt))
        else:
            fs = float(rng.choice([10.0, 100.0, 512.0]))
            nxseg = int(rng.choice([256, 512, 1024]))
            dt = 1 / fs
            _, Sy, fns = modal_spectrum(
                rng, fs, nxseg, nch, int(rng.integers(1, 4)), complex_modes=bool(i % 2),
                noise=float(rng.choice([1e-8, 1e-3, 3e-2])),
            )
            sel_fn = float(rng.choice(fns))
            k = int(np.argmin(np.abs(np.arange(Sy.shape[2]) * fs / nxseg - sel_fn)))
            U = np.linalg.svd(Sy[:, :, k])[0]
            phi = U[:, 0] / U[np.argmax(np.abs(U[:, 0])), 0]
            DF = float(rng.uniform(0.02, 0.3) * fs)
        cm = int(rng.integers(1, 3))
        MAClim = float(rng.choice([0.3, 0.6, 0.85, 0.95]))
        args = (Sy, dt, sel_fn, phi, method, cm, MAClim, DF)
        r_old = call(old_fdd.SDOF_bellandMS, *args)
        compare(f"SDOF_bellandMS[{i}]", r_old, call(new_fdd.SDOF_bellandMS, *args))
        Sval, Svec = new_fdd.SD_svalsvec(Sy)
        keep = (Sval.copy(), Svec.copy(), Sy.copy())
        compare(
            f"SDOF_bellandMS[{i}] stored SVD",
            r_old,
            call(new_fdd.SDOF_bellandMS, *args, Sval=Sval, Svec=Svec),
        )
        compare(f"SDOF_bellandMS[{i}] inputs untouched", ("ok", keep), ("ok", (Sval, Svec, Sy)))

    # --------------------------------------------------------------------- EFDD_mpe
    for i in range(30):
        nch = int(rng.integers(2, 7))
        fs = float(rng.choice([8.0, 100.0, 1000.0]))
        nxseg = int(rng.choice([512, 1024, 2048]))
        nm = int(rng.integers(1, 4))
        freq, Sy, fns = modal_spectrum(
            rng, fs, nxseg, nch, nm, complex_modes=bool(i % 3 == 0),
            noise=float(rng.choice([1e-9, 1e-4, 1e-2])),
        )
        if i % 7 == 3:
            Sy = Sy.real.copy()
        sel = [float(f * (1 + rng.uniform(-0.01, 0.01))) for f in fns]
        if i % 5 == 0:
            sel = sel[::-1]
        kw = dict(
            methodSy=("per", "cor", "paer")[i % 3],
            method=("EFDD", "FSDD")[i % 2],
            DF1=float(rng.uniform(0.01, 0.03) * fs),
            DF2=float(rng.uniform(0.02, 0.2) * fs),
            cm=int(rng.integers(1, 3)),
            MAClim=float(rng.choice([0.5, 0.85, 0.95])),
            sppk=int(rng.integers(0, 6)),
            npmax=int(rng.choice([2, 5, 20, 40, 4000])),
        )
        r_old = call(old_fdd.EFDD_mpe, Sy, freq, 1 / fs, sel, **kw)
        compare(f"EFDD_mpe[{i}]", r_old, call(new_fdd.EFDD_mpe, Sy, freq, 1 / fs, sel, **kw))
        Sval, Svec = new_fdd.SD_svalsvec(Sy)
        keep = (Sval.copy(), Svec.copy(), Sy.copy())
        for rep in range(2):  # the stored decomposition may be used more than once
            compare(
                f"EFDD_mpe[{i}] stored SVD, call {rep + 1}",
                r_old,
                call(new_fdd.EFDD_mpe, Sy, freq, 1 / fs, sel, Sval=Sval, Svec=Svec, **kw),
            )
        compare(f"EFDD_mpe[{i}] inputs untouched", ("ok", keep), ("ok", (Sval, Svec, Sy)))

    # unstructured input of the unit test
    for i in range(4):
        Sy = rng.random((3, 3, 100))
        freq = np.linspace(0, 1, 100)
        kw = dict(Sy=Sy, freq=freq, dt=0.1, sel_freq=[0.3, 0.5, 0.7],
                  methodSy=("cor", "paer")[i % 2], npmax=2)
        compare(f"EFDD_mpe unit[{i}]", call(old_fdd.EFDD_mpe, **kw), call(new_fdd.EFDD_mpe, **kw))

    # ------------------------------------------------------- algorithm classes (run + mpe)
    def run_class(mod, clsname, data, fs, run_kw, mpe_calls):
        algo = getattr(mod, clsname)(name=clsname, **run_kw)
        algo._set_data(data=data, fs=fs)
        out = [call(algo.mpe, sel_freq=[1.0])]  # before run(): must raise
        algo._set_result(algo.run())
        res = algo.result
        out.append(("ok", [res.freq, res.Sy, res.S_val, res.S_vec]))
        for kw in mpe_calls:
            r = call(algo.mpe, **kw)
            if r[0] == "ok":
                fp = [list(p) for p in res.forPlot]
                r = ("ok", [res.Fn, res.Xi, res.Phi, fp, res.S_val, res.S_vec])
            out.append(r)
        return out

    for i in range(8):
        fs = float(rng.choice([50.0, 200.0]))
        nch = int(rng.integers(2, 6))
        N = 20000
        t = np.arange(N) / fs
        fns = np.sort(rng.uniform(0.08, 0.35, 2)) * fs
        # filtered noise: two resonators driven by white noise, mixed into nch channels
        from scipy import signal
        data = 0.05 * rng.normal(size=(N, nch))
        for fn in fns:
            xi = rng.uniform(0.01, 0.03)
            wn = 2 * np.pi * fn
            sysd = signal.cont2discrete(([wn**2], [1, 2 * xi * wn, wn**2]), 1 / fs)
            y = signal.lfilter(sysd[0].ravel(), sysd[1], rng.normal(size=N))
            data += np.outer(y / y.std(), rng.normal(size=nch))
        clsname = ("EFDD", "FSDD")[i % 2]
        run_kw = dict(nxseg=int(rng.choice([512, 1024])), method_SD=("per", "cor")[i % 4 == 3],
                      pov=0.5)
        sel = [float(f) for f in fns]
        mpe_calls = [
            dict(sel_freq=sel, DF1=0.02 * fs, DF2=0.05 * fs),
            dict(sel_freq=sel, DF1=0.02 * fs, DF2=0.05 * fs),
            dict(sel_freq=sel[:1], DF1=0.02 * fs, DF2=0.1 * fs, MAClim=0.6, sppk=1, npmax=10),
            dict(sel_freq=sel, DF1=0.02 * fs, DF2=0.05 * fs, npmax=100000),
        ]
        r_old = run_class(old_algo, clsname, data, fs, run_kw, mpe_calls)
        r_new = run_class(new_algo, clsname, data, fs, run_kw, mpe_calls)
        for k, (a, b) in enumerate(zip(r_old, r_new)):
            compare(f"{clsname}[{i}] step {k}", a, b)

    print(f"{n_checks} comparisons")
    if failures:
        print("FAIL")
        for f in failures[:40]:
            print("  -", f)
        return 1
    print("PASS")
    return 0


if __name__ == "__main__":
    sys.exit(main())
