"""
C12 differential test: the library as it stands in the tree under test (CLEAN version of
the commit) against the unmodified sources saved next to this script
(orig_functions_ssi.py = src/pyoma2/functions/ssi.py, orig_algorithms_ssi.py =
src/pyoma2/algorithms/ssi.py at HEAD).

Run as:  PYTHONPATH=<tree>/src /venv/bin/python equiv.py
"""

import importlib.util
import logging
import os
import sys

import numpy as np

logging.disable(logging.CRITICAL)

import pyoma2.algorithms  # noqa: E402,F401  (package must exist before the copies are loaded)
from pyoma2.algorithms import ssi as new_alg  # noqa: E402
from pyoma2.functions import ssi as new_fun  # noqa: E402

HERE = os.path.dirname(os.path.abspath(__file__))


def load(modname, filename):
    spec = importlib.util.spec_from_file_location(modname, os.path.join(HERE, filename))
    mod = importlib.util.module_from_spec(spec)
    sys.modules[modname] = mod
    spec.loader.exec_module(mod)
    return mod


old_fun = load("pyoma2.functions._orig_ssi", "orig_functions_ssi.py")
old_alg = load("pyoma2.algorithms._orig_ssi", "orig_algorithms_ssi.py")
old_alg.ssi = old_fun  # the pristine classes call the pristine functions

for m in (new_fun, old_fun):
    m.trange = lambda *a, **k: range(*a)
    m.tqdm = lambda it, *a, **k: it

PROBLEMS = []
NCASES = 0
NEXC = 0


def same(a, b):
    if a is None or b is None:
        return a is None and b is None
    if isinstance(a, (list, tuple)):
        return (
            isinstance(b, (list, tuple))
            and len(a) == len(b)
            and all(same(x, y) for x, y in zip(a, b))
        )
    a, b = np.asarray(a), np.asarray(b)
    if a.shape != b.shape or a.dtype.kind != b.dtype.kind:
        return False
    if a.dtype.kind in "OUS":
        return bool(np.array_equal(a, b))
    return bool(np.array_equal(a, b, equal_nan=True)) or bool(
        np.allclose(a, b, rtol=1e-12, atol=0.0, equal_nan=True)
    )


def outcome(fn, *args, **kwargs):
    try:
        return ("ok", fn(*args, **kwargs))
    except Exception as exc:  # noqa: BLE001
        return ("exc", (type(exc).__name__, str(exc)))


def compare(tag, new, old):
    global NCASES, NEXC
    NCASES += 1
    NEXC += old[0] == "exc"
    if new[0] != old[0]:
        PROBLEMS.append(f"{tag}: new {new[0]} {new[1] if new[0] == 'exc' else ''} / old {old[0]} "
                        f"{old[1] if old[0] == 'exc' else ''}")
    elif new[0] == "exc":
        if new[1] != old[1]:
            PROBLEMS.append(f"{tag}: exceptions differ {new[1]} / {old[1]}")
    elif not same(new[1], old[1]):
        PROBLEMS.append(f"{tag}: results differ")


rng = np.random.default_rng(2024)


def record(nch, ndat, kind):
    t = np.arange(ndat) / 40.0
    Y = rng.standard_normal((nch, ndat))
    for f in (2.3, 5.1, 9.7):
        Y += rng.standard_normal((nch, 1)) * np.sin(2 * np.pi * f * t + rng.uniform(0, 6))
    if kind == "int":
        Y = np.round(10 * Y).astype(int)
    elif kind == "f32":
        Y = Y.astype(np.float32)
    elif kind == "fortran":
        Y = np.asfortranarray(Y)
    elif kind == "view":
        Y = np.ascontiguousarray(Y.T).T
    return Y


# ----------------------------------------------------------------------------- build_hank
for case in range(60):
    nch = int(rng.integers(1, 6))
    br = int(rng.integers(1, 7))
    ndat = int(rng.choice([2 * br + 2, 2 * br + 3, 12, 25, 40, 90, 400]))
    kind = str(rng.choice(["float", "float", "int", "f32", "fortran", "view"]))
    Y = record(nch, ndat, kind)
    mode = int(rng.integers(0, 5))
    if mode == 0:
        Yref = Y
    elif mode == 1:
        Yref = Y[sorted(rng.choice(nch, size=int(rng.integers(1, nch + 1)), replace=False)), :]
    elif mode == 2:
        Yref = Y[list(rng.permutation(nch)), :]
    elif mode == 3:
        Yref = Y[list(rng.integers(0, nch, size=int(rng.integers(1, nch + 2)))), :]
    else:
        Yref = record(int(rng.integers(1, nch + 1)), ndat, kind)
    for method in ("cov_mm", "cov_R", "dat", "YfYp"):
        for calc_unc in (False, True):
            nb = int(rng.choice([2, 5, 100]))
            br_arg = float(br) if case % 7 == 0 else br
            Y0, R0 = Y.copy(), Yref.copy()
            new = outcome(new_fun.build_hank, Y, Yref, br_arg, method, calc_unc=calc_unc, nb=nb)
            old = outcome(old_fun.build_hank, Y, Yref, br_arg, method, calc_unc=calc_unc, nb=nb)
            compare(f"build_hank case {case} {method} unc={calc_unc} nch={nch} br={br} "
                    f"ndat={ndat} kind={kind} refmode={mode}", new, old)
            if not (np.array_equal(Y, Y0) and np.array_equal(Yref, R0)):
                PROBLEMS.append(f"build_hank case {case} {method}: inputs were modified")

# too short records and other invalid calls
for ndat, br in ((5, 2), (6, 3), (3, 1), (4, 1)):
    Y = rng.standard_normal((2, ndat))
    for method in ("cov_mm", "cov_R", "dat"):
        compare(f"short record ndat={ndat} br={br} {method}",
                outcome(new_fun.build_hank, Y, Y, br, method),
                outcome(old_fun.build_hank, Y, Y, br, method))

# ----------------------------------------------------------------------------- multi setup
for case in range(8):
    n_ref = int(rng.integers(1, 4))
    nset = int(rng.integers(1, 4))
    br = int(rng.integers(2, 6))
    ndat = int(rng.choice([300, 500]))
    Ylist = []
    for _ in range(nset):
        n_mov = int(rng.integers(1, 4))
        Z = record(n_ref + n_mov, ndat, "float")
        Ylist.append({"ref": Z[:n_ref], "mov": Z[n_ref:]})
    ordmax = int(rng.integers(2, br * n_ref + 1))
    for method in ("cov_mm", "cov_R", "dat"):
        new = outcome(new_fun.SSI_multi_setup, Ylist, 40.0, br, ordmax, method, step=1)
        old = outcome(old_fun.SSI_multi_setup, Ylist, 40.0, br, ordmax, method, step=1)
        compare(f"SSI_multi_setup case {case} {method}", new, old)
    for cls in ("SSIdat_MS", "SSIcov_MS"):
        res = []
        for mod in (new_alg, old_alg):
            algo = getattr(mod, cls)(name="x", br=br, ordmax=ordmax)
            algo._set_data(data=Ylist, fs=40.0)
            out = outcome(algo.run)
            if out[0] == "ok":
                r = out[1]
                out = ("ok", [r.Obs, r.A, r.C, r.H, r.Fn_poles, r.Xi_poles, r.Phi_poles, r.Lab])
            res.append(out)
        compare(f"{cls}.run case {case}", res[0], res[1])

# ----------------------------------------------------------------------------- single setup
for case in range(12):
    nch = int(rng.integers(2, 6))
    br = int(rng.integers(3, 9))
    data = record(nch, int(rng.choice([600, 1000])), "float").T.copy()
    choice = case % 4
    if choice == 0:
        refs = None
    elif choice == 1:
        refs = sorted(int(v) for v in rng.choice(nch, size=int(rng.integers(1, nch)), replace=False))
    elif choice == 2:
        refs = [int(v) for v in rng.permutation(nch)]
    else:
        refs = [int(v) for v in rng.choice(nch, size=int(rng.integers(1, nch + 1)), replace=False)]
    ordmax = int(rng.integers(2, br * (nch if refs is None else len(refs)) + 1))
    for cls, method, unc in (
        ("SSIdat", None, False),
        ("SSIcov", None, False),
        ("SSIcov", "cov_R", False),
        ("SSIcov", "cov_mm", True),
        ("SSIdat", "cov_mm", False),
    ):
        res = []
        for mod in (new_alg, old_alg):
            kw = {} if method is None else {"method": method}
            algo = getattr(mod, cls)(
                name="x", br=br, ordmax=ordmax, ref_ind=refs, calc_unc=unc, nb=20, **kw
            )
            algo._set_data(data=data, fs=40.0)
            out = outcome(algo.run)
            if out[0] == "ok":
                r = out[1]
                out = ("ok", [r.H, r.Obs, r.A, r.C, r.Fn_poles, r.Xi_poles, r.Phi_poles, r.Lab,
                              r.Fn_poles_cov, r.Xi_poles_cov, r.Phi_poles_cov])
                # second run on the same object
                out2 = outcome(algo.run)
                if out2[0] != "ok" or not same(out2[1].H, r.H):
                    PROBLEMS.append(f"{cls} case {case}: second run differs from the first")
            res.append(out)
        compare(f"{cls}.run case {case} method={method} refs={refs} unc={unc}", res[0], res[1])

if PROBLEMS:
    print(f"FAIL ({len(PROBLEMS)} of {NCASES} comparisons)")
    for p in PROBLEMS[:30]:
        print("  -", p)
    sys.exit(1)
print(f"PASS ({NCASES} comparisons, {NEXC} of them with the same exception on both sides)")
sys.exit(0)
