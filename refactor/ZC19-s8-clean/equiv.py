"""
Differential test: geometry checks / geometry definition of the tree on PYTHONPATH
against the pristine implementation (orig_gen.py / orig_mixin.py saved next to this
script).

Run as:  PYTHONPATH=<tree>/src /venv/bin/python equiv.py
Prints PASS and exits 0 when every random case gives identical results (returned
tables, stored geometries, mapped mode shapes, raised exceptions).
"""
import copy
import importlib.util
import os
import sys
import warnings

import matplotlib

matplotlib.use("Agg")
import numpy as np
import pandas as pd
from pandas.testing import assert_frame_equal

warnings.filterwarnings("ignore")

HERE = os.path.dirname(os.path.abspath(__file__))


def _load(name, fname):
    spec = importlib.util.spec_from_file_location(name, os.path.join(HERE, fname))
    mod = importlib.util.module_from_spec(spec)
    sys.modules[name] = mod
    spec.loader.exec_module(mod)
    return mod


import pyoma2.support.geometry.mixin as new_mixin  # noqa: E402
from pyoma2.functions import gen as new_gen  # noqa: E402

orig_gen = _load("pyoma2.functions._orig_gen", "orig_gen.py")
# the package name makes the relative imports of the saved copy resolve
orig_mixin = _load("pyoma2.support.geometry._orig_mixin", "orig_mixin.py")
# ... and the pristine mixin must call the pristine checks
orig_mixin.check_on_geo1 = orig_gen.check_on_geo1
orig_mixin.check_on_geo2 = orig_gen.check_on_geo2

XYZ = ["x", "y", "z"]


# ----------------------------------------------------------------------------
# comparison helpers
def same(a, b, where):
    if a is None or b is None:
        assert a is None and b is None, f"{where}: {a!r} vs {b!r}"
    elif isinstance(a, pd.DataFrame):
        assert isinstance(b, pd.DataFrame), f"{where}: type {type(b)}"
        assert_frame_equal(a, b, check_exact=True, obj=where)
    elif isinstance(a, np.ndarray):
        assert isinstance(b, np.ndarray), f"{where}: type {type(b)}"
        assert a.dtype == b.dtype and a.shape == b.shape, f"{where}: dtype/shape"
        if a.dtype.kind in "fc":
            assert np.allclose(a, b, rtol=1e-12, atol=0, equal_nan=True), where
        else:
            assert np.array_equal(a, b), where
    elif isinstance(a, (list, tuple)):
        assert type(a) is type(b) and len(a) == len(b), f"{where}: {a!r} vs {b!r}"
        for k, (x, y) in enumerate(zip(a, b)):
            same(x, y, f"{where}[{k}]")
    else:
        assert a == b, f"{where}: {a!r} vs {b!r}"


def outcome(func, *args, **kwargs):
    try:
        return ("ok", func(*args, **kwargs))
    except Exception as e:  # noqa: BLE001 - the exception itself is compared
        return ("exc", (type(e), str(e)))


def compare(f_old, f_new, make_args, where):
    """make_args() must build fresh, independent arguments at each call."""
    old = outcome(f_old, *make_args())
    new = outcome(f_new, *make_args())
    assert old[0] == new[0], f"{where}: {old} vs {new}"
    if old[0] == "exc":
        assert old[1] == new[1], f"{where}: {old[1]} vs {new[1]}"
    else:
        same(old[1], new[1], where)
    return old[0]


# ----------------------------------------------------------------------------
# random table sets
def rnd_names(rng, n, prefix="s"):
    pool = [f"{prefix}{k}" for k in rng.permutation(40)[:n]]
    return pool


def rnd_connect(rng, npts, ncol):
    m = int(rng.integers(1, 6))
    return pd.DataFrame(rng.integers(1, npts + 1, size=(m, ncol)))


def rnd_optional(rng, tables, key, make):
    """sheet absent / empty / given"""
    r = rng.random()
    if r < 0.35:
        return
    tables[key] = pd.DataFrame() if r < 0.5 else make()


def name_forms(rng, multi):
    """returns (sensors names in a random accepted form, ref_ind, flat names)"""
    if not multi:
        n = int(rng.integers(1, 13))
        flat = rnd_names(rng, n)
        form = rng.integers(0, 3)
        if form == 0:
            return list(flat), None, flat
        if form == 1:
            return np.array(flat), None, flat
        return pd.DataFrame([flat]), None, flat
    nset = int(rng.integers(2, 5))
    k = int(rng.integers(1, 4))
    refnames = [f"r{j}" for j in range(k)]
    rows, ref_ind, flat = [], [], [f"REF{j + 1}" for j in range(k)]
    same_layout = rng.random() < 0.4
    pos0 = None
    for i in range(nset):
        nrov = int(rng.integers(1, 5))
        rov = [f"m{i}_{j}" for j in range(nrov)]
        if same_layout and pos0 is not None and max(pos0) < nrov + k:
            pos = pos0
        else:
            pos = sorted(rng.permutation(nrov + k)[:k].tolist())
            if rng.random() < 0.3:
                pos = pos[::-1]
        if pos0 is None:
            pos0 = pos
        row = [None] * (nrov + k)
        for p, rname in zip(pos, refnames):
            row[p] = rname
        it = iter(rov)
        row = [c if c is not None else next(it) for c in row]
        rows.append(row)
        ref_ind.append(list(pos))
        flat += rov
    if rng.random() < 0.5:
        width = max(len(r) for r in rows)
        table = pd.DataFrame([r + [np.nan] * (width - len(r)) for r in rows])
        return table, ref_ind, flat
    return rows, ref_ind, flat


def make_geo1(rng, multi, corrupt=None):
    sn, ref_ind, flat = name_forms(rng, multi)
    extra = [f"x{j}" for j in range(int(rng.integers(0, 3)))]
    idx = list(rng.permutation(flat + extra))
    n = len(idx)
    tables = {
        "sensors names": sn,
        "sensors coordinates": pd.DataFrame(
            rng.normal(size=(n, 3)).round(3), index=idx, columns=XYZ
        ),
        "sensors directions": pd.DataFrame(
            rng.integers(-1, 2, size=(n, 3)), index=idx, columns=XYZ
        ),
    }
    nbg = int(rng.integers(2, 7))
    rnd_optional(rng, tables, "sensors lines", lambda: rnd_connect(rng, len(flat), 2))
    rnd_optional(
        rng, tables, "BG nodes", lambda: pd.DataFrame(rng.normal(size=(nbg, 3)))
    )
    rnd_optional(rng, tables, "BG lines", lambda: rnd_connect(rng, nbg, 2))
    rnd_optional(rng, tables, "BG surfaces", lambda: rnd_connect(rng, nbg, 3))
    if rng.random() < 0.3:
        tables["INFO"] = pd.DataFrame([["template", "v1"]])

    if corrupt == "missing":
        del tables[["sensors names", "sensors coordinates", "sensors directions"][
            int(rng.integers(0, 3))
        ]]
    elif corrupt == "unknown":
        tables["sensor lines"] = pd.DataFrame([[1, 2]])
    elif corrupt == "ncols":
        key = ["sensors coordinates", "BG nodes", "BG lines", "BG surfaces"][
            int(rng.integers(0, 4))
        ]
        tables[key] = pd.DataFrame(
            rng.integers(1, 3, size=(n, 4)), index=idx if key.startswith("s") else None
        )
    elif corrupt == "shape":
        tables["sensors directions"] = tables["sensors directions"].iloc[:-1]
    elif corrupt == "index":
        d = tables["sensors directions"]
        tables["sensors directions"] = d.set_axis([f"q{j}" for j in range(n)], axis=0)
    elif corrupt == "absent":
        drop = flat[int(rng.integers(0, len(flat)))]
        for key in ("sensors coordinates", "sensors directions"):
            tables[key] = tables[key].drop(index=drop)
    return tables, ref_ind


def make_geo2(rng, multi, corrupt=None):
    sn, ref_ind, flat = name_forms(rng, multi)
    ncst = int(rng.integers(0, 3))
    cnames = [f"k{j}" for j in range(ncst)]
    npts = max(2, (len(flat) + 2 * ncst + 2) // 3 + int(rng.integers(0, 3)))
    cells = np.empty(3 * npts, dtype=object)
    for c in range(cells.size):
        r = rng.random()
        cells[c] = 0 if r < 0.4 else (0.0 if r < 0.6 else np.nan)
    free = list(rng.permutation(cells.size))
    for name in flat:
        cells[free.pop()] = name
    for name in cnames:  # a constraint may be used at several cells
        for _ in range(int(rng.integers(1, 3))):
            if free:
                cells[free.pop()] = name
    # a sensor may also be repeated at another point
    if free and rng.random() < 0.5:
        cells[free.pop()] = flat[int(rng.integers(0, len(flat)))]
    tables = {
        "sensors names": sn,
        "points coordinates": pd.DataFrame(
            rng.normal(size=(npts, 3)).round(3), columns=XYZ
        ),
        "mapping": pd.DataFrame(cells.reshape(npts, 3), columns=XYZ),
    }
    if ncst:
        ncol = int(rng.integers(1, len(flat) + 1))
        cols = list(rng.permutation(flat)[:ncol])
        vals = rng.normal(size=(ncst, ncol)).round(2)
        vals[rng.random(vals.shape) < 0.3] = np.nan
        tables["constraints"] = pd.DataFrame(vals, index=cnames, columns=cols)
    elif rng.random() < 0.5:
        tables["constraints"] = pd.DataFrame()
    rnd_optional(
        rng,
        tables,
        "sensors sign",
        lambda: pd.DataFrame(rng.choice([-1, 1], size=(npts, 3)), columns=XYZ),
    )
    nbg = int(rng.integers(2, 7))
    rnd_optional(rng, tables, "sensors lines", lambda: rnd_connect(rng, npts, 2))
    rnd_optional(rng, tables, "sensors surfaces", lambda: rnd_connect(rng, npts, 3))
    rnd_optional(
        rng, tables, "BG nodes", lambda: pd.DataFrame(rng.normal(size=(nbg, 3)))
    )
    rnd_optional(rng, tables, "BG lines", lambda: rnd_connect(rng, nbg, 2))
    rnd_optional(rng, tables, "BG surfaces", lambda: rnd_connect(rng, nbg, 3))
    if rng.random() < 0.3:
        tables["INFO"] = pd.DataFrame([["template", "v1"]])

    if corrupt == "missing":
        del tables[["sensors names", "points coordinates", "mapping"][
            int(rng.integers(0, 3))
        ]]
    elif corrupt == "unknown":
        tables["sensors signs"] = pd.DataFrame([[1, 1, 1]])
    elif corrupt == "ncols":
        key = ["points coordinates", "BG nodes", "BG lines", "BG surfaces"][
            int(rng.integers(0, 4))
        ]
        tables[key] = pd.DataFrame(rng.integers(1, 3, size=(npts, 4)))
    elif corrupt == "shape":
        key = ["mapping", "sensors sign"][int(rng.integers(0, 2))]
        tables[key] = pd.DataFrame(np.ones((npts + 1, 3)), columns=XYZ)
    elif corrupt == "absent":
        drop = flat[int(rng.integers(0, len(flat)))]
        tables["mapping"] = tables["mapping"].map(lambda c: 0 if c == drop else c)
    elif corrupt == "cstr_col":
        tables["constraints"] = pd.DataFrame(
            [[1.0, 2.0]], index=["k0"], columns=[flat[0], "nobody"]
        )
        tables["mapping"].iloc[0, 0] = "k0" if tables["mapping"].iloc[0, 0] in (
            0,
            0.0,
        ) else tables["mapping"].iloc[0, 0]
    elif corrupt == "cstr_unused":
        tables["constraints"] = pd.DataFrame(
            [[1.0]], index=["never_used"], columns=[flat[0]]
        )
    return tables, ref_ind, flat


class _Setup:
    def __init__(self, ref_ind):
        if ref_ind is not None:
            self.ref_ind = ref_ind


class OldSetup(_Setup, orig_mixin.GeometryMixin):
    pass


class NewSetup(_Setup, new_mixin.GeometryMixin):
    pass


def geo_fields(geo):
    return [getattr(geo, f) for f in type(geo).model_fields]


ARG1 = {
    "sensors names": "sens_names",
    "sensors coordinates": "sens_coord",
    "sensors directions": "sens_dir",
    "sensors lines": "sens_lines",
    "BG nodes": "bg_nodes",
    "BG lines": "bg_lines",
    "BG surfaces": "bg_surf",
}
ARG2 = {
    "sensors names": "sens_names",
    "points coordinates": "pts_coord",
    "mapping": "sens_map",
    "constraints": "cstr",
    "sensors sign": "sens_sign",
    "sensors lines": "sens_lines",
    "sensors surfaces": "sens_surf",
    "BG nodes": "bg_nodes",
    "BG lines": "bg_lines",
    "BG surfaces": "bg_surf",
}


def via_args(cls, which, argmap, tables, ref_ind):
    s = cls(copy.deepcopy(ref_ind))
    kw = {argmap[k]: copy.deepcopy(v) for k, v in tables.items() if k in argmap}
    getattr(s, f"def_{which}")(**kw)
    return geo_fields(getattr(s, which))


def via_file(cls, module, which, tables, ref_ind):
    s = cls(copy.deepcopy(ref_ind))
    module.read_excel_file = lambda path, **kw: copy.deepcopy(tables)
    getattr(s, f"def_{which}_by_file")(path="unused.xlsx")
    return geo_fields(getattr(s, which))


def main():
    rng = np.random.default_rng(20240519)
    count = {"ok": 0, "exc": 0}
    corrupt1 = [None] * 6 + ["missing", "unknown", "ncols", "shape", "index", "absent"]
    corrupt2 = [None] * 7 + [
        "missing",
        "unknown",
        "ncols",
        "shape",
        "absent",
        "cstr_col",
        "cstr_unused",
    ]
    ncase = 0
    for rep in range(10):
        for multi in (False, True):
            for c in corrupt1:
                tables, ref_ind = make_geo1(rng, multi, c)
                w = f"geo1[{rep},{multi},{c}]"
                r = compare(
                    orig_gen.check_on_geo1,
                    new_gen.check_on_geo1,
                    lambda: (copy.deepcopy(tables), copy.deepcopy(ref_ind)),
                    w + " check",
                )
                count[r] += 1
                # through the setup object: documented arguments and file route
                if "INFO" not in tables and all(k in tables for k in list(ARG1)[:3]) and (
                    c != "unknown"
                ):
                    compare(
                        lambda t, ri: via_args(OldSetup, "geo1", ARG1, t, ri),
                        lambda t, ri: via_args(NewSetup, "geo1", ARG1, t, ri),
                        lambda: (tables, ref_ind),
                        w + " def_geo1",
                    )
                compare(
                    lambda t, ri: via_file(OldSetup, orig_mixin, "geo1", t, ri),
                    lambda t, ri: via_file(NewSetup, new_mixin, "geo1", t, ri),
                    lambda: (tables, ref_ind),
                    w + " def_geo1_by_file",
                )
                ncase += 1
            for c in corrupt2:
                tables, ref_ind, flat = make_geo2(rng, multi, c)
                w = f"geo2[{rep},{multi},{c}]"
                r = compare(
                    orig_gen.check_on_geo2,
                    new_gen.check_on_geo2,
                    lambda: (copy.deepcopy(tables), copy.deepcopy(ref_ind)),
                    w + " check",
                )
                count[r] += 1
                if "INFO" not in tables and all(k in tables for k in list(ARG2)[:3]) and (
                    c != "unknown"
                ):
                    compare(
                        lambda t, ri: via_args(OldSetup, "geo2", ARG2, t, ri),
                        lambda t, ri: via_args(NewSetup, "geo2", ARG2, t, ri),
                        lambda: (tables, ref_ind),
                        w + " def_geo2",
                    )
                compare(
                    lambda t, ri: via_file(OldSetup, orig_mixin, "geo2", t, ri),
                    lambda t, ri: via_file(NewSetup, new_mixin, "geo2", t, ri),
                    lambda: (tables, ref_ind),
                    w + " def_geo2_by_file",
                )
                # mapped mode shape and displayed displacement from both geometries
                if r == "ok":
                    phi = rng.normal(size=len(flat))

                    def disp(cls, module):
                        s = cls(copy.deepcopy(ref_ind))
                        module.read_excel_file = lambda path, **kw: copy.deepcopy(
                            tables
                        )
                        s.def_geo2_by_file(path="unused.xlsx")
                        g = s.geo2
                        m = new_gen.dfphi_map_func(
                            phi, g.sens_names, g.sens_map, cstrn=g.cstrn
                        )
                        return [m, m.to_numpy() * g.sens_sign.to_numpy()]

                    compare(
                        lambda: disp(OldSetup, orig_mixin),
                        lambda: disp(NewSetup, new_mixin),
                        lambda: (),
                        w + " mapped mode shape",
                    )
                ncase += 1
    print(f"{ncase} table sets compared: {count['ok']} valid, {count['exc']} rejected")
    print("PASS")
    return 0


if __name__ == "__main__":
    try:
        sys.exit(main())
    except AssertionError as e:
        print("FAIL", e)
        sys.exit(1)
