"""
Differential test: the library on PYTHONPATH (with the CLEAN commit applied) against the
pristine sources saved next to this file (orig_base.py, orig_single.py, orig_multi.py).

Run as:  PYTHONPATH=<tree>/src /venv/bin/python equiv.py
Prints PASS and exits 0 when every compared output (arrays, sampling attributes, raised
exceptions) is the same on all randomly generated inputs / histories.
"""
import copy
import importlib.util
import os
import sys
import types

import numpy as np

from pyoma2.algorithms import FDD
from pyoma2.setup import MultiSetup_PreGER as NewMulti
from pyoma2.setup import SingleSetup as NewSingle
from pyoma2.setup.base import BaseSetup as NewBase

HERE = os.path.dirname(os.path.abspath(__file__))


def load_orig(name, rewrites=()):
    path = os.path.join(HERE, f"orig_{name}.py")
    with open(path, encoding="utf-8") as fh:
        src = fh.read()
    for old, new in rewrites:
        assert old in src, (name, old)
        src = src.replace(old, new)
    mod = types.ModuleType(f"orig_{name}")
    mod.__file__ = path
    sys.modules[mod.__name__] = mod
    exec(compile(src, path, "exec"), mod.__dict__)
    return mod


# pristine base.py can be imported as it is
spec = importlib.util.spec_from_file_location("orig_base", os.path.join(HERE, "orig_base.py"))
orig_base = importlib.util.module_from_spec(spec)
sys.modules["orig_base"] = orig_base
spec.loader.exec_module(orig_base)
# pristine single.py / multi.py must sit on the pristine base class
orig_single = load_orig(
    "single", [("from pyoma2.setup.base import BaseSetup", "from orig_base import BaseSetup")]
)
orig_multi = load_orig(
    "multi",
    [
        ("from pyoma2.setup.base import BaseSetup", "from orig_base import BaseSetup"),
        ("from pyoma2.setup.single import SingleSetup", "from orig_single import SingleSetup"),
    ],
)
OldBase = orig_base.BaseSetup
OldSingle = orig_single.SingleSetup
OldMulti = orig_multi.MultiSetup_PreGER
assert OldBase is not NewBase and OldMulti is not NewMulti and OldSingle is not NewSingle
assert OldMulti.__mro__[1] is OldBase and OldSingle.__mro__[1] is OldBase

RTOL = 1e-12
problems = []
n_cases = 0


def eq(a, b):
    """Structural comparison of results (arrays, scalars, lists, dicts, tuples)."""
    if isinstance(a, dict) and isinstance(b, dict):
        return a.keys() == b.keys() and all(eq(a[k], b[k]) for k in a)
    if isinstance(a, (list, tuple)) and isinstance(b, (list, tuple)):
        return len(a) == len(b) and all(eq(x, y) for x, y in zip(a, b))
    if a is None or b is None or isinstance(a, str) or isinstance(b, str):
        return type(a) is type(b) and a == b
    a = np.asarray(a)
    b = np.asarray(b)
    if a.shape != b.shape or (a.dtype == object) != (b.dtype == object):
        return False
    if a.dtype == object:
        return bool(np.all(a == b))
    if np.array_equal(a, b, equal_nan=True):
        return True
    return bool(np.allclose(a, b, rtol=RTOL, atol=0, equal_nan=True))


def outcome(func, *args, **kwargs):
    try:
        return ("ok", func(*args, **kwargs))
    except Exception as exc:  # noqa: BLE001 - the exception is part of the behaviour
        return ("raise", type(exc).__name__, str(exc))


def compare(label, old, new):
    global n_cases
    n_cases += 1
    if old[0] != new[0]:
        problems.append(f"{label}: old {old[:2]} vs new {new[:2]}")
    elif old[0] == "raise":
        if old != new:
            problems.append(f"{label}: exceptions differ: {old} vs {new}")
    elif not eq(old[1], new[1]):
        problems.append(f"{label}: results differ")


# ------------------------------------------------------------------ random material
def rand_decimate_kwargs(rng, allow_bad=True):
    kw = {}
    if rng.random() < 0.45:
        kw["ftype"] = str(rng.choice(["iir", "fir"]))
    if rng.random() < 0.4:
        kw["n"] = int(rng.integers(2, 9)) if kw.get("ftype", "iir") == "iir" else int(rng.integers(6, 30))
    if rng.random() < 0.4:
        kw["zero_phase"] = bool(rng.integers(0, 2))
    if rng.random() < 0.15:
        kw["axis"] = int(rng.choice([0, 1, -1]))
    if allow_bad and rng.random() < 0.08:
        kw["window"] = "hann"  # not a scipy.signal.decimate keyword
    if allow_bad and rng.random() < 0.05:
        kw["ftype"] = "bogus"
    return kw


def rand_op(rng):
    r = rng.random()
    if r < 0.35:
        q = int(rng.integers(2, 6)) if rng.random() < 0.93 else int(rng.choice([0, 1, 13]))
        return ("decimate", (q,), rand_decimate_kwargs(rng))
    if r < 0.55:
        kw = {}
        if rng.random() < 0.7:
            kw["type"] = str(rng.choice(["linear", "constant"]))
        if rng.random() < 0.15:
            kw["bp"] = [int(rng.integers(5, 40))]
        if rng.random() < 0.05:
            kw["type"] = "cubic"
        return ("detrend", (), kw)
    if r < 0.8:
        btype = str(rng.choice(["lowpass", "highpass", "bandpass", "bandstop"]))
        if btype in ("lowpass", "highpass"):
            Wn = float(rng.uniform(0.5, 4.0))
        else:
            lo = float(rng.uniform(0.3, 1.5))
            Wn = (lo, lo + float(rng.uniform(0.5, 2.0)))
        if rng.random() < 0.06:
            Wn = 1e4  # above Nyquist -> scipy raises
        kw = dict(Wn=Wn, btype=btype)
        if rng.random() < 0.8:
            kw["order"] = int(rng.integers(1, 7))
        return ("filter", (), kw)
    if r < 0.9:
        return ("rollback", (), {})
    return ("add_algorithms", (), {})


def do(setup, op, k):
    name, args, kw = op
    kw = copy.deepcopy(kw)
    if name == "decimate":
        return setup.decimate_data(*args, **kw)
    if name == "detrend":
        return setup.detrend_data(**kw)
    if name == "filter":
        return setup.filter_data(**kw)
    if name == "rollback":
        return setup.rollback()
    if name == "add_algorithms":
        return setup.add_algorithms(FDD(name=f"FDD{k}"))
    raise ValueError(name)


def snapshot_single(ss):
    return {
        "data": ss.data,
        "fs": ss.fs,
        "dt": ss.dt,
        "Ndat": ss.Ndat,
        "T": ss.T,
        "Nch": ss.Nch,
        "initial": ss._initial_data,
        "initial_fs": ss._initial_fs,
        "algs": [(n, a.data, a.fs, a.dt) for n, a in ss.algorithms.items()],
    }


def snapshot_multi(ms):
    return {
        "datasets": list(ms.datasets),
        "data": [dict(d) for d in ms.data],
        "fs": ms.fs,
        "dt": ms.dt,
        "Ndats": list(ms.Ndats),
        "Ts": list(ms.Ts),
        "Nchs": list(ms.Nchs),
        "Nsetup": ms.Nsetup,
        "ref_ind": ms.ref_ind,
        "initial": list(ms._initial_datasets),
        "initial_fs": ms._initial_fs,
        "initial_ref": ms._initial_ref_ind,
        "algs": [
            (n, [dict(d) for d in a.data], a.fs, a.dt) for n, a in ms.algorithms.items()
        ],
    }


# -------------------------------------------------------------------- the comparisons
def static_helpers(rng, n=60):
    for i in range(n):
        shape = (int(rng.integers(40, 400)), int(rng.integers(1, 6)))
        data = rng.standard_normal(shape).cumsum(axis=0)
        if rng.random() < 0.2:
            data = data[:, 0]
        fs = float(rng.choice([50.0, 100.0, 128.0, 200.0 / 3]))
        q = int(rng.integers(2, 8)) if rng.random() < 0.9 else int(rng.choice([0, 1]))
        kw = rand_decimate_kwargs(rng)
        if data.ndim == 1:
            kw.pop("axis", None)
        old = outcome(OldBase._decimate_data, data.copy(), fs, q, **kw)
        new = outcome(NewBase._decimate_data, data.copy(), fs, q, **kw)
        compare(f"_decimate_data #{i} q={q} {kw}", old, new)
        if new[0] == "ok":
            res = new[1]
            same_fields = (
                len(res) == 5
                and res.data is res[0]
                and res.fs == res[1]
                and res.dt == res[2]
                and res.Ndat == res[3]
                and res.T == res[4]
            )
            if not same_fields:
                problems.append(f"_decimate_data #{i}: named fields do not match positions")
        dkw = {}
        if rng.random() < 0.5:
            dkw["type"] = str(rng.choice(["linear", "constant"]))
        if rng.random() < 0.2 and data.ndim == 2:
            dkw["axis"] = int(rng.choice([0, 1]))
        compare(
            f"_detrend_data #{i} {dkw}",
            outcome(OldBase._detrend_data, data.copy(), **dkw),
            outcome(NewBase._detrend_data, data.copy(), **dkw),
        )
        fkw = dict(Wn=float(rng.uniform(1, 20)), btype=str(rng.choice(["lowpass", "highpass"])))
        if rng.random() < 0.7:
            fkw["order"] = int(rng.integers(1, 9))
        compare(
            f"_filter_data #{i} {fkw}",
            outcome(OldBase._filter_data, data.copy(), fs, **fkw),
            outcome(NewBase._filter_data, data.copy(), fs, **fkw),
        )


def decimate_options(rng, n=40):
    """The new helper must reproduce what MultiSetup_PreGER.decimate_data popped by hand."""
    for i in range(n):
        kw = rand_decimate_kwargs(rng)
        mine = dict(kw)
        n_ = mine.pop("n", None)
        ftype = mine.pop("ftype", "iir")
        axis = mine.pop("axis", 0)
        zero_phase = mine.pop("zero_phase", True)
        theirs = dict(kw)
        opts = NewBase._decimate_options(theirs)
        global n_cases
        n_cases += 1
        if opts != dict(n=n_, ftype=ftype, axis=axis, zero_phase=zero_phase) or theirs != mine:
            problems.append(f"_decimate_options #{i} {kw}: {opts} / left {theirs}")


def histories_single(rng, n=60):
    for i in range(n):
        nch = int(rng.integers(2, 6))
        nsamp = int(rng.integers(300, 900))
        fs = float(rng.choice([50.0, 100.0, 128.0]))
        data = rng.standard_normal((nsamp, nch)).cumsum(axis=0)
        a_old, a_new = data.copy(), data.copy()
        old, new = OldSingle(a_old, fs=fs), NewSingle(a_new, fs=fs)
        hist = [rand_op(rng) for _ in range(int(rng.integers(1, 6)))]
        for k, op in enumerate(hist):
            compare(
                f"single #{i} step {k} {op}: outcome",
                outcome(do, old, op, k),
                outcome(do, new, op, k),
            )
            compare(
                f"single #{i} step {k} {op}: state",
                ("ok", snapshot_single(old)),
                ("ok", snapshot_single(new)),
            )
        compare(f"single #{i}: user array", ("ok", a_old), ("ok", a_new))
        if not np.array_equal(a_new, data):
            problems.append(f"single #{i}: user array modified")


def histories_multi(rng, n=90):
    for i in range(n):
        nset = int(rng.integers(1, 4))
        nchs = [int(rng.integers(2, 6)) for _ in range(nset)]
        nref = int(rng.integers(1, min(nchs)))
        ref_ind = [[int(x) for x in rng.permutation(c)[:nref]] for c in nchs]
        same_len = rng.random() < 0.5
        n0 = int(rng.integers(300, 800))
        lens = [n0 if same_len else int(rng.integers(300, 800)) for _ in range(nset)]
        fs = float(rng.choice([50.0, 100.0, 128.0]))
        datasets = [rng.standard_normal((m, c)).cumsum(axis=0) for m, c in zip(lens, nchs)]
        d_old = [d.copy() for d in datasets]
        d_new = [d.copy() for d in datasets]
        old = OldMulti(fs=fs, ref_ind=copy.deepcopy(ref_ind), datasets=d_old)
        new = NewMulti(fs=fs, ref_ind=copy.deepcopy(ref_ind), datasets=d_new)
        hist = [rand_op(rng) for _ in range(int(rng.integers(1, 6)))]
        for k, op in enumerate(hist):
            compare(
                f"multi #{i} ({nset} sets, ref {ref_ind}) step {k} {op}: outcome",
                outcome(do, old, op, k),
                outcome(do, new, op, k),
            )
            compare(
                f"multi #{i} ({nset} sets, ref {ref_ind}) step {k} {op}: state",
                ("ok", snapshot_multi(old)),
                ("ok", snapshot_multi(new)),
            )
        compare(f"multi #{i}: user arrays", ("ok", d_old), ("ok", d_new))
        if not all(np.array_equal(a, b) for a, b in zip(d_new, datasets)):
            problems.append(f"multi #{i}: user arrays modified")


def main():
    rng = np.random.default_rng(20240914)
    static_helpers(rng)
    decimate_options(rng)
    histories_single(rng)
    histories_multi(rng)
    if problems:
        print(f"FAIL: {len(problems)} difference(s) in {n_cases} comparisons")
        for p in problems[:15]:
            print("  -", p)
        return 1
    print(f"PASS ({n_cases} comparisons)")
    return 0


if __name__ == "__main__":
    sys.exit(main())
