# -*- coding: utf-8 -*-
"""
Equivalence check for the Q02 (property C02) refactoring.

Runs the refactored routines (pyoma2.functions.gen.{MSF, merge_mode_shapes},
pyoma2.setup.multi.MultiSetup_PoSER) and the ORIGINAL ones (pristine copies of HEAD,
orig_gen.py / orig_multi.py, imported by path) on random inputs that cover the
quantifier of the property and asserts bit-identical outputs / equal exceptions.

Usage:  PYTHONPATH=/tmp/wt/Q02/src /venv/bin/python /tmp/wt/Q02/_refactor/equiv.py
"""
import importlib.util
import logging
import os
import sys
import types
import warnings

import numpy as np

HERE = os.path.dirname(os.path.abspath(__file__))


def _load(name, fname):
    spec = importlib.util.spec_from_file_location(name, os.path.join(HERE, fname))
    mod = importlib.util.module_from_spec(spec)
    sys.modules[name] = mod
    spec.loader.exec_module(mod)
    return mod


import pyoma2.functions.gen as new_gen  # noqa: E402
import pyoma2.setup.multi as new_multi  # noqa: E402

assert os.path.realpath(new_gen.__file__).startswith("/tmp/wt/Q02/src/"), new_gen.__file__
assert os.path.realpath(new_multi.__file__).startswith("/tmp/wt/Q02/src/")

orig_gen = _load("orig_gen", "orig_gen.py")
orig_multi = _load("orig_multi", "orig_multi.py")
# the pristine multi.py imports merge_mode_shapes from the (refactored) package: give it
# the pristine one, so that "original" really means original in both layers
orig_multi.merge_mode_shapes = orig_gen.merge_mode_shapes
assert new_multi.merge_mode_shapes is new_gen.merge_mode_shapes
assert orig_gen.merge_mode_shapes is not new_gen.merge_mode_shapes

warnings.simplefilter("ignore")  # 0/0 cases are exercised on purpose
logging.disable(logging.CRITICAL)  # the package logs every merge at INFO level
COUNT = {"msf": 0, "merge": 0, "merge_exc": 0, "poser": 0, "poser_exc": 0, "e2e": 0}


# --------------------------------------------------------------------------------------
def same(a, b, what=""):
    """bit-identical arrays: same type, dtype, shape, values (NaN == NaN)"""
    assert type(a) is type(b), (what, type(a), type(b))
    a, b = np.asarray(a), np.asarray(b)
    assert a.dtype == b.dtype, (what, a.dtype, b.dtype)
    assert a.shape == b.shape, (what, a.shape, b.shape)
    assert np.array_equal(a, b, equal_nan=True), (what, a, b)
    # signed zeros as well
    assert np.array_equal(np.signbit(a.real), np.signbit(b.real)), what
    if np.iscomplexobj(a):
        assert np.array_equal(np.signbit(a.imag), np.signbit(b.imag)), what


def call(f, *args, **kw):
    try:
        return ("ok", f(*args, **kw))
    except BaseException as e:  # noqa: BLE001
        return ("exc", e)


def same_outcome(r_new, r_old, what="", cmp=same, same_msg=True):
    assert r_new[0] == r_old[0], (what, r_new, r_old)
    if r_new[0] == "exc":
        assert type(r_new[1]) is type(r_old[1]), (what, r_new, r_old)
        if same_msg:
            assert str(r_new[1]) == str(r_old[1]), (what, r_new, r_old)
        return "exc"
    cmp(r_new[1], r_old[1], what)
    return "ok"


def rand_arr(rng, shape, cplx):
    a = rng.standard_normal(shape)
    if cplx:
        a = a + 1j * rng.standard_normal(shape)
    return a


# --------------------------------------------------------------------------------------
# 1. MSF
# --------------------------------------------------------------------------------------
def check_msf(rng):
    for _ in range(300):
        n = int(rng.integers(1, 12))
        m = int(rng.integers(1, 9))
        kind = rng.integers(0, 6)
        c1, c2 = bool(rng.integers(0, 2)), bool(rng.integers(0, 2))
        if kind == 0:  # two vectors
            p1, p2 = rand_arr(rng, n, c1), rand_arr(rng, n, c2)
        elif kind == 1:  # two matrices
            p1, p2 = rand_arr(rng, (n, m), c1), rand_arr(rng, (n, m), c2)
        elif kind == 2:  # vector vs one-column matrix
            p1, p2 = rand_arr(rng, n, c1), rand_arr(rng, (n, 1), c2)
        elif kind == 3:  # non-contiguous / fortran ordered / float32
            p1 = np.asfortranarray(rand_arr(rng, (n, m), c1))
            p2 = rand_arr(rng, (m, n), c2).T.astype(np.complex64 if c2 else np.float32)
        elif kind == 4:  # shape mismatch -> Exception
            p1, p2 = rand_arr(rng, (n, m), c1), rand_arr(rng, (n + 1, m), c2)
            if rng.integers(0, 2):
                p1, p2 = rand_arr(rng, (n, m), c1), rand_arr(rng, (n, m + 1), c2)
        else:  # a zero column -> nan, integers
            p1 = rng.integers(-3, 4, size=(n, m))
            p1[:, 0] = 0
            p2 = rng.integers(-3, 4, size=(n, m))
        same_outcome(call(new_gen.MSF, p1, p2), call(orig_gen.MSF, p1, p2), "MSF")
        COUNT["msf"] += 1
    # the value pinned by the test-suite
    p1 = np.array([1.0, 2.0, 3.0])
    p2 = np.array([1.5, 2.5, 4.0])
    same(new_gen.MSF(p1, p2), orig_gen.MSF(p1, p2))


# --------------------------------------------------------------------------------------
# 2. merge_mode_shapes
# --------------------------------------------------------------------------------------
def make_case(rng, cplx=None, nsetup=None, nref=None, consistent=True):
    """
    One case of the property's quantifier: a global mode-shape matrix, 2..5 setups,
    1..4 reference sensors at random positions / in random order inside each setup's
    channel list, 0..5 roving sensors per setup, scale factors with magnitude in
    [0.05, 20] and either sign per setup and per mode.
    Returns MSarr_list, reflist, expected merged matrix (scale of the first setup).
    """
    cplx = bool(rng.integers(0, 2)) if cplx is None else cplx
    nsetup = int(rng.integers(2, 6)) if nsetup is None else nsetup
    nref = int(rng.integers(1, 5)) if nref is None else nref
    nmodes = int(rng.integers(1, 9))
    nrov = [int(rng.integers(0, 6)) for _ in range(nsetup)]
    ntot = nref + sum(nrov)
    glob = rand_arr(rng, (ntot, nmodes), cplx)
    ref_rows = list(range(nref))
    rov_rows, start = [], nref
    for r in nrov:
        rov_rows.append(list(range(start, start + r)))
        start += r
    arrs, refl = [], []
    scale0 = None
    for i in range(nsetup):
        nch = nref + nrov[i]
        pos = rng.permutation(nch)[:nref]  # positions (and order) of REF1..REFk
        chan = np.empty(nch, dtype=int)
        chan[pos] = ref_rows
        mask = np.ones(nch, bool)
        mask[pos] = False
        chan[mask] = rov_rows[i]  # roving sensors keep their channel order
        mag = np.exp(rng.uniform(np.log(0.05), np.log(20.0), size=nmodes))
        scale = mag * rng.choice([-1.0, 1.0], size=nmodes)
        if i == 0:
            scale0 = scale
        phi = glob[chan, :] * scale
        if not consistent:  # arbitrary (non re-scaled) shapes
            phi = phi + rand_arr(rng, phi.shape, cplx)
        arrs.append(phi)
        refl.append([int(p) for p in pos])
    return arrs, refl, glob * scale0


def check_merge(rng):
    # 2a. the quantifier of the property (+ the property itself as a sanity check)
    for it in range(400):
        arrs, refl, expected = make_case(rng, consistent=(it % 4 != 3))
        r_new = call(new_gen.merge_mode_shapes, arrs, refl)
        r_old = call(orig_gen.merge_mode_shapes, arrs, refl)
        assert r_new[0] == "ok", r_new
        same_outcome(r_new, r_old, "merge")
        assert r_new[1].dtype == np.complex128
        if it % 4 != 3:
            assert np.allclose(r_new[1], expected, rtol=1e-9, atol=1e-12)
        COUNT["merge"] += 1
    # 2b. all combinations of the small parameters once, real and complex
    for cplx in (False, True):
        for nsetup in range(2, 6):
            for nref in range(1, 5):
                arrs, refl, _ = make_case(rng, cplx=cplx, nsetup=nsetup, nref=nref)
                same(
                    new_gen.merge_mode_shapes(arrs, refl),
                    orig_gen.merge_mode_shapes(arrs, refl),
                    "merge grid",
                )
                COUNT["merge"] += 1
    # 2c. other flavours of valid input: keyword call, tuples / arrays as containers,
    # mixed real/complex setups, float32, fortran order, negative indices, >4 references
    for it in range(120):
        arrs, refl, _ = make_case(rng, nref=int(rng.integers(1, 9)))
        k = it % 6
        if k == 0:
            arrs[-1] = arrs[-1] * (1 + 0.5j)
        elif k == 1:
            arrs = [np.asfortranarray(a) for a in arrs]
        elif k == 2:
            arrs = [a.astype(np.complex64 if np.iscomplexobj(a) else np.float32) for a in arrs]
        elif k == 3:
            refl = [np.array(r) for r in refl]
        elif k == 4:
            refl = [[j - a.shape[0] for j in r] for r, a in zip(refl, arrs)]
        else:
            arrs, refl = tuple(arrs), tuple(refl)
        same_outcome(
            call(new_gen.merge_mode_shapes, MSarr_list=arrs, reflist=refl),
            call(orig_gen.merge_mode_shapes, MSarr_list=arrs, reflist=refl),
            "merge flavours",
        )
        COUNT["merge"] += 1
    # 2d. the inputs of the unit tests
    a = [np.array([[1, 2], [3, 4]]), np.array([[5, 6], [7, 8]])]
    same(
        new_gen.merge_mode_shapes(a, [[0], [1]]), orig_gen.merge_mode_shapes(a, [[0], [1]])
    )
    # 2e. invalid input -> same exception
    bad = []
    a = [np.array([[1, 2], [3, 4]]), np.array([[5], [7]])]
    bad.append((a, [[0], [1], [2]], True))  # different number of modes (unit test)
    arrs, refl, _ = make_case(rng, nsetup=3, nref=2)
    # reference lists of different length: Exception raised by MSF in both versions; the
    # text quotes the shapes handed to MSF, (k, Nmodes) now and (k, 1) before
    bad.append((arrs, [refl[0], refl[1] + [0], refl[2]], False))
    bad.append((arrs, [refl[0], [refl[1][0]] * 2, refl[2]], False))  # duplicated reference
    bad.append((arrs, [[refl[0][0]] * 2, refl[1], refl[2]], False))
    bad.append((arrs, [refl[0], [0, 99], refl[2]], False))  # index out of range
    bad.append((arrs, [[0, 99], refl[1], refl[2]], False))
    bad.append((arrs, refl[:2], True))  # fewer reference lists than setups
    bad.append(([arrs[0], arrs[1][:, 0], arrs[2]], refl, True))  # 1-D mode shape
    bad.append(([], [], True))
    bad.append((arrs, [], True))
    for arrs_, refl_, same_msg in bad:
        r_new = call(new_gen.merge_mode_shapes, arrs_, refl_)
        r_old = call(orig_gen.merge_mode_shapes, arrs_, refl_)
        assert r_old[0] == "exc" and r_new[0] == "exc", (r_new, r_old)
        same_outcome(r_new, r_old, "merge exc", same_msg=same_msg)
        COUNT["merge_exc"] += 1


# --------------------------------------------------------------------------------------
# 3. MultiSetup_PoSER (calling layer), with light-weight stand-ins for the setups
# --------------------------------------------------------------------------------------
class _Res:
    def __init__(self, Fn, Xi, Phi):
        self.Fn, self.Xi, self.Phi = Fn, Xi, Phi


class AlgA:
    def __init__(self, name, result):
        self.name, self.result = name, result


class AlgB(AlgA):
    pass


def same_results(d_new, d_old, what=""):
    assert type(d_new) is type(d_old) is dict
    assert list(d_new) == list(d_old), (what, list(d_new), list(d_old))
    for key in d_new:
        rn, ro = d_new[key], d_old[key]
        assert type(rn).__name__ == type(ro).__name__ == "MsPoserResult"
        assert set(rn.model_dump()) == set(ro.model_dump())
        for field in ("Phi", "Fn", "Fn_cov", "Xi", "Xi_cov"):
            same(getattr(rn, field), getattr(ro, field), f"{what} {key}.{field}")


def check_poser(rng):
    for it in range(60):
        nalg = int(rng.integers(1, 4))
        # make_case draws random layouts: fix the seed per algorithm so that all the
        # algorithms of one setup share the reference indices
        st = rng.integers(0, 2**31)
        sub = np.random.default_rng(st)
        nsetup = int(sub.integers(2, 6))
        nref = int(sub.integers(1, 5))
        base, refl, _ = make_case(sub, nsetup=nsetup, nref=nref)
        classes = [AlgA if rng.integers(0, 2) else AlgB for _ in range(nalg)]
        setups = []
        nmodes_alg = [int(rng.integers(1, 9)) for _ in range(nalg)]
        cplx_alg = [bool(rng.integers(0, 2)) for _ in range(nalg)]
        nch = [a.shape[0] for a in base]
        ntot = nref + sum(n - nref for n in nch)
        globs = [rand_arr(rng, (ntot, nmodes_alg[j]), cplx_alg[j]) for j in range(nalg)]
        fn0 = [np.sort(rng.uniform(0.5, 30.0, nmodes_alg[j])) for j in range(nalg)]
        xi0 = [rng.uniform(0.002, 0.08, nmodes_alg[j]) for j in range(nalg)]
        start = nref
        for i in range(nsetup):
            rov = list(range(start, start + nch[i] - nref))
            start += nch[i] - nref
            chan = np.empty(nch[i], dtype=int)
            chan[refl[i]] = range(nref)
            mask = np.ones(nch[i], bool)
            mask[refl[i]] = False
            chan[mask] = rov
            algs = {}
            for j in range(nalg):
                mag = np.exp(rng.uniform(np.log(0.05), np.log(20.0), nmodes_alg[j]))
                phi = globs[j][chan, :] * mag * rng.choice([-1.0, 1.0], nmodes_alg[j])
                fn = fn0[j] * (1 + 1e-3 * rng.standard_normal(nmodes_alg[j]))
                xi = xi0[j] * (1 + 1e-1 * rng.standard_normal(nmodes_alg[j]))
                if it % 5 == 4:
                    fn, xi = fn.tolist(), xi.tolist()
                algs[f"alg{j}"] = classes[j](f"alg{j}_s{i}", _Res(fn, xi, phi))
            setups.append(types.SimpleNamespace(algorithms=algs))
        names = [f"name{j}" for j in range(nalg)]
        if nalg > 1 and it % 7 == 6:
            names[1] = names[0]  # duplicated name -> the groups are pooled
            # pooled groups must have the same number of modes and channels
            for s in setups:
                s.algorithms["alg1"].result = s.algorithms["alg0"].result

        m_new = new_multi.MultiSetup_PoSER(ref_ind=refl, single_setups=setups, names=names)
        m_old = orig_multi.MultiSetup_PoSER(ref_ind=refl, single_setups=setups, names=names)
        for m in (m_new, m_old):
            assert m.setups == setups and m.ref_ind is refl and m.names is names
        same_outcome(
            call(lambda: m_new.result), call(lambda: m_old.result), "result before merge"
        )
        if len(set(names)) < len(names):
            # pooled groups: twice as many shapes as reference lists; whatever the
            # original does with that (here: an IndexError), the refactoring does too
            kind = same_outcome(
                call(m_new.merge_results),
                call(m_old.merge_results),
                "pooled",
                cmp=same_results,
                same_msg=False,
            )
            COUNT["poser_exc" if kind == "exc" else "poser"] += 1
            continue
        res_new, res_old = m_new.merge_results(), m_old.merge_results()
        same_results(res_new, res_old, "merge_results")
        assert m_new.result is res_new and m_old.result is res_old
        # a second call gives the same again
        same_results(m_new.merge_results(), m_old.merge_results(), "merge_results #2")
        # mean / population std over setups (the property), for the first group
        if len(set(names)) == len(names):
            fn_all = np.array([s.algorithms["alg0"].result.Fn for s in setups])
            assert np.allclose(res_new["name0"].Fn, fn_all.mean(axis=0))
            assert np.allclose(
                res_new["name0"].Fn_cov, fn_all.std(axis=0, ddof=0) / fn_all.mean(axis=0)
            )
        COUNT["poser"] += 1

    # invalid construction / merging -> same exceptions, same messages
    ok = lambda nm="a": AlgA(nm, _Res(np.ones(2), np.ones(2), np.ones((3, 2))))  # noqa: E731
    okb = lambda nm="b": AlgB(nm, _Res(np.ones(2), np.ones(2), np.ones((3, 2))))  # noqa: E731
    S = lambda **algs: types.SimpleNamespace(algorithms=algs)  # noqa: E731
    ri = [[0], [0], [0]]
    bad_init = [
        dict(ref_ind=ri, single_setups=[], names=["x"]),
        dict(ref_ind=ri, single_setups=None, names=["x"]),
        dict(ref_ind=ri, single_setups=[S(a=ok())], names=["x"]),
        dict(ref_ind=ri, single_setups=[S(a=ok()), S()], names=["x"]),
        dict(ref_ind=ri, single_setups=[S(a=ok()), S(a=okb())], names=["x"]),
        dict(ref_ind=ri, single_setups=[S(a=ok(), b=okb()), S(a=okb(), b=ok())], names=["x", "y"]),
        dict(ref_ind=ri, single_setups=[S(a=ok(), b=okb()), S(a=ok())], names=["x", "y"]),
        dict(ref_ind=ri, single_setups=[S(a=ok()), S(a=ok(), b=okb())], names=["x"]),
        dict(ref_ind=ri, single_setups=[S(a=ok()), S(a=ok())], names=["x", "y"]),
        dict(ref_ind=ri, single_setups=[S(a=ok()), S(a=ok())], names=[]),
        dict(ref_ind=ri, single_setups=[S(a=ok()), S(a=AlgA("n", None))], names=["x"]),
        dict(
            ref_ind=ri,
            single_setups=[S(a=ok()), S(a=AlgA("n", _Res(None, None, None)))],
            names=["x"],
        ),
    ]
    for kw in bad_init:
        r_new = call(new_multi.MultiSetup_PoSER, **kw)
        r_old = call(orig_multi.MultiSetup_PoSER, **kw)
        assert r_old[0] == "exc", r_old
        same_outcome(r_new, r_old, "poser init exc")
        COUNT["poser_exc"] += 1
    # failures inside merge_results: different number of modes between setups (ragged
    # Fn), different number of modes in Phi, wrong reference lists
    rag = [S(a=ok()), S(a=AlgA("n", _Res(np.ones(3), np.ones(3), np.ones((3, 3)))))]
    rag_phi = [S(a=ok()), S(a=AlgA("n", _Res(np.ones(2), np.ones(2), np.ones((3, 3)))))]
    rag_xi = [S(a=ok()), S(a=AlgA("n", _Res(np.ones(2), np.ones(3), np.ones((3, 2)))))]
    for setups, refl, same_msg in [
        (rag, ri, True),
        (rag_phi, ri, True),
        (rag_xi, ri, True),
        ([S(a=ok()), S(a=ok())], [[0], [0, 1]], False),  # see 2e: text quotes the shapes
        ([S(a=ok()), S(a=ok())], [[0]], True),
        ([S(a=ok()), S(a=ok())], [[0], [7]], False),
    ]:
        m_new = new_multi.MultiSetup_PoSER(refl, setups, ["x"])
        m_old = orig_multi.MultiSetup_PoSER(refl, setups, ["x"])
        r_new, r_old = call(m_new.merge_results), call(m_old.merge_results)
        assert r_old[0] == "exc", r_old
        same_outcome(r_new, r_old, "poser merge exc", same_msg=same_msg)
        # the failed merge leaves both objects without result
        same_outcome(call(lambda: m_new.result), call(lambda: m_old.result), "no result")
        COUNT["poser_exc"] += 1


# --------------------------------------------------------------------------------------
# 4. end-to-end: shapes from SSI runs on noise-free data of one global system recorded
#    with different amplitudes
# --------------------------------------------------------------------------------------
def check_end_to_end(rng):
    from scipy import linalg, signal

    from pyoma2.algorithms import SSIcov
    from pyoma2.setup import SingleSetup

    ndof, fs, T = 7, 50.0, 200.0
    k, m = 3000.0, 10.0
    K = k * (2 * np.eye(ndof) - np.eye(ndof, k=1) - np.eye(ndof, k=-1))
    K[-1, -1] = k
    M = m * np.eye(ndof)
    lam, FI = linalg.eigh(K, b=M)
    fn = np.sqrt(lam) / (2 * np.pi)
    xi = 0.01
    C = linalg.inv(FI.T) @ np.diag(2 * xi * np.sqrt(lam)) @ linalg.inv(FI)
    A = np.block([[np.zeros((ndof, ndof)), np.eye(ndof)], [-linalg.solve(M, K), -linalg.solve(M, C)]])
    B = np.vstack([np.zeros((ndof, ndof)), linalg.inv(M)])
    Cc = np.hstack([-linalg.solve(M, K), -linalg.solve(M, C)])
    D = linalg.inv(M)
    sys_ = signal.lti(A, B, Cc, D)
    t = np.arange(0, T, 1 / fs)
    layouts = [[0, 3, 1, 6], [2, 6, 0, 4], [5, 0, 6]]  # global dofs per channel
    ref_ind = [[0, 3], [2, 1], [1, 2]]  # channels that carry dof 0 (REF1) and dof 6 (REF2)
    sel = [float(f) for f in fn[1:4]]
    setups = []
    for i, lay in enumerate(layouts):
        u = rng.standard_normal((t.size, ndof))  # a different (noise-free) record
        _, y, _ = signal.lsim(sys_, U=u, T=t)
        amp = [1.0, -7.5, 0.2][i]
        ss = SingleSetup(amp * y[:, lay], fs=fs)
        alg = SSIcov(name=f"ssi{i}", br=20, ordmax=40, method="cov_mm")
        ss.add_algorithms(alg)
        ss.run_all()
        ss.mpe(f"ssi{i}", sel_freq=sel, order=30)
        setups.append(ss)
    m_new = new_multi.MultiSetup_PoSER(ref_ind=ref_ind, single_setups=setups, names=["SSI"])
    m_old = orig_multi.MultiSetup_PoSER(ref_ind=ref_ind, single_setups=setups, names=["SSI"])
    res_new, res_old = m_new.merge_results(), m_old.merge_results()
    same_results(res_new, res_old, "end-to-end")
    assert res_new["SSI"].Phi.shape == (2 + 2 + 2 + 1, 3)
    COUNT["e2e"] += 1


# --------------------------------------------------------------------------------------
if __name__ == "__main__":
    for seed in (0, 1, 2):
        rng = np.random.default_rng(seed)
        check_msf(rng)
        check_merge(rng)
        check_poser(rng)
    check_end_to_end(np.random.default_rng(7))
    print("cases:", COUNT)
    print("PASS")
