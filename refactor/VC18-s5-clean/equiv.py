"""Differential test: library under PYTHONPATH (CLEAN version) against the pristine
sources saved next to this file (orig_gen.py, orig_plot.py).

Run as:  PYTHONPATH=<tree>/src /venv/bin/python equiv.py
"""
import importlib.util
import os
import sys
import types
import warnings

import matplotlib

matplotlib.use("Agg")
import matplotlib.pyplot as plt  # noqa: E402
import numpy as np  # noqa: E402

from pyoma2.functions import gen as new_gen  # noqa: E402
from pyoma2.functions import plot as new_plot  # noqa: E402

warnings.simplefilter("ignore")
HERE = os.path.dirname(os.path.abspath(__file__))

# pristine copies, loaded as a private package so that `from .gen import MAC` in
# the plot module resolves to the pristine gen module
pkg = types.ModuleType("c18_orig")
pkg.__path__ = [HERE]
sys.modules["c18_orig"] = pkg


def _load(name, fname):
    spec = importlib.util.spec_from_file_location(
        f"c18_orig.{name}", os.path.join(HERE, fname)
    )
    mod = importlib.util.module_from_spec(spec)
    sys.modules[f"c18_orig.{name}"] = mod
    spec.loader.exec_module(mod)
    return mod


old_gen = _load("gen", "orig_gen.py")
old_plot = _load("plot", "orig_plot.py")
assert old_plot.MAC is old_gen.MAC and new_plot.MAC is new_gen.MAC

rng = np.random.default_rng(20241018)
fails = []
ncases = 0


def call(f, *a, **k):
    try:
        return ("ok", f(*[np.copy(x) if isinstance(x, np.ndarray) else x for x in a], **k))
    except Exception as e:  # noqa: BLE001
        return ("exc", e)


def same(x, y):
    if isinstance(x, (tuple, list)):
        return len(x) == len(y) and all(same(p, q) for p, q in zip(x, y))
    x, y = np.asarray(x), np.asarray(y)
    if x.shape != y.shape:
        return False
    return np.array_equal(x, y, equal_nan=True) or np.allclose(
        x, y, rtol=1e-12, equal_nan=True
    )


def compare(label, fname, *a, mod=("gen"), **k):
    global ncases
    ncases += 1
    fo = getattr(old_gen if mod == "gen" else old_plot, fname)
    fn = getattr(new_gen if mod == "gen" else new_plot, fname)
    ro, rn = call(fo, *a, **k), call(fn, *a, **k)
    if ro[0] != rn[0]:
        fails.append(f"{label}: original -> {ro[0]} ({ro[1]!r}), new -> {rn[0]} ({rn[1]!r})")
    elif ro[0] == "exc":
        if not isinstance(rn[1], type(ro[1])):
            fails.append(f"{label}: exception {type(ro[1])} became {type(rn[1])}")
    elif not same(ro[1], rn[1]):
        fails.append(f"{label}: results differ\n   old {ro[1]!r}\n   new {rn[1]!r}")


def shapes(n, k=None, kind="c"):
    size = (n,) if k is None else (n, k)
    if kind == "c":
        x = rng.standard_normal(size) + 1j * rng.standard_normal(size)
    elif kind == "f":
        x = rng.standard_normal(size)
    elif kind == "i":
        x = rng.integers(-9, 10, size)
        x[0] = 3  # never all zero
    elif kind == "near":  # nearly real shapes
        x = rng.standard_normal(size) * np.exp(1j * 0.7) + 1e-9j * rng.standard_normal(size)
    elif kind == "unit":
        x = rng.standard_normal(size) + 1j * rng.standard_normal(size)
        x = x / x[np.argmax(np.abs(x), axis=0), np.arange(x.shape[1])] if x.ndim == 2 else x / x[np.argmax(np.abs(x))]
        x[rng.integers(n)] = 0
    return x * 10.0 ** rng.uniform(-6, 6)


KINDS = ["c", "f", "i", "near", "unit"]

# ---------------------------------------------------------------- MAC
for t in range(60):
    n = int(rng.integers(2, 65))
    kx = None if rng.random() < 0.3 else int(rng.integers(1, 7))
    ka = None if rng.random() < 0.3 else int(rng.integers(1, 7))
    X = shapes(n, kx, KINDS[t % 5])
    A = shapes(n, ka, KINDS[(t // 5) % 5])
    compare(f"MAC #{t} {X.shape}x{A.shape}", "MAC", X, A)
compare("MAC first dim", "MAC", shapes(5, 2), shapes(6, 2))
compare("MAC first dim 1-D", "MAC", shapes(5), shapes(6))
compare("MAC row vector", "MAC", shapes(3)[None, :], shapes(4))
compare("MAC 3-D", "MAC", shapes(3)[None, None, :], shapes(4))
compare("MAC 3-D second", "MAC", shapes(4), shapes(8).reshape(2, 2, 2))
compare("MAC no modes", "MAC", np.zeros((4, 0)), shapes(4, 3))

# ---------------------------------------------------------------- MPC, MPD, MCF
for t in range(50):
    n = int(rng.integers(2, 65))
    v = shapes(n, None, KINDS[t % 5])
    if v.dtype.kind == "i":
        v = v.astype(float)
    compare(f"MPC #{t}", "MPC", v)
    compare(f"MPD #{t}", "MPD", v)
    compare(f"MCF #{t}", "MCF", v)
    k = int(rng.integers(1, 6))
    compare(f"MCF set #{t}", "MCF", shapes(n, k, KINDS[t % 5]))
    # exactly collinear shape
    r = rng.standard_normal(n)
    c = 10.0 ** rng.uniform(-6, 6) * np.exp(1j * rng.uniform(0, 6.28))
    for f in ("MPC", "MPD", "MCF"):
        compare(f"{f} collinear #{t}", f, c * r)
    compare(f"MAC collinear #{t}", "MAC", c * r, r)

# ---------------------------------------------------------------- MSF
for t in range(40):
    n = int(rng.integers(2, 65))
    k = None if t % 2 else int(rng.integers(1, 6))
    a, b = shapes(n, k, KINDS[t % 5]), shapes(n, k, KINDS[(t + 2) % 5])
    compare(f"MSF #{t}", "MSF", a, b)
    compare(f"MSF scaled #{t}", "MSF", a, rng.uniform(-9, 9) * a)
compare("MSF shape", "MSF", shapes(3), shapes(4))
compare("MSF shape 2", "MSF", shapes(4, 2), shapes(4, 3))
compare("MSF shape 3", "MSF", shapes(4), shapes(4, 2))

# ---------------------------------------------------------------- callers in gen
for t in range(25):
    nset = int(rng.integers(2, 5))
    nref = int(rng.integers(1, 4))
    nmodes = int(rng.integers(1, 5))
    arrs, refs = [], []
    for _ in range(nset):
        nch = nref + int(rng.integers(1, 5))
        arrs.append(shapes(nch, nmodes, "c" if t % 3 else "f"))
        refs.append([int(x) for x in rng.permutation(nch)[:nref]])
    compare(f"merge_mode_shapes #{t}", "merge_mode_shapes", arrs, refs)
compare(
    "merge_mode_shapes modes", "merge_mode_shapes",
    [shapes(3, 2), shapes(3, 1)], [[0], [1]],
)

for t in range(12):
    nord, npol, nch = int(rng.integers(2, 7)), int(rng.integers(2, 9)), int(rng.integers(2, 9))
    Phi = shapes(nord * npol * nch, None, "c" if t % 2 else "near").reshape(nord, npol, nch)
    Phi[rng.random((nord, npol)) < 0.25] = np.nan
    compare(f"HC_phi_comp #{t}", "HC_phi_comp", Phi, 0.7 if t % 2 else 0.999, 0.3 if t % 2 else 1e-3)
    step = int(rng.integers(1, 3))
    ordmax = (nord - 1) * step
    Fn = rng.uniform(1, 10, (npol, nord))
    Xi = rng.uniform(0.001, 0.1, (npol, nord))
    Fn[rng.random((npol, nord)) < 0.2] = np.nan
    PhiS = np.moveaxis(Phi, 0, 1)  # (poles, orders, channels)
    compare(
        f"SC_apply #{t}", "SC_apply", Fn, Xi, PhiS, 0, ordmax, step, 0.5, 0.9, 0.9
    )

# ---------------------------------------------------------------- plot_mac_matrix
for t in range(12):
    n, kx, ka = int(rng.integers(2, 30)), int(rng.integers(2, 6)), int(rng.integers(2, 6))
    X, A = shapes(n, kx, KINDS[t % 5]), shapes(n, ka, "c")
    imgs = []
    for mod in (old_plot, new_plot):
        fig, ax = mod.plot_mac_matrix(X.copy(), A.copy())
        imgs.append(np.asarray(ax.images[0].get_array()))
        plt.close(fig)
    ncases += 1
    if not same(imgs[0], imgs[1]):
        fails.append(f"plot_mac_matrix #{t}: plotted matrices differ")
compare("plot_mac_matrix one column", "plot_mac_matrix", shapes(4, 1), shapes(4, 3), mod="plot")

# new conveniences agree with the ndarray form
X, A = shapes(7, 3), shapes(7, 2)
assert same(new_gen.MAC(X.tolist(), tuple(A.tolist())), new_gen.MAC(X, A))
assert same(new_gen.MAC(X[:, 0], A[:, 1], squeeze=False), [[new_gen.MAC(X[:, 0], A[:, 1])]])
assert same(new_gen.MPD(X[:, 0].tolist()), new_gen.MPD(X[:, 0]))
assert same(new_gen.MPC(X[:, [0]]), new_gen.MPC(X[:, 0]))

print(f"{ncases} cases compared")
if fails:
    print("FAIL")
    for f in fails[:15]:
        print(" -", f)
    sys.exit(1)
print("PASS")
sys.exit(0)
