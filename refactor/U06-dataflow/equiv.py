"""
Equivalence check of the U06 refactoring (property C06: FDD picks the dominant line in
the band and its singular vector).

Runs the refactored routines / classes and the ORIGINAL ones (pristine copies
orig_functions_fdd.py / orig_algorithms_fdd.py taken from HEAD) on random inputs and
asserts identical outputs (values bit for bit, dtypes, shapes, NaN patterns, memory
layout of the returned arrays, exception types).

    cd /tmp/wt/U06 && PYTHONPATH=/tmp/wt/U06/src /venv/bin/python _refactor/equiv.py
"""
import importlib.util
import logging
import os
import sys
import warnings

import numpy as np

os.environ.setdefault("MPLBACKEND", "Agg")
HERE = os.path.dirname(os.path.abspath(__file__))

import pyoma2.algorithms.fdd as new_alg  # noqa: E402
import pyoma2.functions.fdd as new_fn  # noqa: E402
from pyoma2.setup.single import SingleSetup  # noqa: E402

assert new_fn.__file__.startswith("/tmp/wt/U06/src/"), new_fn.__file__


def _load(modname, filename):
    spec = importlib.util.spec_from_file_location(modname, os.path.join(HERE, filename))
    mod = importlib.util.module_from_spec(spec)
    sys.modules[modname] = mod
    spec.loader.exec_module(mod)
    return mod


# the package-qualified names make the relative import `from .gen import MAC` work
orig_fn = _load("pyoma2.functions._orig_fdd", "orig_functions_fdd.py")
orig_alg = _load("pyoma2.algorithms._orig_fdd", "orig_algorithms_fdd.py")
# the pristine algorithm layer must call the pristine numerical layer
orig_alg.fdd = orig_fn
assert orig_alg.fdd is orig_fn and new_alg.fdd is new_fn

# silence the progress bars
for m in (orig_fn, new_fn):
    m.tqdm = lambda it, *a, **k: it
    m.trange = lambda *a, **k: range(*a)
logging.disable(logging.CRITICAL)

N_CHECKS = 0


def same(a, b, where, layout=True):
    """Strict equality of two outputs (recursively for tuples / lists / dicts)."""
    global N_CHECKS
    N_CHECKS += 1
    if isinstance(a, (tuple, list)):
        assert type(a) is type(b) and len(a) == len(b), where
        for i, (x, y) in enumerate(zip(a, b)):
            same(x, y, f"{where}[{i}]", layout)
        return
    if isinstance(a, dict):
        assert isinstance(b, dict) and list(a) == list(b), where
        for k in a:
            same(a[k], b[k], f"{where}[{k!r}]", layout)
        return
    if isinstance(a, np.ndarray) or isinstance(b, np.ndarray):
        assert isinstance(a, np.ndarray) and isinstance(b, np.ndarray), where
        assert a.dtype == b.dtype, (where, a.dtype, b.dtype)
        assert a.shape == b.shape, (where, a.shape, b.shape)
        assert np.array_equal(a, b, equal_nan=a.dtype.kind in "fc"), where
        if a.dtype.kind in "fc":  # signed zeros too
            assert np.array_equal(np.signbit(a.real), np.signbit(b.real)), where
        if layout:
            assert a.strides == b.strides, (where, a.strides, b.strides)
            assert a.flags.writeable == b.flags.writeable, where
        return
    if isinstance(a, float) and a != a:
        assert b != b, where
        return
    assert type(a) is type(b) and a == b, (where, a, b)


def outcome(fun, *args, **kwargs):
    with warnings.catch_warnings(record=True) as w:
        warnings.simplefilter("always")
        try:
            val = ("ok", fun(*args, **kwargs))
        except Exception as exc:  # noqa: BLE001
            val = ("exc", type(exc))
    return val, sorted({(x.category.__name__, str(x.message)) for x in w})


def both(name, where, *args, **kwargs):
    """Call the function `name` of both numerical modules, compare, return the value."""
    (o, wo) = outcome(getattr(orig_fn, name), *args, **kwargs)
    (n, wn) = outcome(getattr(new_fn, name), *args, **kwargs)
    assert o[0] == n[0], (where, o, n)
    if o[0] == "exc":
        assert o[1] is n[1], (where, o, n)
    else:
        same(o[1], n[1], where)
    assert wo == wn, (where, wo, wn)
    return o


# ----------------------------------------------------------------------------- inputs
def spectral_sequence(rng, nr, nc, nf, kind):
    """Random spectral matrix sequence (nr, nc, nf)."""
    if kind == "hermitian":  # full psd Hermitian, nr == nc
        A = rng.standard_normal((nf, nr, nr + 2)) + 1j * rng.standard_normal((nf, nr, nr + 2))
        SD = A @ np.conj(np.swapaxes(A, 1, 2))
    elif kind == "narrowband":  # rank one + small noise floor: peaks in sigma1/sigma2
        phi = rng.standard_normal((nr, 3)) + 1j * rng.standard_normal((nr, 3))
        f = np.linspace(0, 1, nf)
        SD = np.zeros((nf, nr, nr), dtype=complex)
        for m, f0 in enumerate((0.2, 0.5, 0.8)):
            bell = 1.0 / ((f - f0) ** 2 + 1e-4)
            SD += bell[:, None, None] * np.outer(phi[:, m], phi[:, m].conj())[None]
        SD += 1e-3 * np.eye(nr)[None]
    elif kind == "real":
        A = rng.standard_normal((nf, nr, nc + 1))
        B = rng.standard_normal((nf, nc, nc + 1))
        SD = A @ np.swapaxes(B, 1, 2)
    elif kind == "complex64":
        SD = (rng.standard_normal((nf, nr, nc)) + 1j * rng.standard_normal((nf, nr, nc))).astype(
            np.complex64
        )
    else:  # general complex, e.g. half spectrum all x ref
        SD = rng.standard_normal((nf, nr, nc)) + 1j * rng.standard_normal((nf, nr, nc))
    SD = np.moveaxis(SD, 0, 2)
    if rng.random() < 0.5:
        SD = np.ascontiguousarray(SD)
    return SD


def check_numerical(rng):
    n_mpe = 0
    for trial in range(60):
        nr = int(rng.integers(2, 9))
        kind = ["hermitian", "narrowband", "half", "real", "complex64", "half"][trial % 6]
        nc = nr if kind in ("hermitian", "narrowband") else int(rng.integers(2, nr + 1))
        nf = int(rng.choice([33, 65, 129, 257]))
        SD = spectral_sequence(rng, nr, nc, nf, kind)
        assert SD.shape == (nr, nc, nf)
        res = both("SD_svalsvec", f"SD_svalsvec[{trial},{kind}]", SD)
        assert res[0] == "ok"
        Sval, Svec = res[1]

        # frequency grids: uniform from 0 (as SD_est), offset, float32-rounded
        fs = float(rng.choice([1.0, 20.0, 100.0, 256.0]))
        freq = np.linspace(0, fs / 2, nf)
        df = freq[1] - freq[0]
        for sub in range(6):
            nsel = int(rng.integers(1, 6))
            sel = rng.uniform(freq[0], freq[-1], nsel)
            DF = float(df * rng.choice([1.0, 1.5, 2.0, 3.7, 10.0, 40.0]))
            form = sub % 6
            if form == 0:
                sel_freq = sel.tolist()
            elif form == 1:
                sel_freq = sel  # ndarray
            elif form == 2:  # exactly on grid lines / edges of the grid
                sel_freq = [float(freq[0]), float(freq[-1]), float(freq[nf // 2])]
            elif form == 3:  # integers (as in the unit test) mixed with floats
                sel_freq = [int(round(s)) for s in sel] + [float(sel[0])]
            elif form == 4:  # half way between two lines (ties of the nearest line)
                sel_freq = [float(freq[3] + df / 2), float(freq[nf - 4] - df / 2)]
            else:
                sel_freq = tuple(sel.tolist())
            r = both("FDD_mpe", f"FDD_mpe[{trial},{sub}]", Sval, Svec, freq, sel_freq, DF)
            assert r[0] == "ok", r
            n_mpe += 1
            both("FDD_mpe", f"FDD_mpe kw[{trial},{sub}]", Sval=Sval, Svec=Svec, freq=freq,
                 sel_freq=sel_freq, DF=DF)
        # default DF
        both("FDD_mpe", f"FDD_mpe default DF[{trial}]", Sval, Svec, freq, [float(freq[nf // 3])])
        # empty selection
        both("FDD_mpe", f"FDD_mpe empty[{trial}]", Sval, Svec, freq, [], df)
        # band narrower than the grid -> empty band -> same exception
        r = both("FDD_mpe", f"FDD_mpe tiny DF[{trial}]", Sval, Svec, freq, [float(freq[5])], df / 10)
        assert r[0] == "exc"

        # degenerate tables: flat ratio (ties), zeros in sigma2 (inf), NaN lines
        Sv = Sval.copy()
        Sv[1, 1, :] = Sv[0, 0, :]  # all ratios equal 1 -> first line of the band
        both("FDD_mpe", f"FDD_mpe ties[{trial}]", Sv, Svec, freq, sel.tolist(), 3 * df)
        Sv = Sval.copy()
        Sv[1, 1, rng.integers(0, nf, 6)] = 0.0
        both("FDD_mpe", f"FDD_mpe inf[{trial}]", Sv, Svec, freq, freq[::7].tolist(), 3 * df)
        Sv = Sval.copy()
        Sv[0, 0, rng.integers(0, nf, 4)] = np.nan
        Sv[:, :, rng.integers(0, nf, 3)] = 0.0  # 0/0
        both("FDD_mpe", f"FDD_mpe nan[{trial}]", Sv, Svec, freq, freq[::5].tolist(), 2 * df)
        Vn = Svec.copy()
        Vn[0, rng.integers(0, nr), :] = np.nan
        both("FDD_mpe", f"FDD_mpe nan vec[{trial}]", Sval, Vn, freq, sel.tolist(), 2 * df)
        # non uniform / float32 grid
        g = np.sort(rng.uniform(0, fs / 2, nf))
        both("FDD_mpe", f"FDD_mpe irregular[{trial}]", Sval, Svec, g, sel.tolist(), 5 * df)
        both("FDD_mpe", f"FDD_mpe f32 grid[{trial}]", Sval, Svec, freq.astype(np.float32),
             sel.tolist(), 3 * df)
        both("FDD_mpe", f"FDD_mpe f32 sel[{trial}]", Sval, Svec, freq,
             sel.astype(np.float32), 3 * df)

    # the unit-test style call: random REAL tables
    for trial in range(10):
        Sval = rng.random((2, 2, 1000))
        Svec = rng.random((2, 2, 1000))
        freq = np.linspace(0, 100, 1000)
        both("FDD_mpe", f"FDD_mpe unit[{trial}]", Sval, Svec, freq, [25, 50, 75], 0.1)
        both("FDD_mpe", f"FDD_mpe unit2[{trial}]", Sval, Svec, freq, [25, 50, 75], 2)

    # shapes outside the quantifier: same exceptions / same broadcasting oddities
    r = both("SD_svalsvec", "SD_svalsvec nr<nc", spectral_sequence(rng, 3, 5, 17, "half"))
    assert r[0] == "exc"
    both("SD_svalsvec", "SD_svalsvec nr=1", spectral_sequence(rng, 1, 4, 17, "half"))
    both("SD_svalsvec", "SD_svalsvec 1x1", spectral_sequence(rng, 1, 1, 17, "half"))
    both("SD_svalsvec", "SD_svalsvec nf=1", spectral_sequence(rng, 4, 4, 1, "hermitian"))
    both("SD_svalsvec", "SD_svalsvec zeros", np.zeros((3, 3, 9), dtype=complex))
    bad = spectral_sequence(rng, 3, 3, 9, "hermitian").copy()
    bad[0, 0, 4] = np.nan
    both("SD_svalsvec", "SD_svalsvec nan", bad)
    both("SD_svalsvec", "SD_svalsvec 2d", np.zeros((3, 3)))
    return n_mpe


# ------------------------------------------------------------------- end to end
def simulate(rng, nch, ndat, fs, nmodes=3):
    """Noise-driven response of a few modes seen by nch channels (+ sensor noise)."""
    t = np.arange(ndat) / fs
    fn = np.sort(rng.uniform(0.08, 0.4, nmodes)) * fs
    y = np.zeros((ndat, nch))
    for f0 in fn:
        xi = rng.uniform(0.005, 0.02)
        w0 = 2 * np.pi * f0
        h = np.exp(-xi * w0 * t[: int(8 * fs / f0 / xi / 6) + 50]) * np.sin(
            w0 * np.sqrt(1 - xi**2) * t[: int(8 * fs / f0 / xi / 6) + 50]
        )
        q = np.convolve(rng.standard_normal(ndat), h)[:ndat]
        y += np.outer(q / q.std(), rng.standard_normal(nch))
    y += 0.05 * rng.standard_normal(y.shape)
    return y, fn


class FakeSelFromPlot:
    """Stands in for the interactive plot: returns the preset selection."""

    preset = None
    seen = None

    def __init__(self, algo, freqlim=None, plot="FDD"):
        # what the real class reads from the algorithm at this point
        type(self).seen = (algo.result.freq, algo.result.S_val, freqlim, plot,
                           algo.run_params.model_dump())
        self.result = (list(type(self).preset), None)


orig_alg.SelFromPlot = FakeSelFromPlot
new_alg.SelFromPlot = FakeSelFromPlot

RESULT_FIELDS = ("freq", "Sy", "S_val", "S_vec", "Fn", "Phi", "Xi", "forPlot")


def compare_algos(a_o, a_n, where):
    ro, rn = a_o.result, a_n.result
    assert type(ro).__name__ == type(rn).__name__, where
    assert type(rn) is a_n.ResultCls
    for fld in RESULT_FIELDS:
        if hasattr(ro, fld) or hasattr(rn, fld):
            same(getattr(ro, fld), getattr(rn, fld), f"{where}.result.{fld}")
    assert list(ro.model_dump()) == list(rn.model_dump()), where
    same(a_o.run_params.model_dump(), a_n.run_params.model_dump(), f"{where}.run_params")


def algo_call(a_o, a_n, meth, where, *args, **kwargs):
    o, wo = outcome(getattr(a_o, meth), *args, **kwargs)
    n, wn = outcome(getattr(a_n, meth), *args, **kwargs)
    assert o[0] == n[0], (where, o, n)
    if o[0] == "exc":
        assert o[1] is n[1], (where, o, n)
    else:
        same(o[1], n[1], where)
    assert wo == wn, (where, wo, wn)
    return o[0]


def make_algo(mod, cname, name, cfg):
    """Algorithm instance; an empty cfg means an explicit default run-parameter object."""
    cls = getattr(mod, cname)
    if cfg:
        return cls(name=name, **cfg)
    return cls(run_params=cls.RunParamCls(), name=name)


def check_single_setup(rng):
    ok_mpe = 0
    configs = [
        dict(nxseg=256, method_SD="per", pov=0.5),
        dict(nxseg=512, method_SD="per", pov=0.0),
        dict(nxseg=200, method_SD="per", pov=0.75),
        dict(nxseg=256, method_SD="cor", pov=0.5),
        dict(nxseg=300, method_SD="cor", pov=0.0),
        dict(),  # defaults (nxseg=1024, per, 0.5)
    ]
    for ic, cfg in enumerate(configs):
        nch = int(rng.integers(2, 9))
        fs = float(rng.choice([50.0, 100.0, 200.0]))
        data, fn = simulate(rng, nch, 6000, fs)
        for cname in ("FDD", "EFDD", "FSDD"):
            where = f"{cname}{cfg}"
            ss_o, ss_n = SingleSetup(data.copy(), fs=fs), SingleSetup(data.copy(), fs=fs)
            a_o = make_algo(orig_alg, cname, "a", cfg)
            a_n = make_algo(new_alg, cname, "a", cfg)
            # not run yet -> same exception
            kw0 = {"sel_freq": [1.0]}
            assert algo_call(a_o, a_n, "mpe", where + " mpe before run", **kw0) == "exc"
            assert algo_call(a_o, a_n, "mpe_from_plot", where + " plot before run") == "exc"
            ss_o.add_algorithms(a_o)
            ss_n.add_algorithms(a_n)
            ss_o.run_by_name("a")
            ss_n.run_by_name("a")
            compare_algos(a_o, a_n, where + " run")
            # cross-check against a direct call of the pristine routines
            f_ref, Sy_ref = orig_fn.SD_est(
                data.T, data.T, 1 / fs, a_o.run_params.nxseg,
                method=a_o.run_params.method_SD, pov=a_o.run_params.pov,
            )
            same(a_n.result.freq, f_ref, where + " freq direct")
            same(a_n.result.Sy, Sy_ref, where + " Sy direct")
            same((a_n.result.S_val, a_n.result.S_vec), orig_fn.SD_svalsvec(Sy_ref),
                 where + " svd direct")

            df = float(a_o.result.freq[1] - a_o.result.freq[0])
            sel_sets = [list(map(float, fn)), [float(fn[1])], np.array(fn[::-1])]
            for isel, sel in enumerate(sel_sets):
                if cname == "FDD":
                    variants = [
                        ((sel,), {}),
                        ((sel, 3 * df), {}),
                        ((), {"sel_freq": sel, "DF": 1.5 * df}),
                    ]
                else:
                    variants = [
                        ((sel,), {}),
                        ((sel,), {"DF1": 2 * df, "DF2": 12 * df, "cm": 1, "MAClim": 0.9,
                                  "sppk": 2, "npmax": 12}),
                        ((sel, 3 * df, 15 * df), {"npmax": 15}),
                    ]
                for iv, (args, kwargs) in enumerate(variants):
                    w = f"{where} mpe[{isel},{iv}]"
                    # through the setup for one object, directly for the other: same thing
                    st = algo_call(a_o, a_n, "mpe", w, *args, **kwargs)
                    compare_algos(a_o, a_n, w)
                    ok_mpe += st == "ok"
                    # interactive variant with the same selection
                    FakeSelFromPlot.preset = sel
                    pk = dict(kwargs)
                    pk.pop("sel_freq", None)
                    if cname == "FDD":
                        if len(args) > 1:
                            pk["DF"] = args[1]
                    else:
                        for key, val in zip(("DF1", "DF2"), args[1:]):
                            pk[key] = val
                    pk["freqlim"] = (0.0, fs / 4) if iv else None
                    FakeSelFromPlot.seen = None
                    o, _ = outcome(a_o.mpe_from_plot, **pk)
                    seen_o = FakeSelFromPlot.seen
                    FakeSelFromPlot.seen = None
                    n, _ = outcome(a_n.mpe_from_plot, **pk)
                    seen_n = FakeSelFromPlot.seen
                    assert o[0] == n[0] and (o[0] == "ok" or o[1] is n[1]), (w, o, n)
                    same(seen_o, seen_n, w + " state seen by the plot", layout=True)
                    compare_algos(a_o, a_n, w + " from plot")
            # positional call of FDD.mpe_from_plot(freqlim, DF)
            if cname == "FDD":
                FakeSelFromPlot.preset = sel_sets[0]
                algo_call(a_o, a_n, "mpe_from_plot", where + " plot positional", (0.0, fs / 2), 4 * df)
                compare_algos(a_o, a_n, where + " plot positional")
            # via the setup API
            o, _ = outcome(ss_o.mpe, "a", sel_sets[0])
            n, _ = outcome(ss_n.mpe, "a", sel_sets[0])
            assert o[0] == n[0] and (o[0] == "ok" or o[1] is n[1]), (where, o, n)
            compare_algos(a_o, a_n, where + " setup.mpe")
            # result identity: mpe stores into the result object produced by run
            assert ss_n["a"].result is a_n.result
    return ok_mpe


def check_multi_setup(rng):
    ok = 0
    configs = [
        dict(nxseg=256, method_SD="per", pov=0.5),
        dict(nxseg=128, method_SD="per", pov=0.0),
        dict(nxseg=200, method_SD="cor", pov=0.5),
        dict(),
        dict(nxseg=256, method_SD="cor", pov=0.25),
    ]
    for cfg in configs:
        fs = 100.0
        # one reference channel only: the second singular value does not exist and
        # both versions must fail alike (last configuration)
        n_ref = 1 if cfg == configs[-1] else int(rng.integers(2, 4))
        n_setup = int(rng.integers(2, 4))
        n_mov = [int(rng.integers(1, 4)) for _ in range(n_setup)]
        ntot = n_ref + max(n_mov)
        Y = []
        for k in range(n_setup):
            d, fn = simulate(np.random.default_rng(7), ntot, 5000, fs)  # same modes
            d = d + 0.01 * rng.standard_normal(d.shape)
            Y.append({"ref": d[:, :n_ref].T.copy(), "mov": d[:, n_ref : n_ref + n_mov[k]].T.copy()})
        for cname in ("FDD_MS", "EFDD_MS"):
            where = f"{cname}{cfg}"
            a_o = make_algo(orig_alg, cname, "m", cfg)
            a_n = make_algo(new_alg, cname, "m", cfg)
            for a in (a_o, a_n):
                a._set_data(data=[{k: v.copy() for k, v in s.items()} for s in Y], fs=fs)
                a._pre_run()
                a._set_result(a.run())
            compare_algos(a_o, a_n, where + " run")
            nchan = n_ref + sum(n_mov)
            assert a_n.result.Sy.shape[:2] == (nchan, n_ref), a_n.result.Sy.shape
            f_ref, Sy_ref = orig_fn.SD_PreGER(
                Y, fs, nxseg=a_o.run_params.nxseg, method=a_o.run_params.method_SD,
                pov=a_o.run_params.pov,
            )
            same(a_n.result.freq, f_ref, where + " freq direct")
            same(a_n.result.Sy, Sy_ref, where + " Sy direct")
            df = float(f_ref[1] - f_ref[0])
            sel = list(map(float, fn))
            if cname == "FDD_MS":
                calls = [((sel,), {}), ((sel,), {"DF": 2 * df}), ((sel[::-1], 4 * df), {})]
            else:
                calls = [((sel,), {}), ((sel,), {"DF1": 2 * df, "DF2": 10 * df, "npmax": 10})]
            for ic, (args, kwargs) in enumerate(calls):
                st = algo_call(a_o, a_n, "mpe", f"{where} mpe[{ic}]", *args, **kwargs)
                compare_algos(a_o, a_n, f"{where} mpe[{ic}]")
                ok += st == "ok"
            FakeSelFromPlot.preset = sel
            algo_call(a_o, a_n, "mpe_from_plot", where + " plot")
            compare_algos(a_o, a_n, where + " plot")
    return ok


def check_first_stage_of_efdd(rng):
    """EFDD_mpe / SDOF_bellandMS consume SD_svalsvec and FDD_mpe: compare directly."""
    ok = 0
    for trial in range(6):
        nch = int(rng.integers(2, 7))
        fs = 100.0
        data, fn = simulate(rng, nch, 6000, fs)
        method_sd = ["per", "cor"][trial % 2]
        freq, Sy = orig_fn.SD_est(data.T, data.T, 1 / fs, 256, method=method_sd, pov=0.5)
        df = float(freq[1] - freq[0])
        for method in ("EFDD", "FSDD"):
            r = both("EFDD_mpe", f"EFDD_mpe[{trial},{method}]", Sy, freq, 1 / fs,
                     list(map(float, fn)), method_sd, method=method, DF1=2 * df, DF2=12 * df,
                     npmax=12)
            ok += r[0] == "ok"
    return ok


def main():
    rng = np.random.default_rng(20261004)
    n_mpe = check_numerical(rng)
    n_efdd = check_first_stage_of_efdd(rng)
    n_single = check_single_setup(rng)
    n_multi = check_multi_setup(rng)
    assert n_mpe >= 300 and n_single >= 100 and n_multi >= 10 and n_efdd >= 8, (
        n_mpe, n_single, n_multi, n_efdd)
    print(f"FDD_mpe regular cases: {n_mpe}; EFDD_mpe direct ok: {n_efdd}; "
          f"single-setup mpe ok: {n_single}; multi-setup mpe ok: {n_multi}; "
          f"comparisons: {N_CHECKS}")
    print("PASS")


if __name__ == "__main__":
    main()
