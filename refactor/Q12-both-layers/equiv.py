"""
Equivalence check: refactored pyoma2.functions.ssi / pyoma2.algorithms.ssi against the
pristine HEAD copies (orig_functions_ssi.py / orig_algorithms_ssi.py).

Run:  PYTHONPATH=/tmp/wt/Q12/src /venv/bin/python /tmp/wt/Q12/_refactor/equiv.py
Prints PASS and exits 0 when every comparison is identical.
"""

import importlib.util
import itertools
import logging
import os
import sys
import warnings

import numpy as np

os.environ.setdefault("MPLBACKEND", "Agg")
warnings.filterwarnings("ignore")
logging.disable(logging.CRITICAL)

HERE = os.path.dirname(os.path.abspath(__file__))

# silence the tqdm progress bars of both versions
import tqdm  # noqa: E402

_orig_tqdm_init = tqdm.tqdm.__init__


def _quiet_init(self, *a, **k):
    k["disable"] = True
    _orig_tqdm_init(self, *a, **k)


tqdm.tqdm.__init__ = _quiet_init

import pyoma2.algorithms.ssi as new_alg  # noqa: E402
import pyoma2.functions.ssi as new_fn  # noqa: E402
from pyoma2.algorithms.data.run_params import SSIRunParams  # noqa: E402


def _load(name, fname):
    spec = importlib.util.spec_from_file_location(name, os.path.join(HERE, fname))
    mod = importlib.util.module_from_spec(spec)
    sys.modules[name] = mod
    spec.loader.exec_module(mod)
    return mod


old_fn = _load("pyoma2.functions._orig_ssi", "orig_functions_ssi.py")
old_alg = _load("pyoma2.algorithms._orig_ssi", "orig_algorithms_ssi.py")
# the pristine algorithm layer must call the pristine numerical layer
old_alg.ssi = old_fn
assert new_alg.ssi is new_fn
assert os.path.realpath(new_fn.__file__).startswith("/tmp/wt/Q12/src/")

N_CMP = 0
N_EXC = 0


def same(a, b, where):
    """Strict structural + bitwise equality (NaN pattern included)."""
    global N_CMP
    N_CMP += 1
    if a is None or b is None:
        assert a is None and b is None, where
        return
    if isinstance(a, (list, tuple)):
        assert type(a) is type(b) and len(a) == len(b), where
        for i, (x, y) in enumerate(zip(a, b)):
            same(x, y, f"{where}[{i}]")
        return
    if isinstance(a, dict):
        assert isinstance(b, dict) and list(a) == list(b), where
        for k in a:
            same(a[k], b[k], f"{where}[{k!r}]")
        return
    if isinstance(a, np.ndarray) or isinstance(b, np.ndarray):
        assert isinstance(a, np.ndarray) and isinstance(b, np.ndarray), where
        assert a.shape == b.shape, (where, a.shape, b.shape)
        assert a.dtype == b.dtype, (where, a.dtype, b.dtype)
        if a.dtype == object:
            same(list(a.ravel()), list(b.ravel()), where)
        else:
            assert np.array_equal(a, b, equal_nan=a.dtype.kind in "fc"), where
        return
    assert type(a) is type(b), (where, type(a), type(b))
    if isinstance(a, float) and a != a:
        assert b != b, where
    else:
        assert a == b, (where, a, b)


def call(f, *a, **k):
    try:
        return ("ok", f(*a, **k))
    except Exception as e:  # noqa: BLE001
        return ("exc", type(e), str(e))


def same_call(fo, fn, where, *a, **k):
    global N_EXC
    ro = call(fo, *a, **k)
    rn = call(fn, *a, **k)
    assert ro[0] == rn[0], (where, ro, rn)
    if ro[0] == "exc":
        N_EXC += 1
        assert ro[1:] == rn[1:], (where, ro, rn)
        return None
    same(ro[1], rn[1], where)
    return rn[1]


rng = np.random.default_rng(20261003)
METHODS = ("cov_mm", "cov_R", "dat")


# ----------------------------------------------------------------------------
# 1. build_hank over the quantifier: channels 1..4, every reference subset,
#    br 1..5, record lengths up to 40 (too-short records included -> exceptions),
#    random data and pairs of unit impulses
# ----------------------------------------------------------------------------
def check_build_hank():
    n = 0
    for l in range(1, 5):  # noqa: E741
        subsets = [
            list(c) for k in range(1, l + 1) for c in itertools.combinations(range(l), k)
        ]
        subsets.append(list(range(l))[::-1])  # permuted reference order
        subsets.append([0] * 2)  # repeated reference
        for refs in subsets:
            for br in range(1, 6):
                for Ndat in sorted({2 * br + 1, 2 * br + 2, 2 * br + 3, 17, 29, 40}
                                   | {int(rng.integers(1, 41))}):
                    Y = rng.standard_normal((l, Ndat))
                    Yref = Y[refs, :]
                    for m in METHODS:
                        w = f"build_hank l={l} refs={refs} br={br} Ndat={Ndat} {m}"
                        res = same_call(
                            old_fn.build_hank, new_fn.build_hank, w, Y, Yref, br, m
                        )
                        n += 1
                        n_cols = Ndat - 2 * br - 2  # samples per block row (N - 1)
                        enough = n_cols > 0 and (
                            m != "dat" or n_cols >= (br + 1) * (l + len(refs))
                        )
                        if res is not None and enough:
                            assert res[0].shape == ((br + 1) * l, (br + 1) * len(refs)), w
                    # independent data / reference data (bilinearity arguments)
                    Z = rng.standard_normal((len(refs), Ndat))
                    for m in METHODS:
                        same_call(old_fn.build_hank, new_fn.build_hank,
                                  f"indep {l} {refs} {br} {Ndat} {m}", Y, Z, br, method=m)
                        n += 1
    # pairs of unit impulses (exhaustive for a few shapes)
    for l, refs, br, Ndat in [(1, [0], 1, 6), (2, [1], 2, 9), (3, [0, 2], 3, 12),
                              (4, [3, 1], 5, 14), (2, [0, 1], 4, 40)]:
        for a, s in itertools.product(range(l), range(Ndat)):
            E = np.zeros((l, Ndat))
            E[a, s] = 1.0
            for b, t in itertools.product(range(len(refs)), range(Ndat)):
                F = np.zeros((len(refs), Ndat))
                F[b, t] = 1.0
                for m in ("cov_mm", "cov_R"):
                    same_call(old_fn.build_hank, new_fn.build_hank,
                              f"impulse {l} {refs} {br} {Ndat} {a},{s} {b},{t} {m}",
                              E, F, br, m)
                    n += 1
    # larger shapes, integer / float32 / Fortran-ordered / non-contiguous input
    for l, r, br, Ndat in [(6, 3, 8, 300), (12, 12, 10, 1000), (5, 2, 20, 2000),
                           (8, 1, 15, 517)]:
        Y = rng.standard_normal((l, Ndat))
        refs = sorted(rng.choice(l, size=r, replace=False).tolist())
        variants = {
            "c": Y,
            "f": np.asfortranarray(Y),
            "f32": Y.astype(np.float32),
            "int": (Y * 100).astype(np.int64),
            "view": np.repeat(Y, 2, axis=1)[:, ::2],
        }
        for vn, Yv in variants.items():
            for m in METHODS:
                same_call(old_fn.build_hank, new_fn.build_hank,
                          f"large {l} {r} {br} {Ndat} {vn} {m}",
                          Y=Yv, Yref=Yv[refs, :], br=br, method=m)
                n += 1
    # uncertainty branch (cov_mm only) and argument errors
    for l, refs, br, Ndat, nb in [(2, [0], 3, 400, 10), (3, [0, 2], 5, 1000, 100),
                                  (4, [0, 1, 2, 3], 2, 333, 7), (1, [0], 4, 257, 50),
                                  (2, [1, 0], 3, 40, 100), (2, [1], 2, 40, 3)]:
        Y = rng.standard_normal((l, Ndat))
        for m in METHODS + ("cov", "", None):
            for cu in (True, False, 1, 0):
                same_call(old_fn.build_hank, new_fn.build_hank,
                          f"unc {l} {refs} {br} {Ndat} {nb} {m} {cu}",
                          Y, Y[refs, :], br, m, calc_unc=cu, nb=nb)
                n += 1
    # float block-row count is truncated by int()
    Y = rng.standard_normal((3, 60))
    for m in METHODS:
        same_call(old_fn.build_hank, new_fn.build_hank, f"float br {m}", Y, Y[:2], 3.0, m)
        n += 1
    return n


# ----------------------------------------------------------------------------
# 2. SSI_multi_setup (calls build_hank per setup)
# ----------------------------------------------------------------------------
def make_ms_data(n_setup, n_ref, n_movs, Ndat):
    return [
        {"ref": rng.standard_normal((n_ref, Ndat)),
         "mov": rng.standard_normal((n_movs[i], Ndat))}
        for i in range(n_setup)
    ]


def check_multi_setup():
    n = 0
    for n_setup, n_ref, n_movs, Ndat, br, ordmax in [
        (2, 2, [2, 3], 600, 6, 10), (3, 1, [2, 2, 1], 500, 8, 6), (1, 3, [2], 400, 5, 8),
        (2, 2, [1, 1], 300, 10, 12),
    ]:
        Y = make_ms_data(n_setup, n_ref, n_movs, Ndat)
        for m in METHODS + ("nope",):
            for step in (1, 2):
                same_call(old_fn.SSI_multi_setup, new_fn.SSI_multi_setup,
                          f"SSI_multi_setup {n_setup} {n_ref} {n_movs} {m} {step}",
                          Y, 100.0, br, ordmax, m, step)
                n += 1
    return n


# ----------------------------------------------------------------------------
# 3. algorithm classes: run / mpe / mpe_from_plot / plot_svalH, single and multi setup
# ----------------------------------------------------------------------------
def synth(Ndat, nch, fs=100.0):
    t = np.arange(Ndat) / fs
    freqs = [3.1, 7.7, 12.3]
    modes = rng.standard_normal((len(freqs), nch))
    x = sum(
        np.outer(np.sin(2 * np.pi * f * t + rng.uniform(0, 6)) * np.exp(-0.002 * t), sh)
        for f, sh in zip(freqs, modes)
    )
    x = x + np.cumsum(rng.standard_normal((Ndat, nch)), axis=0) * 0.01
    return x + 0.3 * rng.standard_normal((Ndat, nch))


def dump(obj):
    d = obj.model_dump() if hasattr(obj, "model_dump") else obj.dict()
    return d


class FakeSFP:
    """Stand-in for the interactive selection window."""

    calls = []
    answer = None

    def __init__(self, algo, freqlim=None, plot="SSI"):
        FakeSFP.calls.append((type(algo).__name__, freqlim, plot))
        self.result = FakeSFP.answer


class Recorder:
    def __init__(self):
        self.calls = []

    def svalH_plot(self, **kw):
        self.calls.append(kw)
        return "fig", "ax"


def both(cls_name, run_kwargs, data, fs):
    out = []
    for mod in (old_alg, new_alg):
        alg = getattr(mod, cls_name)(run_params=SSIRunParams(**run_kwargs))
        alg._set_data(data=data, fs=fs)
        out.append((mod, alg))
    return out


def check_algorithms():
    n = 0
    fs = 100.0
    data = synth(1500, 4, fs)
    configs = [
        ("SSIdat", dict(br=6, ordmax=14)),
        ("SSIdat", dict(br=5, ordmax=12, ref_ind=[0, 2], step=2, ordmin=2)),
        ("SSIdat", dict(br=5, ordmax=12, method="cov_R", ref_ind=[3])),
        ("SSIcov", dict(br=6, ordmax=14)),
        ("SSIcov", dict(br=6, ordmax=12, method="cov_R", ref_ind=[1, 2, 3])),
        ("SSIcov", dict(br=4, ordmax=10, method="dat", ref_ind=[2, 0])),
        ("SSIcov", dict(br=5, ordmax=10, calc_unc=True, nb=20, ref_ind=[0, 1])),
        ("SSIcov", dict(br=5, ordmax=10, calc_unc=True, nb=10,
                        hc=dict(conj=False, xi_max=0.2, mpc_lim=0.5, mpd_lim=0.5,
                                cov_max=0.5))),
        ("SSIdat", dict(br=5, ordmax=10, calc_unc=True)),  # must raise in both
        ("SSIcov", dict(br=5, ordmax=10, method="bogus")),  # must raise in both
    ]
    for cls_name, kw in configs:
        w = f"{cls_name} {kw}"
        (mo, ao), (mn, an) = both(cls_name, kw, data, fs)
        ro, rn = call(ao.run), call(an.run)
        n += 1
        assert ro[0] == rn[0], (w, ro, rn)
        if ro[0] == "exc":
            assert ro[1:] == rn[1:], (w, ro, rn)
            continue
        same(dump(ro[1]), dump(rn[1]), w + " run")
        assert rn[1].H is not None
        ao._set_result(ro[1])
        an._set_result(rn[1])

        # mpe
        for sel, order, rtol in [([3.1, 7.7], "find_min", 5e-2), ([12.3], 8, 1e-1),
                                 ([3.1, 7.7, 12.3], kw["ordmax"], 5e-2),
                                 ([3.1], "bad", 5e-2), ([45.0], "find_min", 1e-3)]:
            r1 = call(ao.mpe, sel_freq=sel, order=order, rtol=rtol)
            r2 = call(an.mpe, sel_freq=sel, order=order, rtol=rtol)
            assert r1[0] == r2[0] and (r1[0] == "ok" or r1[1:] == r2[1:]), (w, r1, r2)
            same(r1[-1] if r1[0] == "ok" else None, r2[-1] if r2[0] == "ok" else None, w)
            same(dump(ao.result), dump(an.result), w + f" mpe {sel} {order}")
            same(dump(ao.run_params), dump(an.run_params), w + " mpe run_params")
            n += 1

        # mpe_from_plot with a scripted selection
        mo.SelFromPlot = FakeSFP
        mn.SelFromPlot = FakeSFP
        for ans, freqlim, rtol in [(([3.1, 7.7], [6, 8]), None, 1e-2),
                                   (([12.3], [kw["ordmax"]]), (0, 20), 5e-2),
                                   (([7.7], None), (1, 30), 5e-2)]:
            FakeSFP.answer = ans
            FakeSFP.calls = []
            r1 = call(ao.mpe_from_plot, freqlim=freqlim, rtol=rtol)
            c1, FakeSFP.calls = FakeSFP.calls, []
            r2 = call(an.mpe_from_plot, freqlim=freqlim, rtol=rtol)
            c2 = FakeSFP.calls
            assert c1 == c2 and len(c1) == 1, (w, c1, c2)
            assert r1[0] == r2[0] and (r1[0] == "ok" or r1[1:] == r2[1:]), (w, r1, r2)
            same(dump(ao.result), dump(an.result), w + f" mpe_from_plot {ans}")
            same(dump(ao.run_params), dump(an.run_params), w + " mpe_from_plot rp")
            n += 1

        # plot_svalH hands H and br over to the plotting routine
        rec_o, rec_n = Recorder(), Recorder()
        po, pn = mo.plot, mn.plot
        try:
            mo.plot = rec_o
            r1 = call(ao.plot_svalH, iter_n=3)
            mo.plot = po
            mn.plot = rec_n
            r2 = call(an.plot_svalH, iter_n=3)
        finally:
            mo.plot, mn.plot = po, pn
        same(r1, r2, w + " plot_svalH return")
        same(rec_o.calls, rec_n.calls, w + " plot_svalH args")
        assert rec_n.calls[0]["H"] is an.result.H
        n += 1

    # "run algorithm first" guards
    for cls_name in ("SSIdat", "SSIcov"):
        (mo, ao), (mn, an) = both(cls_name, dict(br=4, ordmax=8), data, fs)
        for meth, kwargs in [("plot_svalH", {}), ("mpe", dict(sel_freq=[1.0])),
                             ("mpe_from_plot", {})]:
            r1, r2 = call(getattr(ao, meth), **kwargs), call(getattr(an, meth), **kwargs)
            assert r1 == r2 and r1[0] == "exc", (cls_name, meth, r1, r2)
            n += 1

    # multi-setup classes
    Yms = make_ms_data(3, 2, [2, 1, 2], 700)
    t = np.arange(700) / fs
    for d in Yms:  # add some common narrow-band content
        for key in ("ref", "mov"):
            d[key] = d[key] + 2 * np.sin(2 * np.pi * 5.3 * t)[None, :] * np.arange(
                1, d[key].shape[0] + 1
            )[:, None]
    for cls_name, kw in [
        ("SSIdat_MS", dict(br=6, ordmax=10)),
        ("SSIcov_MS", dict(br=6, ordmax=10)),
        ("SSIcov_MS", dict(br=5, ordmax=8, method="cov_R", step=2)),
        ("SSIdat_MS", dict(br=5, ordmax=8, method="cov_mm", ordmin=2)),
        ("SSIcov_MS", dict(br=5, ordmax=8, method="zzz")),
    ]:
        w = f"{cls_name} {kw}"
        (mo, ao), (mn, an) = both(cls_name, kw, Yms, fs)
        ro, rn = call(ao.run), call(an.run)
        n += 1
        assert ro[0] == rn[0], (w, ro, rn)
        if ro[0] == "exc":
            assert ro[1:] == rn[1:], (w, ro, rn)
            continue
        same(dump(ro[1]), dump(rn[1]), w + " run")
        ao._set_result(ro[1])
        an._set_result(rn[1])
        r1 = call(ao.mpe, sel_freq=[5.3], order="find_min", rtol=5e-2)
        r2 = call(an.mpe, sel_freq=[5.3], order="find_min", rtol=5e-2)
        assert r1[0] == r2[0] and (r1[0] == "ok" or r1[1:] == r2[1:]), (w, r1, r2)
        same(dump(ao.result), dump(an.result), w + " mpe")
        n += 1
    return n


if __name__ == "__main__":
    n1 = check_build_hank()
    n2 = check_multi_setup()
    n3 = check_algorithms()
    print(f"build_hank cases: {n1}; SSI_multi_setup cases: {n2}; algorithm-level cases: {n3}")
    print(f"comparisons: {N_CMP}; cases where both versions raised the same exception: {N_EXC}")
    print("PASS")
