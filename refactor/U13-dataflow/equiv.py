"""
Equivalence check of the C13 refactoring (spectral matrix estimation and its callers).

The refactored modules are imported from the worktree (PYTHONPATH=/tmp/wt/U13/src), the
ORIGINAL ones from the pristine copies _refactor/orig_*.py (git show HEAD:...), loaded by
path inside the pyoma2 package so that their relative imports resolve.  The original
algorithm modules are rebound to the original numerical module, so the two stacks
(original callers + original routines / refactored callers + refactored routines) are
compared end to end.

Prints PASS and exits 0 if every comparison is bit-identical (values, dtype, shape, NaN
pattern, exception types).
"""

import importlib.util
import os
import sys
import warnings

import matplotlib

matplotlib.use("Agg")

import numpy as np  # noqa: E402

HERE = os.path.dirname(os.path.abspath(__file__))
sys.path.insert(0, os.path.join(os.path.dirname(HERE), "src"))

import pyoma2.algorithms.fdd as new_alg_fdd  # noqa: E402
import pyoma2.algorithms.plscf as new_alg_plscf  # noqa: E402
import pyoma2.functions.fdd as new_fun_fdd  # noqa: E402


def _load(modname, filename):
    spec = importlib.util.spec_from_file_location(modname, os.path.join(HERE, filename))
    mod = importlib.util.module_from_spec(spec)
    sys.modules[modname] = mod
    spec.loader.exec_module(mod)
    return mod


orig_fun_fdd = _load("pyoma2.functions._orig_fdd", "orig_functions_fdd.py")
orig_alg_fdd = _load("pyoma2.algorithms._orig_fdd", "orig_algorithms_fdd.py")
orig_alg_plscf = _load("pyoma2.algorithms._orig_plscf", "orig_algorithms_plscf.py")
# original callers -> original numerical routines
orig_alg_fdd.fdd = orig_fun_fdd
orig_alg_plscf.fdd = orig_fun_fdd
assert new_alg_fdd.fdd is new_fun_fdd and new_alg_plscf.fdd is new_fun_fdd
assert orig_fun_fdd.SD_est is not new_fun_fdd.SD_est

warnings.filterwarnings("ignore")
N_CHECKS = 0
EFDD_STATUS = []
PLSCF_STATUS = []


# -----------------------------------------------------------------------------
# comparison helpers
def same(a, b, where=""):
    """Recursive bit-identity of two results."""
    global N_CHECKS
    N_CHECKS += 1
    if isinstance(a, np.ndarray) or isinstance(b, np.ndarray):
        assert isinstance(a, np.ndarray) and isinstance(b, np.ndarray), where
        assert a.dtype == b.dtype, (where, a.dtype, b.dtype)
        assert a.shape == b.shape, (where, a.shape, b.shape)
        if a.dtype == object:
            for k, (x, y) in enumerate(zip(a.ravel(), b.ravel())):
                same(x, y, f"{where}[{k}]")
            return
        if a.dtype.kind in "fc":
            assert np.array_equal(np.isnan(a), np.isnan(b)), (where, "NaN pattern")
            assert np.array_equal(a, b, equal_nan=True), (where, np.nanmax(np.abs(a - b)))
            # sign of zeros / bit pattern of the non-NaN entries
            m = ~np.isnan(a)
            assert a[m].tobytes() == b[m].tobytes(), (where, "bits")
        else:
            assert np.array_equal(a, b), where
        return
    if isinstance(a, dict):
        assert isinstance(b, dict) and list(a) == list(b), (where, list(a), list(b))
        for k in a:
            same(a[k], b[k], f"{where}.{k}")
        return
    if isinstance(a, (list, tuple)):
        assert type(a) is type(b) and len(a) == len(b), (where, type(a), type(b))
        for k, (x, y) in enumerate(zip(a, b)):
            same(x, y, f"{where}[{k}]")
        return
    if isinstance(a, float) and isinstance(b, float) and np.isnan(a) and np.isnan(b):
        return
    assert type(a) is type(b), (where, type(a), type(b))
    assert a == b, (where, a, b)


def outcome(fun, *args, **kwargs):
    try:
        return ("ok", fun(*args, **kwargs))
    except Exception as exc:  # noqa: BLE001
        return ("raise", type(exc))


def same_outcome(f_orig, f_new, args_orig, args_new, kwargs=None, where=""):
    kwargs = kwargs or {}
    r_o = outcome(f_orig, *args_orig, **kwargs)
    r_n = outcome(f_new, *args_new, **kwargs)
    assert r_o[0] == r_n[0], (where, r_o, r_n)
    if r_o[0] == "raise":
        assert r_o[1] is r_n[1], (where, r_o[1], r_n[1])
    else:
        same(r_o[1], r_n[1], where)
    return r_o


def dump(model):
    """Fields of a pydantic model without copying / validating anything."""
    if model is None:
        return None
    return {name: getattr(model, name) for name in type(model).model_fields}


# -----------------------------------------------------------------------------
# 1. SD_est
def check_SD_est(rng):
    n_ok = {"per": 0, "cor": 0}
    nxsegs = [16, 20, 32, 48, 64, 100, 128, 256, 512, 1024, 2048, 4096]
    for trial in range(90):
        n_all = int(rng.integers(1, 9))
        n_ref = int(rng.integers(1, 5))
        nxseg = int(rng.choice(nxsegs if trial % 6 else nxsegs[:8]))
        povs = [p for p in (0.0, 0.25, 0.5, 0.75, 0.125, 0.9) if float(nxseg * p).is_integer()]
        pov = float(rng.choice(povs))
        fs = float(rng.choice([1.0, 7.3, 100.0, 256.0, 1000.0, rng.uniform(0.1, 5000)]))
        dt = 1 / fs
        nseg = int(rng.integers(2, 7))
        Ndat = nseg * nxseg + int(rng.integers(0, nxseg))
        method = ["per", "cor"][trial % 2]
        scale = 10.0 ** rng.uniform(-3, 3)
        layout = trial % 4
        if layout == 0:  # independent C-ordered arrays
            Yall = scale * rng.standard_normal((n_all, Ndat))
            Yref = scale * rng.standard_normal((n_ref, Ndat))
        elif layout == 1:  # the way the algorithm classes call it: data.T twice
            data = scale * rng.standard_normal((Ndat, n_all))
            Yall = Yref = data.T
        elif layout == 2:  # non-ascending reference index list (fancy-index copy)
            Yall = scale * rng.standard_normal((n_all, Ndat))
            idx = rng.permutation(n_all)[: min(n_ref, n_all)][::-1]
            Yref = Yall[idx]
        else:  # strided views, integer valued data, a delayed scaled copy
            base = rng.standard_normal((2 * n_all, Ndat + 8))
            Yall = base[::2, 8:]
            Yall[-1] = -3.7 * base[0, 5 : Ndat + 5]
            Yref = base[: 2 * min(n_ref, n_all) : 2, 8:]
        for kind in ("kw", "pos"):
            if kind == "kw":
                kw = dict(nxseg=nxseg, method=method, pov=pov)
                a_o = a_n = (Yall, Yref, dt)
            else:
                kw = {}
                a_o = a_n = (Yall, Yref, dt, nxseg, method, pov)
            yall_before = np.array(Yall, copy=True)
            res = same_outcome(
                orig_fun_fdd.SD_est, new_fun_fdd.SD_est, a_o, a_n, kw,
                where=f"SD_est[{trial},{method},{kind}]",
            )
            assert np.array_equal(Yall, yall_before)  # inputs untouched
            assert res[0] == "ok"
            freq, Sy = res[1]
            assert Sy.shape == (Yall.shape[0], Yref.shape[0], nxseg // 2 + 1)
            assert np.allclose(freq, np.arange(nxseg // 2 + 1) * fs / nxseg)
            n_ok[method] += 1
    # defaults of the signature (method="cor", nxseg=1024, pov=0.5)
    Y = rng.standard_normal((3, 3000))
    same_outcome(orig_fun_fdd.SD_est, new_fun_fdd.SD_est, (Y, Y[:2], 0.01), (Y, Y[:2], 0.01),
                 where="SD_est defaults")
    same_outcome(orig_fun_fdd.SD_est, new_fun_fdd.SD_est, (Y, Y[:2], 0.01), (Y, Y[:2], 0.01),
                 dict(method="per"), where="SD_est per defaults")
    # record shorter than a segment (scipy shortens the segment), both estimators
    for method in ("per", "cor"):
        same_outcome(orig_fun_fdd.SD_est, new_fun_fdd.SD_est, (Y[:, :300], Y[:1, :300], 0.01),
                     (Y[:, :300], Y[:1, :300], 0.01), dict(method=method, nxseg=512),
                     where="short record " + method)
    # equal exceptions
    bad_calls = [
        ((Y, Y, 0.01), dict(method="welch")),  # unknown estimator
        ((Y, Y, 0.01), dict(method=None)),
        ((Y[0], Y, 0.01), dict(method="per")),  # 1-D data
        ((Y, Y[0], 0.01), dict(method="cor")),  # 1-D reference
        ((Y, Y[:, :100], 0.01), dict(method="per", nxseg=64)),  # different lengths
        ((Y, Y[:, :100], 0.01), dict(method="cor", nxseg=64)),
        ((Y, Y, 0.01), dict(method="per", nxseg=64, pov=1.0)),  # noverlap == nperseg
        ((Y, Y, 0.01), dict(method="per", nxseg=64, pov=None)),
        ((Y, Y, 0.0), dict(method="per", nxseg=64)),  # dt = 0
        ((Y, Y, 0.0), dict(method="cor", nxseg=64)),
        ((Y, Y, 0.01), dict(method="cor", nxseg=0)),
        ((Y.tolist(), Y, 0.01), dict(method="per", nxseg=64)),  # not an array
    ]
    n_raise = 0
    for args, kw in bad_calls:
        res = same_outcome(orig_fun_fdd.SD_est, new_fun_fdd.SD_est, args, args, kw,
                           where=f"SD_est bad {kw}")
        n_raise += res[0] == "raise"
    return n_ok, n_raise


# -----------------------------------------------------------------------------
# 2. SD_PreGER
def random_setups(rng, n_setup, n_ref, Ndat_min):
    Y = []
    for _ in range(n_setup):
        Ndat = Ndat_min + int(rng.integers(0, 200))
        n_mov = int(rng.integers(1, 5))
        common = rng.standard_normal((2, Ndat))
        mix_r = rng.standard_normal((n_ref, 2))
        mix_m = rng.standard_normal((n_mov, 2))
        Y.append(
            {
                "ref": mix_r @ common + 0.5 * rng.standard_normal((n_ref, Ndat)),
                "mov": mix_m @ common + 0.5 * rng.standard_normal((n_mov, Ndat)),
            }
        )
    return Y


def check_SD_PreGER(rng):
    n = 0
    for trial in range(24):
        n_setup = int(rng.integers(1, 5))
        n_ref = int(rng.integers(1, 5))
        nxseg = int(rng.choice([16, 32, 64, 128, 256]))
        pov = float(rng.choice([0.0, 0.25, 0.5, 0.75]))
        fs = float(rng.choice([1.0, 50.0, 333.3]))
        method = ["per", "cor"][trial % 2]
        # enough averages for a full-rank reference block (else LinAlgError in both)
        Y = random_setups(rng, n_setup, n_ref, (2 * n_ref + 2) * nxseg)
        kw = dict(nxseg=nxseg, pov=pov, method=method)
        res = same_outcome(orig_fun_fdd.SD_PreGER, new_fun_fdd.SD_PreGER, (Y, fs), (Y, fs), kw,
                           where=f"SD_PreGER[{trial}]")
        assert res[0] == "ok", (res, n_setup, n_ref, nxseg, pov, method)
        n_dof = n_ref + sum(s["mov"].shape[0] for s in Y)
        assert res[1][1].shape == (n_dof, n_ref, nxseg // 2 + 1)
        n += 1
    # defaults
    Y = random_setups(rng, 2, 2, 2200)
    same_outcome(orig_fun_fdd.SD_PreGER, new_fun_fdd.SD_PreGER, (Y, 100.0), (Y, 100.0),
                 where="SD_PreGER defaults")
    # exactly collinear reference channels: singular reference block in both or neither
    Ys = random_setups(rng, 2, 2, 400)
    for s in Ys:
        s["ref"][1] = 2.0 * s["ref"][0]
    for method in ("per", "cor"):
        same_outcome(orig_fun_fdd.SD_PreGER, new_fun_fdd.SD_PreGER, (Ys, 10.0), (Ys, 10.0),
                     dict(nxseg=64, method=method), where="SD_PreGER singular " + method)
    # zero data: singular matrix -> LinAlgError in both
    Yz = [{"ref": np.zeros((2, 300)), "mov": np.zeros((1, 300))}]
    res = same_outcome(orig_fun_fdd.SD_PreGER, new_fun_fdd.SD_PreGER, (Yz, 10.0), (Yz, 10.0),
                       dict(nxseg=64), where="SD_PreGER zeros")
    assert res[0] == "raise"
    return n


# -----------------------------------------------------------------------------
# 3. calling layer
class FakeSelFromPlot:
    """Stands in for the interactive peak picking window."""

    picks = ([], None)

    def __init__(self, algo, freqlim=None, plot="FDD"):
        # like the real one it only READS the result / run parameters of the algorithm
        assert algo.result is not None and algo.result.freq is not None
        self.algo, self.freqlim, self.plot = algo, freqlim, plot
        self.result = type(self).picks


for _mod in (orig_alg_fdd, new_alg_fdd, orig_alg_plscf, new_alg_plscf):
    _mod.SelFromPlot = FakeSelFromPlot


def synth_record(rng, Ndat, n_ch, fs, fns=(2.0, 5.5, 9.0)):
    """White-noise driven response of a few damped oscillators mixed on n_ch channels."""
    from scipy import signal

    t_modes = []
    for fn in fns:
        wn, xi = 2 * np.pi * fn, 0.02
        sysd = signal.cont2discrete(([1.0], [1.0, 2 * xi * wn, wn**2]), 1 / fs)
        b, a = np.ravel(sysd[0]), np.ravel(sysd[1])
        t_modes.append(signal.lfilter(b, a, rng.standard_normal(Ndat)))
    q = np.array(t_modes)
    q /= q.std(axis=1, keepdims=True)
    shapes = rng.standard_normal((n_ch, len(fns)))
    return (shapes @ q).T + 0.05 * rng.standard_normal((Ndat, n_ch))


def run_pair(cls_orig, cls_new, data, fs, params, where):
    pair = []
    for cls in (cls_orig, cls_new):
        algo = cls(name="algo", **params)
        algo._set_data(data=data, fs=fs)
        res = outcome(algo.run)
        if res[0] == "ok":
            assert type(res[1]) is algo.ResultCls
            algo._set_result(res[1])
        pair.append((algo, res))
    (a_o, r_o), (a_n, r_n) = pair
    assert r_o[0] == r_n[0], (where, r_o, r_n)
    if r_o[0] == "ok":
        assert type(r_o[1]).__name__ == type(r_n[1]).__name__
        same(dump(r_o[1]), dump(r_n[1]), where + ".run")
    else:
        assert r_o[1] is r_n[1], where
    same(dump(a_o.run_params), dump(a_n.run_params), where + ".run_params")
    return a_o, a_n


def call_pair(a_o, a_n, name, args, kwargs, where):
    r_o = outcome(getattr(a_o, name), *args, **kwargs)
    r_n = outcome(getattr(a_n, name), *args, **kwargs)
    assert r_o[0] == r_n[0], (where, r_o, r_n)
    if r_o[0] == "raise":
        assert r_o[1] is r_n[1], (where, r_o, r_n)
    else:
        assert r_o[1] is None and r_n[1] is None
    same(dump(a_o.result) if a_o.result else None, dump(a_n.result) if a_n.result else None,
         where + ".result")
    same(dump(a_o.run_params), dump(a_n.run_params), where + ".run_params")
    return r_o[0]


def check_FDD_layer(rng):
    n = 0
    fs = 50.0
    for trial in range(8):
        n_ch = int(rng.integers(2, 7))
        nxseg = int(rng.choice([256, 512, 1024]))
        pov = float(rng.choice([0.0, 0.25, 0.5]))
        method_SD = ["per", "cor"][trial % 2]
        data = synth_record(rng, 12 * nxseg + 37, n_ch, fs)
        params = dict(nxseg=nxseg, method_SD=method_SD, pov=pov)
        sel = [2.0, 5.5, 9.0][: 2 + trial % 2]

        # --- FDD
        a_o, a_n = run_pair(orig_alg_fdd.FDD, new_alg_fdd.FDD, data, fs, params, f"FDD[{trial}]")
        assert a_n.result.Sy.shape == (n_ch, n_ch, nxseg // 2 + 1)
        DF = float(rng.choice([0.5, 1.0, 2.0]))  # > frequency resolution
        assert call_pair(a_o, a_n, "mpe", (sel,), dict(DF=DF), f"FDD[{trial}].mpe") == "ok"
        assert a_n.result.Fn is not None and a_n.result.Phi is not None
        FakeSelFromPlot.picks = (sel[::-1], None)
        assert call_pair(a_o, a_n, "mpe_from_plot", (), dict(freqlim=(0.0, 20.0), DF=0.8 * DF),
                         f"FDD[{trial}].mpe_from_plot") == "ok"
        assert a_n.run_params.DF == 0.8 * DF

        # --- EFDD / FSDD
        for c_o, c_n in ((orig_alg_fdd.EFDD, new_alg_fdd.EFDD),
                         (orig_alg_fdd.FSDD, new_alg_fdd.FSDD)):
            b_o, b_n = run_pair(c_o, c_n, data, fs, params, f"{c_n.__name__}[{trial}]")
            opts = dict(DF1=float(rng.choice([0.5, 0.8])), DF2=float(rng.choice([1.0, 1.5])),
                        cm=1, MAClim=float(rng.choice([0.85, 0.9, 0.95])),
                        sppk=int(rng.choice([1, 2])), npmax=int(rng.choice([4, 6])))
            st = [call_pair(b_o, b_n, "mpe", (sel,), opts, f"{c_n.__name__}[{trial}].mpe")]
            # positional options too
            st.append(call_pair(b_o, b_n, "mpe", (sel, 0.6, 1.2, 1, 0.9, 2, 5), {},
                                f"{c_n.__name__}[{trial}].mpe pos"))
            FakeSelFromPlot.picks = (sel, None)
            st.append(call_pair(b_o, b_n, "mpe_from_plot", (), dict(freqlim=(0.0, 20.0), **opts),
                                f"{c_n.__name__}[{trial}].mpe_from_plot"))
            EFDD_STATUS.extend(st)
            for key, val in opts.items():
                assert getattr(b_n.run_params, key) == val
        n += 1

    # mpe before run: same exception, nothing stored
    for c_o, c_n in ((orig_alg_fdd.FDD, new_alg_fdd.FDD), (orig_alg_fdd.EFDD, new_alg_fdd.EFDD)):
        a_o, a_n = c_o(name="x", nxseg=64), c_n(name="x", nxseg=64)
        assert call_pair(a_o, a_n, "mpe", ([1.0],), {}, "mpe before run") == "raise"
        assert call_pair(a_o, a_n, "mpe_from_plot", (), {}, "mpe_from_plot before run") == "raise"
    return n


def check_MS_layer(rng):
    n = 0
    fs = 40.0
    for trial in range(6):
        n_setup = int(rng.integers(2, 4))
        n_ref = int(rng.integers(1, 4))
        nxseg = int(rng.choice([64, 128, 256]))
        pov = float(rng.choice([0.0, 0.5]))
        method_SD = ["per", "cor"][trial % 2]
        Y = random_setups(rng, n_setup, n_ref, (2 * n_ref + 3) * nxseg)
        params = dict(nxseg=nxseg, method_SD=method_SD, pov=pov)
        run_pair(orig_alg_fdd.FDD_MS, new_alg_fdd.FDD_MS, Y, fs, params, f"FDD_MS[{trial}]")
        b_o, b_n = run_pair(orig_alg_fdd.EFDD_MS, new_alg_fdd.EFDD_MS, Y, fs, params,
                            f"EFDD_MS[{trial}]")
        assert type(b_n.result).__name__ == "EFDDResult"
        p = dict(params, ordmax=int(rng.integers(4, 9)), ordmin=int(rng.integers(0, 3)))
        run_pair(orig_alg_plscf.pLSCF_MS, new_alg_plscf.pLSCF_MS, Y, fs, p, f"pLSCF_MS[{trial}]")
        n += 1
    return n


def check_pLSCF_layer(rng):
    n = 0
    fs = 50.0
    for trial in range(8):
        n_ch = int(rng.integers(2, 6))
        nxseg = int(rng.choice([128, 256, 512]))
        data = synth_record(rng, 8 * nxseg + 11, n_ch, fs)
        params = dict(nxseg=nxseg, method_SD=["per", "cor"][trial % 2],
                      pov=float(rng.choice([0.0, 0.25, 0.5])),
                      ordmax=int(rng.integers(6, 16)), ordmin=int(rng.integers(0, 4)))
        if trial % 4 != 0:  # user-set criteria limits
            params["hc"] = dict(conj=bool(trial % 3), xi_max=float(rng.choice([0.05, 0.2])),
                                mpc_lim=float(rng.choice([0.3, 0.7, 0.9])),
                                mpd_lim=float(rng.choice([0.2, 0.3, 0.6])))
            params["sc"] = dict(err_fn=float(rng.choice([0.005, 0.02])),
                                err_xi=float(rng.choice([0.03, 0.1])),
                                err_phi=float(rng.choice([0.02, 0.05])))
        a_o, a_n = run_pair(orig_alg_plscf.pLSCF, new_alg_plscf.pLSCF, data, fs, params,
                            f"pLSCF[{trial}]")
        r = a_n.result
        assert r.Sy.shape == (n_ch, n_ch, nxseg // 2 + 1)
        assert np.iscomplexobj(r.Phi_poles) and np.isnan(r.Fn_poles).any()
        sel = [2.0, 5.5]
        st = [call_pair(a_o, a_n, "mpe", (sel,), dict(order="find_min", rtol=0.1),
                        f"pLSCF[{trial}].mpe")]
        st.append(call_pair(a_o, a_n, "mpe", (sel,), dict(order=params["ordmax"] - 2),
                            f"pLSCF[{trial}].mpe order"))
        FakeSelFromPlot.picks = (sel, [params["ordmax"] - 1] * 2)
        st.append(call_pair(a_o, a_n, "mpe_from_plot", (), dict(rtol=0.07),
                            f"pLSCF[{trial}].mpe_from_plot"))
        PLSCF_STATUS.extend(st)
        n += 1
    return n


def main():
    rng = np.random.default_rng(20261004)
    n_ok, n_raise = check_SD_est(rng)
    print(f"SD_est      : {n_ok} identical outputs, {n_raise} identical exceptions")
    print(f"SD_PreGER   : {check_SD_PreGER(rng)} random multi-setup records identical")
    print(f"FDD layer   : {check_FDD_layer(rng)} records x (FDD, EFDD, FSDD) run/mpe/mpe_from_plot")
    print(f"MS layer    : {check_MS_layer(rng)} records x (FDD_MS, EFDD_MS, pLSCF_MS) run")
    print(f"pLSCF layer : {check_pLSCF_layer(rng)} records run/mpe/mpe_from_plot")
    print(f"EFDD/FSDD mpe calls: {EFDD_STATUS.count('ok')} ok, {EFDD_STATUS.count('raise')} "
          f"raising identically; pLSCF mpe calls: {PLSCF_STATUS.count('ok')} ok, "
          f"{PLSCF_STATUS.count('raise')} raising identically")
    assert EFDD_STATUS.count("ok") >= 30 and PLSCF_STATUS.count("ok") >= 12
    print(f"{N_CHECKS} leaf comparisons")
    print("PASS")


if __name__ == "__main__":
    main()
