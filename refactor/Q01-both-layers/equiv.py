"""
Equivalence check: refactored pyoma2 SSI code vs. the pristine HEAD copies.

Run with
    PYTHONPATH=/tmp/wt/Q01/src /venv/bin/python /tmp/wt/Q01/_refactor/equiv.py
Prints PASS and exits 0 when every comparison holds.
"""

import importlib.util
import logging
import os
import pathlib
import sys
import warnings

os.environ.setdefault("MPLBACKEND", "Agg")
os.environ.setdefault("TQDM_DISABLE", "1")
warnings.filterwarnings("ignore")
logging.disable(logging.CRITICAL)

import numpy as np  # noqa: E402

HERE = pathlib.Path(__file__).resolve().parent


def _load(mod_name, filename):
    spec = importlib.util.spec_from_file_location(mod_name, HERE / filename)
    mod = importlib.util.module_from_spec(spec)
    sys.modules[mod_name] = mod
    spec.loader.exec_module(mod)
    return mod


# refactored modules (from the worktree, via PYTHONPATH)
import pyoma2.algorithms.ssi as new_alg  # noqa: E402
import pyoma2.functions.ssi as new_f  # noqa: E402
from pyoma2.setup.single import SingleSetup  # noqa: E402

assert str(pathlib.Path(new_f.__file__).resolve()).startswith("/tmp/wt/Q01/src"), new_f.__file__

# pristine modules (HEAD copies); the algorithm module is loaded inside the package
# namespace so that its relative import `.base` resolves, then re-pointed to the
# pristine numerical module so that "orig" means orig calling layer + orig routines.
orig_f = _load("orig_functions_ssi", "orig_functions_ssi.py")
orig_alg = _load("pyoma2.algorithms._orig_ssi", "orig_algorithms_ssi.py")
orig_alg.ssi = orig_f
assert new_alg.ssi is new_f

# silence the progress bars of both variants
for _m in (new_f, orig_f):
    _m.tqdm = lambda it, *a, **k: it
    _m.trange = lambda *a, **k: range(*a)

N_CMP = 0
N_BITWISE_MISS = 0
RTOL = 1e-12
ATOL = 1e-13


def same(a, b, what, exact=True):
    """Assert that two outputs are identical (type, shape, dtype, NaN pattern, values)."""
    global N_CMP, N_BITWISE_MISS
    N_CMP += 1
    if a is None or b is None:
        assert a is None and b is None, f"{what}: None mismatch"
        return
    if isinstance(a, (list, tuple)):
        assert type(a) is type(b) and len(a) == len(b), f"{what}: container mismatch"
        for k, (x, y) in enumerate(zip(a, b)):
            same(x, y, f"{what}[{k}]", exact)
        return
    if isinstance(a, np.ndarray) or isinstance(b, np.ndarray):
        assert isinstance(a, np.ndarray) and isinstance(b, np.ndarray), f"{what}: type"
        assert a.shape == b.shape, f"{what}: shape {a.shape} vs {b.shape}"
        assert a.dtype == b.dtype, f"{what}: dtype {a.dtype} vs {b.dtype}"
        if a.dtype == object:
            assert a.tolist() == b.tolist(), what
            return
        nan_a, nan_b = np.isnan(a), np.isnan(b)
        assert np.array_equal(nan_a, nan_b), f"{what}: NaN pattern"
        if np.array_equal(a, b, equal_nan=True):
            return
        N_BITWISE_MISS += 1
        assert not exact, f"{what}: not bitwise identical, max diff {np.nanmax(np.abs(a - b))}"
        scale = max(1.0, float(np.nanmax(np.abs(b)))) if b.size else 1.0
        assert np.allclose(a, b, rtol=RTOL, atol=ATOL * scale, equal_nan=True), (
            f"{what}: max diff {np.nanmax(np.abs(a - b))}"
        )
        return
    assert type(a) is type(b), f"{what}: type {type(a)} vs {type(b)}"
    if isinstance(a, (float, complex, np.floating, np.complexfloating)):
        assert a == b or (np.isnan(a) and np.isnan(b)), f"{what}: {a} vs {b}"
    else:
        assert a == b, f"{what}: {a} vs {b}"


def both(f_new, f_old, what, exact=True):
    """Run both variants; outputs or exception types must agree. Returns the new output."""
    out, exc = [], []
    for f in (f_new, f_old):
        try:
            out.append(f())
            exc.append(None)
        except Exception as e:  # noqa: BLE001
            out.append(None)
            exc.append(type(e))
    assert exc[0] is exc[1], f"{what}: exceptions differ {exc}"
    if exc[0] is None:
        same(out[0], out[1], what, exact)
    return out[0], exc[0]


# -----------------------------------------------------------------------------
# random systems of the property's quantifier
# -----------------------------------------------------------------------------
def random_system(rng, m, l, complex_shapes):
    fs = float(rng.choice([50.0, 100.0, 256.0, 1000.0]))
    # distinct frequencies in (0, 0.45 fs), separated by at least 2% of fs
    while True:
        fn = np.sort(rng.uniform(0.02 * fs, 0.45 * fs, m))
        if m == 1 or np.min(np.diff(fn)) > 0.02 * fs:
            break
    xi = rng.uniform(0.002, 0.08, m)
    lam = 2 * np.pi * fn * (-xi + 1j * np.sqrt(1 - xi**2))
    phi = rng.standard_normal((l, m))
    if complex_shapes:
        phi = phi + 1j * 0.5 * rng.standard_normal((l, m))
    return fs, fn, xi, lam, phi


def free_response(rng, fs, lam, phi, ndat):
    """Noise-free free vibration, every mode excited; returns (ndat, l)."""
    m = len(lam)
    amp = rng.uniform(0.5, 2.0, m) * np.exp(1j * rng.uniform(0, 2 * np.pi, m))
    k = np.arange(ndat)
    modal = amp[:, None] * np.exp(np.outer(lam, k) / fs)  # (m, ndat)
    return (2 * np.real(phi @ modal)).T


def exact_hankel(rng, fs, lam, phi, br, r):
    """H = O * Gamma of exact rank 2m, (br+1)*l x (br+1)*r."""
    mu = np.exp(lam / fs)
    mu2 = np.concatenate([mu, mu.conj()])
    Cc = np.concatenate([phi, phi.conj()], axis=1)
    G = rng.standard_normal((2 * len(lam) // 2, r)) + 1j * rng.standard_normal((len(lam), r))
    G = np.concatenate([G, G.conj()], axis=0)
    O = np.vstack([Cc * mu2**k for k in range(br + 1)])
    Gam = np.hstack([(mu2**k)[:, None] * G for k in range(br + 1)])
    H = O @ Gam
    assert np.max(np.abs(H.imag)) < 1e-9 * np.max(np.abs(H.real))
    return np.ascontiguousarray(H.real)


def mac(a, b):
    return np.abs(np.vdot(a, b)) ** 2 / (np.vdot(a, a).real * np.vdot(b, b).real)


# -----------------------------------------------------------------------------
# 1. numerical routines
# -----------------------------------------------------------------------------
def check_ac2mp(rng):
    for _ in range(40):
        n = int(rng.integers(1, 13))
        l = int(rng.integers(1, 9))
        A = rng.standard_normal((n, n)) * rng.uniform(0.1, 1.5)
        C = rng.standard_normal((l, n))
        if rng.random() < 0.3:  # ties in the largest component / zero entries
            C = np.round(C)
        dt = float(rng.choice([1.0, 0.01, 1 / 256, 0.1]))
        for cu in (False, True, 1, None):
            both(
                lambda: new_f.ac2mp(A, C, dt, calc_unc=cu),
                lambda: orig_f.ac2mp(A, C, dt, calc_unc=cu),
                f"ac2mp n={n} l={l} calc_unc={cu}",
            )
    # positional call, the pinned cases of the unit tests, degenerate inputs
    A = np.array([[0.5, 0.2], [0.1, 0.7]])
    C = np.array([[1.0, 0.0], [0.0, 1.0]])
    both(lambda: new_f.ac2mp(A, C, 0.1), lambda: orig_f.ac2mp(A, C, 0.1), "ac2mp 2x2")
    both(
        lambda: new_f.ac2mp(np.array([[0.9]]), np.array([[2.0]]), 0.1, True),
        lambda: orig_f.ac2mp(np.array([[0.9]]), np.array([[2.0]]), 0.1, True),
        "ac2mp 1x1",
    )
    Z = np.zeros((3, 3))
    both(lambda: new_f.ac2mp(Z, C[:, :1] @ np.ones((1, 3)), 0.1),
         lambda: orig_f.ac2mp(Z, C[:, :1] @ np.ones((1, 3)), 0.1), "ac2mp zero A")
    both(lambda: new_f.ac2mp(A, np.zeros((3, 2)), 0.1),
         lambda: orig_f.ac2mp(A, np.zeros((3, 2)), 0.1), "ac2mp zero C")
    both(lambda: new_f.ac2mp(A, np.ones((3, 5)), 0.1),
         lambda: orig_f.ac2mp(A, np.ones((3, 5)), 0.1), "ac2mp shape mismatch")
    both(lambda: new_f.ac2mp(np.zeros((0, 0)), np.zeros((3, 0)), 0.1),
         lambda: orig_f.ac2mp(np.zeros((0, 0)), np.zeros((3, 0)), 0.1), "ac2mp order 0")
    both(lambda: new_f.ac2mp(np.full((2, 2), np.nan), C, 0.1),
         lambda: orig_f.ac2mp(np.full((2, 2), np.nan), C, 0.1), "ac2mp nan A")


def realisation_and_poles(H, br, ordmax, step, dt, what, T=None, nb=None):
    """Compare SSI, SSI_fast and SSI_poles on one Hankel matrix."""
    both(
        lambda: new_f.SSI(H, br, ordmax, step=step),
        lambda: orig_f.SSI(H, br, ordmax, step=step),
        f"SSI {what}",
    )
    kw = {} if T is None else dict(calc_unc=True, T=T, nb=nb)
    res_new, exc = both(
        lambda: new_f.SSI_fast(H, br, ordmax, step=step, **kw),
        lambda: orig_f.SSI_fast(H, br, ordmax, step=step, **kw),
        f"SSI_fast {what}",
    )
    if exc is not None:
        return None
    Obs, A, C, Q1, Q2, Q3, Q4 = res_new
    # views / sharing: C[n] must be views of Obs as before
    assert all(c.base is Obs or c.base is Obs.base or c is Obs for c in C)
    kwp = {} if T is None else dict(calc_unc=True, Q1=Q1, Q2=Q2, Q3=Q3, Q4=Q4)
    poles, exc = both(
        lambda: new_f.SSI_poles(Obs, A, C, ordmax, dt, step=step, **kwp),
        lambda: orig_f.SSI_poles(Obs, A, C, ordmax, dt, step=step, **kwp),
        f"SSI_poles {what}",
    )
    if step == 1:
        # legacy realisation through the pole table as well
        A2, C2 = new_f.SSI(H, br, ordmax, step=step)
        both(
            lambda: new_f.SSI_poles(Obs, A2, C2, ordmax, dt),
            lambda: orig_f.SSI_poles(Obs, A2, C2, ordmax, dt),
            f"SSI_poles(legacy A,C) {what}",
        )
    return poles


def check_truth(poles, order, fn_true, xi_true, phi_true, what):
    """Sanity: the property itself holds for the refactored code."""
    Fn, Xi, Phi = poles[0], poles[1], poles[2]
    col = Fn[:, order]
    assert np.sum(~np.isnan(col)) == order, what
    for j, f in enumerate(fn_true):
        idx = np.nanargmin(np.abs(col - f))
        assert abs(col[idx] - f) / f < 1e-6, f"{what}: fn {col[idx]} vs {f}"
        assert abs(Xi[idx, order] - xi_true[j]) < 1e-6, f"{what}: xi"
        assert 1 - mac(Phi[idx, order, :], phi_true[:, j]) < 1e-8, f"{what}: MAC"


def check_routines(rng):
    n_sys = 0
    for m in (1, 2, 3, 4, 5, 6):
        for rep in range(4):
            l = int(rng.integers(2, 9))
            cplx = bool(rep % 2)
            fs, fn, xi, lam, phi = random_system(rng, m, l, cplx)
            # reference subset that still observes every mode
            r = int(rng.integers(1, l + 1))
            ref = np.sort(rng.choice(l, size=r, replace=False))
            br = int(np.ceil(2 * m / r)) + 1 + int(rng.integers(0, 4))
            ordmax = min(2 * m + int(rng.integers(0, 5)), (br + 1) * r, br * l)
            if ordmax < 2 * m:
                br += 2
                ordmax = 2 * m
            ndat = int(rng.integers(300, 900))
            Y = free_response(rng, fs, lam, phi, ndat).T
            Yref = Y[ref, :]
            what = f"m={m} l={l} r={r} br={br} ordmax={ordmax} cplx={cplx}"
            for method in ("cov_mm", "dat"):
                H, _ = orig_f.build_hank(Y, Yref, br, method)
                for step in (1, 2):
                    poles = realisation_and_poles(
                        H, br, ordmax, step, 1 / fs, f"{method} step={step} {what}"
                    )
                    if step == 1 and poles is not None:
                        check_truth(poles, 2 * m, fn, xi, phi, f"{method} {what}")
                        _mpe_cases(rng, poles, fn, 2 * m, what)
            # realisation step alone on an exact rank-2m product
            Hx = exact_hankel(rng, fs, lam, phi, br, r)
            poles = realisation_and_poles(Hx, br, ordmax, 1, 1 / fs, f"exact {what}")
            check_truth(poles, 2 * m, fn, xi, phi, f"exact {what}")
            n_sys += 1

    # uncertainty branch of SSI_fast / SSI_poles (small, full-rank noisy data)
    for _ in range(3):
        l, r, br, ordmax, nb = 3, 2, 3, 6, 10
        Y = rng.standard_normal((l, 600))
        H, T = orig_f.build_hank(Y, Y[:r], br, "cov_mm", calc_unc=True, nb=nb)
        realisation_and_poles(H, br, ordmax, 1, 0.01, "calc_unc", T=T, nb=nb)

    # the matrix of the unit tests and error paths
    H = np.arange(1.0, 13.0).reshape(4, 3)
    realisation_and_poles(H, 1, 2, 1, 0.1, "unit-test matrix")
    Hbig = rng.standard_normal((12, 6))
    realisation_and_poles(Hbig, 2, 10, 1, 0.1, "ordmax > columns")  # error / odd path
    realisation_and_poles(Hbig, 2, 0, 1, 0.1, "ordmax = 0")
    realisation_and_poles(np.zeros((8, 8)), 1, 4, 1, 0.1, "zero Hankel")
    return n_sys


def _mpe_cases(rng, poles, fn_true, order, what):
    Fn, Xi, Phi = poles[0], poles[1], poles[2]
    Lab = (rng.random(Fn.shape) < 0.7).astype(int)
    cov = [np.abs(rng.standard_normal(Fn.shape)), np.abs(rng.standard_normal(Fn.shape)),
           np.abs(rng.standard_normal(Phi.shape))]
    sel = list(fn_true * (1 + 1e-3 * rng.standard_normal(len(fn_true))))
    miss = sel + [float(fn_true[-1] * 1.5)]
    n_ord = Fn.shape[1]
    cases = [
        (sel, order, {}),
        (sel, order, dict(rtol=1e-2)),
        (miss, order, {}),
        (sel, n_ord - 1, {}),
        (sel, n_ord + 3, {}),  # IndexError in both
        (sel, 0, {}),  # all-NaN column -> ValueError in both
        ([], order, {}),  # nothing selected -> same exception in both
        (sel, [order] * len(sel), {}),
        (miss, [order] * len(miss), {}),
        (sel, "find_min", dict(Lab=Lab)),
        (sel, "find_min", {}),
        (sel, 2.5, {}),
        (sel, order, dict(Fn_cov=cov[0], Xi_cov=cov[1], Phi_cov=cov[2])),
        (miss, order, dict(Fn_cov=cov[0], Xi_cov=cov[1], Phi_cov=cov[2])),
        (np.array(sel), order, {}),
    ]
    for k, (fr, od, kw) in enumerate(cases):
        both(
            lambda: new_f.SSI_mpe(fr, Fn, Xi, Phi, od, **kw),
            lambda: orig_f.SSI_mpe(fr, Fn, Xi, Phi, od, **kw),
            f"SSI_mpe case {k} {what}",
        )


# -----------------------------------------------------------------------------
# 2. calling layer (algorithm classes through SingleSetup)
# -----------------------------------------------------------------------------
RESULT_FIELDS = [
    "Obs", "A", "C", "H", "Lambds", "Fn_poles", "Xi_poles", "Phi_poles", "Lab",
    "Fn_poles_cov", "Xi_poles_cov", "Phi_poles_cov",
    "order_out", "Fn", "Xi", "Phi", "Fn_cov", "Xi_cov", "Phi_cov",
]


def compare_results(a_new, a_old, what):
    for fld in RESULT_FIELDS:
        same(getattr(a_new.result, fld), getattr(a_old.result, fld), f"{what}: result.{fld}")
    same(a_new.run_params.model_dump(exclude={"sc", "hc"}).keys() ==
         a_old.run_params.model_dump(exclude={"sc", "hc"}).keys(), True, f"{what}: rp keys")
    for k in ("sel_freq", "order_in", "rtol", "br", "ordmax", "ordmin", "step", "method",
              "ref_ind", "calc_unc", "nb"):
        x, y = getattr(a_new.run_params, k), getattr(a_old.run_params, k)
        assert type(x) is type(y) and (
            np.array_equal(x, y) if isinstance(x, (list, np.ndarray)) else x == y
        ), f"{what}: run_params.{k}"


class _FakeSFP:
    """Stand-in for the interactive selection window."""

    payload = None
    seen = []

    def __init__(self, algo, freqlim=None, plot=None):
        type(self).seen.append((type(algo).__name__, freqlim, plot))
        self.result = type(self).payload


def check_calling_layer(rng):
    n_runs = 0
    pairs = [(new_alg.SSIcov, orig_alg.SSIcov, "cov_mm"), (new_alg.SSIdat, orig_alg.SSIdat, "dat")]
    new_alg.SelFromPlot = _FakeSFP
    orig_alg.SelFromPlot = _FakeSFP
    for m in (1, 2, 3, 4, 6):
        for rep in range(2):
            l = int(rng.integers(2, 9))
            fs, fn, xi, lam, phi = random_system(rng, m, l, bool(rep))
            r = int(rng.integers(1, l + 1))
            ref = None if rep == 0 and m % 2 else sorted(
                int(i) for i in rng.choice(l, size=r, replace=False))
            r_eff = l if ref is None else r
            br = int(np.ceil(2 * m / r_eff)) + 2 + int(rng.integers(0, 3))
            ordmax = min(2 * m + 2, (br + 1) * r_eff, br * l)
            data = free_response(rng, fs, lam, phi, int(rng.integers(400, 800)))
            for cls_new, cls_old, meth in pairs:
                for variant in range(3):
                    kw = dict(br=br, ordmax=ordmax, ref_ind=ref)
                    if variant == 1:
                        kw.update(step=1, ordmin=2, method=meth,
                                  hc=dict(conj=False, xi_max=0.2, mpc_lim=0.5, mpd_lim=0.5,
                                          cov_max=0.3),
                                  sc=dict(err_fn=0.02, err_xi=0.1, err_phi=0.05))
                    if variant == 2:
                        kw.update(step=2)
                    what = f"{cls_new.__name__} m={m} l={l} ref={ref} br={br} v{variant}"
                    ss_new, ss_old = SingleSetup(data.copy(), fs), SingleSetup(data.copy(), fs)
                    a_new, a_old = cls_new(name="alg", **kw), cls_old(name="alg", **kw)
                    ss_new.add_algorithms(a_new)
                    ss_old.add_algorithms(a_old)
                    # extraction before the run: same exception
                    both(lambda: ss_new.mpe("alg", sel_freq=list(fn), order=2 * m),
                         lambda: ss_old.mpe("alg", sel_freq=list(fn), order=2 * m),
                         f"{what}: mpe before run")
                    both(lambda: ss_new.mpe_from_plot("alg"),
                         lambda: ss_old.mpe_from_plot("alg"), f"{what}: mpe_from_plot before run")
                    _, exc = both(lambda: ss_new.run_by_name("alg"),
                                  lambda: ss_old.run_by_name("alg"), f"{what}: run")
                    n_runs += 1
                    if exc is not None:
                        continue
                    compare_results(a_new, a_old, f"{what}: after run")
                    # cross check: pristine calling layer on the refactored routines
                    orig_alg.ssi = new_f
                    try:
                        a_x = cls_old(name="alg", **kw)
                        ss_x = SingleSetup(data.copy(), fs)
                        ss_x.add_algorithms(a_x)
                        ss_x.run_by_name("alg")
                    finally:
                        orig_alg.ssi = orig_f
                    compare_results(a_new, a_x, f"{what}: cross")

                    sel = [float(f) for f in fn]
                    mpe_calls = [
                        dict(sel_freq=sel, order=2 * m),
                        dict(sel_freq=sel, order=2 * m, rtol=1e-3),
                        dict(sel_freq=sel),  # find_min with the labels of the run
                        dict(sel_freq=sel + [0.49 * fs], order=2 * m),
                        dict(sel_freq=sel, order=[2 * m] * m, rtol=2e-2),
                        dict(sel_freq=sel, order=10**6),
                    ]
                    if variant == 2:
                        mpe_calls = mpe_calls[:1] + mpe_calls[2:3]
                    for k, mk in enumerate(mpe_calls):
                        both(lambda: ss_new.mpe("alg", **mk), lambda: ss_old.mpe("alg", **mk),
                             f"{what}: mpe call {k}")
                        compare_results(a_new, a_old, f"{what}: after mpe {k}")
                    if variant == 0 and rep == 0:
                        # the property: extraction at order 2m returns the system's values
                        # (real mode shapes, so that the default MPC/MPD limits keep them)
                        ss_new.mpe("alg", sel_freq=sel, order=2 * m)
                        res = a_new.result
                        assert np.allclose(res.Fn, fn, rtol=1e-6), what
                        assert np.allclose(res.Xi, xi, atol=1e-6), what
                        for j in range(m):
                            assert 1 - mac(res.Phi[:, j], phi[:, j]) < 1e-8, what
                        ss_old.mpe("alg", sel_freq=sel, order=2 * m)
                    # interactive path with a stubbed selection window
                    for payload, kwp in (
                        ((sel, [2 * m] * m), dict()),
                        ((sel, [2 * m] * m), dict(freqlim=(0.0, fs / 2), rtol=5e-3)),
                        ((sel[:1], None), dict()),  # order None -> AttributeError in both
                    ):
                        _FakeSFP.payload = payload
                        _FakeSFP.seen = []
                        both(lambda: ss_new.mpe_from_plot("alg", **kwp),
                             lambda: ss_old.mpe_from_plot("alg", **kwp),
                             f"{what}: mpe_from_plot")
                        assert len(_FakeSFP.seen) == 2 and _FakeSFP.seen[0][1:] == _FakeSFP.seen[1][1:]
                        compare_results(a_new, a_old, f"{what}: after mpe_from_plot")

    # uncertainty plumbing (calc_unc, nb, T, Q1..Q4) on noisy full-rank data
    for rep in range(2):
        data = rng.standard_normal((700, 3))
        kw = dict(br=3, ordmax=6, calc_unc=True, nb=10, method="cov_mm",
                  ref_ind=[0, 2] if rep else None)
        a_new, a_old = new_alg.SSIcov(name="u", **kw), orig_alg.SSIcov(name="u", **kw)
        ss_new, ss_old = SingleSetup(data.copy(), 100.0), SingleSetup(data.copy(), 100.0)
        ss_new.add_algorithms(a_new)
        ss_old.add_algorithms(a_old)
        both(lambda: ss_new.run_by_name("u"), lambda: ss_old.run_by_name("u"), "calc_unc run")
        compare_results(a_new, a_old, "calc_unc run")
        assert a_new.result.Fn_poles_cov is not None
        f0 = a_new.result.Fn_poles[:, 6]
        f0 = [float(f0[np.nanargmin(np.abs(f0 - np.nanmedian(f0)))])] if np.any(~np.isnan(f0)) else [10.0]
        both(lambda: ss_new.mpe("u", sel_freq=f0, order=6), lambda: ss_old.mpe("u", sel_freq=f0, order=6),
             "calc_unc mpe")
        compare_results(a_new, a_old, "calc_unc mpe")
        n_runs += 1
    # invalid configuration: calc_unc with the data-driven Hankel -> same exception
    kw = dict(br=3, ordmax=6, calc_unc=True, nb=10)
    a_new, a_old = new_alg.SSIdat(name="e", **kw), orig_alg.SSIdat(name="e", **kw)
    ss_new, ss_old = SingleSetup(data.copy(), 100.0), SingleSetup(data.copy(), 100.0)
    ss_new.add_algorithms(a_new)
    ss_old.add_algorithms(a_old)
    _, exc = both(lambda: ss_new.run_by_name("e"), lambda: ss_old.run_by_name("e"), "dat+calc_unc")
    assert exc is AttributeError
    return n_runs


def main():
    rng = np.random.default_rng(20261003)
    check_ac2mp(rng)
    n_sys = check_routines(rng)
    n_runs = check_calling_layer(rng)
    print(f"systems through the numerical routines: {n_sys}")
    print(f"algorithm runs through SingleSetup:     {n_runs}")
    print(f"comparisons: {N_CMP}, not bitwise identical (within rtol={RTOL}): {N_BITWISE_MISS}")
    print("PASS")


if __name__ == "__main__":
    main()
