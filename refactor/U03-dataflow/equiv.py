"""
Equivalence check for the U03 refactoring (property C03, PreGER multi-setup SSI).

Runs the ORIGINAL code (pristine copies orig_*.py, wired together so that the
original classes call the original numerical routines) and the REFACTORED code
(the pyoma2 package of this worktree) on the same random inputs and asserts
identical outputs (values, dtypes, shapes, NaN patterns, complex values,
exceptions).

Usage:  PYTHONPATH=/tmp/wt/U03/src /venv/bin/python /tmp/wt/U03/_refactor/equiv.py
"""

import importlib.util
import itertools
import logging
import os
import sys
import warnings

import numpy as np

os.environ.setdefault("MPLBACKEND", "Agg")
os.environ.setdefault("TQDM_DISABLE", "1")
warnings.filterwarnings("ignore")
logging.disable(logging.CRITICAL)

HERE = os.path.dirname(os.path.abspath(__file__))

import pyoma2  # noqa: E402
import pyoma2.algorithms.ssi as new_algo  # noqa: E402
import pyoma2.functions.gen as new_gen  # noqa: E402
import pyoma2.functions.ssi as new_ssi  # noqa: E402
import pyoma2.setup.multi as new_multi  # noqa: E402
from pyoma2.setup.single import SingleSetup  # noqa: E402

assert pyoma2.__file__.startswith("/tmp/wt/U03/src"), pyoma2.__file__


def _load(modname, fname):
    spec = importlib.util.spec_from_file_location(modname, os.path.join(HERE, fname))
    mod = importlib.util.module_from_spec(spec)
    sys.modules[modname] = mod
    spec.loader.exec_module(mod)
    return mod


# pristine copies; names inside the packages so that relative imports resolve
orig_gen = _load("pyoma2.functions._orig_gen", "orig_functions_gen.py")
orig_ssi = _load("pyoma2.functions._orig_ssi", "orig_functions_ssi.py")
orig_algo = _load("pyoma2.algorithms._orig_ssi", "orig_algorithms_ssi.py")
orig_multi = _load("pyoma2.setup._orig_multi", "orig_setup_multi.py")
# wire the original calling layer to the original numerical routines
orig_algo.gen = orig_gen
orig_algo.ssi = orig_ssi
orig_multi.pre_multisetup = orig_gen.pre_multisetup
assert orig_algo.SSIdat_MS is not new_algo.SSIdat_MS
assert orig_multi.MultiSetup_PreGER is not new_multi.MultiSetup_PreGER

STATS = {"compared": 0, "bitwise": 0, "close_only": 0, "max_dev": 0.0, "exc": 0}
STRICT_BITWISE = True
EXC_BY_KIND = {}


def same(a, b, where, layout=False):
    """Deep identity check of two results."""
    if a is None or b is None:
        assert a is None and b is None, f"{where}: None mismatch {type(a)} {type(b)}"
        return
    if isinstance(a, dict):
        assert isinstance(b, dict) and list(a.keys()) == list(b.keys()), f"{where}: keys"
        for k in a:
            same(a[k], b[k], f"{where}[{k!r}]", layout)
        return
    if isinstance(a, (list, tuple)):
        assert type(a) is type(b), f"{where}: type {type(a)} vs {type(b)}"
        assert len(a) == len(b), f"{where}: len {len(a)} vs {len(b)}"
        for i, (x, y) in enumerate(zip(a, b)):
            same(x, y, f"{where}[{i}]", layout)
        return
    if isinstance(a, np.ndarray):
        assert isinstance(b, np.ndarray), f"{where}: {type(b)}"
        assert a.dtype == b.dtype, f"{where}: dtype {a.dtype} vs {b.dtype}"
        assert a.shape == b.shape, f"{where}: shape {a.shape} vs {b.shape}"
        if layout:
            assert a.strides == b.strides, f"{where}: strides {a.strides} {b.strides}"
            assert a.flags["C_CONTIGUOUS"] == b.flags["C_CONTIGUOUS"], f"{where}: flags"
            assert a.flags["F_CONTIGUOUS"] == b.flags["F_CONTIGUOUS"], f"{where}: flags"
        STATS["compared"] += 1
        if a.dtype == object:
            assert all(x == y for x, y in zip(a.ravel(), b.ravel())), where
            return
        assert np.array_equal(np.isnan(a), np.isnan(b)), f"{where}: NaN pattern"
        if a.dtype.kind == "c":
            assert np.array_equal(np.isnan(a.real), np.isnan(b.real)), f"{where}: re NaN"
            assert np.array_equal(np.isnan(a.imag), np.isnan(b.imag)), f"{where}: im NaN"
        if np.array_equal(a, b, equal_nan=True):
            STATS["bitwise"] += 1
            return
        dev = np.nanmax(np.abs(a - b)) / max(1.0, np.nanmax(np.abs(a)))
        STATS["max_dev"] = max(STATS["max_dev"], float(dev))
        STATS["close_only"] += 1
        assert not STRICT_BITWISE, f"{where}: not bit-identical (rel dev {dev:.3e})"
        assert np.allclose(a, b, rtol=1e-12, atol=1e-13, equal_nan=True), f"{where}: {dev}"
        return
    assert type(a) is type(b), f"{where}: type {type(a)} vs {type(b)}"
    if isinstance(a, float) and np.isnan(a):
        assert np.isnan(b), where
    else:
        assert a == b, f"{where}: {a!r} vs {b!r}"


def both(f_orig, f_new, where, layout=False, may_raise=True):
    """Call both, compare results or exception types. Returns the new result."""
    res = []
    for f in (f_orig, f_new):
        try:
            res.append(("ok", f()))
        except Exception as e:  # noqa: BLE001
            if not may_raise:
                raise
            res.append(("exc", type(e)))
    (k0, v0), (k1, v1) = res
    assert k0 == k1, f"{where}: {res[0]} vs {res[1]}"
    if k0 == "exc":
        assert v0 is v1, f"{where}: exception {v0} vs {v1}"
        STATS["exc"] += 1
        key = where.split(" ")[0] + ":" + v0.__name__
        EXC_BY_KIND[key] = EXC_BY_KIND.get(key, 0) + 1
        return None
    same(v0, v1, where, layout)
    return v1


# ----------------------------------------------------------------------------
# input generators
# ----------------------------------------------------------------------------
def global_system(rng, m, n_dof, complex_shapes):
    fn = np.sort(rng.uniform(1.0, 12.0, m)) + np.arange(m) * 0.7
    xi = rng.uniform(0.005, 0.04, m)
    phi = rng.standard_normal((n_dof, m))
    if complex_shapes:
        phi = phi + 0.3j * rng.standard_normal((n_dof, m))
    return fn, xi, phi


def free_response(rng, fn, xi, phi, fs, N, gain):
    """Noise-free free vibration of all global DOFs, (N x n_dof)."""
    t = np.arange(N) / fs
    wn = 2 * np.pi * fn
    lam = -xi * wn + 1j * wn * np.sqrt(1 - xi**2)
    a = rng.standard_normal(len(fn)) + 1j * rng.standard_normal(len(fn))
    y = np.real((phi * a) @ np.exp(np.outer(lam, t)))  # n_dof x N
    return gain * y.T


def multi_setup_case(rng, noise_free=True, complex_shapes=False):
    m = int(rng.integers(1, 6))
    n_setup = int(rng.integers(2, 5))
    n_ref = int(rng.integers(1, 4))
    n_rov = [int(rng.integers(1, 5)) for _ in range(n_setup)]
    n_dof = n_ref + sum(n_rov)
    fs = 50.0
    N = int(rng.integers(260, 400))
    fn, xi, phi = global_system(rng, m, n_dof, complex_shapes)
    datasets, ref_ind = [], []
    first = n_ref
    for k in range(n_setup):
        gain = 10.0 ** rng.uniform(-2, 2)
        if noise_free:
            yglob = free_response(rng, fn, xi, phi, fs, N, gain)
        else:
            yglob = gain * rng.standard_normal((N, n_dof))
        rov_dofs = list(range(first, first + n_rov[k]))
        first += n_rov[k]
        nch = n_ref + n_rov[k]
        # references at arbitrary positions, listed in arbitrary order
        pos = rng.choice(nch, size=n_ref, replace=False)
        pos = [int(p) for p in pos]  # pos[j] = channel of the j-th reference DOF
        rov_pos = [c for c in range(nch) if c not in pos]
        data = np.zeros((N, nch))
        for j, p in enumerate(pos):
            data[:, p] = yglob[:, j]
        for c, d in zip(rov_pos, rov_dofs):
            data[:, c] = yglob[:, d]
        datasets.append(data)
        ref_ind.append(pos)
    return dict(m=m, fs=fs, datasets=datasets, ref_ind=ref_ind, fn=fn, n_ref=n_ref)


# ----------------------------------------------------------------------------
# 1. pre_multisetup: exhaustive split check
# ----------------------------------------------------------------------------
def check_split(rng):
    n = 0
    for nch in range(1, 7):
        y = rng.standard_normal((17, nch))
        yF = np.asfortranarray(rng.standard_normal((17, nch)))
        for k in range(0, nch + 1):
            for refs in itertools.permutations(range(nch), k):
                refs = list(refs)
                for data in (y, yF):
                    both(
                        lambda: orig_gen.pre_multisetup([data], [refs]),
                        lambda: new_gen.pre_multisetup([data], [refs]),
                        f"pre_multisetup nch={nch} refs={refs}",
                        layout=True,
                    )
                    n += 1
    # several setups at once, tuple / ndarray reference lists, short reflist
    for _ in range(30):
        ns = int(rng.integers(1, 5))
        data, refl = [], []
        for _k in range(ns):
            nch = int(rng.integers(2, 7))
            nr = int(rng.integers(1, nch))
            data.append(rng.standard_normal((int(rng.integers(5, 30)), nch)))
            r = [int(v) for v in rng.choice(nch, nr, replace=False)]
            refl.append(r if rng.random() < 0.6 else tuple(r))
        both(
            lambda: orig_gen.pre_multisetup(data, refl),
            lambda: new_gen.pre_multisetup(data, refl),
            "pre_multisetup multi",
            layout=True,
        )
        both(
            lambda: orig_gen.pre_multisetup(data, refl[:-1]),
            lambda: new_gen.pre_multisetup(data, refl[:-1]),
            "pre_multisetup short reflist",
        )
        n += 2
    return n


# ----------------------------------------------------------------------------
# 2. SSI_multi_setup: numerical routine
# ----------------------------------------------------------------------------
def check_ssi_multi(rng):
    n = 0
    for it in range(36):
        case = multi_setup_case(
            rng, noise_free=(it % 4 != 3), complex_shapes=(it % 3 == 1)
        )
        Y = orig_gen.pre_multisetup(case["datasets"], case["ref_ind"])
        m, n_ref = case["m"], case["n_ref"]
        br_min = int(np.ceil(2 * m / n_ref)) + 1
        for method in ("cov_mm", "dat", "cov_R"):
            br = br_min + int(rng.integers(0, 4))
            for ordmax, step in ((2 * m, 1), (min(2 * m + 3, br * n_ref), 2)):
                both(
                    lambda: orig_ssi.SSI_multi_setup(
                        Y, case["fs"], br, ordmax, method, step
                    ),
                    lambda: new_ssi.SSI_multi_setup(
                        Y, case["fs"], br, ordmax, method, step
                    ),
                    f"SSI_multi_setup it={it} {method} br={br} ordmax={ordmax}",
                )
                n += 1
        # error paths: invalid method, order larger than the Hankel columns
        both(
            lambda: orig_ssi.SSI_multi_setup(Y, case["fs"], br_min, 2 * m, "nope"),
            lambda: new_ssi.SSI_multi_setup(Y, case["fs"], br_min, 2 * m, "nope"),
            "SSI_multi_setup bad method",
        )
        for method in ("cov_mm", "dat"):
            both(
                lambda: orig_ssi.SSI_multi_setup(Y, case["fs"], 2, 100, method),
                lambda: new_ssi.SSI_multi_setup(Y, case["fs"], 2, 100, method),
                "SSI_multi_setup ordmax too large",
            )
            # ordmax between the rank and the size of the Hankel matrix
            both(
                lambda: orig_ssi.SSI_multi_setup(Y, case["fs"], 2, 2 * n_ref + 1, method),
                lambda: new_ssi.SSI_multi_setup(Y, case["fs"], 2, 2 * n_ref + 1, method),
                "SSI_multi_setup ordmax above the number of Hankel columns",
            )
        n += 5
    # the 10-sample toy call of the unit test
    Y = [
        {"ref": rng.random((3, 10)), "mov": rng.random((2, 10))},
        {"ref": rng.random((3, 10)), "mov": rng.random((4, 10))},
    ]
    for method in ("cov_mm", "cov_R", "dat"):
        both(
            lambda: orig_ssi.SSI_multi_setup(Y, 1.0, 2, 2, method),
            lambda: new_ssi.SSI_multi_setup(Y, 1.0, 2, 2, method),
            f"SSI_multi_setup toy {method}",
        )
        n += 1
    return n


# ----------------------------------------------------------------------------
# 3. calling layer: MultiSetup_PreGER + SSIcov_MS / SSIdat_MS
# ----------------------------------------------------------------------------
RES_FIELDS = (
    "Obs A C H Lambds Fn_poles Xi_poles Phi_poles Lab Fn_poles_cov Xi_poles_cov "
    "Phi_poles_cov Fn Xi Phi order_out Fn_cov Xi_cov Phi_cov"
).split()
SETUP_FIELDS = "fs dt Nsetup ref_ind datasets data Nchs Ndats Ts".split()


def result_dict(algo):
    return {f: getattr(algo.result, f) for f in RES_FIELDS}


def setup_dict(ms):
    d = {f: getattr(ms, f) for f in SETUP_FIELDS}
    d["algorithms"] = sorted(ms.algorithms)
    return d


class FakeSFP:
    """Stand-in for the interactive selection (no display available)."""

    picks = ([], None)

    def __init__(self, algo, freqlim=None, plot="SSI"):
        assert plot == "SSI"
        self.result = FakeSFP.picks


orig_algo.SelFromPlot = FakeSFP
new_algo.SelFromPlot = FakeSFP


def check_setup_layer(rng):
    n = 0
    for it in range(24):
        case = multi_setup_case(rng, noise_free=(it % 4 != 3), complex_shapes=(it % 2))
        m, n_ref, fs = case["m"], case["n_ref"], case["fs"]
        ms_o = orig_multi.MultiSetup_PreGER(
            fs=fs,
            ref_ind=[list(r) for r in case["ref_ind"]],
            datasets=[d.copy() for d in case["datasets"]],
        )
        ms_n = new_multi.MultiSetup_PreGER(
            fs=fs,
            ref_ind=[list(r) for r in case["ref_ind"]],
            datasets=[d.copy() for d in case["datasets"]],
        )
        same(setup_dict(ms_o), setup_dict(ms_n), f"setup init it={it}", layout=True)

        # preprocessing chain with non-default options, then rollback
        steps = [
            ("detrend_data", (), dict(type="constant")),
            ("detrend_data", (), dict()),
            ("filter_data", (), dict(Wn=(0.5, 20.0), order=4, btype="bandpass")),
            ("filter_data", (15.0,), dict()),
            ("decimate_data", (2,), dict(zero_phase=False, n=4)),
            ("decimate_data", (2,), dict(ftype="fir", n=12)),
            ("decimate_data", (), dict(q=3, axis=0)),
            ("decimate_data", (2,), dict(bogus=1)),  # TypeError in both
            ("filter_data", (15.0,), dict(btype="nope")),  # error in both
        ]
        picks = rng.choice(len(steps), size=3, replace=False)
        for ip in picks:
            name, args, kw = steps[int(ip)]
            both(
                lambda: getattr(ms_o, name)(*args, **dict(kw)),
                lambda: getattr(ms_n, name)(*args, **dict(kw)),
                f"{name} it={it}",
            )
            same(setup_dict(ms_o), setup_dict(ms_n), f"after {name}{kw}", layout=True)
            n += 1
        ms_o.rollback()
        ms_n.rollback()
        same(setup_dict(ms_o), setup_dict(ms_n), f"rollback it={it}", layout=True)
        for a, b in zip(ms_n.data, ms_n.datasets):
            assert a["ref"].shape[0] == n_ref and a["ref"].shape[1] == b.shape[0]

        # algorithms with user-set criteria
        br = int(np.ceil(2 * m / n_ref)) + 1 + int(rng.integers(0, 3))
        ordmax = 2 * m if it % 3 else min(2 * m + 2, br * n_ref)
        params = dict(br=br, ordmax=ordmax)
        if it % 2:
            params.update(
                ordmin=int(rng.integers(0, 2)),
                # step > 1 raises IndexError in SSI_poles for the multi-setup classes
                # (upstream: SSI_multi_setup is always called with step=1); it is
                # exercised below only as an "equal exception" case
                step=1,
                sc=dict(err_fn=0.02, err_xi=0.1, err_phi=0.05),
                hc=dict(
                    conj=bool(it % 4 == 1),
                    xi_max=float(rng.uniform(0.02, 0.2)),
                    mpc_lim=float(rng.uniform(0.3, 0.95)),
                    mpd_lim=float(rng.uniform(0.05, 0.5)),
                    cov_max=0.1,
                ),
            )
        if it % 5 == 4:
            params.update(method="cov_R")
        algos_o = [
            orig_algo.SSIcov_MS(name="cov", **params),
            orig_algo.SSIdat_MS(name="dat", **params),
        ]
        algos_n = [
            new_algo.SSIcov_MS(name="cov", **params),
            new_algo.SSIdat_MS(name="dat", **params),
        ]
        ms_o.add_algorithms(*algos_o)
        ms_n.add_algorithms(*algos_n)
        both(ms_o.run_all, ms_n.run_all, f"run_all it={it}", may_raise=False)
        if it % 6 == 0:
            bad_o = orig_algo.SSIcov_MS(name="bad", step=2, **params)
            bad_n = new_algo.SSIcov_MS(name="bad", step=2, **params)
            bad_o._set_data(data=ms_o.data, fs=ms_o.fs)
            bad_n._set_data(data=ms_n.data, fs=ms_n.fs)
            both(bad_o.run, bad_n.run, f"MS step=2 it={it}")
        for name in ("cov", "dat"):
            ao, an = ms_o[name], ms_n[name]
            same(result_dict(ao), result_dict(an), f"run {name} it={it}")
            STATS["ms_valid_poles"] = STATS.get("ms_valid_poles", 0) + int(
                np.count_nonzero(~np.isnan(an.result.Fn_poles))
            )
            STATS["ms_blanked_poles"] = STATS.get("ms_blanked_poles", 0) + int(
                np.count_nonzero(np.isnan(an.result.Fn_poles[:, 1:]))
            )
            same(ao.run_params.model_dump(), an.run_params.model_dump(), "run_params")
            n += 1
            sel = [float(f) for f in case["fn"]]
            for order in (ordmax, "find_min"):
                both(
                    lambda: ms_o.mpe(name, sel_freq=sel, order=order, rtol=0.1),
                    lambda: ms_n.mpe(name, sel_freq=sel, order=order, rtol=0.1),
                    f"mpe {name} order={order} it={it}",
                )
                same(result_dict(ao), result_dict(an), f"mpe {name} {order} it={it}")
                if order == 2 * m and it % 4 != 3:
                    STATS["noise_free_mpe"] = STATS.get("noise_free_mpe", 0) + 1
                    if noise_free_identified(an, case, ordmax):
                        STATS["identified"] = STATS.get("identified", 0) + 1
                same(ao.run_params.model_dump(), an.run_params.model_dump(), "run_params")
                n += 1
            # mpe_from_plot with a stubbed interactive selection
            FakeSFP.picks = (sel[: max(1, m - 1)], [ordmax] * max(1, m - 1))
            both(
                lambda: ms_o.mpe_from_plot(name, rtol=0.05),
                lambda: ms_n.mpe_from_plot(name, rtol=0.05),
                f"mpe_from_plot {name} it={it}",
            )
            same(result_dict(ao), result_dict(an), f"mpe_from_plot {name} it={it}")
            same(ao.run_params.model_dump(), an.run_params.model_dump(), "run_params")
            n += 1
    return n


def noise_free_identified(algo, case, ordmax):
    """Sanity (not part of the equivalence): global frequencies recovered."""
    fn = algo.result.Fn
    return (
        fn is not None
        and np.ndim(fn) == 1
        and len(fn) == len(case["fn"])
        and np.allclose(fn, case["fn"][: len(fn)], rtol=1e-5)
    )


# ----------------------------------------------------------------------------
# 4. shared criteria helper on the single-setup classes (uncertainty on / off)
# ----------------------------------------------------------------------------
def check_single_setup(rng):
    n = 0
    for it in range(10):
        nch = int(rng.integers(2, 5))
        N = int(rng.integers(900, 1300))
        fs = 60.0
        t = np.arange(N) / fs
        data = rng.standard_normal((N, nch))
        for f in rng.uniform(2, 20, 3):
            data += np.outer(np.sin(2 * np.pi * f * t), rng.standard_normal(nch)) * 3
        params = dict(br=int(rng.integers(4, 7)), ordmax=int(rng.integers(4, 9)))
        if it % 2:
            params.update(
                calc_unc=True,
                nb=int(rng.integers(8, 20)),
                hc=dict(conj=bool(it % 4 == 1), xi_max=0.15, mpc_lim=0.5, mpd_lim=0.4,
                        cov_max=float(10.0 ** rng.uniform(-6, -1))),
                sc=dict(err_fn=0.05, err_xi=0.2, err_phi=0.1),
            )
        elif it % 4 == 2:
            params.update(step=2, hc=dict(conj=False, xi_max=0.3, mpc_lim=0.4,
                                          mpd_lim=0.6, cov_max=0.2))
        if it % 3 == 0:
            params.update(ref_ind=[int(v) for v in rng.choice(nch, 2, replace=False)])
        pairs = [("SSIcov", dict(params))]
        if not params.get("calc_unc"):
            pairs.append(("SSIdat", dict(params)))
        for cls, par in pairs:
            ss_o = SingleSetup(data.copy(), fs=fs)
            ss_n = SingleSetup(data.copy(), fs=fs)
            ao = getattr(orig_algo, cls)(name="a", **par)
            an = getattr(new_algo, cls)(name="a", **par)
            ss_o.add_algorithms(ao)
            ss_n.add_algorithms(an)
            ok = both(
                lambda: ss_o.run_all() or True,
                lambda: ss_n.run_all() or True,
                f"single {cls} run it={it}",
                may_raise=par.get("step", 1) != 1,
            )
            if not ok:
                continue
            same(result_dict(ao), result_dict(an), f"single {cls} run it={it}")
            if par.get("calc_unc"):
                assert an.result.Fn_poles_cov is not None
            fnp = an.result.Fn_poles
            sel = [float(v) for v in np.unique(fnp[~np.isnan(fnp)])[:2]]
            for order in (par["ordmax"] - (par["ordmax"] % par.get("step", 1)), "find_min"):
                both(
                    lambda: ss_o.mpe("a", sel_freq=sel, order=order, rtol=0.05),
                    lambda: ss_n.mpe("a", sel_freq=sel, order=order, rtol=0.05),
                    f"single {cls} mpe {order} it={it}",
                )
                same(result_dict(ao), result_dict(an), f"single {cls} mpe it={it}")
                n += 1
    return n


def main():
    rng = np.random.default_rng(20240303)
    counts = {
        "split": check_split(rng),
        "ssi_multi": check_ssi_multi(rng),
        "setup_layer": check_setup_layer(rng),
        "single_setup": check_single_setup(rng),
    }
    print("cases:", counts)
    print("stats:", STATS)
    print("equal exceptions by call:", EXC_BY_KIND)
    assert STATS["close_only"] == 0
    print("PASS")


if __name__ == "__main__":
    main()
