"""Equivalence check of the C19 refactoring (geometry tables) against the pristine code.

Runs the refactored functions (from /tmp/wt/U19/src) and the ORIGINAL ones (orig_*.py,
taken from HEAD) on random inputs that cover the quantifier of the property and on
single-fault corruptions, and asserts identical results: values, dtypes, NaN patterns,
order, the in-place state of the dictionary of tables, exception types and messages, and
the coordinates / colours of the artists drawn with the Agg backend.
"""

import copy
import importlib.util
import os
import sys
import warnings

import matplotlib

matplotlib.use("Agg")
import matplotlib.pyplot as plt  # noqa: E402
import numpy as np  # noqa: E402
import pandas as pd  # noqa: E402

warnings.filterwarnings("ignore")
HERE = os.path.dirname(os.path.abspath(__file__))
sys.path.insert(0, os.path.join(os.path.dirname(HERE), "src"))


def load(name, fname):
    spec = importlib.util.spec_from_file_location(name, os.path.join(HERE, fname))
    mod = importlib.util.module_from_spec(spec)
    sys.modules[name] = mod
    spec.loader.exec_module(mod)
    return mod


import pyoma2.functions.gen as new_gen  # noqa: E402
import pyoma2.support.geometry.mixin as new_mixin  # noqa: E402
import pyoma2.support.geometry.mpl_plotter as new_mpl  # noqa: E402
from pyoma2.algorithms.data.result import BaseResult  # noqa: E402

assert new_gen.__file__.startswith("/tmp/wt/U19/src"), new_gen.__file__

orig_gen = load("orig_gen", "orig_gen.py")
# the originals of the two geometry modules use relative imports: load them as
# additional submodules of the package and rebind the names they import from the
# refactored modules to the ORIGINAL objects
orig_mpl = load("pyoma2.support.geometry._orig_mpl_plotter", "orig_mpl_plotter.py")
orig_mpl.dfphi_map_func = orig_gen.dfphi_map_func
orig_mixin = load("pyoma2.support.geometry._orig_mixin", "orig_mixin.py")
orig_mixin.check_on_geo1 = orig_gen.check_on_geo1
orig_mixin.check_on_geo2 = orig_gen.check_on_geo2
orig_mixin.read_excel_file = orig_gen.read_excel_file
orig_mixin.Geo1MplPlotter = orig_mpl.Geo1MplPlotter
orig_mixin.Geo2MplPlotter = orig_mpl.Geo2MplPlotter
assert orig_mpl.Geo1MplPlotter is not new_mpl.Geo1MplPlotter
assert orig_gen.check_on_geo1 is not new_gen.check_on_geo1

COUNTS = {}


# --------------------------------------------------------------------------- compare
def same(a, b, path="res"):
    assert type(a) is type(b), f"{path}: type {type(a)} != {type(b)}"
    if a is None:
        return
    if isinstance(a, pd.DataFrame):
        pd.testing.assert_frame_equal(
            a,
            b,
            check_dtype=True,
            check_index_type=True,
            check_column_type=True,
            check_exact=True,
            check_names=True,
            obj=path,
        )
        assert list(a.dtypes) == list(b.dtypes), path
        assert a.index.dtype == b.index.dtype and a.columns.dtype == b.columns.dtype, path
        return
    if isinstance(a, (pd.Series, pd.Index)):
        assert a.equals(b) and a.dtype == b.dtype, path
        return
    if isinstance(a, np.ndarray):
        assert a.dtype == b.dtype, f"{path}: dtype {a.dtype} != {b.dtype}"
        assert a.shape == b.shape, f"{path}: shape {a.shape} != {b.shape}"
        if a.dtype == object:
            same(a.ravel().tolist(), b.ravel().tolist(), path)
        else:
            assert np.array_equal(a, b, equal_nan=a.dtype.kind in "fc"), path
        return
    if isinstance(a, dict):
        assert list(a.keys()) == list(b.keys()), f"{path}: keys {list(a)} != {list(b)}"
        for k in a:
            same(a[k], b[k], f"{path}[{k!r}]")
        return
    if isinstance(a, (list, tuple)):
        assert len(a) == len(b), f"{path}: len {len(a)} != {len(b)}"
        for i, (x, y) in enumerate(zip(a, b)):
            same(x, y, f"{path}[{i}]")
        return
    if isinstance(a, float) and a != a:
        assert b != b, path
        return
    assert a == b, f"{path}: {a!r} != {b!r}"


def outcome(func, *args, **kwargs):
    try:
        return ("ok", func(*args, **kwargs))
    except Exception as e:  # noqa: BLE001
        return ("exc", type(e).__name__, str(e))


def check_pair(tag, f_new, f_old, args, kwargs=None, mutable_first=True):
    """Run both versions on independent deep copies; compare outcome and the first
    argument after the call (the dict of tables is changed in place)."""
    kwargs = kwargs or {}
    a_new, a_old = copy.deepcopy(args), copy.deepcopy(args)
    r_new = outcome(f_new, *a_new, **copy.deepcopy(kwargs))
    r_old = outcome(f_old, *a_old, **copy.deepcopy(kwargs))
    same(r_new, r_old, tag)
    if mutable_first:
        same(a_new[0], a_old[0], tag + ":args[0]")
    key = f"{tag}:{r_old[0] if r_old[0] == 'ok' else r_old[1]}"
    COUNTS[key] = COUNTS.get(key, 0) + 1
    return r_old


# --------------------------------------------------------------------------- inputs
def rand_names(rng, n, prefix):
    ids = rng.permutation(np.arange(1, 4 * n + 1))[:n]
    return [f"{prefix}{i}" for i in ids]


def name_forms(rng, n):
    """Return (form of 'sensors names', ref_ind, flattened names) for a random
    single- or multi-setup layout with n flattened names."""
    kind = rng.choice(["list", "row", "array", "lol", "table"]) if n >= 3 else rng.choice(
        ["list", "row", "array"]
    )
    if kind in ("list", "row", "array"):
        names = rand_names(rng, n, "ch")
        form = {
            "list": names,
            "row": pd.DataFrame([names]),
            "array": np.array(names),
        }[kind]
        ref_ind = None if rng.random() < 0.7 else [[0]]
        return form, ref_ind, list(names)
    # multi setup: k references and the rovers distributed over 2..3 setups
    k = int(rng.integers(1, min(3, n - 1) + 1))
    n_rov = n - k
    n_set = int(rng.integers(1, min(3, n_rov) + 1))
    cuts = np.sort(rng.choice(np.arange(1, n_rov), size=n_set - 1, replace=False)) if n_set > 1 else []
    rovers = np.split(np.array(rand_names(rng, n_rov, "rov"), dtype=object), cuts)
    setups, ref_ind = [], []
    for s, rov in enumerate(rovers):
        tot = k + len(rov)
        # every reference layout: any positions, NOT necessarily ascending
        pos = rng.permutation(tot)[:k].tolist()
        row = [None] * tot
        for r, p in enumerate(pos):
            row[p] = f"s{s}ref{r}"
        it = iter(rov.tolist())
        row = [x if x is not None else next(it) for x in row]
        setups.append(row)
        ref_ind.append(pos)
    flat = [f"REF{i + 1}" for i in range(k)] + [x for rov in rovers for x in rov.tolist()]
    if kind == "lol":
        form = setups
    else:
        width = max(len(r) for r in setups)
        form = pd.DataFrame([r + [np.nan] * (width - len(r)) for r in setups])
        if len(setups) == 1:  # a one-row table is the single-setup form
            form, ref_ind, flat = setups, ref_ind, flat
    return form, ref_ind, flat


def opt_table(rng, nrows_max, ncols, hi, floats=False):
    """A random optional sheet: absent (None), empty or filled (one-based indices)."""
    u = rng.random()
    if u < 0.25:
        return None
    if u < 0.4:
        return pd.DataFrame()
    m = int(rng.integers(1, nrows_max + 1))
    if floats:
        return pd.DataFrame(rng.normal(size=(m, ncols)), columns=list("xyz")[:ncols])
    return pd.DataFrame(rng.integers(1, hi + 1, size=(m, ncols)))


def bg_tables(rng):
    nb = int(rng.integers(3, 7))
    return {
        "BG nodes": opt_table(rng, nb, 3, 0, floats=True) if rng.random() < 0.3 else pd.DataFrame(rng.normal(size=(nb, 3)), columns=["x", "y", "z"]),
        "BG lines": opt_table(rng, 4, 2, nb),
        "BG surfaces": opt_table(rng, 3, 3, nb),
    }


def make_geo1(rng):
    n = int(rng.integers(1, 13))
    form, ref_ind, flat = name_forms(rng, n)
    extra = [f"spare{i}" for i in range(int(rng.integers(0, 3)))]
    labels = np.array(flat + extra, dtype=object)[rng.permutation(len(flat) + len(extra))]
    coord = pd.DataFrame(rng.normal(size=(len(labels), 3)) * 5, index=labels.tolist(), columns=["x", "y", "z"])
    direc = pd.DataFrame(rng.integers(-1, 2, size=(len(labels), 3)), index=labels.tolist(), columns=["x", "y", "z"])
    tables = {
        "sensors names": form,
        "sensors coordinates": coord,
        "sensors directions": direc,
        "sensors lines": opt_table(rng, 5, 2, n),
        **bg_tables(rng),
    }
    return tables, ref_ind, flat


def make_geo2(rng):
    n = int(rng.integers(1, 13))
    form, ref_ind, flat = name_forms(rng, n)
    p = int(rng.integers(-(-n // 3), n + 3))
    p = max(p, 1)
    with_cstr = rng.random() < 0.7  # a constraint table is given
    n_c = int(rng.integers(1, 4)) if with_cstr else 0
    c_names = [f"cstr{i}" for i in range(n_c)]
    cells = np.empty(p * 3, dtype=object)
    # every sensor at least once, then sensors / constraints / 0 / NaN
    fill = list(flat)
    while len(fill) < p * 3:
        u = rng.random()
        if u < 0.25:
            fill.append(flat[int(rng.integers(n))])
        elif u < 0.5 and c_names:
            fill.append(c_names[int(rng.integers(n_c))])
        elif u < 0.75:
            fill.append(0)
        else:
            fill.append(np.nan)
    # all the constraints used at least once when there is room
    free = [i for i in range(len(flat), p * 3)]
    for c, i in zip(c_names, free):
        fill[i] = c
    used_c = [c for c in c_names if c in fill]
    cells[:] = fill
    head, tail = cells[: len(flat)], cells[len(flat):]
    cells = np.concatenate([head, tail])[rng.permutation(p * 3)]
    pts_index = [f"P{i}" for i in range(1, p + 1)]
    mapping = pd.DataFrame(cells.reshape(p, 3), index=pts_index, columns=["x", "y", "z"], dtype=object)
    pts = pd.DataFrame(rng.normal(size=(p, 3)) * 4, index=pts_index, columns=["x", "y", "z"])
    if rng.random() < 0.3:  # integer coordinates as read from a template
        pts = pts.round().astype(int)
    # constraints: rows = (subset of) the constraints used, columns = subset of names
    if used_c:
        # (nearly always) every constraint named in the mapping is defined
        rows = [used_c[i] for i in rng.permutation(len(used_c))]
        if rng.random() < 0.1:
            rows = rows[:-1] or rows
        cols = [s for s in np.array(flat, dtype=object)[rng.permutation(n)].tolist() if rng.random() < 0.6] or flat[:1]
        vals = rng.normal(size=(len(rows), len(cols)))
        vals[rng.random(vals.shape) < 0.3] = np.nan
        cstr = pd.DataFrame(vals, index=rows, columns=cols)
    else:
        cstr = None if rng.random() < 0.5 else pd.DataFrame()
    u = rng.random()
    if u < 0.3:
        sign = None
    elif u < 0.4:
        sign = pd.DataFrame()
    else:
        sign = pd.DataFrame(rng.choice([-1, 1, 1, 0], size=(p, 3)), index=pts_index, columns=["x", "y", "z"])
        if rng.random() < 0.5:
            sign = sign.astype(float)
    tables = {
        "sensors names": form,
        "points coordinates": pts,
        "mapping": mapping,
        "constraints": cstr,
        "sensors sign": sign,
        "sensors lines": opt_table(rng, 5, 2, p),
        "sensors surfaces": opt_table(rng, 3, 3, p) if p >= 3 else None,
        **bg_tables(rng),
    }
    return tables, ref_ind, flat


def as_file_dict(rng, tables, info=True):
    """Dictionary of sheets as read from the template: absent sheets are left out,
    in a random order, possibly with the INFO sheet."""
    keys = [k for k, v in tables.items() if v is not None]
    keys = [keys[i] for i in rng.permutation(len(keys))]
    fd = {k: tables[k] for k in keys}
    if info and rng.random() < 0.5:
        fd["INFO"] = pd.DataFrame([["template"]])
    return fd


def corrupt(rng, fd, which, flat):
    """Single-fault corruptions of a valid set of tables (returns a description)."""
    geo1 = which == "geo1"
    main = "sensors coordinates" if geo1 else "points coordinates"
    second = "sensors directions" if geo1 else "mapping"
    faults = [
        "drop_required", "unknown_sheet", "main_cols", "second_shape", "bg_nodes_cols",
        "bg_lines_cols", "bg_surf_cols", "name_missing", "ndarray_sheet", "none_sheet",
        "bad_names_type", "lines_ndarray", "dup_label",
    ]
    faults += ["index_mismatch"] if geo1 else [
        "sign_shape", "cstr_unknown_col", "cstr_unused_row", "cstr_none", "sign_ndarray",
    ]
    f = str(rng.choice(faults))
    if f == "drop_required":
        del fd[str(rng.choice(["sensors names", main, second]))]
    elif f == "unknown_sheet":
        fd[str(rng.choice(["sensor lines", "BG", "foo"]))] = pd.DataFrame([[1]])
    elif f == "main_cols":
        fd[main] = fd[main].iloc[:, :2] if rng.random() < 0.5 else fd[main].assign(w=1.0)
    elif f == "second_shape":
        fd[second] = fd[second].iloc[:-1] if len(fd[second]) > 1 and rng.random() < 0.5 else fd[second].iloc[:, :2]
    elif f == "index_mismatch":
        d = fd[second]
        fd[second] = d.iloc[::-1] if len(d) > 1 else d.rename(index={d.index[0]: "other"})
    elif f == "bg_nodes_cols":
        fd["BG nodes"] = pd.DataFrame(rng.normal(size=(4, int(rng.choice([2, 4])))))
    elif f == "bg_lines_cols":
        fd["BG lines"] = pd.DataFrame(rng.integers(1, 4, size=(3, int(rng.choice([1, 3])))))
    elif f == "bg_surf_cols":
        fd["BG surfaces"] = pd.DataFrame(rng.integers(1, 4, size=(3, int(rng.choice([2, 4])))))
    elif f == "name_missing":
        victim = flat[int(rng.integers(len(flat)))]
        if geo1:
            fd[main] = fd[main].rename(index={victim: "renamed"})
            fd[second] = fd[second].rename(index={victim: "renamed"})
        else:
            fd[second] = fd[second].replace({victim: 0})
    elif f == "ndarray_sheet":
        k = str(rng.choice([main, second, "BG nodes"]))
        fd[k] = np.asarray(fd[k]) if k in fd else np.zeros((3, 3))
    elif f == "none_sheet":
        fd[str(rng.choice(["BG nodes", "BG lines", "sensors lines", "BG surfaces"]))] = None
    elif f == "bad_names_type":
        fd["sensors names"] = (
            tuple(flat) if rng.random() < 0.5 else np.array([flat, flat])
        )
    elif f == "lines_ndarray":
        fd["sensors lines"] = np.array([[1, 2]])
    elif f == "dup_label":
        d = fd[main]
        fd[main] = pd.concat([d, d.iloc[:1]])
        fd[second] = pd.concat([fd[second], fd[second].iloc[:1]])
    elif f == "sign_shape":
        fd["sensors sign"] = pd.DataFrame(np.ones((len(fd[main]) + 1, 3)))
    elif f == "sign_ndarray":
        fd["sensors sign"] = np.ones((len(fd[main]), 3))
    elif f == "cstr_unknown_col":
        base = fd.get("constraints")
        if base is None or base.empty:
            fd["constraints"] = pd.DataFrame([[1.0]], index=["cstr0"], columns=["nobody"])
        else:
            fd["constraints"] = base.assign(nobody=1.0)
    elif f == "cstr_unused_row":
        cols = flat[:1]
        fd["constraints"] = pd.DataFrame([[1.0]], index=["never_used"], columns=cols)
    elif f == "cstr_none":
        fd["constraints"] = None
    return f


# --------------------------------------------------------------------------- artists
def artists(fig, ax):
    out = {"title": ax.get_title(), "elev": ax.elev, "azim": ax.azim,
           "lims": [ax.get_xlim3d(), ax.get_ylim3d(), ax.get_zlim3d()],
           "axis_on": ax.axison, "aspect": ax.get_aspect()}
    lines = []
    for ln in ax.lines:
        x, y, z = ln.get_data_3d()
        lines.append([np.asarray(x, float), np.asarray(y, float), np.asarray(z, float),
                      matplotlib.colors.to_rgba(ln.get_color()), ln.get_linewidth(), ln.get_alpha()])
    out["lines"] = lines
    colls = []
    for c in ax.collections:
        item = [type(c).__name__]
        if hasattr(c, "_offsets3d"):
            item.append([np.ma.filled(np.ma.asarray(v, float), np.nan) for v in c._offsets3d])
        if hasattr(c, "_vec"):
            item.append(np.asarray(c._vec, float))
        item.append(np.asarray(c.get_facecolor(), float))
        item.append(np.asarray(c.get_edgecolor(), float))
        item.append(c.get_alpha())
        colls.append(item)
    out["collections"] = colls
    out["texts"] = [[t.get_text(), tuple(float(v) for v in t.get_position_3d()),
                     matplotlib.colors.to_rgba(t.get_color())] for t in ax.texts]
    return out


def plot_outcome(func, *args, **kwargs):
    try:
        fig, ax = func(*args, **kwargs)
        res = ("ok", artists(fig, ax))
    except Exception as e:  # noqa: BLE001
        res = ("exc", type(e).__name__, str(e))
    plt.close("all")
    return res


class NewSetup(new_mixin.GeometryMixin):
    pass


class OldSetup(orig_mixin.GeometryMixin):
    pass


def geo_fields(setup, attr):
    geo = getattr(setup, attr)
    return None if geo is None else {k: getattr(geo, k) for k in type(geo).model_fields}


GEO1_ARGS = {"sensors names": "sens_names", "sensors coordinates": "sens_coord",
             "sensors directions": "sens_dir", "sensors lines": "sens_lines",
             "BG nodes": "bg_nodes", "BG lines": "bg_lines", "BG surfaces": "bg_surf"}
GEO2_ARGS = {"sensors names": "sens_names", "points coordinates": "pts_coord", "mapping": "sens_map",
             "constraints": "cstr", "sensors sign": "sens_sign", "sensors lines": "sens_lines",
             "sensors surfaces": "sens_surf", "BG nodes": "bg_nodes", "BG lines": "bg_lines",
             "BG surfaces": "bg_surf"}


def run_setups(tag, rng, which, tables, ref_ind, via, plot=True):
    """def_geoX (argument form) or def_geoX_by_file (tables as read from the template)
    on both mixins, then the mode-shape plots; compare everything."""
    new, old = NewSetup(), OldSetup()
    if ref_ind is not None:
        new.ref_ind, old.ref_ind = copy.deepcopy(ref_ind), copy.deepcopy(ref_ind)
    argmap = GEO1_ARGS if which == "geo1" else GEO2_ARGS
    if via == "args":
        kw = {argmap[k]: v for k, v in tables.items() if k in argmap}
        unknown = [k for k in tables if k not in argmap]
        if unknown or not all(a in kw for a in list(argmap.values())[:3]):
            return None
        r_new = outcome(getattr(new, f"def_{which}"), **copy.deepcopy(kw))
        r_old = outcome(getattr(old, f"def_{which}"), **copy.deepcopy(kw))
    else:
        fd_new, fd_old = copy.deepcopy(tables), copy.deepcopy(tables)
        new_mixin.read_excel_file = lambda path, **kw: fd_new  # noqa: E731
        orig_mixin.read_excel_file = lambda path, **kw: fd_old  # noqa: E731
        meth = f"def_{which}_by_file" if via == "file" else "_def_geo_by_file"
        extra = {} if via == "file" else {"geo_type": which if rng.random() < 0.8 else "geo3"}
        r_new = outcome(getattr(new, meth), path="x.xlsx", **extra)
        r_old = outcome(getattr(old, meth), path="x.xlsx", **extra)
        same(fd_new, fd_old, tag + ":file_dict")
    same(r_new, r_old, tag)
    for attr in ("geo1", "geo2"):
        same(geo_fields(new, attr), geo_fields(old, attr), f"{tag}:{attr}")
    key = f"{tag}:{r_old[0] if r_old[0] == 'ok' else r_old[1]}"
    COUNTS[key] = COUNTS.get(key, 0) + 1
    if not plot:
        return r_old

    # ---- mode shape plots (also when the geometry is NOT defined: ValueError)
    n = len(getattr(old, which).sens_names) if getattr(old, which) is not None else 4
    n_modes = int(rng.integers(1, 4))
    Phi = rng.normal(size=(n, n_modes))
    if rng.random() < 0.6:  # complex mode shapes
        Phi = Phi + 1j * rng.normal(size=(n, n_modes))
    u = rng.random()
    res = BaseResult() if u < 0.1 else BaseResult(Fn=rng.uniform(1, 20, size=n_modes), Phi=Phi)
    mode_nr = int(rng.integers(1, n_modes + 1)) if rng.random() < 0.9 else n_modes + 1
    if rng.random() < 0.2:
        mode_nr = float(mode_nr)
    scaleF = float(rng.choice([1, 2, 0.5, 30]))
    view = str(rng.choice(["3D", "xy", "xz", "yz"]))
    if which == "geo1":
        kw = {"scaleF": scaleF, "view": view}
        if rng.random() < 0.6:
            kw.update(col_sns="blue", col_sns_lines="green", col_BG_nodes="k",
                      col_BG_lines="orange", col_BG_surf="cyan")
        p_new = plot_outcome(new.plot_mode_geo1, res, mode_nr, **copy.deepcopy(kw))
        p_old = plot_outcome(old.plot_mode_geo1, res, mode_nr, **copy.deepcopy(kw))
        same(p_new, p_old, tag + ":plot_mode_geo1")
        g_kw = {"scaleF": scaleF, "view": view}
        if rng.random() < 0.5:
            g_kw.update(col_sns="b", col_sns_lines="g", col_BG_nodes="k",
                        col_BG_lines="m", col_BG_surf="c", col_txt="y")
        g_new = plot_outcome(new.plot_geo1, **g_kw)
        g_old = plot_outcome(old.plot_geo1, **g_kw)
        same(g_new, g_old, tag + ":plot_geo1")
        # the plotter classes directly, positional arguments
        if old.geo1 is not None:
            d_new = plot_outcome(new_mpl.Geo1MplPlotter(new.geo1, res).plot_mode, mode_nr, scaleF, view, "b", "g")
            d_old = plot_outcome(orig_mpl.Geo1MplPlotter(old.geo1, res).plot_mode, mode_nr, scaleF, view, "b", "g")
            same(d_new, d_old, tag + ":Geo1MplPlotter.plot_mode")
    else:
        color = str(rng.choice(["cmap", "cmap", "blue", "k"]))
        args = (res, mode_nr) if rng.random() < 0.5 else (res, mode_nr, scaleF, view, color)
        kw = {} if len(args) == 5 else {"scaleF": scaleF, "view": view, "color": color}
        p_new = plot_outcome(new.plot_mode_geo2_mpl, *args, **kw)
        p_old = plot_outcome(old.plot_mode_geo2_mpl, *args, **kw)
        same(p_new, p_old, tag + ":plot_mode_geo2_mpl")
        g_kw = {"scaleF": scaleF, "view": view}
        if rng.random() < 0.5:
            g_kw.update(col_sns="b", col_sns_lines="g", col_sns_surf="y", col_BG_nodes="k",
                        col_BG_lines="m", col_BG_surf="c", col_txt="k")
        g_new = plot_outcome(new.plot_geo2_mpl, **g_kw)
        g_old = plot_outcome(old.plot_geo2_mpl, **g_kw)
        same(g_new, g_old, tag + ":plot_geo2_mpl")
        key = f"{tag}:plot_geo2_mpl:{g_old[0] if g_old[0] == 'ok' else g_old[1] + ' ' + g_old[2][:45]}"
        COUNTS[key] = COUNTS.get(key, 0) + 1
        if old.geo2 is not None:
            d_new = plot_outcome(new_mpl.Geo2MplPlotter(new.geo2, res).plot_mode, mode_nr, scaleF, view, color)
            d_old = plot_outcome(orig_mpl.Geo2MplPlotter(old.geo2, res).plot_mode, mode_nr, scaleF, view, color)
            same(d_new, d_old, tag + ":Geo2MplPlotter.plot_mode")
    p_old = locals().get("p_old")
    key = f"{tag}:plot:{p_old[0] if p_old[0] == 'ok' else p_old[1] + ' ' + p_old[2][:45]}"
    COUNTS[key] = COUNTS.get(key, 0) + 1
    return r_old


# --------------------------------------------------------------------------- expected
def expected_map(phi, names, sens_map, cstr, sign):
    """Direct statement of the property for the mapped displacement."""
    val = dict(zip(names, phi))
    if cstr is not None:
        C = cstr.to_numpy(na_value=0)
        for r, cname in enumerate(cstr.index):
            val[cname] = float(C[r] @ phi)
    out = np.zeros(sens_map.shape)
    for i in range(sens_map.shape[0]):
        for j in range(3):
            cell = sens_map.iat[i, j]
            if isinstance(cell, str):
                out[i, j] = val[cell]
    return out


# --------------------------------------------------------------------------- main
def main():
    rng = np.random.default_rng(20241904)

    # 1. flatten_sns_names: all the forms and reference layouts, and the error paths
    for it in range(300):
        n = int(rng.integers(1, 13))
        form, ref_ind, flat = name_forms(rng, n)
        r = check_pair("flatten", new_gen.flatten_sns_names, orig_gen.flatten_sns_names, (form, ref_ind))
        assert r[0] == "ok" and r[1] == flat, (form, ref_ind, r, flat)
        if isinstance(form, (list, pd.DataFrame)) and ref_ind is not None and rng.random() < 0.5:
            bad = [None, ref_ind[:-1], [[]] + ref_ind[1:], [np.array(x) for x in ref_ind],
                   ref_ind + [[0]], [tuple(x) for x in ref_ind]][int(rng.integers(6))]
            check_pair("flatten_badref", new_gen.flatten_sns_names, orig_gen.flatten_sns_names, (form, bad))
    for weird in [("a", "b"), np.array([["a", "b"], ["c", "d"]]), ["a", 1], [["a"], "b"], [],
                  pd.DataFrame(), pd.DataFrame([["a", "b"], ["c", np.nan]]), 3, None]:
        for ri in (None, [[0], [1]], [[1, 0], [0, 1]]):
            check_pair("flatten_weird", new_gen.flatten_sns_names, orig_gen.flatten_sns_names, (weird, ri))

    # 2. check_on_geo1 / check_on_geo2 on valid tables as read from the template
    for it in range(250):
        tables, ref_ind, flat = make_geo1(rng)
        fd = as_file_dict(rng, tables)
        r = check_pair("geo1_valid", new_gen.check_on_geo1, orig_gen.check_on_geo1, (fd,), {"ref_ind": ref_ind})
        assert r[0] == "ok", r
        names, coord, direc = r[1][:3]
        assert names == flat and coord.index.to_list() == flat
        assert np.array_equal(coord.to_numpy(), tables["sensors coordinates"].loc[flat].to_numpy())
        assert np.array_equal(direc, tables["sensors directions"].loc[flat].to_numpy())
        for k, pos in (("sensors lines", 3), ("BG lines", 5), ("BG surfaces", 6)):
            t = tables[k]
            if t is None or t.empty:
                assert r[1][pos] is None
            else:
                assert np.array_equal(r[1][pos], t.to_numpy() - 1)
    for it in range(250):
        tables, ref_ind, flat = make_geo2(rng)
        fd = as_file_dict(rng, tables)
        kw = {"ref_ind": ref_ind}
        if rng.random() < 0.3:
            kw["fill_na"] = str(rng.choice(["zero", "interp", "none"]))
        r = check_pair("geo2_valid", new_gen.check_on_geo2, orig_gen.check_on_geo2, (fd,), kw)
        if kw.get("fill_na", "zero") == "zero":
            assert r[0] == "ok", r
        if r[0] != "ok":
            continue
        names, pts, smap, cstr, sign = r[1][:5]
        assert names == flat
        # 3. dfphi_map_func on the validated tables (and against the property itself)
        for _ in range(2):
            phi = rng.normal(size=len(names)) * float(rng.choice([1, 1e-3, 50]))
            m = check_pair("dfphi", new_gen.dfphi_map_func, orig_gen.dfphi_map_func,
                           (phi, names, smap), {"cstrn": cstr}, mutable_first=False)
            if m[0] == "ok" and kw.get("fill_na", "zero") == "zero":
                assert np.allclose(m[1].to_numpy(), expected_map(phi, names, smap, cstr, sign), rtol=0, atol=1e-12)
        # positional constraint argument, no constraints, wrong length, 2-D phi
        phi = rng.normal(size=len(names))
        check_pair("dfphi_pos", new_gen.dfphi_map_func, orig_gen.dfphi_map_func, (phi, names, smap, cstr), mutable_first=False)
        check_pair("dfphi_nocstr", new_gen.dfphi_map_func, orig_gen.dfphi_map_func, (phi, names, smap), mutable_first=False)
        check_pair("dfphi_badlen", new_gen.dfphi_map_func, orig_gen.dfphi_map_func, (phi[:-1], names, smap, cstr), mutable_first=False)
        check_pair("dfphi_2d", new_gen.dfphi_map_func, orig_gen.dfphi_map_func, (phi[:, None], names, smap, cstr), mutable_first=False)
        check_pair("dfphi_cplx", new_gen.dfphi_map_func, orig_gen.dfphi_map_func, (phi + 1j, names, smap, cstr), mutable_first=False)
        check_pair("dfphi_list", new_gen.dfphi_map_func, orig_gen.dfphi_map_func, (phi.tolist(), names, smap, cstr), mutable_first=False)
    # constraint table with NaN, names colliding with a sensor name, non-string names
    smap = pd.DataFrame([["a", "k", 0.0], ["b", "a", "q"]], columns=["x", "y", "z"], dtype=object)
    for cst in [pd.DataFrame([[1.0, np.nan], [0.5, 2.0]], index=["k", "q"], columns=["a", "b"]),
                pd.DataFrame([[1.0, 1.0]], index=["a"], columns=["a", "b"]),
                pd.DataFrame([[1.0, 1.0]], index=[7], columns=["a", "b"]),
                pd.DataFrame([[1, 2]], index=["k"], columns=["a", "b"]),
                pd.DataFrame(np.zeros((0, 2)), columns=["a", "b"])]:
        check_pair("dfphi_special", new_gen.dfphi_map_func, orig_gen.dfphi_map_func,
                   (np.array([0.3, -1.2]), ["a", "b"], smap, cst), mutable_first=False)

    # 4. single-fault corruptions of valid tables (check functions)
    for it in range(500):
        which = "geo1" if it % 2 == 0 else "geo2"
        tables, ref_ind, flat = (make_geo1 if which == "geo1" else make_geo2)(rng)
        fd = as_file_dict(rng, tables)
        fault = corrupt(rng, fd, which, flat)
        if rng.random() < 0.1 and ref_ind is not None:
            ref_ind, fault = None, fault + "+noref"
        f_new, f_old = (new_gen.check_on_geo1, orig_gen.check_on_geo1) if which == "geo1" else (new_gen.check_on_geo2, orig_gen.check_on_geo2)
        check_pair(f"{which}_fault[{fault}]", f_new, f_old, (fd, ref_ind))

    # 5. the calling layer: def_geo1 / def_geo2 (argument forms), the *_by_file entry
    #    points (tables as read from the template), and the mode shape plots
    for it in range(120):
        which = "geo1" if it % 2 == 0 else "geo2"
        tables, ref_ind, flat = (make_geo1 if which == "geo1" else make_geo2)(rng)
        via = ["args", "file", "private"][it % 3] if it % 5 else "args"
        if via != "args":
            tables = as_file_dict(rng, tables)
        r = run_setups(f"setup_{which}_{via}", rng, which, tables, ref_ind, via)
        if via in ("args", "file"):
            assert r[0] == "ok", r
    for it in range(160):
        which = "geo1" if it % 2 == 0 else "geo2"
        tables, ref_ind, flat = (make_geo1 if which == "geo1" else make_geo2)(rng)
        via = "args" if it % 4 < 2 else "file"
        fd = as_file_dict(rng, tables, info=(via == "file"))
        corrupt(rng, fd, which, flat)
        if via == "args":  # optional arguments given as None (the documented default)
            fd = {k: fd.get(k) for k in (GEO1_ARGS if which == "geo1" else GEO2_ARGS) if k in fd or rng.random() < 0.5} | {k: v for k, v in fd.items()}
        run_setups(f"setup_{which}_{via}_fault", rng, which, fd, ref_ind, via, plot=(it % 8 == 0))

    for k in sorted(COUNTS):
        print(f"  {k}: {COUNTS[k]}")
    print("PASS")


if __name__ == "__main__":
    main()
