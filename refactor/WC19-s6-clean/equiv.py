"""
Differential test: library under PYTHONPATH (CLEAN version of the commit) against the
pristine sources saved next to this file (orig_gen.py, orig_mixin.py).

Run as:  PYTHONPATH=<tree>/src /venv/bin/python equiv.py
Prints PASS and exits 0 when every compared output (or raised exception) agrees.
"""
import copy
import importlib.util
import os
import sys
import warnings

import numpy as np
import pandas as pd

warnings.simplefilter("ignore")

HERE = os.path.dirname(os.path.abspath(__file__))

from pyoma2.functions import gen as new_gen  # noqa: E402
from pyoma2.support.geometry import mixin as new_mixin  # noqa: E402


def _load(name, fname, package=None):
    spec = importlib.util.spec_from_file_location(name, os.path.join(HERE, fname))
    mod = importlib.util.module_from_spec(spec)
    if package is not None:
        mod.__package__ = package
    sys.modules[name] = mod
    spec.loader.exec_module(mod)
    return mod


orig_gen = _load("orig_gen", "orig_gen.py")
orig_mixin = _load(
    "pyoma2.support.geometry.orig_mixin", "orig_mixin.py", "pyoma2.support.geometry"
)
# the pristine mixin must call the pristine check functions
orig_mixin.check_on_geo1 = orig_gen.check_on_geo1
orig_mixin.check_on_geo2 = orig_gen.check_on_geo2


class OrigSetup(orig_mixin.GeometryMixin):
    pass


class NewSetup(new_mixin.GeometryMixin):
    pass


# ---------------------------------------------------------------------------------
# comparison helpers
def same(a, b, path="out"):
    if a is None or b is None:
        assert a is None and b is None, f"{path}: None vs not None"
        return
    if isinstance(a, (tuple, list)) and not (a and isinstance(a[0], str)):
        assert type(a) is type(b) and len(a) == len(b), f"{path}: container"
        for i, (x, y) in enumerate(zip(a, b)):
            same(x, y, f"{path}[{i}]")
        return
    if isinstance(a, list):
        assert a == b, f"{path}: {a} != {b}"
        return
    if isinstance(a, pd.DataFrame):
        assert isinstance(b, pd.DataFrame), f"{path}: type"
        assert a.index.tolist() == b.index.tolist(), f"{path}: index"
        assert a.columns.tolist() == b.columns.tolist(), f"{path}: columns"
        same(a.to_numpy(), b.to_numpy(), path + ".values")
        return
    a = np.asarray(a)
    b = np.asarray(b)
    assert a.shape == b.shape, f"{path}: shape {a.shape} vs {b.shape}"
    try:
        af, bf = a.astype(float), b.astype(float)
    except (ValueError, TypeError):
        assert np.array_equal(a.astype(str), b.astype(str)), f"{path}: values"
        return
    assert np.allclose(af, bf, rtol=1e-12, atol=0, equal_nan=True), f"{path}: values"


def run(f, *a, **k):
    try:
        return ("ok", f(*copy.deepcopy(a), **copy.deepcopy(k)))
    except Exception as e:  # noqa: BLE001
        return ("exc", type(e).__name__, str(e))


def compare(fo, fn, *a, label="", **k):
    ro, rn = run(fo, *a, **k), run(fn, *a, **k)
    assert ro[0] == rn[0], f"{label}: {ro[:2]} vs {rn[:2]} {ro[-1] if ro[0]=='exc' else rn[-1]}"
    if ro[0] == "exc":
        assert ro[1:] == rn[1:], f"{label}: exception differs {ro} vs {rn}"
    else:
        same(ro[1], rn[1], label)
    return ro


# ---------------------------------------------------------------------------------
# random generators
def rand_names(rng, n, prefix="ch"):
    ids = rng.permutation(200)[:n]
    return [f"{prefix}{i}" for i in ids]


def names_forms(rng, n):
    """(sens_names argument, ref_ind, flat names) in one of the accepted forms."""
    form = rng.choice(["list", "array", "row", "lol", "frame"])
    if form in ("list", "array", "row") or n < 2:
        flat = rand_names(rng, n)
        arg = {
            "list": list(flat),
            "array": np.array(flat),
            "row": pd.DataFrame([flat]),
        }.get(form, list(flat))
        return arg, None, flat
    # multi setup
    k = int(rng.integers(1, min(3, n) + 1))
    flat = [f"REF{i+1}" for i in range(k)]
    rov = rand_names(rng, n - k) if n > k else []
    nset = int(rng.integers(1, 4))
    parts = np.array_split(np.array(rov, dtype=object), nset)
    rows, ref_ind = [], []
    for p in parts:
        ln = k + len(p)
        refpos = sorted(rng.permutation(ln)[:k].tolist())
        if rng.random() < 0.4:
            refpos = refpos[::-1]
        row, it = [], iter(p.tolist())
        refn = iter(rand_names(rng, k, "r"))
        for j in range(ln):
            row.append(next(refn) if j in refpos else next(it))
        rows.append(row)
        ref_ind.append(refpos)
        flat += p.tolist()
    if form == "frame" and len(rows) > 1:
        width = max(len(r) for r in rows)
        arg = pd.DataFrame([r + [np.nan] * (width - len(r)) for r in rows])
    else:
        arg = rows
    return arg, ref_ind, flat


def opt_tables(rng, npts, keys):
    out = {}
    for key in keys:
        if rng.random() < 0.5:
            continue
        if key == "BG nodes":
            out[key] = pd.DataFrame(rng.normal(size=(int(rng.integers(1, 5)), 3)))
        else:
            w = 3 if "surf" in key else 2
            out[key] = pd.DataFrame(
                rng.integers(1, max(2, npts + 1), size=(int(rng.integers(1, 5)), w))
            )
    return out


def gen_geo1(rng):
    n = int(rng.integers(1, 13))
    arg, ref_ind, flat = names_forms(rng, n)
    extra = rand_names(rng, int(rng.integers(0, 3)), "xx")
    idx = np.array(flat + extra, dtype=object)[rng.permutation(len(flat) + len(extra))]
    coord = pd.DataFrame(rng.normal(size=(len(idx), 3)), index=idx, columns=["x", "y", "z"])
    dirs = pd.DataFrame(
        rng.integers(-1, 2, size=(len(idx), 3)), index=idx, columns=["x", "y", "z"]
    )
    fd = {"sensors names": arg, "sensors coordinates": coord, "sensors directions": dirs}
    fd.update(opt_tables(rng, n, ["sensors lines", "BG nodes", "BG lines", "BG surfaces"]))
    return fd, ref_ind


def gen_geo2(rng):
    n = int(rng.integers(1, 13))
    arg, ref_ind, flat = names_forms(rng, n)
    npts = int(rng.integers(max(2, (n + 2) // 3 + 1), n + 4))
    cells = np.zeros(npts * 3, dtype=object)
    ncst = int(rng.integers(0, 4))
    cnames = [f"K{i+1}" for i in range(ncst)]
    free = rng.permutation(npts * 3)
    used = list(flat) + [c for c in cnames if rng.random() < 0.9 or True]
    for pos, name in zip(free, used):
        cells[pos] = name
    for pos in free[len(used):]:
        r = rng.random()
        if r < 0.2:
            cells[pos] = np.nan
        elif r < 0.35:
            cells[pos] = rng.choice(used)
    mp = pd.DataFrame(cells.reshape(npts, 3), columns=["x", "y", "z"])
    pts = pd.DataFrame(rng.normal(size=(npts, 3)), columns=["x", "y", "z"])
    fd = {"sensors names": arg, "points coordinates": pts, "mapping": mp}
    if ncst:
        mode = rng.choice(["subset", "full_perm", "full"])
        if mode == "subset":
            cols = [s for s in flat if rng.random() < 0.6] or flat[:1]
            cols = list(np.array(cols, dtype=object)[rng.permutation(len(cols))])
        elif mode == "full_perm":
            cols = list(np.array(flat, dtype=object)[rng.permutation(n)])
        else:
            cols = list(flat)
        vals = rng.normal(size=(ncst, len(cols)))
        vals[rng.random(vals.shape) < 0.3] = np.nan
        fd["constraints"] = pd.DataFrame(vals, index=cnames, columns=cols)
    if rng.random() < 0.5:
        sg = rng.choice([-1.0, 1.0, 0.0], size=(npts, 3), p=[0.4, 0.5, 0.1])
        fd["sensors sign"] = pd.DataFrame(sg, columns=["x", "y", "z"])
    fd.update(
        opt_tables(
            rng, npts, ["sensors lines", "sensors surfaces", "BG nodes", "BG lines", "BG surfaces"]
        )
    )
    return fd, ref_ind, flat


def corrupt(rng, fd, geo):
    """One single-fault corruption of a valid table set."""
    fd = copy.deepcopy(fd)
    main = "sensors coordinates" if geo == 1 else "points coordinates"
    second = "sensors directions" if geo == 1 else "mapping"
    kinds = ["drop_req", "unknown", "cols", "shape", "absent", "bgcols"]
    if geo == 1:
        kinds.append("index")
    else:
        kinds += ["cstr_col", "cstr_unused", "sign_shape"]
    kind = rng.choice(kinds)
    if kind == "drop_req":
        del fd[rng.choice(["sensors names", main, second])]
    elif kind == "unknown":
        fd["nonsense"] = pd.DataFrame([[1]])
    elif kind == "cols":
        fd[main] = fd[main].iloc[:, :2]
    elif kind == "shape":
        fd[second] = fd[second].iloc[:-1]
    elif kind == "absent":
        if geo == 1:
            fd[main] = fd[main].rename(index={fd[main].index[0]: "nobody"})
            fd[second] = fd[second].rename(index={fd[second].index[0]: "nobody"})
        else:
            fd[second] = fd[second].replace({c: 0 for c in fd[second].to_numpy().ravel()[:1]})
    elif kind == "bgcols":
        fd["BG lines"] = pd.DataFrame([[1, 2, 3]])
    elif kind == "index":
        fd[second] = fd[second].rename(index={fd[second].index[0]: "other"})
    elif kind == "cstr_col":
        fd["constraints"] = pd.DataFrame([[1.0]], index=["K1"], columns=["ghost"])
    elif kind == "cstr_unused":
        fd["constraints"] = pd.DataFrame(
            [[1.0]], index=["Kunused"], columns=[fd["mapping"].to_numpy().ravel()[0]]
        )
    elif kind == "sign_shape":
        fd["sensors sign"] = pd.DataFrame(np.ones((len(fd[main]) + 1, 3)))
    return fd, kind


G1 = dict(
    zip(
        ["sensors names", "sensors coordinates", "sensors directions", "sensors lines",
         "BG nodes", "BG lines", "BG surfaces"],
        ["sens_names", "sens_coord", "sens_dir", "sens_lines", "bg_nodes", "bg_lines", "bg_surf"],
    )
)
G2 = dict(
    zip(
        ["sensors names", "points coordinates", "mapping", "constraints", "sensors sign",
         "sensors lines", "sensors surfaces", "BG nodes", "BG lines", "BG surfaces"],
        ["sens_names", "pts_coord", "sens_map", "cstr", "sens_sign", "sens_lines",
         "sens_surf", "bg_nodes", "bg_lines", "bg_surf"],
    )
)
GEO1_FIELDS = ["sens_names", "sens_coord", "sens_dir", "sens_lines", "bg_nodes", "bg_lines", "bg_surf"]
GEO2_FIELDS = ["sens_names", "pts_coord", "sens_map", "cstrn", "sens_sign", "sens_lines",
               "sens_surf", "bg_nodes", "bg_lines", "bg_surf"]


def via_setup(cls, method, kwargs, ref_ind, fields, attr):
    s = cls()
    if ref_ind is not None:
        s.ref_ind = ref_ind
    getattr(s, method)(**kwargs)
    g = getattr(s, attr)
    return tuple(getattr(g, f) for f in fields)


def main():
    rng = np.random.default_rng(20240919)
    n_ok = n_exc = 0
    for it in range(60):
        # ---------------- geo1
        fd, ref_ind = gen_geo1(rng)
        r = compare(orig_gen.check_on_geo1, new_gen.check_on_geo1, fd, ref_ind=ref_ind,
                    label=f"geo1[{it}]")
        assert r[0] == "ok", r
        kw = {G1[k]: v for k, v in fd.items()}
        compare(
            lambda kw, ri: via_setup(OrigSetup, "def_geo1", kw, ri, GEO1_FIELDS, "geo1"),
            lambda kw, ri: via_setup(NewSetup, "def_geo1", kw, ri, GEO1_FIELDS, "geo1"),
            kw, ref_ind, label=f"def_geo1[{it}]",
        )
        bad, kind = corrupt(rng, fd, 1)
        rb = compare(orig_gen.check_on_geo1, new_gen.check_on_geo1, bad, ref_ind=ref_ind,
                     label=f"geo1bad[{it}:{kind}]")
        n_exc += rb[0] == "exc"
        # flatten
        compare(orig_gen.flatten_sns_names, new_gen.flatten_sns_names, fd["sensors names"],
                ref_ind, label=f"flatten[{it}]")

        # ---------------- geo2
        fd, ref_ind, flat = gen_geo2(rng)
        fill = {} if rng.random() < 0.7 else {"fill_na": rng.choice(["zero", None])}
        r = compare(orig_gen.check_on_geo2, new_gen.check_on_geo2, fd, ref_ind=ref_ind,
                    label=f"geo2[{it}]", **fill)
        assert r[0] == "ok", r
        n_ok += 1
        kw = {G2[k]: v for k, v in fd.items()}
        if rng.random() < 0.5 and "cstr" in kw:  # positional use of the 4th argument
            pos = [kw.pop(k) for k in ["sens_names", "pts_coord", "sens_map", "cstr"]]
        else:
            pos = []
        compare(
            lambda pos, kw, ri: via_setup2(OrigSetup, pos, kw, ri),
            lambda pos, kw, ri: via_setup2(NewSetup, pos, kw, ri),
            pos, kw, ref_ind, label=f"def_geo2[{it}]",
        )
        bad, kind = corrupt(rng, fd, 2)
        rb = compare(orig_gen.check_on_geo2, new_gen.check_on_geo2, bad, ref_ind=ref_ind,
                     label=f"geo2bad[{it}:{kind}]")
        n_exc += rb[0] == "exc"

        # ---------------- mapping of mode shapes (on the validated tables)
        names, _, smap, cstr = r[1][0], r[1][1], r[1][2], r[1][3]
        if fill.get("fill_na", "zero") == "zero":
            for _ in range(3):
                phi = rng.normal(size=len(names))
                compare(orig_gen.dfphi_map_func, new_gen.dfphi_map_func, phi, names, smap,
                        cstrn=cstr, label=f"dfphi[{it}]")
            compare(orig_gen.dfphi_map_func, new_gen.dfphi_map_func, rng.normal(size=len(names)),
                    names, smap, label=f"dfphi-nocstr[{it}]")
    assert n_exc >= 40, n_exc
    print(f"compared {n_ok} random configurations, {n_exc} corrupted table sets raised alike")
    print("PASS")


def via_setup2(cls, pos, kw, ref_ind):
    s = cls()
    if ref_ind is not None:
        s.ref_ind = ref_ind
    s.def_geo2(*pos, **kw)
    return tuple(getattr(s.geo2, f) for f in GEO2_FIELDS)


if __name__ == "__main__":
    try:
        main()
    except AssertionError as e:
        print("FAIL", e)
        sys.exit(1)
