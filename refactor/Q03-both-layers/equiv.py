"""
Equivalence check of the Q03 refactoring (property C03) against the pristine code.

The pristine modules (git show HEAD:...) are imported by path from this directory;
the pristine calling layer is wired to the pristine numerical functions, the
refactored calling layer uses the refactored ones.  Everything is compared with
np.array_equal (bitwise equality of values, NaN == NaN), plus dtype / shape.

Run:  PYTHONPATH=/tmp/wt/Q03/src /venv/bin/python /tmp/wt/Q03/_refactor/equiv.py
"""

import copy
import importlib.util
import itertools
import logging
import os
import sys
import types

import numpy as np

HERE = os.path.dirname(os.path.abspath(__file__))
logging.disable(logging.CRITICAL)


def load(name, fname):
    spec = importlib.util.spec_from_file_location(name, os.path.join(HERE, fname))
    mod = importlib.util.module_from_spec(spec)
    sys.modules[name] = mod
    spec.loader.exec_module(mod)
    return mod


# refactored code
import pyoma2.algorithms.ssi as new_alg  # noqa: E402
import pyoma2.functions.gen as new_gen  # noqa: E402
import pyoma2.functions.ssi as new_fssi  # noqa: E402
import pyoma2.setup.multi as new_multi  # noqa: E402
from pyoma2.setup.single import SingleSetup  # noqa: E402

# pristine code
orig_gen = load("pyoma2.functions.orig_gen", "orig_functions_gen.py")
orig_fssi = load("pyoma2.functions.orig_ssi", "orig_functions_ssi.py")
orig_alg = load("pyoma2.algorithms.orig_ssi", "orig_algorithms_ssi.py")
orig_multi = load("pyoma2.setup.orig_multi", "orig_setup_multi.py")
# pristine calling layer -> pristine numerical routines
orig_alg.ssi = orig_fssi
orig_alg.gen = orig_gen
orig_multi.pre_multisetup = orig_gen.pre_multisetup
assert new_alg.ssi is new_fssi and new_alg.gen is new_gen
assert new_multi.pre_multisetup is new_gen.pre_multisetup
assert orig_fssi.SSI_multi_setup is not new_fssi.SSI_multi_setup

# silence the tqdm progress bars of both versions
for m in (orig_fssi, new_fssi):
    m.trange = lambda *a, **k: range(*a)
    m.tqdm = lambda it, *a, **k: it

N_CHECKS = 0
OUTCOMES = {}  # label -> [returned normally, raised (the same exception)]


def same(a, b, what):
    """exact equality of two results (arrays, lists, dicts, scalars, None)"""
    global N_CHECKS
    N_CHECKS += 1
    if a is None or b is None:
        assert a is None and b is None, what
    elif isinstance(a, dict):
        assert isinstance(b, dict) and list(a) == list(b), what
        for k in a:
            same(a[k], b[k], f"{what}[{k!r}]")
    elif isinstance(a, (list, tuple)):
        assert type(a) is type(b) and len(a) == len(b), what
        for i, (x, y) in enumerate(zip(a, b)):
            same(x, y, f"{what}[{i}]")
    elif isinstance(a, np.ndarray):
        assert isinstance(b, np.ndarray), what
        assert a.dtype == b.dtype and a.shape == b.shape, (what, a.dtype, b.dtype, a.shape, b.shape)
        assert a.flags.c_contiguous == b.flags.c_contiguous, what
        assert a.flags.f_contiguous == b.flags.f_contiguous, what
        eq = np.array_equal(a, b, equal_nan=True) if a.dtype.kind in "fc" else np.array_equal(a, b)
        assert eq, (what, np.nanmax(np.abs(a - b)) if a.size else None)
    else:
        assert type(a) is type(b), (what, type(a), type(b))
        assert a == b or (a != a and b != b), (what, a, b)


def outcome(f, *a, **k):
    try:
        return "ok", f(*a, **k)
    except Exception as e:  # noqa: BLE001
        return "exc", type(e)


def same_outcome(f_orig, f_new, args_orig, args_new, what, **kw):
    ko, ro = outcome(f_orig, *args_orig, **kw)
    kn, rn = outcome(f_new, *args_new, **kw)
    assert ko == kn, (what, ko, ro, kn, rn)
    OUTCOMES.setdefault(what.split(" ")[0], [0, 0])[ko == "exc"] += 1
    if ko == "exc":
        global N_CHECKS
        N_CHECKS += 1
        assert ro is rn, (what, ro, rn)
    else:
        same(ro, rn, what)
    return ko, rn


# ----------------------------------------------------------------------------
# 1. gen.pre_multisetup : exhaustive for every channel count <= 6 and every
#    ordered reference subset (incl. the degenerate empty / full subsets and
#    invalid lists: exceptions must be equal too)
# ----------------------------------------------------------------------------
rng = np.random.default_rng(20261003)


def check_split():
    n_ok = n_exc = 0
    for nch in range(1, 7):
        ndat = 5 + nch
        base = rng.standard_normal((ndat, nch))
        layouts = {
            "C": base,
            "F": np.asfortranarray(base),
            "int": np.arange(ndat * nch).reshape(ndat, nch),
            "view": rng.standard_normal((ndat, 2 * nch))[:, ::2],
        }
        for k in range(0, nch + 1):
            for refs in itertools.permutations(range(nch), k):
                for lname, y in layouts.items():
                    for conv in (list, np.array) if (lname == "C" and k) else (list,):
                        # two setups: this one + a fixed second one
                        data = [y, base[:, ::-1]]
                        reflist = [conv(refs), [0]]
                        ko, res = same_outcome(
                            orig_gen.pre_multisetup,
                            new_gen.pre_multisetup,
                            (copy.deepcopy(data), copy.deepcopy(reflist)),
                            (data, reflist),
                            f"split nch={nch} refs={refs} {lname}",
                        )
                        if ko == "ok":
                            n_ok += 1
                            # the property itself (references as listed, roving ascending)
                            mov = [c for c in range(nch) if c not in refs]
                            assert np.array_equal(res[0]["ref"], y[:, list(refs)].T)
                            assert np.array_equal(res[0]["mov"], y[:, mov].T)
                        else:
                            n_exc += 1
    # invalid reference lists / ragged input: equal exceptions
    y = rng.standard_normal((9, 4))
    for bad in ([0, 0], [-1], [4], [1, 7], [0.5], "ab", [[0]], None):
        for rl in ([bad, [0]], [[0], bad], [bad]):
            ko, _ = same_outcome(
                orig_gen.pre_multisetup, new_gen.pre_multisetup,
                ([y, y], rl), ([y, y], rl), f"split bad={bad!r}",
            )
            n_exc += ko == "exc"
    same_outcome(orig_gen.pre_multisetup, new_gen.pre_multisetup, ([], []), ([], []), "split empty")
    same_outcome(orig_gen.pre_multisetup, new_gen.pre_multisetup,
                 ([y], [[0], [1]]), ([y], [[0], [1]]), "split longer reflist")
    return n_ok, n_exc


# ----------------------------------------------------------------------------
# noise-free multi-setup free-vibration data of one global system
# ----------------------------------------------------------------------------
def make_case(rng, m=None, nsetup=None, nref=None, noise=0.0, ndat=None):
    m = m or int(rng.integers(1, 6))
    nsetup = nsetup or int(rng.integers(2, 5))
    nref = nref or int(rng.integers(1, 4))
    nmov = [int(rng.integers(1, 5)) for _ in range(nsetup)]
    fs = 100.0
    fn = np.sort(rng.uniform(2.0, 30.0, m))
    while m > 1 and np.min(np.diff(fn)) < 1.0:
        fn = np.sort(rng.uniform(2.0, 30.0, m))
    xi = rng.uniform(0.005, 0.04, m)
    ndof = nref + sum(nmov)
    Phi = rng.standard_normal((ndof, m))
    ndat = ndat or int(rng.integers(300, 500))
    t = np.arange(ndat) / fs
    wn = 2 * np.pi * fn
    wd = wn * np.sqrt(1 - xi**2)
    datasets, ref_ind = [], []
    off = nref
    for s in range(nsetup):
        amp = rng.uniform(0.5, 1.5, m) * 10.0 ** rng.uniform(-2, 2)  # per-setup gain
        ph = rng.uniform(0, 2 * np.pi, m)
        q = amp[:, None] * np.exp(-(xi * wn)[:, None] * t) * np.cos(wd[:, None] * t + ph[:, None])
        rows = list(range(nref)) + list(range(off, off + nmov[s]))
        off += nmov[s]
        ysens = (Phi[rows] @ q).T  # ndat x (nref+nmov): references first
        if noise:
            ysens = ysens + noise * rng.standard_normal(ysens.shape)
        nch = nref + nmov[s]
        # put the references at arbitrary positions, listed in arbitrary order
        pos = [int(p) for p in rng.permutation(nch)[:nref]]
        movpos = [c for c in range(nch) if c not in pos]
        data = np.empty((ndat, nch))
        data[:, pos] = ysens[:, :nref]
        data[:, movpos] = ysens[:, nref:]
        datasets.append(data)
        ref_ind.append(pos)
    return dict(m=m, fs=fs, fn=fn, xi=xi, Phi=Phi, datasets=datasets, ref_ind=ref_ind,
                nref=nref, nmov=nmov)


def check_ssi_multi():
    n = 0
    for it in range(48):
        case = make_case(rng, noise=0.0 if it % 4 else 1e-3)
        m = case["m"]
        Y_o = orig_gen.pre_multisetup(copy.deepcopy(case["datasets"]), copy.deepcopy(case["ref_ind"]))
        Y_n = new_gen.pre_multisetup(case["datasets"], case["ref_ind"])
        same(Y_o, Y_n, "Y")
        br = -(-2 * m // case["nref"]) + 1 + int(rng.integers(0, 4))
        for method in ("cov_mm", "dat", "cov_R"):
            for ordmax, step in ((2 * m, 1), (2 * m, 2), (2 * m + 3, 3), (1, 1)):
                if ordmax > br * case["nref"]:
                    continue
                args = (case["fs"], br, ordmax, method)
                ko, _ = same_outcome(
                    orig_fssi.SSI_multi_setup, new_fssi.SSI_multi_setup,
                    (Y_o, *args), (Y_n, *args), f"SSI_multi it={it} {method} {ordmax}/{step}",
                    step=step,
                )
                assert ko == "ok"
                n += 1
    # the unit-test style input (10 random samples) and error paths
    for it in range(12):
        nref, ns = int(rng.integers(1, 4)), int(rng.integers(1, 4))
        Y = [{"ref": rng.random((nref, 10)), "mov": rng.random((int(rng.integers(1, 4)), 10))}
             for _ in range(ns)]
        for method in ("cov_mm", "dat", "cov_R", "INVALID"):
            for br, ordmax, step in ((2, 3, 1), (2, 3, 2), (1, 1, 1), (3, 50, 1), (2, 0, 1)):
                same_outcome(orig_fssi.SSI_multi_setup, new_fssi.SSI_multi_setup,
                             (Y, 1.0, br, ordmax, method, step), (Y, 1.0, br, ordmax, method, step),
                             f"SSI_multi rand it={it} {method} br={br} ord={ordmax}")
                n += 1
    # degenerate layouts: a setup without roving sensors / unequal reference counts
    Y0 = [{"ref": rng.random((2, 40)), "mov": rng.random((0, 40))},
          {"ref": rng.random((2, 40)), "mov": rng.random((2, 40))}]
    Y1 = [{"ref": rng.random((2, 40)), "mov": rng.random((1, 40))},
          {"ref": rng.random((3, 40)), "mov": rng.random((2, 40))}]
    Y2 = [{"ref": rng.random((2, 40)), "mov": rng.random((1, 40))},
          {"ref": rng.random((1, 40)), "mov": rng.random((2, 40))}]
    for Y in (Y0, Y0[::-1], Y1, Y2, []):
        for method in ("cov_mm", "dat"):
            same_outcome(orig_fssi.SSI_multi_setup, new_fssi.SSI_multi_setup,
                         (Y, 1.0, 3, 4, method), (Y, 1.0, 3, 4, method), "SSI_multi degenerate")
            n += 1
    return n


# ----------------------------------------------------------------------------
# 3. calling layer: MultiSetup_PreGER (+ preprocessing) and SSIdat_MS / SSIcov_MS
# ----------------------------------------------------------------------------
RES_FIELDS = ("Obs", "A", "C", "H", "Lambds", "Fn_poles", "Xi_poles", "Phi_poles", "Lab",
              "Fn_poles_cov", "Xi_poles_cov", "Phi_poles_cov", "Fn", "Xi", "Phi", "order_out",
              "Fn_cov", "Xi_cov", "Phi_cov")


def same_result(ro, rn, what):
    assert (ro is None) == (rn is None), what
    if ro is None:
        return
    assert set(ro.model_dump()) == set(rn.model_dump()), what
    for f in RES_FIELDS:
        same(getattr(ro, f), getattr(rn, f), f"{what}.{f}")


def same_setup_state(so, sn, what):
    same(so.data, sn.data, what + ".data")
    same(so.datasets, sn.datasets, what + ".datasets")
    for attr in ("fs", "dt", "Nsetup", "Nchs", "Ndats", "Ts", "ref_ind"):
        same(getattr(so, attr), getattr(sn, attr), f"{what}.{attr}")
    assert list(so.algorithms) == list(sn.algorithms), what


class FakeSFP:
    """stand-in for the interactive plot: returns a fixed selection"""

    selection = None

    def __init__(self, algo, freqlim=None, plot=None):
        assert plot == "SSI"
        self.result = FakeSFP.selection


orig_alg.SelFromPlot = FakeSFP
new_alg.SelFromPlot = FakeSFP


def mac(a, b):
    return abs(np.vdot(a, b)) ** 2 / (np.vdot(a, a).real * np.vdot(b, b).real)


def check_classes():
    n = 0
    worst = 0.0
    for it in range(24):
        noise_free = it % 3 != 2
        case = make_case(rng, noise=0.0 if noise_free else 1e-2, ndat=None if it % 4 else 1200)
        m, fs = case["m"], case["fs"]
        so = orig_multi.MultiSetup_PreGER(fs=fs, ref_ind=copy.deepcopy(case["ref_ind"]),
                                          datasets=copy.deepcopy(case["datasets"]))
        sn = new_multi.MultiSetup_PreGER(fs=fs, ref_ind=copy.deepcopy(case["ref_ind"]),
                                         datasets=copy.deepcopy(case["datasets"]))
        same_setup_state(so, sn, f"setup it={it}")
        # the split itself
        for d, r, y in zip(case["datasets"], case["ref_ind"], sn.data):
            mov = [c for c in range(d.shape[1]) if c not in r]
            assert np.array_equal(y["ref"], d[:, r].T) and np.array_equal(y["mov"], d[:, mov].T)

        br = -(-2 * m // case["nref"]) + 1 + int(rng.integers(0, 3))
        ordmax = 2 * m if noise_free else 2 * m + 4
        step = 2 if it % 4 == 3 else 1
        hc = dict(conj=bool(it % 5), xi_max=0.1, mpc_lim=0.5 if it % 2 else 0.0,
                  mpd_lim=0.5 if it % 2 else 1.0, cov_max=0.2)
        algs = {}
        for mod, key in ((orig_alg, "o"), (new_alg, "n")):
            algs[key] = [
                mod.SSIcov_MS(name="cov", br=br, ordmax=ordmax, step=step, hc=dict(hc)),
                mod.SSIdat_MS(name="dat", br=br, ordmax=ordmax, step=step, hc=dict(hc)),
                mod.SSIcov_MS(name="covR", br=br, ordmax=ordmax, step=step, method="cov_R"),
            ]
        so.add_algorithms(*algs["o"])
        sn.add_algorithms(*algs["n"])
        sel = list(case["fn"])
        for name in ("cov", "dat", "covR"):
            # N.B. with step > 1 the pristine run() fails (SSI_multi_setup is always
            # called with step=1, SSI_poles with the user's step): same exception
            ko, _ = same_outcome(so.run_by_name, sn.run_by_name, (name,), (name,), f"run it={it} {name}")
            assert (ko == "ok") == (step == 1), (ko, step)
            n += 1
            same_result(so[name].result, sn[name].result, f"run it={it} {name}")
            same(so[name].run_params.model_dump(), sn[name].run_params.model_dump(), "run_params")
            # mpe at a given order, at 'find_min', with a list of orders, and from the "plot"
            orders = [ordmax, "find_min", [ordmax] * m]
            for order in orders:
                if step == 2 and order != "find_min" and ordmax % 2:
                    continue
                ko, _ = same_outcome(so.mpe, sn.mpe, (name, sel), (name, sel),
                                     f"mpe it={it} {name} {order}", order=order, rtol=0.05)
                same_result(so[name].result, sn[name].result, f"mpe it={it} {name} {order}")
                same(so[name].run_params.model_dump(), sn[name].run_params.model_dump(), "run_params")
                n += 1
                if ko == "ok" and order == ordmax and noise_free and step == 1 and name != "covR":
                    res = sn[name].result
                    if not np.isnan(res.Fn).any():
                        worst = max(worst, np.max(np.abs(res.Fn - case["fn"]) / case["fn"]))
                        worst = max(worst, np.max(np.abs(res.Xi - case["xi"]) / case["xi"]))
                        worst = max(worst, max(1 - mac(res.Phi[:, j], case["Phi"][:, j])
                                               for j in range(m)))
            FakeSFP.selection = (sel, [ordmax] * m)
            ko, _ = same_outcome(so.mpe_from_plot, sn.mpe_from_plot, (name,), (name,),
                                 f"mpe_from_plot it={it} {name}", rtol=0.02)
            same_result(so[name].result, sn[name].result, f"mpe_from_plot it={it} {name}")
            same(so[name].run_params.model_dump(), sn[name].run_params.model_dump(), "run_params")
            n += 1

        # preprocessing steps (each re-does the split), then a run on the processed data
        steps = [
            ("detrend_data", (), {}),
            ("detrend_data", (), {"type": "constant"}),
            ("filter_data", (), {"Wn": 40.0, "order": 4, "btype": "lowpass"}),
            ("filter_data", (), {"Wn": (1.0, 45.0), "order": 2, "btype": "bandpass"}),
            ("decimate_data", (), {"q": 2}),
            ("decimate_data", (), {"q": 2, "ftype": "fir", "n": 8, "zero_phase": False}),
            ("decimate_data", (), {"q": 1}),  # error path
            ("decimate_data", (), {"q": 2, "bogus": 1}),  # error path
        ]
        for meth, a, k in steps:
            same_outcome(getattr(so, meth), getattr(sn, meth), a, a, f"{meth} {k}", **k)
            same_setup_state(so, sn, f"after {meth} {k}")
            n += 1
        same_outcome(so.run_by_name, sn.run_by_name, ("cov",), ("cov",), f"re-run it={it}")
        same_result(so["cov"].result, sn["cov"].result, f"re-run it={it}")
        so.rollback()
        sn.rollback()
        same_setup_state(so, sn, "rollback")
        same(sn.datasets, case["datasets"], "rollback restores")
    return n, worst


# ----------------------------------------------------------------------------
# 4. single-setup SSIdat / SSIcov share the refactored mpe / mpe_from_plot
# ----------------------------------------------------------------------------
def check_single():
    n = 0
    for it in range(8):
        case = make_case(rng, nsetup=2, noise=1e-2, ndat=600)
        data = case["datasets"][0]
        m = case["m"]
        br = 2 * m + 2
        ordmax = 2 * m + 2
        ss_o = SingleSetup(data.copy(), fs=case["fs"])
        ss_n = SingleSetup(data.copy(), fs=case["fs"])
        unc = it % 2 == 1
        kw = dict(br=br, ordmax=ordmax, calc_unc=unc, nb=10)
        ss_o.add_algorithms(orig_alg.SSIcov(name="cov", **kw), orig_alg.SSIdat(name="dat", br=br, ordmax=ordmax))
        ss_n.add_algorithms(new_alg.SSIcov(name="cov", **kw), new_alg.SSIdat(name="dat", br=br, ordmax=ordmax))
        ss_o.run_all()
        ss_n.run_all()
        sel = list(case["fn"])
        for name in ("cov", "dat"):
            same_result(ss_o[name].result, ss_n[name].result, f"single run {name}")
            for order in (ordmax, "find_min"):
                same_outcome(ss_o.mpe, ss_n.mpe, (name, sel), (name, sel), f"single mpe {name} {order}",
                             order=order, rtol=0.05)
                same_result(ss_o[name].result, ss_n[name].result, f"single mpe {name} {order}")
                n += 1
            FakeSFP.selection = (sel, [ordmax] * m)
            same_outcome(ss_o.mpe_from_plot, ss_n.mpe_from_plot, (name,), (name,), "single mpe_from_plot")
            same_result(ss_o[name].result, ss_n[name].result, f"single mpe_from_plot {name}")
            same(ss_o[name].run_params.model_dump(), ss_n[name].run_params.model_dump(), "run_params")
            n += 1
    # mpe before run: same exception
    a_o, a_n = orig_alg.SSIdat(name="x", br=4), new_alg.SSIdat(name="x", br=4)
    same_outcome(a_o.mpe, a_n.mpe, ([1.0],), ([1.0],), "mpe before run")
    same_outcome(a_o.mpe_from_plot, a_n.mpe_from_plot, (), (), "mpe_from_plot before run")
    return n


if __name__ == "__main__":
    import warnings

    warnings.simplefilter("ignore")
    n_ok, n_exc = check_split()
    print(f"pre_multisetup: {n_ok} layouts identical, {n_exc} identical exceptions")
    n = check_ssi_multi()
    print(f"SSI_multi_setup: {n} calls identical (Obs_all, A, C bitwise)")
    n, worst = check_classes()
    print(f"MultiSetup_PreGER / SSIcov_MS / SSIdat_MS: {n} steps identical; "
          f"property sanity (noise-free, order 2m): worst rel. error / 1-MAC = {worst:.2e}")
    assert worst < 1e-6, worst
    n = check_single()
    print(f"SSIdat / SSIcov mpe, mpe_from_plot: {n} steps identical")
    print("calls [returned, raised the same exception]:", OUTCOMES)
    print(f"{N_CHECKS} comparisons")
    print("PASS")
