"""
Equivalence check for the C10 refactoring (stability labels / soft criteria).

Runs the refactored functions (pyoma2 from /tmp/wt/R10/src) against the pristine
HEAD versions (orig_*.py next to this file, imported by path) on random inputs
covering the quantifier of the property and asserts identical outputs.

Run:  PYTHONPATH=/tmp/wt/R10/src /venv/bin/python /tmp/wt/R10/_refactor/equiv.py
"""
import importlib.util
import logging
import os
import sys
import warnings

import numpy as np

HERE = os.path.dirname(os.path.abspath(__file__))
sys.path.insert(0, os.path.join(os.path.dirname(HERE), "src"))

warnings.simplefilter("ignore")
os.environ.setdefault("TQDM_DISABLE", "1")  # no progress bars

from pyoma2.algorithms import plscf as new_alg_plscf  # noqa: E402
from pyoma2.algorithms import ssi as new_alg_ssi  # noqa: E402
from pyoma2.algorithms.data.run_params import (  # noqa: E402
    SSIRunParams,
    pLSCFRunParams,
)
from pyoma2.functions import gen as new_gen  # noqa: E402

assert new_gen.__file__.startswith("/tmp/wt/R10/src"), new_gen.__file__


def load(name, filename):
    spec = importlib.util.spec_from_file_location(name, os.path.join(HERE, filename))
    mod = importlib.util.module_from_spec(spec)
    sys.modules[name] = mod
    spec.loader.exec_module(mod)
    return mod


orig_gen = load("orig_gen", "orig_gen.py")
# the algorithm modules use a relative import (.base): load them as members of
# the pyoma2.algorithms package, then make them use the ORIGINAL gen module
orig_alg_ssi = load("pyoma2.algorithms._orig_alg_ssi", "orig_alg_ssi.py")
orig_alg_plscf = load("pyoma2.algorithms._orig_alg_plscf", "orig_alg_plscf.py")
orig_alg_ssi.gen = orig_gen
orig_alg_plscf.gen = orig_gen
assert new_alg_ssi.gen is new_gen and new_alg_plscf.gen is new_gen


class ListHandler(logging.Handler):
    def __init__(self):
        super().__init__(level=logging.DEBUG)
        self.msgs = []

    def emit(self, record):
        self.msgs.append((record.levelname, record.getMessage()))


def capture(logger_name):
    h = ListHandler()
    lg = logging.getLogger(logger_name)
    lg.setLevel(logging.DEBUG)
    lg.propagate = False
    lg.addHandler(h)
    return h


logging.getLogger("pyoma2").setLevel(logging.WARNING)  # silence INFO chatter
H_NEW = capture(new_gen.logger.name)
H_OLD = capture(orig_gen.logger.name)


def call(f, *a, **k):
    """Return ('ok', value) or ('exc', type, message)."""
    try:
        return ("ok", f(*a, **k))
    except Exception as e:  # noqa: BLE001
        return ("exc", type(e), str(e))


def same(a, b):
    if a[0] != b[0]:
        return False
    if a[0] == "exc":
        return a[1:] == b[1:]
    x, y = a[1], b[1]
    return same_val(x, y)


def same_val(x, y):
    if x is None or y is None:
        return x is None and y is None
    x_, y_ = np.asarray(x), np.asarray(y)
    return (
        type(x) is type(y)
        and x_.dtype == y_.dtype
        and x_.shape == y_.shape
        and np.array_equal(x_, y_, equal_nan=True)
    )


# ----------------------------------------------------------------------------
# 1. MAC
# ----------------------------------------------------------------------------
def rand_shape(rng, shape, cplx):
    a = rng.standard_normal(shape)
    if cplx:
        a = a + 1j * rng.standard_normal(shape)
    return a


def check_MAC(rng, n_cases=300):
    n = 0
    for _ in range(n_cases):
        nl = int(rng.integers(1, 9))
        cx, ca = bool(rng.integers(2)), bool(rng.integers(2))
        kind = rng.integers(6)
        if kind == 0:  # two vectors
            X, A = rand_shape(rng, nl, cx), rand_shape(rng, nl, ca)
        elif kind == 1:  # two matrices
            X = rand_shape(rng, (nl, int(rng.integers(1, 5))), cx)
            A = rand_shape(rng, (nl, int(rng.integers(1, 5))), ca)
        elif kind == 2:  # vector / matrix
            X = rand_shape(rng, nl, cx)
            A = rand_shape(rng, (nl, int(rng.integers(1, 5))), ca)
        elif kind == 3:  # strided views of a 3-D pole table (as in SC_apply)
            P = rand_shape(rng, (6, 4, nl), cx)
            X, A = P[int(rng.integers(6)), 2, :], P[:, 1, :][int(rng.integers(6)), :]
            if rng.integers(2):
                A = A * (1 + 1e-3 * rng.standard_normal())  # nearly collinear
        elif kind == 4:  # nan / zero vectors
            X, A = rand_shape(rng, nl, cx), rand_shape(rng, nl, ca)
            if rng.integers(2):
                X[int(rng.integers(nl))] = np.nan
            else:
                A = np.zeros_like(A)
        else:  # invalid inputs -> equal exceptions
            if rng.integers(2):
                X, A = rand_shape(rng, nl, cx), rand_shape(rng, nl + 1, ca)
            else:
                X, A = rand_shape(rng, (nl, 2, 2), cx), rand_shape(rng, nl, ca)
        r_new = call(new_gen.MAC, X.copy(), A.copy())
        r_old = call(orig_gen.MAC, X.copy(), A.copy())
        assert same(r_new, r_old), ("MAC", kind, r_new, r_old)
        n += 1
    return n


# ----------------------------------------------------------------------------
# 2. SC_apply on random pole tables
# ----------------------------------------------------------------------------
def pole_table(rng, n_rows, n_cols, n_ch, cplx, tol):
    """Pole table with physical modes tracked over the orders (relative scatter
    around the tolerances), spurious poles, duplicates, closely spaced
    frequencies, zeros, NaN cells, empty columns."""
    n_modes = int(rng.integers(1, max(2, n_rows // 2 + 1)))
    f0 = np.sort(rng.uniform(0.5, 30.0, n_modes))
    if n_modes > 1 and rng.integers(2):
        f0[1] = f0[0] * (1 + 10.0 ** rng.uniform(-6, -2))  # closely spaced
    if n_modes > 2 and rng.integers(2):
        f0[2] = f0[1]  # exact duplicate frequency
    xi0 = rng.uniform(0.002, 0.08, n_modes)
    phi0 = rand_shape(rng, (n_modes, n_ch), cplx)

    Fn = np.full((n_rows, n_cols), np.nan)
    Xi = np.full((n_rows, n_cols), np.nan)
    Phi = np.full((n_rows, n_cols, n_ch), np.nan, dtype=complex if cplx else float)
    s_fn, s_xi, s_phi = tol
    for c in range(n_cols):
        rows = rng.permutation(n_rows)
        k = 0
        for m in range(n_modes):
            if k >= n_rows or rng.random() < 0.15:
                continue
            r = rows[k]
            k += 1
            Fn[r, c] = f0[m] * (1 + s_fn * rng.uniform(-1.2, 1.2))
            Xi[r, c] = xi0[m] * (1 + s_xi * rng.uniform(-1.2, 1.2))
            scale = np.sqrt(max(s_phi, 0.0)) * rng.uniform(0, 1.5)
            Phi[r, c, :] = phi0[m] * rng.uniform(0.5, 2) + scale * rand_shape(
                rng, n_ch, cplx
            ) * np.linalg.norm(phi0[m]) / np.sqrt(n_ch)
        while k < n_rows and rng.random() < 0.6:  # spurious poles
            r = rows[k]
            k += 1
            Fn[r, c] = rng.uniform(0.5, 30.0)
            Xi[r, c] = rng.uniform(-0.02, 0.2)
            Phi[r, c, :] = rand_shape(rng, n_ch, cplx)
        if k >= 1 and k < n_rows and rng.random() < 0.3:  # duplicated pole
            Fn[rows[k], c] = Fn[rows[0], c]
            Xi[rows[k], c] = Xi[rows[0], c]
            Phi[rows[k], c, :] = Phi[rows[0], c, :]

    # independent NaN patterns per array, empty columns, zeros
    for arr in (Fn, Xi):
        if rng.random() < 0.5:
            arr[rng.random(arr.shape) < 0.08] = np.nan
    if rng.random() < 0.5:
        Phi[rng.random(Phi.shape[:2]) < 0.08, :] = np.nan
    if rng.random() < 0.3:
        Phi[rng.random(Phi.shape) < 0.02] = np.nan
    for _ in range(int(rng.integers(0, 3))):
        Fn[:, int(rng.integers(n_cols))] = np.nan
    if rng.random() < 0.2:
        Fn[rng.random(Fn.shape) < 0.03] = 0.0
        Xi[rng.random(Xi.shape) < 0.03] = 0.0
    if rng.random() < 0.05:
        Fn[:] = np.nan
    return Fn, Xi, Phi


def check_SC_apply(rng, n_cases=240):
    n, ones, zeros, logged = 0, 0, 0, 0
    for case in range(n_cases):
        cplx = bool(rng.integers(2))
        n_rows = int(rng.integers(1, 25))
        n_ch = int(rng.integers(1, 7))
        tol = (
            10.0 ** rng.uniform(-3, -0.5),
            10.0 ** rng.uniform(-2.5, -0.3),
            10.0 ** rng.uniform(-3, -0.5),
        )
        if rng.random() < 0.1:
            tol = (tol[0], tol[1], 0.0) if rng.integers(2) else (1e9, 1e9, 1e9)
        if case % 2 == 0:
            # SSI convention: columns = orders 0..ordmax (every `step`)
            step = int(rng.choice([1, 1, 1, 2, 3, 5]))
            ordmax = int(rng.integers(0, 41))
            n_cols = ordmax // step + 1
            sc_ordmax = ordmax
        else:
            # pLSCF convention: columns = orders 1..ordmax, called with ordmax - 1
            step = 1
            ordmax = int(rng.integers(1, 41))
            n_cols = ordmax
            sc_ordmax = ordmax - 1
        ordmin = int(rng.integers(0, sc_ordmax + 1))
        if rng.random() < 0.3:
            ordmin = 0
        Fn, Xi, Phi = pole_table(rng, n_rows, n_cols, n_ch, cplx, tol)
        args = (ordmin, sc_ordmax, step) + tol

        H_NEW.msgs.clear()
        H_OLD.msgs.clear()
        ins_new = (Fn.copy(), Xi.copy(), Phi.copy())
        ins_old = (Fn.copy(), Xi.copy(), Phi.copy())
        r_new = call(new_gen.SC_apply, *ins_new, *args)
        r_old = call(orig_gen.SC_apply, *ins_old, *args)
        assert same(r_new, r_old), ("SC_apply", case, args, r_new, r_old)
        # no input was modified, same debug log records (swallowed exceptions)
        for a, b in zip(ins_new + ins_old, (Fn, Xi, Phi) * 2):
            assert np.array_equal(a, b, equal_nan=True)
        assert H_NEW.msgs == H_OLD.msgs, ("log", case, H_NEW.msgs[:3], H_OLD.msgs[:3])
        logged += len(H_NEW.msgs)
        if r_new[0] == "ok":
            ones += int(r_new[1].sum())
            zeros += int((r_new[1] == 0).sum())
        n += 1

    # malformed calls -> same exception / same result
    Fn, Xi, Phi = pole_table(rng, 6, 5, 3, True, (0.01, 0.05, 0.03))
    bad = [
        (Fn, Xi, Phi, 0, 9, 1, 0.01, 0.05, 0.03),  # more orders than columns
        (Fn, Xi, Phi[:, :, 0], 0, 4, 1, 0.01, 0.05, 0.03),  # 2-D shapes
        (Fn, Xi[:, :2], Phi, 0, 4, 1, 0.01, 0.05, 0.03),  # short damping table
        (Fn, Xi, Phi, 0, 4, 1, None, 0.05, 0.03),  # bad tolerance (swallowed)
        (Fn[:0], Xi[:0], Phi[:0], 0, 4, 1, 0.01, 0.05, 0.03),  # no rows
        (Fn, Xi, Phi, 3, 2, 1, 0.01, 0.05, 0.03),  # empty order range
    ]
    for b in bad:
        r_new, r_old = call(new_gen.SC_apply, *b), call(orig_gen.SC_apply, *b)
        assert same(r_new, r_old), ("SC_apply bad", r_new, r_old)
        n += 1
    # the sample must exercise both labels and the swallowed-exception path
    assert ones > 200 and zeros > 200 and logged > 200, (ones, zeros, logged)
    return n, ones, zeros, logged


# ----------------------------------------------------------------------------
# 3. algorithm level: SSIdat / SSIcov / pLSCF .run()
# ----------------------------------------------------------------------------
def synth_data(rng, n_samp=3000, fs=100.0, n_ch=5):
    """Response of a 4-dof shear frame to white noise, plus measurement noise."""
    from scipy import linalg, signal

    n = 4
    K = 4000.0 * (2 * np.eye(n) - np.eye(n, k=1) - np.eye(n, k=-1))
    K[-1, -1] = 4000.0
    M = np.eye(n)
    w2, V = linalg.eigh(K, M)
    C = V @ np.diag(2 * 0.015 * np.sqrt(w2)) @ V.T
    A = np.block([[np.zeros((n, n)), np.eye(n)], [-K, -C]])
    B = np.vstack([np.zeros((n, n)), np.eye(n)])
    Cm = np.hstack([-K, -C])
    sysd = signal.cont2discrete((A, B, Cm, np.eye(n)), 1 / fs)
    u = rng.standard_normal((n_samp, n))
    _, y, _ = signal.dlsim((sysd[0], sysd[1], sysd[2], sysd[3], 1 / fs), u)
    y = np.hstack([y, y[:, :1] * 0.5 + y[:, 2:3] * 0.3])[:, :n_ch]
    y += 0.05 * y.std() * rng.standard_normal(y.shape)
    return y, fs


def result_fields(res):
    d = res.model_dump() if hasattr(res, "model_dump") else res.dict()
    return d


def same_results(r_new, r_old, what):
    d_new, d_old = result_fields(r_new), result_fields(r_old)
    assert d_new.keys() == d_old.keys()
    for k in d_new:
        x, y = d_new[k], d_old[k]
        if isinstance(x, (list, tuple)) and x and isinstance(x[0], np.ndarray):
            assert len(x) == len(y) and all(same_val(a, b) for a, b in zip(x, y)), (
                what,
                k,
            )
        elif isinstance(x, np.ndarray) or isinstance(y, np.ndarray):
            assert same_val(x, y), (what, k)
        else:
            assert x == y or (x is None and y is None), (what, k, x, y)


def check_algorithms(rng):
    n, ones, n_exc = 0, 0, 0
    data, fs = synth_data(rng)
    ssi_cfgs = [
        ("SSIcov", dict(br=12, ordmax=24, ordmin=0, step=1)),
        ("SSIcov", dict(br=12, ordmax=24, ordmin=6, step=2)),
        ("SSIcov", dict(br=10, ordmax=18, ordmin=3, step=3, ref_ind=[0, 2])),
        ("SSIdat", dict(br=10, ordmax=20, ordmin=4, step=1)),
        (
            "SSIcov",
            dict(
                br=10,
                ordmax=16,
                step=1,
                sc=dict(err_fn=0.05, err_xi=0.2, err_phi=0.1),
                hc=dict(
                    conj=False, xi_max=0.2, mpc_lim=0.3, mpd_lim=0.6, cov_max=0.2
                ),
            ),
        ),
        ("SSIcov", dict(br=10, ordmax=12, step=1, calc_unc=True, nb=20)),
    ]
    for cls_name, kw in ssi_cfgs:
        a_new = getattr(new_alg_ssi, cls_name)(name="x", **kw)
        a_old = getattr(orig_alg_ssi, cls_name)(name="x", **kw)
        assert isinstance(a_new.run_params, SSIRunParams)
        a_new._set_data(data.copy(), fs)
        a_old._set_data(data.copy(), fs)
        c_new, c_old = call(a_new.run), call(a_old.run)
        if c_new[0] == "exc" or c_old[0] == "exc":
            # n.b. step > 1 raises IndexError inside functions.ssi.SSI_poles in
            # the library as it is (before any of the refactored code runs)
            assert c_new == c_old and kw["step"] > 1, (cls_name, kw, c_new, c_old)
            n_exc += 1
            continue
        r_new, r_old = c_new[1], c_old[1]
        same_results(r_new, r_old, (cls_name, kw))
        # the labels are the original SC_apply of the stored (filtered) tables
        rp = a_new.run_params
        lab = orig_gen.SC_apply(
            r_new.Fn_poles,
            r_new.Xi_poles,
            r_new.Phi_poles,
            rp.ordmin,
            rp.ordmax,
            rp.step,
            rp.sc["err_fn"],
            rp.sc["err_xi"],
            rp.sc["err_phi"],
        )
        assert same_val(r_new.Lab, lab), (cls_name, kw)
        ones += int(r_new.Lab.sum())
        n += 1

    plscf_cfgs = [
        dict(ordmax=12, ordmin=0, nxseg=256, method_SD="per"),
        dict(ordmax=15, ordmin=5, nxseg=256, method_SD="cor"),
        dict(
            ordmax=10,
            ordmin=2,
            nxseg=512,
            method_SD="per",
            sc=dict(err_fn=0.05, err_xi=0.3, err_phi=0.1),
            hc=dict(conj=False, xi_max=0.3, mpc_lim=0.2, mpd_lim=0.8),
        ),
    ]
    for kw in plscf_cfgs:
        a_new = new_alg_plscf.pLSCF(name="x", **kw)
        a_old = orig_alg_plscf.pLSCF(name="x", **kw)
        assert isinstance(a_new.run_params, pLSCFRunParams)
        a_new._set_data(data.copy(), fs)
        a_old._set_data(data.copy(), fs)
        r_new, r_old = a_new.run(), a_old.run()
        same_results(r_new, r_old, ("pLSCF", kw))
        rp = a_new.run_params
        lab = orig_gen.SC_apply(
            r_new.Fn_poles,
            r_new.Xi_poles,
            r_new.Phi_poles,
            rp.ordmin,
            rp.ordmax - 1,
            1,
            rp.sc["err_fn"],
            rp.sc["err_xi"],
            rp.sc["err_phi"],
        )
        assert same_val(r_new.Lab, lab), ("pLSCF", kw)
        assert r_new.Fn_poles.shape[1] == rp.ordmax
        ones += int(r_new.Lab.sum())
        n += 1
    assert ones > 20, ones
    return n, ones, n_exc


def main():
    rng = np.random.default_rng(20261003)
    n_mac = check_MAC(rng)
    n_sc, ones, zeros, logged = check_SC_apply(rng)
    n_alg, alg_ones, n_exc = check_algorithms(rng)
    print(f"MAC: {n_mac} cases identical")
    print(
        f"SC_apply: {n_sc} cases identical "
        f"(labels 1: {ones}, labels 0: {zeros}, swallowed exceptions: {logged})"
    )
    print(
        f"SSIdat/SSIcov/pLSCF run(): {n_alg} configurations identical results "
        f"(stable poles: {alg_ones}), {n_exc} configurations identical exception"
    )
    print("PASS")


if __name__ == "__main__":
    main()
