"""
Equivalence check for the C15 refactoring (gating / determinism / isolation /
persistence of runs, PoSER input validation).

Two "worlds" are compared on identical inputs:
  NEW  : the refactored package code in src/pyoma2 (worktree state)
  ORIG : the same package with the refactored functions swapped for the pristine
         ones taken from the orig_* copies of HEAD (imported by path)

For every scenario a full trace (exceptions, log messages, hashes of setup.data,
of every algorithm's bound data / fs / dt / run_params / result, dict ordering) is
recorded in both worlds and must be identical.

Run:  PYTHONPATH=/tmp/wt/R15/src /venv/bin/python /tmp/wt/R15/_refactor/equiv.py
"""

from __future__ import annotations

import contextlib
import hashlib
import importlib.util
import itertools
import logging
import os
import random
import sys
import tempfile
import typing
import warnings

import numpy as np
import numpy.typing as npt

HERE = os.path.dirname(os.path.abspath(__file__))
os.environ.setdefault("TQDM_DISABLE", "1")  # keep the output readable

import pyoma2.algorithms.base as new_alg_base  # noqa: E402
import pyoma2.functions.gen as new_gen  # noqa: E402
import pyoma2.setup.base as new_setup_base  # noqa: E402
import pyoma2.setup.multi as new_setup_multi  # noqa: E402
from pyoma2.algorithms import FDD, SSIcov, pLSCF  # noqa: E402
from pyoma2.algorithms.base import BaseAlgorithm  # noqa: E402
from pyoma2.algorithms.data.result import BaseResult  # noqa: E402
from pyoma2.algorithms.data.run_params import BaseRunParams  # noqa: E402
from pyoma2.setup.base import BaseSetup  # noqa: E402
from pyoma2.setup.single import SingleSetup  # noqa: E402


def _load(name: str):
    path = os.path.join(HERE, f"{name}.py")
    spec = importlib.util.spec_from_file_location(name, path)
    mod = importlib.util.module_from_spec(spec)
    sys.modules[name] = mod
    spec.loader.exec_module(mod)
    return mod


orig_alg_base = _load("orig_algorithms_base")
orig_setup_base = _load("orig_setup_base")
orig_setup_multi = _load("orig_setup_multi")
orig_gen = _load("orig_gen")

assert "pyoma2" in new_alg_base.__file__ and "/tmp/wt/R15/src" in new_alg_base.__file__

# --------------------------------------------------------------------------
# world switching
# --------------------------------------------------------------------------
ALG_METHODS = ["_pre_run", "_set_data", "_set_result"]
SETUP_METHODS = ["add_algorithms", "run_all", "run_by_name", "mpe", "__getitem__", "get"]


@contextlib.contextmanager
def world(kind: str):
    """In the ORIG world swap the pristine functions into the package classes."""
    if kind == "new":
        yield
        return
    saved = []
    try:
        for meth in ALG_METHODS:
            saved.append((BaseAlgorithm, meth, BaseAlgorithm.__dict__[meth]))
            setattr(BaseAlgorithm, meth, orig_alg_base.BaseAlgorithm.__dict__[meth])
        for meth in SETUP_METHODS:
            saved.append((BaseSetup, meth, BaseSetup.__dict__[meth]))
            setattr(BaseSetup, meth, orig_setup_base.BaseSetup.__dict__[meth])
        # the helper introduced by the refactoring must not be needed by ORIG code
        saved.append((BaseAlgorithm, "_not_ready_msg", BaseAlgorithm.__dict__["_not_ready_msg"]))
        delattr(BaseAlgorithm, "_not_ready_msg")
        yield
    finally:
        for cls, meth, fn in saved:
            setattr(cls, meth, fn)


def poser_cls(kind: str):
    return (
        new_setup_multi.MultiSetup_PoSER
        if kind == "new"
        else orig_setup_multi.MultiSetup_PoSER
    )


def gen_mod(kind: str):
    return new_gen if kind == "new" else orig_gen


# --------------------------------------------------------------------------
# log capture (messages are part of the compared trace)
# --------------------------------------------------------------------------
class ListHandler(logging.Handler):
    def __init__(self):
        super().__init__(level=logging.DEBUG)
        self.records: typing.List[str] = []

    def emit(self, record):
        self.records.append(f"{record.levelname}:{record.getMessage()}")


LOG = ListHandler()
for lg in (
    new_setup_base.logger,
    new_setup_multi.logger,
    orig_setup_base.logger,
    orig_setup_multi.logger,
):
    lg.setLevel(logging.DEBUG)
    lg.addHandler(LOG)
    lg.propagate = False


for noisy in ("pyoma2.functions", "pyoma2.algorithms"):
    logging.getLogger(noisy).setLevel(logging.ERROR)
for child in list(logging.root.manager.loggerDict):
    if child.startswith(("pyoma2.functions", "pyoma2.algorithms", "pyoma2.support")):
        logging.getLogger(child).setLevel(logging.ERROR)


def drain_log():
    out = list(LOG.records)
    LOG.records.clear()
    return out


# --------------------------------------------------------------------------
# digests
# --------------------------------------------------------------------------
def digest(obj) -> typing.Any:
    if obj is None or isinstance(obj, (bool, int, str)):
        return obj
    if isinstance(obj, float):
        return repr(obj)
    if isinstance(obj, np.ndarray):
        arr = np.ascontiguousarray(obj)
        return (
            "nd",
            str(arr.dtype),
            arr.shape,
            hashlib.sha1(arr.tobytes()).hexdigest()
            if arr.dtype != object
            else digest(arr.tolist()),
        )
    if isinstance(obj, np.generic):
        return ("npscalar", str(obj.dtype), repr(obj.item()))
    if isinstance(obj, dict):
        return ("dict", tuple((digest(k), digest(v)) for k, v in obj.items()))
    if isinstance(obj, (list, tuple)):
        return (type(obj).__name__, tuple(digest(v) for v in obj))
    if hasattr(obj, "model_dump"):
        return (type(obj).__name__, digest(dict(obj.__dict__)))
    return ("repr", type(obj).__name__, repr(obj))


def exc_sig(exc: BaseException):
    return (type(exc).__name__, str(exc))


def alg_state(alg, setup_data=None):
    d = alg.__dict__
    return (
        alg.name,
        type(alg).__name__,
        sorted(d.keys()),
        "data" in d and d["data"] is setup_data,
        digest(d.get("data", "<unset>")),
        digest(d.get("fs", "<unset>")),
        digest(d.get("dt", "<unset>")),
        digest(alg.run_params),
        digest(alg.result),
    )


def setup_state(setup, pool):
    data = getattr(setup, "data", None)
    algs = getattr(setup, "algorithms", "<unset>")
    return (
        digest(data),
        digest(getattr(setup, "fs", "<unset>")),
        "<unset>"
        if algs == "<unset>"
        else tuple((key, alg_state(alg, data)) for key, alg in algs.items()),
        # also algorithms that were created but never (successfully) added
        tuple(alg_state(alg, data) for alg in pool),
    )


# --------------------------------------------------------------------------
# algorithms used in the histories
# --------------------------------------------------------------------------
class ProbeParams(BaseRunParams):
    gain: float = 1.0
    sel_freq: typing.Optional[typing.List[float]] = None


class ProbeResult(BaseResult):
    summary: typing.Optional[npt.NDArray[np.float64]] = None
    Xi: typing.Optional[npt.NDArray[np.float64]] = None
    tag: typing.Optional[str] = None


class Probe(BaseAlgorithm[ProbeParams, ProbeResult, typing.Iterable[float]]):
    """Cheap, data dependent algorithm (unlike the fake of the test-suite)."""

    RunParamCls = ProbeParams
    ResultCls = ProbeResult

    def run(self) -> ProbeResult:
        cov = self.run_params.gain * (self.data.T @ self.data) * self.dt
        return ProbeResult(summary=cov, tag=f"{self.name}@{self.fs}")

    def mpe(self, sel_freq, *args, **kwargs):
        super().mpe(sel_freq=sel_freq)
        self.run_params.sel_freq = list(sel_freq)
        w, v = np.linalg.eigh(self.result.summary)
        self.result.Fn = np.sqrt(np.abs(w)) * np.asarray(sel_freq)[0]
        self.result.Phi = v
        self.result.Xi = 0.01 + 0.001 * np.arange(len(w)) * self.run_params.gain

    def mpe_from_plot(self, *args, **kwargs):
        super().mpe_from_plot(*args, **kwargs)


class ProbeB(Probe):
    pass


class ProbeC(BaseAlgorithm[ProbeParams, ProbeResult, typing.Iterable[float]]):
    RunParamCls = ProbeParams
    ResultCls = ProbeResult

    def run(self) -> ProbeResult:
        return ProbeResult(summary=np.cumsum(self.data, axis=0)[-1] / self.fs, tag="C")

    def mpe(self, sel_freq, *args, **kwargs):
        super().mpe()
        self.result.Fn = np.asarray(sel_freq, dtype=float)
        self.result.Phi = np.ones((self.data.shape[1], len(sel_freq)))
        self.result.Xi = np.full(len(sel_freq), 0.02)

    def mpe_from_plot(self, *args, **kwargs):
        super().mpe_from_plot(*args, **kwargs)


# spec -> fresh instance (so both worlds get equal but distinct objects)
SPECS: typing.Dict[str, typing.Callable[[], BaseAlgorithm]] = {
    "fdd": lambda: FDD(name="fdd", nxseg=128, method_SD="per"),
    "fdd_cor": lambda: FDD(name="fdd_cor", nxseg=64, method_SD="cor"),
    "fdd_noparams": lambda: FDD(name="fdd_noparams"),
    "ssicov": lambda: SSIcov(name="ssicov", br=8, ordmax=12),
    "plscf": lambda: pLSCF(name="plscf", ordmax=8, nxseg=128),
    "probe": lambda: Probe(name="probe", gain=2.0),
    "probe_dup": lambda: ProbeB(name="probe", gain=3.0),  # same name as 'probe'
    "probeB": lambda: ProbeB(name="probeB", gain=0.5),
    "probeC": lambda: ProbeC(name="probeC", gain=1.0),
    "probe_noparams": lambda: Probe(name="probe_noparams"),
    "probe_default_name": lambda: ProbeC(gain=1.5),
}
CHEAP = [k for k in SPECS if k.startswith("probe")]
REAL = ["fdd", "fdd_cor", "fdd_noparams", "ssicov", "plscf"]

MPE_ARGS = {
    "fdd": dict(sel_freq=[2.0, 5.0], DF=0.5),
    "fdd_cor": dict(sel_freq=[5.0], DF=0.5),
    "fdd_noparams": dict(sel_freq=[2.0]),
    "ssicov": dict(sel_freq=[2.0, 5.0], order=8),
    "plscf": dict(sel_freq=[2.0, 5.0], order=6),
}


def mpe_kwargs(name):
    return MPE_ARGS.get(name, dict(sel_freq=[1.5, 2.5]))


def make_data(seed, n=1500, ch=3, fs=20.0):
    """Response of a two-mode system (2 Hz and 5 Hz, 2% damping) to white noise."""
    from scipy import signal

    rng = np.random.default_rng(seed)
    out = 0.02 * rng.normal(size=(n, ch))
    for f0 in (2.0, 5.0):
        theta = 2 * np.pi * f0 / fs
        r = np.exp(-0.02 * theta)
        q = signal.lfilter([1.0], [1, -2 * r * np.cos(theta), r * r], rng.normal(size=n))
        out += q[:, None] * rng.normal(size=(1, ch))
    return out


def random_history(rnd: random.Random, palette, max_len=5):
    """Random add / run_by_name / run_all / mpe history, biased towards names that exist."""
    ops = []
    added: typing.List[str] = []

    def pick_name():
        if added and rnd.random() < 0.8:
            return rnd.choice(added)
        return rnd.choice(list(palette) + ["ghost"])

    for _ in range(rnd.randint(1, max_len)):
        r = rnd.random()
        if not ops and r < 0.85:
            r = 0.0  # most histories start by adding something
        if r < 0.25:
            k = rnd.randint(0 if ops else 1, min(3, len(palette)))
            chosen = tuple(rnd.sample(palette, k))
            added.extend(chosen)
            ops.append(("add", chosen))
        elif r < 0.50:
            ops.append(("run", pick_name()))
        elif r < 0.68:
            ops.append(("run_all",))
        elif r < 0.90:
            ops.append(("mpe", pick_name()))
        elif r < 0.94:
            ops.append(("swap_data",))
        elif r < 0.97:
            ops.append(("set_fs", rnd.choice([0, 50.0, None])))
        else:
            ops.append(("get", pick_name()))
    return ops


def play_history(kind, setup_kind, seed, ops):
    """Run one history in one world and return (trace, setup)."""
    trace = []
    pool: typing.List[BaseAlgorithm] = []
    with world(kind), warnings.catch_warnings():
        warnings.simplefilter("ignore")
        data = make_data(seed)
        if setup_kind == "single":
            setup = SingleSetup(data, fs=20.0)
        else:  # bare BaseSetup without data / fs / algorithms
            setup = BaseSetup()
        drain_log()
        for op in ops:
            exc = None
            ret = None
            try:
                if op[0] == "add":
                    fresh = [SPECS[s]() for s in op[1]]
                    pool.extend(fresh)
                    ret = setup.add_algorithms(*fresh)
                elif op[0] == "run":
                    name = SPECS[op[1]]().name if op[1] in SPECS else op[1]
                    ret = setup.run_by_name(name)
                elif op[0] == "run_all":
                    ret = setup.run_all()
                elif op[0] == "mpe":
                    name = SPECS[op[1]]().name if op[1] in SPECS else op[1]
                    ret = setup.mpe(name, **mpe_kwargs(op[1]))
                elif op[0] == "swap_data":
                    setup.data = make_data(seed + 1000)
                elif op[0] == "set_fs":
                    setup.fs = op[1]
                elif op[0] == "get":
                    got = setup.get(op[1])
                    ret = None if got is None else got.name
                    try:
                        ret = (ret, setup[op[1]].name)
                    except KeyError as e:
                        ret = (ret, exc_sig(e))
            except Exception as e:  # noqa: BLE001
                exc = exc_sig(e)
            trace.append((op, exc, digest(ret), drain_log(), setup_state(setup, pool)))
    return trace, setup


def check_histories():
    rnd = random.Random(15)
    n = 0
    n_exc = 0
    cases = []
    isolated: typing.Dict[str, typing.Any] = {}
    for i in range(260):
        cases.append(("single", i, random_history(rnd, CHEAP)))
    for i in range(40):
        cases.append(("bare", 500 + i, random_history(rnd, CHEAP, max_len=3)))
    for i in range(45):
        cases.append(("single", 900 + i, random_history(rnd, REAL + ["probe", "probeC"])))
    # a few hand written ones: alone / after others / repeated / other order
    fixed = [
        [("add", ("fdd",)), ("run", "fdd"), ("mpe", "fdd")],
        [("add", ("ssicov", "fdd", "plscf")), ("run_all",), ("run", "fdd"), ("mpe", "fdd")],
        [("add", ("plscf", "fdd")), ("run", "plscf"), ("run", "fdd"), ("run", "fdd"), ("mpe", "fdd")],
        [("add", ("fdd", "ssicov")), ("mpe", "ssicov"), ("run_all",), ("mpe", "ssicov"), ("mpe", "fdd")],
        [("add", ("fdd_noparams", "fdd")), ("run_all",), ("run", "fdd"), ("mpe", "fdd_noparams")],
        [("add", ("probe",)), ("add", ("probe_dup", "probeC")), ("run_all",), ("mpe", "probe")],
        [("add", ("probe",)), ("swap_data",), ("add", ("probeB",)), ("run_all",), ("mpe", "probeB")],
        [("set_fs", 0), ("add", ("probe", "probeB")), ("run_all",)],
        [("set_fs", None), ("add", ("probe",)), ("run", "probe")],
        [("run_all",), ("run", "ghost"), ("mpe", "ghost"), ("get", "ghost")],
    ]
    for j, ops in enumerate(fixed):
        cases.append(("single", 2000 + j, ops))
    # every ordering of every subset (size 1..3) of the real algorithm classes, same data:
    # add -> run (run_all or one by one, possibly twice) -> mpe of each
    structured = []
    real_ok = ["fdd", "ssicov", "plscf", "fdd_cor"]
    for size in (1, 2, 3):
        for perm in itertools.permutations(real_ok, size):
            ops = [("add", perm)]
            style = rnd.choice(["all", "each", "each_rev", "all_twice"])
            if style == "all":
                ops.append(("run_all",))
            elif style == "all_twice":
                ops += [("run_all",), ("run", perm[0]), ("run_all",)]
            elif style == "each":
                ops += [("run", nm) for nm in perm]
            else:
                ops += [("run", nm) for nm in reversed(perm)]
            ops += [("mpe", nm) for nm in perm]
            structured.append(ops)
            cases.append(("single", 4242, ops))
    for setup_kind, seed, ops in cases:
        t_new, _ = play_history("new", setup_kind, seed, ops)
        t_orig, _ = play_history("orig", setup_kind, seed, ops)
        assert t_new == t_orig, f"history mismatch for {setup_kind} {seed} {ops}"
        n += 1
        if seed == 4242:
            # the property itself: a result depends only on parameters and bound data,
            # whatever ran before / after / how often; shared data stays untouched
            final = t_new[-1][4]
            assert all(step[4][0] == t_new[0][4][0] for step in t_new), "data mutated"
            for key, state in final[2]:
                assert state[-1] is not None
                first_seen = isolated.setdefault(key, state[-1])
                assert first_seen == state[-1], f"{key} result depends on history {ops}"
        n_exc += sum(1 for step in t_new if step[1] is not None)
    return n, n_exc


# --------------------------------------------------------------------------
# direct checks on BaseAlgorithm._pre_run / _set_data
# --------------------------------------------------------------------------
def check_algorithm_direct():
    n = 0
    data = make_data(7)
    bindings = [
        None,  # never bound -> attribute missing
        (data, 20.0),
        (None, 20.0),
        (data, None),
        (data, 0),
        (data, 0.0),
        (None, None),
        (data, np.float32(12.5)),
        (data, 7),
        (data, "x"),
    ]
    makers = ["probe", "probe_noparams", "fdd", "fdd_noparams", "probe_default_name"]
    for maker, binding in itertools.product(makers, bindings):
        out = {}
        for kind in ("new", "orig"):
            with world(kind):
                alg = SPECS[maker]()
                steps = []
                if binding is not None:
                    try:
                        r = alg._set_data(*binding)
                        steps.append(("set_data", r is alg))
                    except Exception as e:  # noqa: BLE001
                        steps.append(("set_data", exc_sig(e)))
                    try:
                        r = alg._set_data(data=binding[0], fs=binding[1])
                        steps.append(("set_data_kw", r is alg))
                    except Exception as e:  # noqa: BLE001
                        steps.append(("set_data_kw", exc_sig(e)))
                for _ in range(2):
                    try:
                        steps.append(("pre_run", alg._pre_run()))
                    except Exception as e:  # noqa: BLE001
                        steps.append(("pre_run", exc_sig(e)))
                    # directly force the attribute combinations as well
                    alg.__dict__.setdefault("fs", None)
                    alg.__dict__.setdefault("data", None)
                steps.append(alg_state(alg))
                out[kind] = steps
        assert out["new"] == out["orig"], (maker, binding, out)
        n += 1
    return n


# --------------------------------------------------------------------------
# PoSER constructor configurations
# --------------------------------------------------------------------------
TYPES = {"A": Probe, "B": ProbeB, "C": ProbeC}
STATES = ["new", "run", "mpe", "fn_none_again"]


def build_setups(config, seed):
    """config: list of setups, each a list of (type letter, state)."""
    setups = []
    with warnings.catch_warnings():
        warnings.simplefilter("ignore")
        for s_idx, algs in enumerate(config):
            ss = SingleSetup(make_data(seed + s_idx, n=80), fs=10.0)
            for a_idx, (letter, state) in enumerate(algs):
                alg = TYPES[letter](name=f"{letter}{a_idx}", gain=1.0 + a_idx)
                ss.add_algorithms(alg)
                if state in ("run", "mpe", "fn_none_again"):
                    ss.run_by_name(alg.name)
                if state in ("mpe", "fn_none_again"):
                    ss.mpe(alg.name, sel_freq=[1.0, 2.0])
                if state == "fn_none_again":
                    alg.result.Fn = None
            setups.append(ss)
    drain_log()
    return setups


def poser_outcome(kind, setups_arg, names, ref_ind):
    cls = poser_cls(kind)
    try:
        ms = cls(ref_ind=ref_ind, single_setups=setups_arg, names=names)
    except Exception as e:  # noqa: BLE001
        return ("exc", exc_sig(e), drain_log())
    res_exc = None
    try:
        ms.result
    except Exception as e:  # noqa: BLE001
        res_exc = exc_sig(e)
    set_exc = None
    try:
        ms.setups = []
    except Exception as e:  # noqa: BLE001
        set_exc = exc_sig(e)
    return (
        "ok",
        [id(s) for s in ms.setups],
        type(ms.setups).__name__,
        ms.names is names,
        ms.ref_ind is ref_ind,
        sorted(k.replace("orig_", "") for k in ms.__dict__),
        res_exc,
        set_exc,
        drain_log(),
    )


def check_poser():
    rnd = random.Random(1515)
    configs = []
    # exhaustive small part: 0..3 setups, type lists up to length 2 over {A,B,C}, all 'mpe'
    type_lists = [()] + [(a,) for a in "ABC"] + list(itertools.product("ABC", repeat=2))
    for n_s in range(0, 4):
        for combo in itertools.product(type_lists, repeat=n_s):
            if n_s == 3 and rnd.random() > 0.08:
                continue
            configs.append([[(t, "mpe") for t in tl] for tl in combo])
    # random part: 0..4 setups, lengths 0..3, random states
    for _ in range(400):
        n_s = rnd.randint(0, 4)
        same = rnd.random() < 0.7
        base = [rnd.choice("ABC") for _ in range(rnd.randint(0, 3))]
        cfg = []
        for _ in range(n_s):
            tl = list(base) if same else [rnd.choice("ABC") for _ in range(rnd.randint(0, 3))]
            if same and rnd.random() < 0.1 and len(tl) > 1:
                tl.reverse()
            good = rnd.random() < 0.7
            cfg.append([(t, "mpe" if good else rnd.choice(STATES)) for t in tl])
        configs.append(cfg)

    n = 0
    n_ok = 0
    kinds_seen = set()
    for idx, cfg in enumerate(configs):
        setups = build_setups(cfg, seed=idx)
        n_first = len(cfg[0]) if cfg else 0
        name_opts = {n_first, rnd.randint(0, 3)}
        for n_names in name_opts:
            names = [f"alg{k}" for k in range(n_names)]
            ref_ind = [[0, 1] for _ in cfg]
            variants = [setups]
            if not setups:
                variants.append(None)
                variants.append(())
            else:
                variants.append(tuple(setups))
            for arg in variants:
                o_new = poser_outcome("new", arg, names, ref_ind)
                o_orig = poser_outcome("orig", arg, names, ref_ind)
                assert o_new == o_orig, (cfg, names, o_new, o_orig)
                n += 1
                n_ok += o_new[0] == "ok"
                kinds_seen.add(o_new[1][1] if o_new[0] == "exc" else "ok")
    # merge_results still works on an accepted configuration and agrees
    cfg = [[("A", "mpe"), ("C", "mpe")], [("A", "mpe"), ("C", "mpe")]]
    setups = build_setups(cfg, seed=77)
    outs = []
    for kind in ("new", "orig"):
        ms = poser_cls(kind)(ref_ind=[[0, 1, 2], [0, 1, 2]], single_setups=setups, names=["a", "c"])
        with warnings.catch_warnings():
            warnings.simplefilter("ignore")
            outs.append(digest(ms.merge_results()))
    assert outs[0] == outs[1]
    merge_log = drain_log()
    assert merge_log[: len(merge_log) // 2] == merge_log[len(merge_log) // 2 :]
    # odd inputs: non-sized iterable, setups whose `algorithms` is not a dict
    class Odd:
        def __init__(self, algorithms):
            self.algorithms = algorithms

    odd_args = [
        iter(setups),
        [Odd([1, 2]), Odd([1, 2])],
        [Odd({"a": Probe(name="a")}), Odd({"a": Probe(name="a")})],
        [setups[0], Odd({})],
        [setups[0], object()],
    ]
    for arg_factory in range(len(odd_args)):
        res = []
        for kind in ("new", "orig"):
            arg = odd_args[arg_factory]
            if arg_factory == 0:
                arg = iter(setups)
            res.append(poser_outcome(kind, arg, ["a", "c"], [[0], [0]]))
        assert res[0] == res[1], res
        n += 1
    return n, n_ok, kinds_seen


# --------------------------------------------------------------------------
# pickle round trip
# --------------------------------------------------------------------------
def check_pickle():
    n = 0
    histories = [
        ("single", 1, [("add", ("fdd", "probe")), ("run_all",), ("mpe", "fdd")]),
        ("single", 2, [("add", ("ssicov", "probeC")), ("run_all",), ("mpe", "probeC")]),
        ("single", 3, [("add", ("plscf", "fdd_cor")), ("run", "plscf")]),
        ("single", 4, [("add", ("probe", "probeB", "probeC"))]),
        ("single", 5, []),
        ("single", 6, [("add", ("fdd_noparams",)), ("run_all",)]),
    ]
    with tempfile.TemporaryDirectory() as tmp:
        for setup_kind, seed, ops in histories:
            blobs = {}
            states = {}
            for kind in ("new", "orig"):
                _, setup = play_history(kind, setup_kind, seed, ops)
                path = os.path.join(tmp, f"{kind}_{seed}.pkl")
                ret = gen_mod(kind).save_to_file(setup, path)
                assert ret is None
                with open(path, "rb") as fh:
                    blobs[kind] = fh.read()
                loaded = gen_mod(kind).load_from_file(path)
                assert type(loaded) is type(setup)
                before = setup_state(setup, [])
                after = setup_state(loaded, [])
                # loaded copy carries equal parameters and results
                assert before == after, (seed, kind)
                # cross loading: file written by one world read by the other
                other = "orig" if kind == "new" else "new"
                cross = gen_mod(other).load_from_file(path)
                assert setup_state(cross, []) == before
                states[kind] = after
            assert blobs["new"] == blobs["orig"], f"pickle bytes differ for {seed}"
            assert states["new"] == states["orig"]
            n += 1
        # error behaviour
        for bad in (os.path.join(tmp, "missing.pkl"), tmp):
            sigs = []
            for kind in ("new", "orig"):
                try:
                    gen_mod(kind).load_from_file(bad)
                    sigs.append("no error")
                except Exception as e:  # noqa: BLE001
                    sigs.append(exc_sig(e))
            assert sigs[0] == sigs[1] and sigs[0] != "no error", sigs
            sigs = []
            for kind in ("new", "orig"):
                try:
                    gen_mod(kind).save_to_file(lambda: 0, os.path.join(tmp, f"bad_{kind}.pkl"))
                    sigs.append("no error")
                except Exception as e:  # noqa: BLE001
                    sigs.append(exc_sig(e))
            assert sigs[0] == sigs[1] and sigs[0] != "no error", sigs
            n += 1
        garbage = os.path.join(tmp, "garbage.pkl")
        with open(garbage, "wb") as fh:
            fh.write(b"not a pickle")
        sigs = []
        for kind in ("new", "orig"):
            try:
                gen_mod(kind).load_from_file(garbage)
            except Exception as e:  # noqa: BLE001
                sigs.append(exc_sig(e))
        assert len(sigs) == 2 and sigs[0] == sigs[1]
        n += 1
    return n


def check_world_switch_is_real():
    """Sanity: ORIG world really executes the pristine code objects."""
    with world("orig"):
        assert BaseAlgorithm._pre_run.__code__ is orig_alg_base.BaseAlgorithm._pre_run.__code__
        assert BaseSetup.run_by_name.__code__ is orig_setup_base.BaseSetup.run_by_name.__code__
        assert not hasattr(BaseAlgorithm, "_not_ready_msg")
    assert BaseAlgorithm._pre_run.__code__ is not orig_alg_base.BaseAlgorithm._pre_run.__code__
    assert BaseSetup.add_algorithms.__code__ is not orig_setup_base.BaseSetup.add_algorithms.__code__
    assert hasattr(BaseAlgorithm, "_not_ready_msg")
    assert poser_cls("new") is not poser_cls("orig")
    assert new_gen.load_from_file.__code__ is not orig_gen.load_from_file.__code__


def main():
    check_world_switch_is_real()
    n_alg = check_algorithm_direct()
    print(f"algorithm direct checks : {n_alg} cases identical")
    n_hist, n_exc = check_histories()
    print(f"call histories          : {n_hist} histories identical ({n_exc} steps raised)")
    n_poser, n_ok, seen = check_poser()
    print(
        f"PoSER configurations    : {n_poser} constructor calls identical "
        f"({n_ok} accepted; outcomes seen: {len(seen)})"
    )
    for s in sorted(seen):
        print(f"    - {s[:70]}")
    n_pkl = check_pickle()
    print(f"pickle round trips      : {n_pkl} cases identical")
    print("PASS")


if __name__ == "__main__":
    main()
