"""
Equivalence check for the C18 refactoring (mode-shape indicators + the layer feeding them).

Runs the refactored code (src/pyoma2) and the pristine HEAD copies
(_refactor/orig_gen.py, _refactor/orig_algo_ssi.py) on random inputs and asserts
identical outputs (dtype, shape, NaN pattern, values).

  bit-identical expected : MPC, MPD, MSF, MCF, HC_phi_comp, SC_apply labels, SSI run() tables
  tight tolerance        : MAC (denominator is now sx * sa instead of (sx * conj(a)) @ a;
                           rtol 1e-13, no absolute slack)
"""
import importlib.util
import logging
import os
import sys
import warnings

import numpy as np

HERE = os.path.dirname(os.path.abspath(__file__))
sys.path.insert(0, os.path.join(os.path.dirname(HERE), "src"))
logging.disable(logging.CRITICAL)
warnings.simplefilter("ignore")
os.environ.setdefault("TQDM_DISABLE", "1")


def load(name, fname):
    spec = importlib.util.spec_from_file_location(name, os.path.join(HERE, fname))
    mod = importlib.util.module_from_spec(spec)
    sys.modules[name] = mod
    spec.loader.exec_module(mod)
    return mod


from pyoma2.algorithms import ssi as new_algo  # noqa: E402
from pyoma2.functions import gen as new_gen  # noqa: E402

assert new_gen.__file__.startswith("/tmp/wt/U18/src"), new_gen.__file__
orig_gen = load("orig_gen", "orig_gen.py")
# the original algorithm layer must sit on top of the ORIGINAL numerical layer
orig_algo = load("pyoma2.algorithms._orig_ssi", "orig_algo_ssi.py")
orig_algo.gen = orig_gen

rng = np.random.default_rng(20241018)
N_CHECKS = 0


def same(a, b, what, rtol=None):
    """identical: type/dtype, shape, NaN pattern, values (bitwise unless rtol given)."""
    global N_CHECKS
    N_CHECKS += 1
    if a is None or b is None:
        assert a is None and b is None, what
        return
    a_, b_ = np.asarray(a), np.asarray(b)
    assert type(a) is type(b), (what, type(a), type(b))
    assert a_.dtype == b_.dtype, (what, a_.dtype, b_.dtype)
    assert a_.shape == b_.shape, (what, a_.shape, b_.shape)
    assert np.array_equal(np.isnan(a_), np.isnan(b_)), (what, "NaN pattern")
    if rtol is None:
        assert np.array_equal(a_, b_, equal_nan=True), (what, a_, b_)
    else:
        assert np.allclose(a_, b_, rtol=rtol, atol=0.0, equal_nan=True), (what, a_, b_)


def outcome(f, *args):
    try:
        return ("ok", f(*args))
    except Exception as e:  # noqa: BLE001
        return ("exc", type(e), str(e))


def same_outcome(fo, fn, args, what, rtol=None):
    ro, rn = outcome(fo, *args), outcome(fn, *args)
    assert ro[0] == rn[0], (what, ro, rn)
    if ro[0] == "exc":
        assert ro[1:] == rn[1:], (what, ro, rn)
        global N_CHECKS
        N_CHECKS += 1
    elif isinstance(ro[1], tuple):
        assert len(ro[1]) == len(rn[1])
        for k, (x, y) in enumerate(zip(ro[1], rn[1])):
            same(x, y, f"{what}[{k}]", rtol)
    else:
        same(ro[1], rn[1], what, rtol)


# --------------------------------------------------------------------------- shapes
def cscale():
    return 10 ** rng.uniform(-6, 6) * np.exp(1j * rng.uniform(0, 2 * np.pi))


def shapes(n):
    """a family of mode shapes with n components covering the quantifier."""
    z = rng.standard_normal(n) + 1j * rng.standard_normal(n)
    r = rng.standard_normal(n)
    out = {
        "generic": z,
        "scaled": cscale() * z,
        "collinear": cscale() * r,
        "real_as_complex": r.astype(complex),
        "purely_imag": 1j * r,
        "near_collinear": cscale() * (r + 1e-9j * rng.standard_normal(n)),
        "unit_norm": z / z[np.argmax(np.abs(z))],
        "pinned": np.array([1 + 2j, 2 + 3j, 3 + 4j]),
    }
    zz = z.copy()
    zz[rng.integers(0, n, size=max(1, n // 3))] = 0
    out["zero_comps"] = zz
    rr = (cscale() * r).copy()
    rr[rng.integers(0, n)] = 0
    out["collinear_zero_comp"] = rr
    out["unit_collinear"] = rr / rr[np.argmax(np.abs(rr))]
    out["all_zero"] = np.zeros(n, complex)
    out["real_dtype"] = r
    nanv = z.copy()
    nanv[0] = np.nan
    out["with_nan"] = nanv
    out["all_nan"] = np.full(n, np.nan, dtype=complex)
    return out


mac_bitwise = mac_total = 0
for n in [2, 3, 4, 5, 7, 8, 13, 16, 31, 32, 63, 64]:
    fam = shapes(n)
    for name, v in fam.items():
        tag = f"n={n}:{name}"
        for fn_name in ("MPC", "MPD", "MCF"):
            same_outcome(getattr(orig_gen, fn_name), getattr(new_gen, fn_name), (v,), f"{fn_name} {tag}")
        c = rng.uniform(-5, 5)
        same_outcome(orig_gen.MSF, new_gen.MSF, (v, c * v), f"MSF {tag}")
        same_outcome(orig_gen.MSF, new_gen.MSF, (v, fam["generic"]), f"MSF2 {tag}")
        for other in ("generic", "collinear", name):
            args = (v, cscale() * fam[other])
            same_outcome(orig_gen.MAC, new_gen.MAC, args, f"MAC {tag}/{other}", rtol=1e-13)
            ro, rn = outcome(orig_gen.MAC, *args), outcome(new_gen.MAC, *args)
            if ro[0] == "ok":  # (the pinned 3-vector against n != 3 raises, identically)
                mac_total += 1
                mac_bitwise += bool(np.array_equal(ro[1], rn[1], equal_nan=True))
    # sets of shapes (matrices), unequal numbers of columns, 1-D vs 2-D mixes
    for m1, m2 in [(1, 1), (1, 4), (3, 1), (3, 5), (6, 6)]:
        X = rng.standard_normal((n, m1)) + 1j * rng.standard_normal((n, m1))
        A = rng.standard_normal((n, m2)) + 1j * rng.standard_normal((n, m2))
        A[:, 0] = cscale() * X[:, 0]
        if m2 > 1:
            A[:, 1] = cscale() * rng.standard_normal(n)
        for args in [(X, A), (A, X), (X, X), (X.real, A), (X.real, A.real), (X[:, 0], A), (X, A[:, 0])]:
            same_outcome(orig_gen.MAC, new_gen.MAC, args, f"MACmat n={n} {m1}x{m2}", rtol=1e-13)
        same_outcome(orig_gen.MCF, new_gen.MCF, (X,), "MCFmat")
        same_outcome(orig_gen.MCF, new_gen.MCF, (np.asfortranarray(A),), "MCFmat F")
        same_outcome(orig_gen.MCF, new_gen.MCF, (X.real,), "MCFmat real")
        same_outcome(orig_gen.MSF, new_gen.MSF, (X, X * rng.uniform(-3, 3, m1)), "MSFmat")
        same_outcome(orig_gen.MSF, new_gen.MSF, (X, A), "MSFmat mismatch/exc")
        same_outcome(orig_gen.MSF, new_gen.MSF, (X.real, np.asfortranarray(X)), "MSFmat mixed")
    # error paths of MAC
    same_outcome(orig_gen.MAC, new_gen.MAC, (np.ones((n, 2, 2)), np.ones((n, 2))), "MAC 3d")
    same_outcome(orig_gen.MAC, new_gen.MAC, (np.ones((n, 2)), np.ones((n + 1, 2))), "MAC rows")
    same_outcome(orig_gen.MAC, new_gen.MAC, (np.ones((n, 2), int), np.arange(2 * n).reshape(n, 2)), "MAC int", rtol=1e-13)


# ------------------------------------------------------------- HC_phi_comp / SC_apply
def pole_tables(n_ord, n_dof, nan_frac):
    Phi = rng.standard_normal((n_ord, n_ord + 1, n_dof)) + 1j * rng.standard_normal(
        (n_ord, n_ord + 1, n_dof)
    )
    # make many poles nearly / exactly real shapes so that both limits bite
    kind = rng.integers(0, 4, size=Phi.shape[:2])
    real_part = rng.standard_normal(Phi.shape)
    Phi = np.where((kind == 0)[..., None], real_part * cscale(), Phi)
    Phi = np.where((kind == 1)[..., None], real_part + 0.15j * Phi.imag, Phi)
    Phi = np.where((kind == 2)[..., None], real_part * (1 + 0j), Phi)
    dead = rng.uniform(size=Phi.shape[:2]) < nan_frac
    Phi[dead] = np.nan
    Fn = np.sort(rng.uniform(1, 20, size=Phi.shape[:2]), axis=0)
    Fn[:, 1:] = Fn[:, :1] * (1 + 0.004 * rng.standard_normal((n_ord, n_ord)))
    Xi = np.abs(0.02 * (1 + 0.03 * rng.standard_normal(Phi.shape[:2])))
    Fn[dead] = np.nan
    Xi[dead] = np.nan
    # consecutive orders share shapes up to a complex scale -> stable poles exist
    for o in range(1, n_ord + 1, 2):
        Phi[:, o] = Phi[:, o - 1] * cscale() + 1e-3 * rng.standard_normal(Phi[:, o].shape)
    return Fn, Xi, Phi


for trial in range(12):
    n_ord, n_dof = int(rng.integers(3, 9)), int(rng.integers(2, 9))
    Fn, Xi, Phi = pole_tables(n_ord, n_dof, nan_frac=[0.0, 0.3][trial % 2])
    lims = [(0.7, 0.3), (0.95, 0.05), (0.0, np.pi / 2), (1.0, 0.0), (0.5, 0.8)][trial % 5]
    same_outcome(orig_gen.HC_phi_comp, new_gen.HC_phi_comp, (Phi, *lims), "HC_phi_comp")
    same_outcome(
        orig_gen.HC_phi_comp, new_gen.HC_phi_comp, (np.asfortranarray(Phi), *lims), "HC_phi_comp F"
    )
    same_outcome(
        orig_gen.HC_phi_comp, new_gen.HC_phi_comp, (Phi[:, ::2, :], *lims), "HC_phi_comp strided"
    )
    for ordmin, step in [(0, 1), (2, 1), (1, 1)]:
        sc = [(0.01, 0.05, 0.03), (0.05, 0.2, 0.001), (1e-3, 1e-2, 0.5)][trial % 3]
        args = (Fn, Xi, Phi, ordmin, n_ord, step, *sc)
        same_outcome(orig_gen.SC_apply, new_gen.SC_apply, args, "SC_apply")
    # stepped tables: one column per `step` orders
    step = 2
    ncol = int(n_ord / step + 1)
    args = (Fn[:, :ncol], Xi[:, :ncol], Phi[:, :ncol], 0, n_ord, step, 0.02, 0.1, 0.05)
    same_outcome(orig_gen.SC_apply, new_gen.SC_apply, args, "SC_apply step2")


# ------------------------------------------------------------------ algorithm layer
def simulate(n_dof, n_samp, fs, seed):
    """response of a lightly damped shear chain to white noise (mode superposition)."""
    r = np.random.default_rng(seed)
    K = 2 * np.eye(n_dof) - np.eye(n_dof, k=1) - np.eye(n_dof, k=-1)
    K[-1, -1] = 1
    w2, V = np.linalg.eigh(K * (2 * np.pi * 3.0) ** 2)
    wn = np.sqrt(w2)
    t = np.arange(n_samp) / fs
    q = np.zeros((n_dof, n_samp))
    for k in range(n_dof):
        zeta = 0.01 + 0.004 * k
        wd = wn[k] * np.sqrt(1 - zeta**2)
        h = np.exp(-zeta * wn[k] * t[:400]) * np.sin(wd * t[:400]) / wd
        q[k] = np.convolve(r.standard_normal(n_samp), h)[:n_samp]
    y = (V @ q).T
    y += 0.02 * y.std() * r.standard_normal(y.shape)
    return y


RESULT_FIELDS = ("Obs", "H", "Lab") + new_algo._POLE_FIELDS


def compare_results(ro, rn, what):
    for f in RESULT_FIELDS:
        same(getattr(ro, f), getattr(rn, f), f"{what}.{f}")
    assert len(ro.A) == len(rn.A) and len(ro.C) == len(rn.C)
    for k, (a, b) in enumerate(zip(ro.A, rn.A)):
        same(a, b, f"{what}.A[{k}]")
    for k, (a, b) in enumerate(zip(ro.C, rn.C)):
        same(a, b, f"{what}.C[{k}]")
    assert set(ro.model_fields_set) == set(rn.model_fields_set), what


def run_pair(cls_name, data, fs, **params):
    res = []
    for mod in (orig_algo, new_algo):
        algo = getattr(mod, cls_name)(name="t", **params)
        algo._set_data(data=data, fs=fs)
        res.append(outcome(algo.run))
    ro, rn = res
    assert ro[0] == rn[0], (cls_name, params, ro, rn)
    if ro[0] == "exc":
        assert ro[1:] == rn[1:], (cls_name, params, ro, rn)
        print(f"  {cls_name} {params}: both raise {ro[1].__name__}({ro[2]})")
        return None
    compare_results(ro[1], rn[1], f"{cls_name}{params}")
    return rn[1]


fs = 50.0
y = simulate(5, 3000, fs, seed=7)
n_kept = []
single_cases = [
    ("SSIcov", dict(br=8, ordmax=12)),
    ("SSIcov", dict(br=8, ordmax=12, hc=dict(conj=False, xi_max=0.2, mpc_lim=0.9995, mpd_lim=0.01, cov_max=0.2))),
    ("SSIcov", dict(br=8, ordmax=12, ordmin=2, ref_ind=[3, 0, 1],
                    hc=dict(conj=True, xi_max=0.05, mpc_lim=0.5, mpd_lim=0.5, cov_max=0.01),
                    sc=dict(err_fn=0.05, err_xi=0.2, err_phi=0.1))),
    ("SSIcov", dict(br=10, ordmax=12, step=2, sc=dict(err_fn=0.02, err_xi=0.1, err_phi=0.05, extra=1))),
    ("SSIcov", dict(br=8, ordmax=10, method="cov_R", hc=dict(conj=True, xi_max=0.1, mpc_lim=0.0, mpd_lim=2.0, cov_max=0.2))),
    ("SSIdat", dict(br=8, ordmax=12, hc=dict(conj=True, xi_max=0.1, mpc_lim=0.97, mpd_lim=0.02, cov_max=0.2))),
    ("SSIdat", dict(br=6, ordmax=10, ref_ind=[4, 2])),
    # uncertainty computation on (the covariance tables exist and HC_cov is active)
    ("SSIcov", dict(br=8, ordmax=10, calc_unc=True, nb=30)),
    ("SSIcov", dict(br=8, ordmax=10, calc_unc=True, nb=30, ordmin=1,
                    hc=dict(conj=False, xi_max=0.3, mpc_lim=0.6, mpd_lim=0.4, cov_max=2e-4),
                    sc=dict(err_fn=0.05, err_xi=0.5, err_phi=0.1))),
    ("SSIcov", dict(br=6, ordmax=8, calc_unc=True, nb=20, ref_ind=[2, 0],
                    hc=dict(conj=True, xi_max=0.08, mpc_lim=0.8, mpd_lim=0.2, cov_max=1e-3))),
    ("SSIcov", dict(br=8, ordmax=12, sc=dict(err_fn=0.02, err_xi=0.1, err_phi=0.05, extra=1))),
    ("SSIdat", dict(br=6, ordmax=8, calc_unc=True, nb=16,
                    hc=dict(conj=False, xi_max=0.3, mpc_lim=0.6, mpd_lim=0.4, cov_max=5e-5))),
    # invalid option dictionaries must fail in the same way
    ("SSIcov", dict(br=6, ordmax=8, hc=dict(conj=True, xi_max=0.1, mpc_lim=0.7, mpd_lim=0.3))),
    ("SSIcov", dict(br=6, ordmax=8, sc=dict(err_fn=0.01, err_xi=0.05))),
]
for cls_name, params in single_cases:
    r = run_pair(cls_name, y, fs, **params)
    if r is not None:
        n_kept.append((int(np.sum(~np.isnan(r.Fn_poles))), int(r.Lab.sum())))

# multi-setup classes: list of {"ref", "mov"} datasets
ms_data = []
for seed, mov in [(11, [2, 3]), (12, [4])]:
    ys = simulate(5, 5000, fs, seed=seed).T
    ms_data.append({"ref": ys[[0, 1], :], "mov": ys[mov, :]})
ms_cases = [
    ("SSIdat_MS", dict(br=8, ordmax=10)),
    ("SSIcov_MS", dict(br=12, ordmax=16)),
    ("SSIcov_MS", dict(br=12, ordmax=16, ordmin=1,
                       hc=dict(conj=True, xi_max=0.5, mpc_lim=0.45, mpd_lim=0.6, cov_max=0.2),
                       sc=dict(err_fn=0.05, err_xi=0.5, err_phi=0.3))),
    ("SSIcov_MS", dict(br=8, ordmax=10, step=2, hc=dict(conj=False, xi_max=0.2, mpc_lim=0.3, mpd_lim=1.0, cov_max=0.2))),
    ("SSIdat_MS", dict(br=12, ordmax=14, ordmin=3,
                       hc=dict(conj=False, xi_max=0.6, mpc_lim=0.3, mpd_lim=1.0, cov_max=0.2),
                       sc=dict(err_fn=0.1, err_xi=1.0, err_phi=0.5))),
]
for cls_name, params in ms_cases:
    r = run_pair(cls_name, ms_data, fs, **params)
    if r is not None:
        n_kept.append((int(np.sum(~np.isnan(r.Fn_poles))), int(r.Lab.sum())))

print(f"checks: {N_CHECKS}; MAC bitwise-identical in {mac_bitwise}/{mac_total} vector cases")
print("surviving poles / stable labels per run:", n_kept)
print("PASS")
