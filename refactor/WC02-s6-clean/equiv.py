"""
Differential test: the library on PYTHONPATH (with the optimisation commit applied)
against the pristine implementation saved next to this file as orig_gen.py /
orig_multi.py.

Run as:  PYTHONPATH=<tree>/src /venv/bin/python equiv.py
Prints PASS and exits 0 when every compared output (or raised exception) agrees.
"""
import importlib.util
import logging
import os
import sys
import types
import warnings

import numpy as np

import pyoma2.functions.gen as new_gen
import pyoma2.setup.multi as new_multi

logging.disable(logging.CRITICAL)
HERE = os.path.dirname(os.path.abspath(__file__))


def _load(name, fname, package=None):
    spec = importlib.util.spec_from_file_location(name, os.path.join(HERE, fname))
    mod = importlib.util.module_from_spec(spec)
    sys.modules[name] = mod
    spec.loader.exec_module(mod)
    return mod


old_gen = _load("orig_gen", "orig_gen.py")
old_multi = _load("orig_multi", "orig_multi.py")
# the pristine PoSER class must call the pristine merge routine
old_multi.merge_mode_shapes = old_gen.merge_mode_shapes
assert new_multi.merge_mode_shapes is new_gen.merge_mode_shapes

mismatches = []
n_checks = 0


def run(f, *a, **k):
    with warnings.catch_warnings():
        warnings.simplefilter("ignore")
        try:
            return ("ok", f(*a, **k))
        except Exception as e:  # noqa: BLE001
            return ("exc", type(e).__name__, str(e))


def same(a, b):
    if isinstance(a, (list, tuple)) and a and isinstance(a[0], str):
        return list(a) == list(b)
    a, b = np.asarray(a), np.asarray(b)
    if a.shape != b.shape:
        return False
    if np.array_equal(a, b, equal_nan=True):
        return True
    if a.dtype.kind not in "fc" and b.dtype.kind not in "fc":
        return False
    # rtol as requested; the absolute term is tied to the magnitude of the array
    # (instead of numpy's fixed default 1e-8), so that entries that are small only
    # because of cancellation in a dot product are judged at the array's scale
    fin = np.abs(a[np.isfinite(a)])
    scale = float(fin.max()) if fin.size else 1.0
    return np.allclose(a, b, rtol=1e-12, atol=1e-12 * scale, equal_nan=True)


def compare(label, r_old, r_new):
    global n_checks
    n_checks += 1
    if r_old[0] != r_new[0]:
        mismatches.append(f"{label}: old {r_old[:2]} / new {r_new[:2]}")
    elif r_old[0] == "exc":
        if r_old[1] != r_new[1]:
            mismatches.append(f"{label}: exception type {r_old[1:]} vs {r_new[1:]}")
    elif not same(r_old[1], r_new[1]):
        mismatches.append(f"{label}: results differ")


def rand_matrix(rng, shape, kind):
    if kind == "int":
        return rng.integers(-9, 10, shape)
    m = rng.normal(size=shape)
    if kind == "complex":
        m = m + 1j * rng.normal(size=shape)
    return m


def rand_layout(rng, n_setups, n_ref, n_rov, order):
    reflist = []
    for s in range(n_setups):
        n_ch = n_ref + n_rov[s]
        if order == "leading":
            pos = np.arange(n_ref)
        else:
            pos = rng.choice(n_ch, n_ref, replace=False)
            if order == "ascending":
                pos = np.sort(pos)
        reflist.append([int(p) for p in pos])
    return reflist


class _Alg:
    def __init__(self, name, Fn, Xi, Phi):
        self.name = name
        self.result = types.SimpleNamespace(Fn=Fn, Xi=Xi, Phi=Phi)


def main():
    rng = np.random.default_rng(987654321)

    # ---------------------------------------------------------------- MSF
    for t in range(60):
        n_loc, n_modes = int(rng.integers(1, 9)), int(rng.integers(1, 9))
        kind = ("real", "complex", "int")[t % 3]
        if t % 4 == 0:  # vectors
            p1, p2 = rand_matrix(rng, n_loc, kind), rand_matrix(rng, n_loc, kind)
        else:
            p1 = rand_matrix(rng, (n_loc, n_modes), kind)
            p2 = rand_matrix(rng, (n_loc, n_modes), ("real", "complex")[t % 2])
        compare(f"MSF[{t}]", run(old_gen.MSF, p1, p2), run(new_gen.MSF, p1, p2))
    # shape mismatch / degenerate denominators
    bad = [
        (np.ones(3), np.ones(4)),
        (np.ones((3, 2)), np.ones((3, 1))),
        (np.zeros((2, 2)), np.ones((2, 2))),
        (np.array([1.0, 1j]), np.array([1.0, 2.0])),
    ]
    for t, (p1, p2) in enumerate(bad):
        compare(f"MSF bad[{t}]", run(old_gen.MSF, p1, p2), run(new_gen.MSF, p1, p2))

    # ---------------------------------------------------------------- merge_mode_shapes
    for t in range(150):
        n_setups = int(rng.integers(2, 6))
        n_ref = int(rng.integers(1, 5))
        n_rov = rng.integers(0, 6, n_setups)
        n_modes = int(rng.integers(1, 9))
        order = ("leading", "ascending", "any")[t % 3]
        kind = ("real", "complex", "int", "complex")[t % 4]
        reflist = rand_layout(rng, n_setups, n_ref, n_rov, order)
        MS = [rand_matrix(rng, (n_ref + n_rov[s], n_modes), kind) for s in range(n_setups)]
        if t % 10 == 9:  # mixed dtypes between setups
            MS[0] = MS[0].real.copy()
        if t % 25 == 24:  # negative index for the last channel
            reflist[-1][0] = reflist[-1][0] - (n_ref + n_rov[-1])
        keep = [m.copy() for m in MS]
        r_old = run(old_gen.merge_mode_shapes, MS, reflist)
        r_new = run(new_gen.merge_mode_shapes, MS, reflist)
        compare(f"merge_mode_shapes[{t}, {order}, {kind}]", r_old, r_new)
        if r_new[0] == "ok" and r_new[1].dtype != r_old[1].dtype:
            mismatches.append(f"merge_mode_shapes[{t}]: dtype {r_old[1].dtype} vs {r_new[1].dtype}")
        if not all(np.array_equal(a, b) for a, b in zip(MS, keep)):
            mismatches.append(f"merge_mode_shapes[{t}]: inputs modified")
        # reflist given as arrays / tuples
        if t % 5 == 0:
            rl2 = [np.array(r) for r in reflist]
            compare(
                f"merge_mode_shapes[{t}] (array reflist)",
                run(old_gen.merge_mode_shapes, MS, rl2),
                run(new_gen.merge_mode_shapes, MS, rl2),
            )
    # error cases
    a, b = np.ones((4, 2)), np.ones((4, 3))
    errs = [
        ([a, b], [[0], [0]]),  # different number of modes
        ([a, b], [[0], [0], [1]]),
        ([a, a], [[0, 1], [0]]),  # different number of references
        ([a, a], [[0], [7]]),  # index out of range
        ([a, a, a], [[0], [1]]),  # missing reference list
    ]
    for t, (MS, rl) in enumerate(errs):
        compare(
            f"merge_mode_shapes err[{t}]",
            run(old_gen.merge_mode_shapes, MS, rl),
            run(new_gen.merge_mode_shapes, MS, rl),
        )

    # ---------------------------------------------------------------- flatten_sns_names
    import pandas as pd

    for t in range(60):
        n_setups = int(rng.integers(2, 6))
        n_ref = int(rng.integers(1, 5))
        n_rov = rng.integers(0, 6, n_setups)
        order = ("leading", "ascending", "any")[t % 3]
        reflist = rand_layout(rng, n_setups, n_ref, n_rov, order)
        names = [[f"s{s}c{c}" for c in range(n_ref + n_rov[s])] for s in range(n_setups)]
        args = [(names, reflist), (names, [np.array(r) for r in reflist]), (names, None)]
        if t % 4 == 0:
            args.append((pd.DataFrame(names), reflist))
            args.append((names[0], None))
            args.append((np.array(names[0]), None))
            args.append((pd.DataFrame([names[0]]), None))
            args.append((3.0, None))
            args.append((names, [[-1] * n_ref] * n_setups))
            args.append((names, [[99] * n_ref] * n_setups))
        for k, (sn, ri) in enumerate(args):
            compare(
                f"flatten_sns_names[{t}.{k}]",
                run(old_gen.flatten_sns_names, sn, ri),
                run(new_gen.flatten_sns_names, sn, ri),
            )

    # ---------------------------------------------------------------- MultiSetup_PoSER.merge_results
    for t in range(40):
        n_setups = int(rng.integers(2, 6))
        n_ref = int(rng.integers(1, 5))
        n_rov = rng.integers(0, 6, n_setups)
        n_modes = int(rng.integers(1, 9))
        order = ("leading", "ascending", "any")[t % 3]
        reflist = rand_layout(rng, n_setups, n_ref, n_rov, order)
        alg_names = ["a", "b"][: 1 + t % 2]
        setups = [types.SimpleNamespace(algorithms={}) for _ in range(n_setups)]
        for j, an in enumerate(alg_names):
            kind = ("real", "complex")[(t + j) % 2]
            for s in range(n_setups):
                Fn = rng.uniform(1, 30, n_modes)
                Xi = rng.uniform(0.001, 0.1, n_modes)
                if t % 7 == 6:
                    Fn, Xi = list(Fn), list(Xi)  # plain lists
                if t % 11 == 10 and s == 1:
                    Xi = Xi * np.nan
                Phi = rand_matrix(rng, (n_ref + n_rov[s], n_modes), kind)
                setups[s].algorithms[an] = _Alg(f"{an}{s}", Fn, Xi, Phi)
        m_old = old_multi.MultiSetup_PoSER(ref_ind=reflist, single_setups=setups, names=alg_names)
        m_new = new_multi.MultiSetup_PoSER(ref_ind=reflist, single_setups=setups, names=alg_names)
        for rep in range(2):
            r_old, r_new = run(m_old.merge_results), run(m_new.merge_results)
            if r_old[0] != "ok" or r_new[0] != "ok":
                compare(f"merge_results[{t}] call {rep}", r_old, r_new)
                continue
            if list(r_old[1]) != list(r_new[1]):
                mismatches.append(f"merge_results[{t}]: keys differ")
                continue
            for an in r_old[1]:
                for fld in ("Phi", "Fn", "Fn_cov", "Xi", "Xi_cov"):
                    compare(
                        f"merge_results[{t}] call {rep} {an}.{fld}",
                        ("ok", getattr(r_old[1][an], fld)),
                        ("ok", getattr(r_new[1][an], fld)),
                    )

    if mismatches:
        print(f"FAIL: {len(mismatches)} mismatch(es) in {n_checks} comparisons")
        for m in mismatches[:10]:
            print("  -", m)
        return 1
    print(f"PASS ({n_checks} comparisons)")
    return 0


if __name__ == "__main__":
    sys.exit(main())
