"""
Differential test: library under PYTHONPATH (CLEAN version expected) against the
pristine sources saved next to this script (orig_functions_fdd.py,
orig_algorithms_fdd.py).

Run:  PYTHONPATH=<tree>/src /venv/bin/python equiv.py
"""

import importlib.util
import logging
import os
import sys
import warnings

import numpy as np
from scipy import signal

warnings.filterwarnings("ignore")
logging.disable(logging.CRITICAL)
os.environ.setdefault("MPLBACKEND", "Agg")

import tqdm  # noqa: E402

# silence progress bars (both implementations import tqdm/trange from tqdm)
_orig_tqdm, _orig_trange = tqdm.tqdm, tqdm.trange
tqdm.tqdm = lambda it=None, *a, **k: it
tqdm.trange = lambda *a, **k: range(*a)

import pyoma2.algorithms.fdd as new_alg  # noqa: E402
import pyoma2.functions.fdd as new_fn  # noqa: E402
from pyoma2.setup import MultiSetup_PreGER, SingleSetup  # noqa: E402

HERE = os.path.dirname(os.path.abspath(__file__))


def _load(modname, fname):
    spec = importlib.util.spec_from_file_location(modname, os.path.join(HERE, fname))
    mod = importlib.util.module_from_spec(spec)
    sys.modules[modname] = mod
    spec.loader.exec_module(mod)
    return mod


# pristine function module (loaded inside the package so that ``from .gen import MAC`` works)
old_fn = _load("pyoma2.functions._orig_fdd", "orig_functions_fdd.py")
# pristine algorithm module, wired to the pristine functions
old_alg = _load("pyoma2.algorithms._orig_fdd", "orig_algorithms_fdd.py")
old_alg.fdd = old_fn

RTOL = 1e-12
N_CMP = 0
N_EXC = {}
FAILS = []


def same(a, b):
    if isinstance(a, (tuple, list)):
        return (
            isinstance(b, (tuple, list))
            and len(a) == len(b)
            and all(same(x, y) for x, y in zip(a, b))
        )
    if a is None or b is None:
        return a is None and b is None
    a = np.asarray(a)
    b = np.asarray(b)
    if a.shape != b.shape:
        return False
    if np.array_equal(a, b, equal_nan=True):
        return True
    scale = max(1.0, float(np.nanmax(np.abs(a))) if a.size else 1.0)
    return bool(np.allclose(a, b, rtol=RTOL, atol=RTOL * scale, equal_nan=True))


def call(f, *a, **k):
    try:
        return ("ok", f(*a, **k))
    except Exception as e:  # noqa: BLE001
        return ("exc", type(e).__name__)


def compare(label, f_old, f_new, *a, **k):
    global N_CMP
    N_CMP += 1
    a_old = [x.copy() if isinstance(x, np.ndarray) else x for x in a]
    a_new = [x.copy() if isinstance(x, np.ndarray) else x for x in a]
    r_old = call(f_old, *a_old, **k)
    r_new = call(f_new, *a_new, **k)
    if r_old[0] == "exc":
        key = label.split("[")[0] + ":" + r_old[1]
        N_EXC[key] = N_EXC.get(key, 0) + 1
    ok = r_old[0] == r_new[0] and (
        same(r_old[1], r_new[1]) if r_old[0] == "ok" else r_old[1] == r_new[1]
    )
    # inputs must be left alone by both
    for x, y, z in zip(a, a_old, a_new):
        if isinstance(x, np.ndarray) and not (
            np.array_equal(x, y, equal_nan=True) and np.array_equal(x, z, equal_nan=True)
        ):
            ok = False
            label += " [input modified]"
    if not ok:
        FAILS.append(f"{label}: old={r_old[0]}:{_short(r_old[1])} new={r_new[0]}:{_short(r_new[1])}")
    return r_old, r_new


def _short(x):
    s = repr(x)
    return s if len(s) < 200 else s[:200] + "..."


# --------------------------------------------------------------------------
# generators
def rand_spectrum(rng, nch, nf, nref=None):
    """Hermitian PSD sequence (nref None) or its first nref columns (half-spectrum)."""
    nterms = rng.integers(1, nch + 2)
    G = np.zeros((nch, nch, nf), dtype=complex)
    for _ in range(nterms):
        v = rng.standard_normal(nch) + 1j * rng.standard_normal(nch)
        amp = np.abs(rng.standard_normal(nf)) ** 2 + 0.01
        amp *= 1 + 50 * np.exp(-0.5 * ((np.arange(nf) - rng.integers(nf)) / 3.0) ** 2)
        G += np.einsum("i,j,k->ijk", v, v.conj(), amp)
    G += 1e-3 * np.eye(nch)[:, :, None]
    if nref is not None:
        G = G[:, :nref, :]
    return G


def two_mode_data(rng, nch, N, fs, noise=0.05):
    out = np.zeros((N, nch))
    for f0, z in ((5.0, 0.01), (12.3, 0.015)):
        w = 2 * np.pi * f0
        b, a = signal.bilinear([w * w], [1, 2 * z * w, w * w], fs)
        q = signal.lfilter(b, a, rng.standard_normal(N))
        out += np.outer(q, rng.standard_normal(nch))
    return out + noise * rng.standard_normal((N, nch))


# --------------------------------------------------------------------------
def test_functions(rng):
    # SD_svalsvec + FDD_mpe + SDOF_bellandMS on synthetic spectra
    for it in range(30):
        nch = int(rng.integers(2, 9))
        nf = int(rng.integers(20, 200))
        kind = it % 4
        if kind == 0:
            Sy = rand_spectrum(rng, nch, nf)
        elif kind == 1:
            Sy = rand_spectrum(rng, nch, nf, nref=int(rng.integers(2, nch + 1)))
        elif kind == 2:  # real symmetric
            Sy = rand_spectrum(rng, nch, nf).real
        else:  # arbitrary complex (not Hermitian), occasionally wide
            nr, nc = nch, int(rng.integers(1, nch + 2))
            Sy = rng.standard_normal((nr, nc, nf)) + 1j * rng.standard_normal((nr, nc, nf))
        r_old, r_new = compare(f"SD_svalsvec[{it}] {Sy.shape}", old_fn.SD_svalsvec, new_fn.SD_svalsvec, Sy)
        if r_old[0] != "ok":
            continue
        Sval, Svec = r_old[1]
        df = float(rng.choice([0.05, 0.1, 0.37]))
        f0 = float(rng.choice([0.0, 0.0, 1.3]))
        freq = f0 + df * np.arange(nf)
        nsel = int(rng.integers(0, 6))
        sel = rng.uniform(freq[0] - df, freq[-1] + df, size=nsel)
        form = it % 3
        sel_arg = list(sel) if form == 0 else (tuple(sel) if form == 1 else sel)
        DF = float(rng.choice([0.2 * df, df, 2.5 * df, 10 * df, 1000 * df]))
        compare(
            f"FDD_mpe[{it}] nsel={nsel} DF={DF}",
            old_fn.FDD_mpe,
            new_fn.FDD_mpe,
            Sval,
            Svec,
            freq,
            sel_arg,
            DF,
        )
        # twice on the same arrays (must not depend on an earlier call)
        compare(
            f"FDD_mpe[{it}] second call",
            lambda *a: (old_fn.FDD_mpe(*a), old_fn.FDD_mpe(*a)),
            lambda *a: (new_fn.FDD_mpe(*a), new_fn.FDD_mpe(*a)),
            Sval,
            Svec,
            freq,
            sel_arg,
            max(DF, df),
        )
        if Sy.shape[0] == Sy.shape[1]:
            dt = 1 / (2 * nf * df)
            phi = rng.standard_normal(nch) + 1j * rng.standard_normal(nch)
            for meth in ("FSDD", "EFDD"):
                compare(
                    f"SDOF_bellandMS[{it}] {meth}",
                    old_fn.SDOF_bellandMS,
                    new_fn.SDOF_bellandMS,
                    Sy,
                    dt,
                    float(rng.uniform(freq[0], freq[-1])),
                    phi,
                    method=meth,
                    cm=int(rng.integers(1, 3)),
                    MAClim=float(rng.choice([0.0, 0.5, 0.9])),
                    DF=float(rng.choice([df, 5 * df, 20 * df])),
                )

    # the unit-test style call: plain random real arrays
    for it in range(6):
        n = int(rng.integers(2, 5))
        Sval = rng.random((n, n, 1000))
        Svec = rng.random((n, n, 1000))
        freq = np.linspace(0, 100, 1000)
        compare(f"FDD_mpe random[{it}]", old_fn.FDD_mpe, new_fn.FDD_mpe, Sval, Svec, freq, [25, 50, 75], 0.1)
        compare(f"FDD_mpe random kw[{it}]", old_fn.FDD_mpe, new_fn.FDD_mpe, Sval, Svec, freq, [75.2, 3, 50], DF=float(rng.uniform(0.1, 3)))


def test_efdd_function(rng):
    fs = 100.0
    for it in range(4):
        nch = int(rng.integers(2, 6))
        Y = two_mode_data(rng, nch, 40000, fs).T
        meth = "per" if it % 2 == 0 else "cor"
        freq, Sy = old_fn.SD_est(Y, Y, 1 / fs, 1024, method=meth, pov=0.5)
        for m in ("FSDD", "EFDD"):
            compare(
                f"EFDD_mpe[{it}] {meth} {m}",
                lambda *a, **k: old_fn.EFDD_mpe(*a, **k)[:3],
                lambda *a, **k: new_fn.EFDD_mpe(*a, **k)[:3],
                Sy,
                freq,
                1 / fs,
                [12.2, 5.1],
                meth,
                method=m,
                DF1=float(rng.choice([0.1, 0.3, 0.6])),
                DF2=1.0,
                npmax=int(rng.integers(5, 15)),
            )
    # garbage input as in the unit test (exceptions must match too)
    for it in range(3):
        Sy = rng.random((3, 3, 100))
        compare(
            f"EFDD_mpe random[{it}]",
            lambda *a, **k: old_fn.EFDD_mpe(*a, **k)[:3],
            lambda *a, **k: new_fn.EFDD_mpe(*a, **k)[:3],
            Sy,
            np.linspace(0, 1, 100),
            0.1,
            [0.3, 0.5, 0.7],
            "cor",
            npmax=2,
        )


def _res(algo, with_xi=False):
    r = algo.result
    out = [r.freq, r.Sy, r.S_val, r.S_vec, r.Fn, r.Phi]
    if with_xi:
        out.append(r.Xi)
    out.append(getattr(algo.run_params, "sel_freq", None))
    out.append(getattr(algo.run_params, "DF", getattr(algo.run_params, "DF1", None)))
    return out


def test_classes(rng):
    fs = 100.0
    for it in range(6):
        nch = int(rng.integers(2, 7))
        data = two_mode_data(rng, nch, 30000, fs)
        meth = "per" if it % 2 == 0 else "cor"
        nxseg = int(rng.choice([512, 1024]))
        DF = float(rng.choice([0.2, 0.5, 1.0]))

        def run_fdd(mod):
            ss = SingleSetup(data.copy(), fs)
            a = mod.FDD(name="FDD", nxseg=nxseg, method_SD=meth)
            ss.add_algorithms(a)
            ss.run_by_name("FDD")
            out = [_res(a)]
            ss.mpe("FDD", sel_freq=[12.2, 5.1], DF=DF)
            out.append(_res(a))
            ss.mpe("FDD", sel_freq=[5.0], DF=2 * DF)  # second call, other arguments
            out.append(_res(a))
            ss.mpe("FDD", [12.2, 5.1], DF)  # third call, first arguments again
            out.append(_res(a))
            return out

        compare(f"FDD class[{it}] {meth} nch={nch}", lambda: run_fdd(old_alg), lambda: run_fdd(new_alg))

        def run_efdd(mod, cls):
            ss = SingleSetup(data.copy(), fs)
            a = getattr(mod, cls)(name="E", nxseg=nxseg, method_SD=meth)
            ss.add_algorithms(a)
            ss.run_by_name("E")
            ss.mpe("E", sel_freq=[5.1, 12.2], DF1=DF, npmax=10)
            out = [_res(a, True)]
            ss.mpe("E", sel_freq=[12.2], DF1=DF / 2, npmax=8)
            out.append(_res(a, True))
            return out

        for cls in ("EFDD", "FSDD"):
            compare(f"{cls} class[{it}] {meth}", lambda: run_efdd(old_alg, cls), lambda: run_efdd(new_alg, cls))

        # mpe before run -> same exception
        def norun(mod, cls, **kw):
            ss = SingleSetup(data.copy(), fs)
            a = getattr(mod, cls)(name="X")
            ss.add_algorithms(a)
            ss.mpe("X", sel_freq=[5.0], **kw)

        compare(f"FDD no run[{it}]", lambda: norun(old_alg, "FDD"), lambda: norun(new_alg, "FDD"))

    for it in range(4):
        nref = int(rng.integers(2, 4))
        nmov = int(rng.integers(1, 4))
        nset = int(rng.integers(2, 4))
        datasets = [two_mode_data(rng, nref + nmov, 20000, fs) for _ in range(nset)]
        ref_ind = [list(range(nref)) for _ in range(nset)]
        meth = "per" if it % 2 == 0 else "cor"

        def run_ms(mod, cls, efdd):
            ms = MultiSetup_PreGER(fs=fs, ref_ind=ref_ind, datasets=[d.copy() for d in datasets])
            a = getattr(mod, cls)(name="M", nxseg=512, method_SD=meth)
            ms.add_algorithms(a)
            ms.run_by_name("M")
            out = [_res(a, efdd)]
            if efdd:
                return out  # EFDD second stage needs a square spectrum; run() is what differs
            ms.mpe("M", sel_freq=[12.2, 5.1], DF=0.5)
            out.append(_res(a))
            ms.mpe("M", sel_freq=[5.1, 12.2], DF=0.25)
            out.append(_res(a))
            return out

        compare(f"FDD_MS class[{it}] {meth}", lambda: run_ms(old_alg, "FDD_MS", False), lambda: run_ms(new_alg, "FDD_MS", False))
        compare(f"EFDD_MS class[{it}] {meth}", lambda: run_ms(old_alg, "EFDD_MS", True), lambda: run_ms(new_alg, "EFDD_MS", True))


def main():
    rng = np.random.default_rng(20240606)
    test_functions(rng)
    test_efdd_function(rng)
    test_classes(rng)
    print(f"{N_CMP} comparisons, {len(FAILS)} mismatches")
    print("of which the pristine code raised:", N_EXC)
    if FAILS:
        for f in FAILS[:20]:
            print("  MISMATCH", f)
        print("FAIL")
        return 1
    print("PASS")
    return 0


if __name__ == "__main__":
    sys.exit(main())
