"""
Differential test: the library's functions/ssi.py (as found on PYTHONPATH) against the
pristine copy saved next to this file as orig_ssi.py.

Run as:  PYTHONPATH=<tree>/src /venv/bin/python equiv.py

Touched routines compared: ac2mp, SSI_fast (with and without uncertainties),
SSI_poles (with and without uncertainties) and the calling layer
SSIcov.run() (with / without calc_unc, with / without reference subset).
Outputs are compared with numpy.allclose(rtol=1e-12, atol=1e-12 * max|reference|,
equal_nan=True): the rewrite re-associates a few sums (tensordot instead of products with
Kronecker / selection matrices), so single entries that are small through cancellation
differ in the last bits relative to the size of the array; with atol=0 three entries out
of ~10^5 exceed 1e-12 (worst 3.6e-12). Exceptions must be of the same type in both
implementations.
"""
import importlib.util
import logging
import os
import sys

import numpy as np

logging.disable(logging.CRITICAL)

import pyoma2.algorithms.ssi as alg_mod  # noqa: E402
from pyoma2.functions import ssi as new  # noqa: E402

HERE = os.path.dirname(os.path.abspath(__file__))
spec = importlib.util.spec_from_file_location("orig_ssi", os.path.join(HERE, "orig_ssi.py"))
old = importlib.util.module_from_spec(spec)
spec.loader.exec_module(old)

for mod in (new, old):
    mod.trange = lambda *a, **k: range(*a)

RTOL = 1e-12
failures = []
n_checked = 0


def close(x, y):
    x = np.asarray(x)
    y = np.asarray(y)
    if x.shape != y.shape:
        return False
    if x.size == 0:
        return True
    if not np.issubdtype(y.dtype, np.number):
        return bool(np.array_equal(x, y))
    scale = np.nanmax(np.abs(y)) if np.any(~np.isnan(y)) else 0.0
    return bool(np.allclose(x, y, rtol=RTOL, atol=RTOL * scale, equal_nan=True))


def same(a, b, what):
    """Compare two outputs (arrays, None, lists of arrays)."""
    global n_checked
    n_checked += 1
    if a is None or b is None:
        ok = a is None and b is None
    elif isinstance(a, (list, tuple)):
        ok = len(a) == len(b) and all(close(x, y) for x, y in zip(a, b))
    else:
        ok = close(a, b)
    if not ok:
        detail = ""
        try:
            aa, bb = np.asarray(a, dtype=complex), np.asarray(b, dtype=complex)
            m = ~(np.isnan(aa) & np.isnan(bb))
            detail = " max rel diff %.3e" % np.nanmax(
                np.abs(aa[m] - bb[m]) / np.maximum(np.abs(bb[m]), 1e-300)
            )
        except Exception:
            pass
        failures.append(what + detail)
    return ok


def call(f, *a, **k):
    try:
        return ("ok", f(*a, **k))
    except Exception as e:  # noqa: BLE001
        return ("exc", type(e))


def make_H(rng, l, r, br, rank, eps):
    m, n = (br + 1) * l, (br + 1) * r
    U, _ = np.linalg.qr(rng.standard_normal((m, rank)))
    V, _ = np.linalg.qr(rng.standard_normal((n, rank)))
    s = np.sort(rng.uniform(0.2, 1.0, rank))[::-1] * np.geomspace(1.0, 0.3, rank)
    return (U * s) @ V.T + eps * rng.standard_normal((m, n))


def functions_case(seed):
    rng = np.random.default_rng(seed)
    l = int(rng.integers(1, 4))
    r = int(rng.integers(1, l + 1))
    br = int(rng.integers(2, 6))
    ordmax = int(rng.integers(2, min(8, br * l, (br + 1) * r) + 1))
    ncol = int(rng.integers(1, 21))
    dt = float(rng.choice([0.005, 0.01, 0.02]))
    H = make_H(rng, l, r, br, ordmax, eps=float(rng.choice([1e-2, 1e-3])))
    T = 1e-2 * rng.standard_normal((H.size, ncol))
    tag = f"seed={seed} l={l} r={r} br={br} ordmax={ordmax} ncol={ncol}"

    # ac2mp on a random system
    n = int(rng.integers(1, 9))
    A = rng.standard_normal((n, n)) * 0.5
    C = rng.standard_normal((l, n))
    for cu in (False, True):
        ra = call(new.ac2mp, A, C, dt, calc_unc=cu)
        rb = call(old.ac2mp, A, C, dt, calc_unc=cu)
        assert ra[0] == rb[0] == "ok", tag
        for k, (x, y) in enumerate(zip(ra[1], rb[1])):
            same(x, y, f"ac2mp[{k}] calc_unc={cu} {tag}")

    # SSI_fast without uncertainties
    ra = call(new.SSI_fast, H, br, ordmax)
    rb = call(old.SSI_fast, H, br, ordmax)
    assert ra[0] == rb[0] == "ok", tag
    for k, (x, y) in enumerate(zip(ra[1], rb[1])):
        same(x, y, f"SSI_fast[{k}] calc_unc=False {tag}")

    # SSI_fast with uncertainties
    ra = call(new.SSI_fast, H.copy(), br, ordmax, calc_unc=True, T=T.copy(), nb=ncol)
    rb = call(old.SSI_fast, H.copy(), br, ordmax, calc_unc=True, T=T.copy(), nb=ncol)
    if ra[0] != rb[0] or ra[0] == "exc":
        same(None if ra != rb else 0, 0, f"SSI_fast raised {ra} / {rb} {tag}")
        return
    for k, (x, y) in enumerate(zip(ra[1], rb[1])):
        same(x, y, f"SSI_fast[{k}] calc_unc=True {tag}")
    Obs, AA, CC, Q1, Q2, Q3, Q4 = rb[1]

    # SSI_poles, both flavours, fed with the same (pristine) inputs
    for cu in (False, True):
        kw = dict(calc_unc=cu)
        if cu:
            kw.update(Q1=Q1, Q2=Q2, Q3=Q3, Q4=Q4)
        qcopy = [q.copy() for q in (Q1, Q2, Q3, Q4)]
        pa = call(new.SSI_poles, Obs, AA, CC, ordmax, dt, **kw)
        pb = call(old.SSI_poles, Obs, AA, CC, ordmax, dt, **kw)
        assert pa[0] == pb[0] == "ok", (tag, pa, pb)
        names = ["Fn", "Xi", "Phi", "Lambdas", "Fn_cov", "Xi_cov", "Phi_cov"]
        for nm, x, y in zip(names, pa[1], pb[1]):
            same(x, y, f"SSI_poles.{nm} calc_unc={cu} {tag}")
        # inputs must not be modified
        for q0, q1 in zip(qcopy, (Q1, Q2, Q3, Q4)):
            same(q0, q1, f"SSI_poles modified an input {tag}")

    # wrong number of columns announced: same kind of failure / broadcasting
    if ncol > 1:
        ra = call(new.SSI_fast, H, br, ordmax, calc_unc=True, T=T, nb=ncol + 1)
        rb = call(old.SSI_fast, H, br, ordmax, calc_unc=True, T=T, nb=ncol + 1)
        same(0 if ra == rb else None, 0, f"nb mismatch: {ra} / {rb} {tag}")
    else:
        ra = call(new.SSI_fast, H, br, ordmax, calc_unc=True, T=T, nb=3)
        rb = call(old.SSI_fast, H, br, ordmax, calc_unc=True, T=T, nb=3)
        assert ra[0] == rb[0] == "ok"
        for k, (x, y) in enumerate(zip(ra[1], rb[1])):
            same(x, y, f"SSI_fast[{k}] one column broadcast {tag}")


def synth_data(rng, nch, ndat, fs):
    """Response of a lightly damped 3-dof chain to white noise (state space)."""
    from scipy import linalg, signal

    ndof = 3
    K = np.diag([2.0] * ndof) - np.diag([1.0] * (ndof - 1), 1) - np.diag([1.0] * (ndof - 1), -1)
    K *= (2 * np.pi * 4.0) ** 2
    w2, V = linalg.eigh(K)
    w = np.sqrt(w2)
    Cd = V @ np.diag(2 * 0.01 * w) @ V.T
    Ac = np.block([[np.zeros((ndof, ndof)), np.eye(ndof)], [-K, -Cd]])
    Bc = np.vstack([np.zeros((ndof, ndof)), np.eye(ndof)])
    Cc = np.hstack([np.eye(ndof), np.zeros((ndof, ndof))])
    sysd = signal.cont2discrete((Ac, Bc, Cc, np.zeros((ndof, ndof))), 1 / fs)
    u = rng.standard_normal((ndat, ndof))
    _, y, _ = signal.dlsim((sysd[0], sysd[1], sysd[2], sysd[3], 1 / fs), u)
    y = y[:, :nch] + 0.02 * np.std(y) * rng.standard_normal((ndat, nch))
    return y


def class_case(seed):
    rng = np.random.default_rng(1000 + seed)
    fs = 50.0
    nch = int(rng.integers(2, 4))
    data = synth_data(rng, nch, int(rng.integers(3000, 4000)), fs)
    ref_ind = None if seed % 2 == 0 else sorted(
        rng.choice(nch, size=int(rng.integers(1, nch)), replace=False).tolist()
    )
    br = int(rng.integers(4, 7))
    n_ref = nch if ref_ind is None else len(ref_ind)
    ordmax = int(rng.integers(4, min(8, (br + 1) * n_ref) + 1))
    nb = int(rng.choice([10, 20, 25]))
    calc_unc = seed % 3 != 0
    tag = f"class seed={seed} nch={nch} ref_ind={ref_ind} br={br} ordmax={ordmax} nb={nb} calc_unc={calc_unc}"
    res = []
    for impl in (new, old):
        alg_mod.ssi = impl
        try:
            alg = alg_mod.SSIcov(
                name="x", br=br, ordmax=ordmax, ref_ind=ref_ind, calc_unc=calc_unc, nb=nb
            )
            alg._set_data(data=data.copy(), fs=fs)
            res.append(call(alg.run))
        finally:
            alg_mod.ssi = new
    if res[0][0] == "exc" or res[1][0] == "exc":
        same(0 if res[0] == res[1] else None, 0, f"run raised {res} {tag}")
        return
    a, b = res[0][1], res[1][1]
    for fld in ("Obs", "A", "C", "H", "Lambds", "Fn_poles", "Xi_poles", "Phi_poles",
                "Lab", "Fn_poles_cov", "Xi_poles_cov", "Phi_poles_cov"):
        same(getattr(a, fld), getattr(b, fld), f"SSIcov.result.{fld} {tag}")


if __name__ == "__main__":
    n_fun, n_cls = 40, 8
    for s in range(n_fun):
        functions_case(s)
    for s in range(n_cls):
        class_case(s)
    print(f"{n_fun} function-level + {n_cls} class-level configurations, {n_checked} comparisons")
    if failures:
        print("FAIL")
        for f in failures[:40]:
            print("  ", f)
        sys.exit(1)
    print("PASS")
    sys.exit(0)
