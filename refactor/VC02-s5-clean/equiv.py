"""
Differential test: CLEAN version of the commit vs. the unmodified library.

Run as:  PYTHONPATH=<tree>/src /venv/bin/python equiv.py   (with clean.diff applied)

The pristine implementations are loaded from orig_gen.py / orig_multi.py (copies of
src/pyoma2/functions/gen.py and src/pyoma2/setup/multi.py at HEAD) saved next to this
script.  Compared on randomly generated valid inputs:
  * gen.merge_mode_shapes   (positional, new keyword, deprecated keyword, ref_setup=0)
  * MultiSetup_PoSER(...).ref_ind and .merge_results() (Phi, Fn, Fn_cov, Xi, Xi_cov)
plus the documented ValueError for inconsistent numbers of modes, and "both raise" for
a few nonsense inputs that the new validation rejects earlier.
"""
import importlib.util
import logging
import os
import sys
import typing
import warnings

import numpy as np

HERE = os.path.dirname(os.path.abspath(__file__))

from pyoma2.algorithms import BaseAlgorithm  # noqa: E402
from pyoma2.algorithms.data.result import BaseResult  # noqa: E402
from pyoma2.algorithms.data.run_params import BaseRunParams  # noqa: E402
from pyoma2.functions import gen as new_gen  # noqa: E402
from pyoma2.setup import SingleSetup  # noqa: E402
from pyoma2.setup import multi as new_multi  # noqa: E402

logging.disable(logging.CRITICAL)


def _load(name, fname):
    spec = importlib.util.spec_from_file_location(name, os.path.join(HERE, fname))
    mod = importlib.util.module_from_spec(spec)
    sys.modules[name] = mod
    spec.loader.exec_module(mod)
    return mod


orig_gen = _load("orig_gen", "orig_gen.py")
orig_multi = _load("orig_multi", "orig_multi.py")
# the pristine class must call the pristine numerical routine
orig_multi.merge_mode_shapes = orig_gen.merge_mode_shapes
orig_multi.pre_multisetup = orig_gen.pre_multisetup


class StubRunParams(BaseRunParams):
    dummy: int = 1


class StubResult(BaseResult):
    Xi: typing.Any = None


class StubAlg(BaseAlgorithm[StubRunParams, StubResult, typing.Iterable[float]]):
    RunParamCls = StubRunParams
    ResultCls = StubResult

    def __init__(self, Fn, Xi, Phi, name):
        super().__init__(run_params=StubRunParams(), name=name)
        self._vals = (Fn, Xi, Phi)

    def run(self):
        Fn, Xi, Phi = self._vals
        return StubResult(Fn=Fn, Xi=Xi, Phi=Phi)

    def mpe(self, *a, **k):
        return None

    def mpe_from_plot(self, *a, **k):
        return None


class StubAlgB(StubAlg):
    pass


problems = []


def same(a, b):
    a, b = np.asarray(a), np.asarray(b)
    if a.shape != b.shape:
        return False
    return bool(np.array_equal(a, b) or np.allclose(a, b, rtol=1e-12, atol=0, equal_nan=True))


def call(f, *a, **k):
    with warnings.catch_warnings():
        warnings.simplefilter("ignore")
        try:
            return ("ok", f(*a, **k))
        except Exception as e:  # noqa: BLE001
            return ("exc", e)


def compare(tag, r_old, r_new, strict_exc=True):
    if r_old[0] != r_new[0]:
        problems.append(f"{tag}: old -> {r_old[0]} {r_old[1]!r:.80}, new -> {r_new[0]} {r_new[1]!r:.80}")
    elif r_old[0] == "exc":
        if strict_exc and (type(r_old[1]) is not type(r_new[1]) or str(r_old[1]) != str(r_new[1])):
            problems.append(f"{tag}: exceptions differ: {r_old[1]!r} vs {r_new[1]!r}")
    elif not same(r_old[1], r_new[1]):
        problems.append(f"{tag}: results differ (max abs diff "
                        f"{np.max(np.abs(np.asarray(r_old[1]) - np.asarray(r_new[1]))) if np.shape(r_old[1]) == np.shape(r_new[1]) else 'shape'})")


def random_case(rng):
    n_setup = int(rng.integers(2, 6))
    n_ref = int(rng.integers(1, 5))
    n_modes = int(rng.integers(1, 9))
    kind = rng.choice(["float", "complex", "int"])
    MS, refs = [], []
    for _ in range(n_setup):
        nch = n_ref + int(rng.integers(0, 6))
        if kind == "int":
            m = rng.integers(-9, 10, (nch, n_modes))
            m[m == 0] = 1
        else:
            m = rng.standard_normal((nch, n_modes)) * rng.uniform(0.05, 20)
            if kind == "complex":
                m = m + 1j * rng.standard_normal((nch, n_modes))
        if rng.random() < 0.3:
            m = np.asfortranarray(m)
        MS.append(m)
        pos = rng.choice(nch, n_ref, replace=False)
        if rng.random() < 0.3:
            pos = np.sort(pos)
        refs.append([int(p) for p in pos])
    return MS, refs


def main():
    rng = np.random.default_rng(77)
    n_merge = n_class = 0

    # ---- 1. merge_mode_shapes on valid inputs ------------------------------
    for t in range(150):
        MS, refs = random_case(rng)
        old = call(orig_gen.merge_mode_shapes, [m.copy() for m in MS], [list(r) for r in refs])
        compare(f"merge#{t} positional", old,
                call(new_gen.merge_mode_shapes, [m.copy() for m in MS], [list(r) for r in refs]))
        compare(f"merge#{t} ref_ind=", old,
                call(new_gen.merge_mode_shapes, MSarr_list=MS, ref_ind=[list(r) for r in refs]))
        compare(f"merge#{t} reflist=", old,
                call(new_gen.merge_mode_shapes, MSarr_list=MS, reflist=[list(r) for r in refs]))
        compare(f"merge#{t} ref_setup=0", old,
                call(new_gen.merge_mode_shapes, MS, [list(r) for r in refs], ref_setup=0))
        # index lists given as integer arrays / with negative (from-the-end) indices
        compare(f"merge#{t} array refs", old,
                call(new_gen.merge_mode_shapes, MS, [np.array(r) for r in refs]))
        neg = [[(j - m.shape[0]) if rng.random() < 0.5 else j for j in r] for r, m in zip(refs, MS)]
        compare(f"merge#{t} negative refs",
                call(orig_gen.merge_mode_shapes, MS, neg),
                call(new_gen.merge_mode_shapes, MS, neg))
        # inputs must be left untouched
        MS2 = [m.copy() for m in MS]
        refs2 = [list(r) for r in refs]
        new_gen.merge_mode_shapes(MS2, refs2)
        if not all(np.array_equal(a, b) for a, b in zip(MS, MS2)) or refs2 != refs:
            problems.append(f"merge#{t}: inputs modified")
        n_merge += 1

    # ---- 2. documented error: inconsistent number of modes -----------------
    for t in range(10):
        MS, refs = random_case(rng)
        k = int(rng.integers(1, len(MS)))
        MS[k] = np.hstack([MS[k], MS[k][:, :1]])
        compare(f"modes-mismatch#{t}",
                call(orig_gen.merge_mode_shapes, MS, refs),
                call(new_gen.merge_mode_shapes, MS, refs))
    # the case of the unit test (too many index lists AND different numbers of modes)
    MS = [np.array([[1, 2], [3, 4]]), np.array([[5], [7]])]
    compare("unit-test exc", call(orig_gen.merge_mode_shapes, MS, [[0], [1], [2]]),
            call(new_gen.merge_mode_shapes, MS, [[0], [1], [2]]))

    # ---- 3. nonsense that both versions refuse (type / message may differ) --
    MS, refs = random_case(rng)
    bad = [list(r) for r in refs]
    if len(bad[1]) > 1:
        bad[1] = bad[1][:-1]
    else:
        bad[0] = bad[0] + [j for j in range(MS[0].shape[0]) if j not in bad[0]][:1]
    if len(bad[1]) != len(bad[0]):
        compare("different number of refs", call(orig_gen.merge_mode_shapes, MS, bad),
                call(new_gen.merge_mode_shapes, MS, bad), strict_exc=False)
    bad = [list(r) for r in refs]
    bad[0][0] = MS[0].shape[0] + 3
    compare("index out of range", call(orig_gen.merge_mode_shapes, MS, bad),
            call(new_gen.merge_mode_shapes, MS, bad), strict_exc=False)

    # ---- 4. MultiSetup_PoSER ----------------------------------------------
    for t in range(60):
        MS, refs = random_case(rng)
        n_setup, n_modes = len(MS), MS[0].shape[1]
        two = rng.random() < 0.4
        Fn = rng.uniform(1, 30, (n_setup, n_modes))
        Xi = rng.uniform(0.002, 0.05, (n_setup, n_modes))
        MSb = [m * rng.uniform(0.05, 20) * rng.choice([-1, 1]) for m in MS]

        def build(cls):
            setups = []
            for i in range(n_setup):
                ss = SingleSetup(np.zeros((6, MS[i].shape[0])), fs=50.0)
                algs = [StubAlg(Fn[i].copy(), Xi[i].copy(), MS[i].copy(), name=f"a{i}")]
                if two:
                    algs.append(StubAlgB(Fn[i] * 1.01, Xi[i] * 0.9, MSb[i].copy(), name=f"b{i}"))
                ss.add_algorithms(*algs)
                ss.run_all()
                setups.append(ss)
            return cls(ref_ind=[list(r) for r in refs], single_setups=setups,
                       names=["A", "B"] if two else ["A"])

        m_old = build(orig_multi.MultiSetup_PoSER)
        m_new = build(new_multi.MultiSetup_PoSER)
        if m_old.ref_ind != m_new.ref_ind:
            problems.append(f"poser#{t}: ref_ind attribute {m_new.ref_ind} != {m_old.ref_ind}")
        for rep in range(2):  # second call on the same objects too
            r_old, r_new = m_old.merge_results(), m_new.merge_results()
            if list(r_old) != list(r_new):
                problems.append(f"poser#{t}: result keys differ")
                continue
            for key in r_old:
                for attr in ("Phi", "Fn", "Fn_cov", "Xi", "Xi_cov"):
                    compare(f"poser#{t} call{rep} {key}.{attr}",
                            ("ok", getattr(r_old[key], attr)), ("ok", getattr(r_new[key], attr)))
        compare(f"poser#{t} ref_setup=0", ("ok", m_old.result["A"].Phi),
                call(lambda: m_new.merge_results(ref_setup=0)["A"].Phi))
        # the flattened sensor names of the geometry are built from the same attribute
        names = [[f"s{i}_{j}" for j in range(m.shape[0])] for i, m in enumerate(MS)]
        compare(f"poser#{t} names", ("ok", orig_gen.flatten_sns_names(names, m_old.ref_ind)),
                ("ok", new_gen.flatten_sns_names(names, m_new.ref_ind)))
        n_class += 1

    # ---- 5. constructor errors are unchanged --------------------------------
    ss = SingleSetup(np.zeros((6, 3)), fs=50.0)
    for kwargs in (dict(ref_ind=[], single_setups=[], names=[]),
                   dict(ref_ind=[[0]], single_setups=[ss], names=["x"]),
                   dict(ref_ind=[[0], [0]], single_setups=[ss, SingleSetup(np.zeros((6, 3)), fs=50.0)],
                        names=["x"])):
        compare("poser ctor exc", call(orig_multi.MultiSetup_PoSER, **kwargs),
                call(new_multi.MultiSetup_PoSER, **kwargs))

    print(f"merge_mode_shapes cases: {n_merge} (x6 call forms), MultiSetup_PoSER cases: {n_class}")
    if problems:
        print("FAIL")
        for p in problems[:20]:
            print("  ", p)
        print(f"   {len(problems)} problems in total")
        return 1
    print("PASS")
    return 0


if __name__ == "__main__":
    sys.exit(main())
