"""
Differential test: the library on PYTHONPATH (CLEAN version of the commit) against
the pristine sources saved next to this script (orig_plot.py, orig_sel_from_plot.py).

Compared, on randomly generated pole / label tables and configurations:
  * plot.stab_plot and plot.cluster_plot: every artist on the returned axes
    (Line2D x/y data, PathCollection offsets, error-bar segments), legend texts,
    axis limits, titles - or the exception raised;
  * SSIcov / pLSCF .plot_stab and .plot_cluster (classes of the tree under test,
    carrying a synthetic result) against the pristine functions called the way the
    pristine methods call them;
  * SelFromPlot.plot_stab / get_closest_pole (run on a stand-in object, no Tk window)
    of the tree under test against the pristine module.

Run:  PYTHONPATH=<tree>/src /venv/bin/python equiv.py     -> prints PASS, exit 0
"""
import importlib.util
import logging
import os
import sys
import types

import matplotlib

matplotlib.use("Agg")
import matplotlib.pyplot as plt  # noqa: E402
import numpy as np  # noqa: E402
from matplotlib.collections import LineCollection, PathCollection  # noqa: E402

logging.disable(logging.CRITICAL)
HERE = os.path.dirname(os.path.abspath(__file__))


def _load(name, fname, package=None):
    spec = importlib.util.spec_from_file_location(name, os.path.join(HERE, fname))
    mod = importlib.util.module_from_spec(spec)
    if package:
        mod.__package__ = package
    sys.modules[name] = mod
    spec.loader.exec_module(mod)
    return mod


import pyoma2.functions.plot as new_plot  # noqa: E402
import pyoma2.support.sel_from_plot as new_sfp  # noqa: E402
from pyoma2.algorithms import SSIcov, pLSCF  # noqa: E402

# pristine copies (orig_plot uses "from .gen import MAC" -> give it the package)
orig_plot = _load("pyoma2.functions._orig_plot", "orig_plot.py", "pyoma2.functions")
orig_sfp = _load("pyoma2.support._orig_sel_from_plot", "orig_sel_from_plot.py")
# the pristine GUI module must talk to the pristine plot functions
orig_sfp.stab_plot = orig_plot.stab_plot
orig_sfp.CMIF_plot = orig_plot.CMIF_plot


# ----------------------------------------------------------------------------
def snapshot(ax):
    """Everything the axes show, as plain arrays / strings."""
    out = []
    for ln in ax.get_lines():
        out.append(
            (
                "line",
                np.asarray(ln.get_xdata(), float),
                np.asarray(ln.get_ydata(), float),
                ln.get_marker(),
                ln.get_linestyle(),
                matplotlib.colors.to_hex(ln.get_color()),
                float(ln.get_markersize()),
                ln.get_label() if not ln.get_label().startswith("_") else "",
            )
        )
    for col in ax.collections:
        if isinstance(col, PathCollection):
            out.append(
                (
                    "scatter",
                    np.ma.filled(np.ma.asarray(col.get_offsets(), float), np.nan),
                    np.asarray(col.get_sizes(), float),
                    np.asarray(col.get_facecolor(), float),
                    col.get_label() if not col.get_label().startswith("_") else "",
                )
            )
        elif isinstance(col, LineCollection):
            segs = col.get_segments()
            arr = (
                np.concatenate([np.asarray(s, float).ravel() for s in segs])
                if len(segs)
                else np.zeros(0)
            )
            out.append(("bars", arr, np.asarray(col.get_color(), float)))
    leg = ax.get_legend()
    out.append(("legend", tuple(t.get_text() for t in leg.get_texts()) if leg else None))
    out.append(("xlim", np.asarray(ax.get_xlim(), float)))
    out.append(("ylim", np.asarray(ax.get_ylim(), float)))
    out.append(("labels", ax.get_title(), ax.get_xlabel(), ax.get_ylabel()))
    return out


def same(a, b):
    if isinstance(a, np.ndarray) or isinstance(b, np.ndarray):
        a = np.asarray(a)
        b = np.asarray(b)
        if a.shape != b.shape:
            return False
        if a.dtype.kind in "fiu" and b.dtype.kind in "fiu":
            return bool(
                np.array_equal(a, b, equal_nan=True)
                or np.allclose(a, b, rtol=1e-12, atol=0, equal_nan=True)
            )
        return bool(np.array_equal(a, b))
    if isinstance(a, (tuple, list)) and isinstance(b, (tuple, list)):
        return len(a) == len(b) and all(same(p, q) for p, q in zip(a, b))
    return a == b


def run(fun, *args, **kwargs):
    """Call a plotting function; return ('ok', snapshot) or ('exc', type)."""
    try:
        fig, ax = fun(*args, **kwargs)
    except Exception as e:  # noqa: BLE001
        plt.close("all")
        return ("exc", type(e).__name__)
    snap = snapshot(ax)
    plt.close("all")
    return ("ok", snap)


FAIL = []
N = {"cases": 0}


def check(tag, r_new, r_old):
    N["cases"] += 1
    if not same(r_new, r_old):
        FAIL.append(tag)
        print("DIFF", tag)
        if r_new[0] == r_old[0] == "ok":
            for p, q in zip(r_new[1], r_old[1]):
                if not same(p, q):
                    print("   new:", p[0], [np.shape(v) for v in p[1:]])
                    print("   old:", q[0], [np.shape(v) for v in q[1:]])
                    break
        else:
            print("   new:", r_new[0], r_new[1] if r_new[0] == "exc" else "")
            print("   old:", r_old[0], r_old[1] if r_old[0] == "exc" else "")


# ----------------------------------------------------------------------------
def random_tables(rng, n_poles, n_orders, with_cov):
    """Pole tables in the layout the algorithms produce (column = model order)."""
    Fn = rng.uniform(0.2, 40.0, (n_poles, n_orders))
    Xi = rng.uniform(0.001, 0.09, (n_poles, n_orders))
    style = rng.integers(0, 4)
    if style == 0:  # triangular NaN pattern of the SSI tables
        r, c = np.indices(Fn.shape)
        dead = r >= c
    elif style == 1:  # scattered rejections
        dead = rng.random(Fn.shape) < rng.uniform(0.1, 0.8)
    elif style == 2:  # nothing rejected
        dead = np.zeros(Fn.shape, bool)
    else:  # whole orders empty + scattered
        dead = rng.random(Fn.shape) < 0.3
        dead[:, rng.integers(0, n_orders)] = True
    Fn[dead] = np.nan
    Xi[dead] = np.nan
    Lab = (rng.random(Fn.shape) < rng.uniform(0.0, 1.0)).astype(int)
    Lab[dead] = 0
    if rng.random() < 0.15:
        Lab[:] = 0  # no stable pole at all
    Fn_cov = None
    if with_cov:
        Fn_cov = rng.uniform(0.0, 0.08, Fn.shape)  # gives bars on both sides of 0.5
        Fn_cov[dead] = np.nan
        if rng.random() < 0.5:  # covariance rejected for some further poles
            Fn_cov[rng.random(Fn.shape) < 0.2] = np.nan
    return Fn, Xi, Lab, Fn_cov


def random_config(rng, n_orders):
    step = int(rng.choice([1, 1, 1, 2, 3]))
    ordmax = (n_orders - 1) * step
    ordmin = int(rng.choice([0, 0, 1, 2, 5, 10]))
    freqlim = None
    if rng.random() < 0.6:
        lo = float(rng.uniform(0, 10))
        freqlim = (lo, lo + float(rng.uniform(1, 30)))
        if rng.random() < 0.2:
            freqlim = (0, freqlim[1])
    hide = bool(rng.integers(0, 2))
    return step, ordmax, ordmin, freqlim, hide


class _Obj:
    pass


def fake_algo(cls, Fn, Xi, Lab, Fn_cov, step, ordmax, ordmin):
    """An algorithm instance carrying a synthetic result (no identification run)."""
    alg = cls.__new__(cls)
    res = _Obj()
    res.Fn_poles, res.Xi_poles, res.Lab, res.Fn_poles_cov = Fn, Xi, Lab, Fn_cov
    rp = _Obj()
    rp.step, rp.ordmax, rp.ordmin = step, ordmax, ordmin
    object.__setattr__(alg, "result", res)
    object.__setattr__(alg, "run_params", rp)
    return alg


def sfp_standin(Fn, Lab, ordmax, ordmin, freqlim, hide):
    """What SelFromPlot.plot_stab / get_closest_pole need, without a Tk window."""
    fig, ax = plt.subplots()
    s = types.SimpleNamespace()
    s.freqlim, s.hide_poles = freqlim, hide
    s.algo = _Obj()
    s.algo.result = _Obj()
    s.algo.result.Fn_poles, s.algo.result.Lab = Fn, Lab
    s.algo.run_params = _Obj()
    s.algo.run_params.ordmin, s.algo.run_params.ordmax = ordmin, ordmax
    s.fig, s.ax2 = fig, ax
    s.sel_freq, s.pole_ind = [], []
    s.sort_selected_poles = lambda: None
    return s


def main():
    rng = np.random.default_rng(20240920)

    # ---- 1. the functions ---------------------------------------------------
    for k in range(36):
        n_orders = int(rng.integers(2, 61))
        n_poles = int(rng.choice([n_orders - 1, n_orders, int(rng.integers(1, 130))]))
        n_poles = max(n_poles, 1)
        Fn, Xi, Lab, Fn_cov = random_tables(rng, n_poles, n_orders, rng.random() < 0.5)
        step, ordmax, ordmin, freqlim, hide = random_config(rng, n_orders)
        kw = dict(ordmin=ordmin, freqlim=freqlim, hide_poles=hide, Fn_cov=Fn_cov)
        check(
            f"stab_plot #{k} {Fn.shape} step={step} ordmin={ordmin} hide={hide} "
            f"cov={Fn_cov is not None} freqlim={freqlim}",
            run(new_plot.stab_plot, Fn, Lab, step, ordmax, **kw),
            run(orig_plot.stab_plot, Fn, Lab, step, ordmax, **kw),
        )
        kw = dict(ordmin=ordmin, freqlim=freqlim, hide_poles=hide)
        check(
            f"cluster_plot #{k} {Fn.shape} hide={hide} freqlim={freqlim}",
            run(new_plot.cluster_plot, Fn, Xi, Lab, **kw),
            run(orig_plot.cluster_plot, Fn, Xi, Lab, **kw),
        )

    # drawing on axes handed in by the caller
    for k in range(6):
        Fn, Xi, Lab, Fn_cov = random_tables(rng, 12, 13, k % 2 == 0)

        def on_given_axes(fun):
            fig, axs = plt.subplots(1, 2)
            return fun(Fn, Lab, 1, 12, ordmin=k, hide_poles=k < 3, fig=fig, ax=axs[1],
                       Fn_cov=Fn_cov)  # fmt: skip

        check(
            f"stab_plot on given axes #{k}",
            run(on_given_axes, new_plot.stab_plot),
            run(on_given_axes, orig_plot.stab_plot),
        )

    # inputs the routines reject: same exception type
    Fn, Xi, Lab, Fn_cov = random_tables(rng, 8, 9, True)
    bad = [
        ("labels of another shape", (Fn, Lab[:, :-2], 1, 8), {}),
        ("covariance of another shape", (Fn, Lab, 1, 8), {"Fn_cov": Fn_cov[:-3]}),
        ("hide off, covariance of another shape", (Fn, Lab, 1, 8),
         {"Fn_cov": Fn_cov[:-3], "hide_poles": False}),  # fmt: skip
        ("no order given", (Fn, Lab), {}),
    ]
    for tag, a, kw in bad:
        check(
            "stab_plot rejects: " + tag,
            run(new_plot.stab_plot, *a, **kw),
            run(orig_plot.stab_plot, *a, **kw),
        )
    check(
        "cluster_plot rejects: damping of another shape",
        run(new_plot.cluster_plot, Fn, Xi[:, :4], Lab),
        run(orig_plot.cluster_plot, Fn, Xi[:, :4], Lab),
    )
    # tables given as nested lists (labels as an array, as the original needs)
    check(
        "stab_plot: frequency table as nested list",
        run(new_plot.stab_plot, Fn.tolist(), Lab, 1, 8, hide_poles=False),
        run(orig_plot.stab_plot, Fn.tolist(), Lab, 1, 8, hide_poles=False),
    )
    check(
        "cluster_plot: tables as nested lists",
        run(new_plot.cluster_plot, Fn.tolist(), Xi.tolist(), Lab, hide_poles=False),
        run(orig_plot.cluster_plot, Fn.tolist(), Xi.tolist(), Lab, hide_poles=False),
    )

    # ---- 2. the algorithm classes' plot methods -----------------------------
    for k in range(16):
        is_ssi = k % 2 == 0
        if is_ssi:
            ordmax = int(rng.integers(4, 60))
            shape = (ordmax, ordmax + 1)  # SSI layout
        else:
            ordmax = int(rng.integers(4, 40))
            shape = (ordmax * int(rng.integers(2, 6)), ordmax)  # pLSCF layout
        Fn, Xi, Lab, Fn_cov = random_tables(rng, *shape, is_ssi and k % 4 == 0)
        _, _, ordmin, freqlim, hide = random_config(rng, shape[1])
        alg = fake_algo(SSIcov if is_ssi else pLSCF, Fn, Xi, Lab, Fn_cov, 1, ordmax,
                        ordmin)  # fmt: skip
        kw_old = dict(step=1, ordmax=ordmax, ordmin=ordmin, freqlim=freqlim,
                      hide_poles=hide, fig=None, ax=None)  # fmt: skip
        if is_ssi:
            kw_old["Fn_cov"] = Fn_cov
        check(
            f"{'SSIcov' if is_ssi else 'pLSCF'}.plot_stab #{k} {shape} ordmin={ordmin} "
            f"hide={hide}",
            run(alg.plot_stab, freqlim=freqlim, hide_poles=hide),
            run(orig_plot.stab_plot, Fn=Fn, Lab=Lab, **kw_old),
        )
        check(
            f"{'SSIcov' if is_ssi else 'pLSCF'}.plot_cluster #{k} {shape} hide={hide}",
            run(alg.plot_cluster, freqlim=freqlim, hide_poles=hide),
            run(orig_plot.cluster_plot, Fn=Fn, Xi=Xi, Lab=Lab, ordmin=ordmin,
                freqlim=freqlim, hide_poles=hide),  # fmt: skip
        )

    # ---- 3. the interactive chart (call site in support/sel_from_plot.py) ----
    for k in range(12):
        ordmax = int(rng.integers(4, 50))
        Fn, Xi, Lab, _ = random_tables(rng, ordmax, ordmax + 1, False)
        _, _, ordmin, freqlim, hide = random_config(rng, ordmax + 1)
        res = []
        for mod in (new_sfp, orig_sfp):
            s = sfp_standin(Fn, Lab, ordmax, ordmin, freqlim, hide)
            s.sel_freq, s.pole_ind = [1.0, 2.0], [3, 4]
            try:
                mod.SelFromPlot.plot_stab(s, "SSI")
                r = ("ok", snapshot(s.ax2))
            except Exception as e:  # noqa: BLE001
                r = ("exc", type(e).__name__)
            plt.close("all")
            res.append(r)
        check(f"SelFromPlot.plot_stab #{k} ordmin={ordmin} hide={hide}", *res)

        # a click near a retained pole picks the same (frequency, order)
        fin = np.argwhere(np.isfinite(Fn))
        if len(fin) == 0:
            continue
        i, j = fin[rng.integers(0, len(fin))]
        click = (Fn[i, j] + rng.normal(0, 0.01), j + rng.uniform(-0.45, 0.45))
        res = []
        for mod in (new_sfp, orig_sfp):
            s = sfp_standin(Fn, Lab, ordmax, ordmin, freqlim, hide)
            s.x_data_pole, s.y_data_pole = click
            try:
                mod.SelFromPlot.get_closest_pole(s, "SSI")
                r = ("ok", [("picked", np.asarray(s.sel_freq), np.asarray(s.pole_ind))])
            except Exception as e:  # noqa: BLE001
                r = ("exc", type(e).__name__)
            plt.close("all")
            res.append(r)
        check(f"SelFromPlot.get_closest_pole #{k}", *res)

    print(f"{N['cases']} comparisons, {len(FAIL)} differences")
    if FAIL:
        print("FAIL")
        return 1
    print("PASS")
    return 0


if __name__ == "__main__":
    sys.exit(main())
