"""
Differential test: the library in the tree (PYTHONPATH) against the pristine
copy of pyoma2/functions/ssi.py saved next to this script as orig_ssi.py.

Run as:  PYTHONPATH=<tree>/src /venv/bin/python equiv.py
Prints PASS and exits 0 when every touched routine gives the same result
(or raises the same exception type) as the original on random inputs.
"""

import importlib.util
import logging
import os
import sys
import warnings

import numpy as np

logging.disable(logging.CRITICAL)
warnings.filterwarnings("ignore")

import pyoma2.functions.ssi as new  # noqa: E402

here = os.path.dirname(os.path.abspath(__file__))
spec = importlib.util.spec_from_file_location(
    "orig_ssi", os.path.join(here, "orig_ssi.py")
)
old = importlib.util.module_from_spec(spec)
spec.loader.exec_module(old)

for mod in (new, old):
    mod.trange = lambda *a, **k: range(*a)  # no progress bars
    mod.tqdm = lambda it, *a, **k: it

failures = []
n_cases = 0


def same(a, b):
    if a is None or b is None:
        return a is None and b is None
    if isinstance(a, (list, tuple)):
        return (
            isinstance(b, (list, tuple))
            and len(a) == len(b)
            and all(same(x, y) for x, y in zip(a, b))
        )
    a = np.asarray(a)
    b = np.asarray(b)
    if a.shape != b.shape:
        return False
    if np.array_equal(a, b, equal_nan=True):
        return True
    # np.dot -> @ may pick another BLAS kernel (syrk / gemm): allow the last bits
    finite = np.abs(b[np.isfinite(b)]) if b.size else np.zeros(0)
    scale = max(1.0, float(finite.max())) if finite.size else 1.0
    return bool(np.allclose(a, b, rtol=1e-12, atol=1e-13 * scale, equal_nan=True))


def run(fn, *args, **kwargs):
    try:
        with np.errstate(all="ignore"):
            return ("ok", fn(*args, **kwargs))
    except Exception as exc:  # the type of the exception is part of the comparison
        return ("exc", type(exc).__name__)


def compare(label, fname, *args, **kwargs):
    global n_cases
    n_cases += 1
    args_new = [np.array(a, copy=True) if isinstance(a, np.ndarray) else a for a in args]
    args_old = [np.array(a, copy=True) if isinstance(a, np.ndarray) else a for a in args]
    r_new = run(getattr(new, fname), *args_new, **kwargs)
    r_old = run(getattr(old, fname), *args_old, **kwargs)
    if r_new[0] != r_old[0]:
        failures.append(f"{label}: new {r_new[0]} {r_new[1] if r_new[0]=='exc' else ''} "
                        f"/ old {r_old[0]} {r_old[1] if r_old[0]=='exc' else ''}")
    elif r_new[0] == "exc":
        if r_new[1] != r_old[1]:
            failures.append(f"{label}: raises {r_new[1]} instead of {r_old[1]}")
    elif not same(r_new[1], r_old[1]):
        failures.append(f"{label}: results differ")
    # the inputs must be left alone in the same way
    for x, y in zip(args_new, args_old):
        if isinstance(x, np.ndarray) and not np.array_equal(x, y, equal_nan=True):
            failures.append(f"{label}: inputs modified differently")


rng = np.random.default_rng(2024)

# ---------------------------------------------------------------- build_hank
for case in range(120):
    l = int(rng.integers(1, 7))
    br = int(rng.integers(1, 9))
    Ndat = int(rng.integers(2 * br + 4, 160))
    kind = case % 4
    if kind == 0:
        Y = rng.standard_normal((l, Ndat))
    elif kind == 1:
        Y = rng.integers(-5, 6, size=(l, Ndat))  # integer records as in the unit test
    elif kind == 2:
        Y = np.asfortranarray(rng.standard_normal((l, Ndat)) * 1e3)
    else:
        Y = rng.standard_normal((Ndat, l)).T  # a transposed view, as handed by run()
    choice = case % 3
    if choice == 0:
        ref = list(range(l))
    elif choice == 1:
        k = int(rng.integers(1, l + 1))
        ref = sorted(rng.choice(l, size=k, replace=False).tolist())
    else:
        k = int(rng.integers(1, l + 1))
        ref = rng.permutation(l)[:k].tolist()
    Yref = Y if (choice == 0 and case % 2 == 0) else Y[ref, :]
    for method in ("cov_mm", "cov_R", "dat"):
        compare(
            f"build_hank[{case}] {method} l={l} ref={ref} br={br} Ndat={Ndat}",
            "build_hank", Y, Yref, br, method,
        )
    nb = int(rng.integers(2, 12))
    compare(
        f"build_hank[{case}] cov_mm calc_unc nb={nb} l={l} ref={ref} br={br} Ndat={Ndat}",
        "build_hank", Y, Yref, br, "cov_mm", calc_unc=True, nb=nb,
    )

# references that are not channels of Y at all, and keyword calls
for case in range(20):
    l = int(rng.integers(1, 5))
    r = int(rng.integers(1, 5))
    br = int(rng.integers(1, 6))
    Ndat = int(rng.integers(2 * br + 4, 60))
    Y = rng.standard_normal((l, Ndat))
    Yref = rng.standard_normal((r, Ndat))
    for method in ("cov_mm", "cov_R", "dat"):
        compare(
            f"build_hank[free {case}] {method} l={l} r={r} br={br} Ndat={Ndat}",
            "build_hank", Y=Y, Yref=Yref, br=br, method=method, calc_unc=False, nb=100,
        )

# exceptions and degenerate records
Y5 = np.array([[1, 2, 3, 4, 5]])
compare("invalid method", "build_hank", Y5, Y5, 1, "YfYp")
compare("invalid method with calc_unc", "build_hank", Y5, Y5, 1, "YfYp", calc_unc=True)
compare("calc_unc with cov_R", "build_hank", Y5, Y5, 1, "cov_R", calc_unc=True)
compare("calc_unc with dat", "build_hank", Y5, Y5, 1, "dat", calc_unc=True)
compare("unit-test record cov_mm + unc", "build_hank", Y5, Y5, 1, "cov_mm", calc_unc=True)
compare("mismatched lengths", "build_hank", rng.standard_normal((2, 30)),
        rng.standard_normal((2, 25)), 2, "cov_R")
for method in ("cov_mm", "cov_R", "dat"):
    compare(f"unit-test record {method}", "build_hank", Y5, Y5, 1, method)
    compare(f"float br {method}", "build_hank", rng.standard_normal((2, 40)),
            rng.standard_normal((1, 40)), 2.0, method)
    for Ndat in (4, 5, 6, 7):  # N = Ndat - 2 br - 1 down to one sample
        Ys = rng.standard_normal((2, Ndat))
        compare(f"short record {method} Ndat={Ndat}", "build_hank", Ys, Ys[[1], :], 1, method)

# ------------------------------------------------------------ SSI_multi_setup
for case in range(24):
    n_setup = int(rng.integers(1, 4))
    n_ref = int(rng.integers(1, 4))
    br = int(rng.integers(2, 7))
    Ndat = int(rng.integers(200, 400))
    t = np.arange(Ndat) / 50.0
    data = []
    for _ in range(n_setup):
        n_mov = int(rng.integers(1, 4))
        modes = np.vstack([np.sin(2 * np.pi * f * t + ph) for f, ph in ((1.3, 0.2), (3.1, 1.0), (5.2, 2.2))])
        mix = rng.standard_normal((n_ref + n_mov, 3))
        sig = mix @ modes + 0.3 * rng.standard_normal((n_ref + n_mov, Ndat))
        data.append({"ref": sig[:n_ref], "mov": sig[n_ref:]})
    method = ("cov_mm", "cov_R", "dat")[case % 3]
    ordmax = int(rng.integers(2, min(8, br * n_ref) + 1))
    global_n = n_cases
    n_cases += 1
    r_new = run(new.SSI_multi_setup, data, 50.0, br, ordmax, method, step=1)
    r_old = run(old.SSI_multi_setup, data, 50.0, br, ordmax, method, step=1)
    label = f"SSI_multi_setup[{case}] {method} setups={n_setup} n_ref={n_ref} br={br} ordmax={ordmax}"
    if r_new[0] != r_old[0] or (r_new[0] == "exc" and r_new[1] != r_old[1]):
        failures.append(f"{label}: new {r_new[:2]} / old {r_old[:2]}")
    elif r_new[0] == "ok" and not same(list(r_new[1]), list(r_old[1])):
        failures.append(f"{label}: results differ")

if failures:
    print("FAIL")
    for f in failures[:20]:
        print("  -", f)
    print(f"  {len(failures)} of {n_cases} comparisons failed")
    sys.exit(1)
print(f"PASS ({n_cases} comparisons)")
sys.exit(0)
