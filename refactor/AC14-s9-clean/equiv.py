"""
Differential test: the library found on PYTHONPATH (CLEAN version of the commit) against the
pristine implementation, loaded from the copies orig_gen.py / orig_base.py / orig_multi.py that
are stored next to this script.

Compared: gen.pre_multisetup, gen.filter_data, and MultiSetup_PreGER driven through random
sequences of decimate / detrend / filter / rollback / add_algorithms (every attribute after
every call, and what the algorithms receive), including the exceptions raised.

Run as:  PYTHONPATH=<tree>/src /venv/bin/python equiv.py
"""
import copy
import importlib.util
import os
import sys
import warnings

import numpy as np

warnings.filterwarnings("ignore")
HERE = os.path.dirname(os.path.abspath(__file__))

import pyoma2.functions.gen as new_gen  # noqa: E402
import pyoma2.setup.base as new_base  # noqa: E402,F401
import pyoma2.setup.multi as new_multi  # noqa: E402
from pyoma2.algorithms import FDD_MS, SSIdat_MS  # noqa: E402


def _load(name, fname):
    spec = importlib.util.spec_from_file_location(name, os.path.join(HERE, fname))
    mod = importlib.util.module_from_spec(spec)
    sys.modules[name] = mod
    spec.loader.exec_module(mod)
    return mod


# pristine gen
orig_gen = _load("orig_gen", "orig_gen.py")
# pristine base / multi: while they are imported, the names they import from resolve
# to the pristine modules
_saved = {k: sys.modules[k] for k in ("pyoma2.functions.gen", "pyoma2.setup.base")}
sys.modules["pyoma2.functions.gen"] = orig_gen
orig_base = _load("orig_base", "orig_base.py")
sys.modules["pyoma2.setup.base"] = orig_base
orig_multi = _load("orig_multi", "orig_multi.py")
sys.modules.update(_saved)
assert orig_multi.pre_multisetup is orig_gen.pre_multisetup
assert orig_base.filter_data is orig_gen.filter_data
assert orig_multi.MultiSetup_PreGER.__mro__[1] is orig_base.BaseSetup
assert new_multi.pre_multisetup is new_gen.pre_multisetup

RTOL = 1e-12
problems = []
n_checks = 0


def same(a, b):
    """Deep comparison of results (arrays, lists, dicts, scalars)."""
    if isinstance(a, dict) and isinstance(b, dict):
        return list(a.keys()) == list(b.keys()) and all(same(a[k], b[k]) for k in a)
    if isinstance(a, (list, tuple)) and isinstance(b, (list, tuple)):
        return len(a) == len(b) and all(same(x, y) for x, y in zip(a, b))
    a_ = np.asarray(a)
    b_ = np.asarray(b)
    if a_.shape != b_.shape:
        return False
    if a_.dtype.kind in "fc" or b_.dtype.kind in "fc":
        return bool(np.allclose(a_, b_, rtol=RTOL, atol=0.0, equal_nan=True))
    return bool(np.array_equal(a_, b_))


def call(f, *a, **k):
    try:
        return ("ok", f(*a, **k))
    except Exception as e:  # noqa: BLE001
        return ("exc", type(e).__name__)


def check(label, r_new, r_old):
    global n_checks
    n_checks += 1
    if r_new[0] != r_old[0]:
        problems.append(f"{label}: new={r_new[0]}:{r_new[1] if r_new[0]=='exc' else ''} "
                        f"old={r_old[0]}:{r_old[1] if r_old[0]=='exc' else ''}")
    elif r_new[0] == "exc":
        if r_new[1] != r_old[1]:
            problems.append(f"{label}: exception {r_new[1]} vs {r_old[1]}")
    elif not same(r_new[1], r_old[1]):
        problems.append(f"{label}: values differ")


def random_case(rng):
    n_setup = int(rng.integers(1, 4))
    n_ref = None
    datasets, ref_ind = [], []
    for _ in range(n_setup):
        n_ch = int(rng.integers(2, 6))
        n_dat = int(rng.integers(300, 500))
        t = np.arange(n_dat)[:, None]
        d = rng.standard_normal((n_dat, n_ch)) + 0.01 * t * rng.standard_normal(n_ch) + 3.0
        datasets.append(d)
        if n_ref is None:
            n_ref = int(rng.integers(1, n_ch))
        k = min(n_ref, n_ch - 1)
        ref_ind.append([int(r) for r in rng.choice(n_ch, size=k, replace=False)])
    return datasets, ref_ind


# ---------------------------------------------------------------- pre_multisetup
rng = np.random.default_rng(20240614)
for it in range(60):
    datasets, ref_ind = random_case(rng)
    form = it % 3
    if form == 1:
        ref_arg = [tuple(r) for r in ref_ind]
    elif form == 2:
        ref_arg = [np.array(r) for r in ref_ind]
    else:
        ref_arg = ref_ind
    before = copy.deepcopy(datasets)
    check(f"pre_multisetup[{it}]",
          call(new_gen.pre_multisetup, datasets, ref_arg),
          call(orig_gen.pre_multisetup, datasets, ref_arg))
    if not same(before, datasets):
        problems.append(f"pre_multisetup[{it}] modified its input")

# invalid reference lists: both must refuse in the same way
d = rng.standard_normal((50, 4))
for bad in ([[0, 0]], [[4]], [[1, 7]], [[-1]], [[]], [[0, 1, 2, 3]], [[2, 1, 2]]):
    check(f"pre_multisetup bad {bad}",
          call(new_gen.pre_multisetup, [d], bad),
          call(orig_gen.pre_multisetup, [d], bad))
check("pre_multisetup short reflist",
      call(new_gen.pre_multisetup, [d, d], [[0]]),
      call(orig_gen.pre_multisetup, [d, d], [[0]]))
# integer data (as in the unit test)
ints = [np.array([[1, 2], [3, 4]]), np.array([[5, 6], [7, 8]])]
check("pre_multisetup ints",
      call(new_gen.pre_multisetup, ints, [[0], [1]]),
      call(orig_gen.pre_multisetup, ints, [[0], [1]]))

# ---------------------------------------------------------------- filter_data (single array)
for it in range(30):
    n_dat = int(rng.integers(120, 400))
    shape = (n_dat,) if it % 5 == 0 else (n_dat, int(rng.integers(1, 6)))
    x = rng.standard_normal(shape)
    fs = float(rng.choice([50.0, 100.0, 256.0]))
    btype = str(rng.choice(["lowpass", "highpass", "bandpass", "bandstop"]))
    if btype in ("bandpass", "bandstop"):
        Wn = (0.05 * fs, 0.3 * fs)
    else:
        Wn = float(rng.uniform(0.05, 0.4)) * fs
    order = int(rng.integers(1, 7))
    check(f"filter_data[{it}]",
          call(new_gen.filter_data, x, fs, Wn, order, btype),
          call(orig_gen.filter_data, x, fs, Wn, order, btype))
    check(f"BaseSetup._filter_data[{it}]",
          call(new_base.BaseSetup._filter_data, x, fs, Wn=Wn, order=order, btype=btype),
          call(orig_base.BaseSetup._filter_data, x, fs, Wn=Wn, order=order, btype=btype))
# array_like given as a plain list of numbers, and invalid requests
xl = list(rng.standard_normal(200))
check("filter_data list of floats",
      call(new_gen.filter_data, xl, 100.0, 10.0),
      call(orig_gen.filter_data, xl, 100.0, 10.0))
check("filter_data Wn above Nyquist",
      call(new_gen.filter_data, np.ones((100, 2)), 100.0, 80.0),
      call(orig_gen.filter_data, np.ones((100, 2)), 100.0, 80.0))
check("filter_data too short",
      call(new_gen.filter_data, np.ones((5, 2)), 100.0, 10.0, 8),
      call(orig_gen.filter_data, np.ones((5, 2)), 100.0, 10.0, 8))
# a list of datasets equals the per-dataset loop of the pristine function
for it in range(10):
    datasets, _ = random_case(rng)
    check(f"filter_data list[{it}]",
          call(new_gen.filter_data, datasets, 100.0, 12.0, 4, "lowpass"),
          call(lambda ds: [orig_gen.filter_data(x, 100.0, 12.0, 4, "lowpass") for x in ds],
               datasets))


# ---------------------------------------------------------------- MultiSetup_PreGER histories
def snapshot(ms):
    return {
        "fs": ms.fs, "dt": ms.dt, "Nsetup": ms.Nsetup, "ref_ind": ms.ref_ind,
        "Nchs": ms.Nchs, "Ndats": ms.Ndats, "Ts": ms.Ts,
        "datasets": list(ms.datasets), "data": ms.data,
        "init_ds": ms._initial_datasets, "init_fs": ms._initial_fs,
        "init_ref": ms._initial_ref_ind,
        "algs": {k: {"fs": a.fs, "dt": a.dt, "data": a.data}
                 for k, a in ms.algorithms.items()},
    }


def random_op(rng, fs_now, step):
    kind = rng.choice(["decimate", "detrend", "filter", "rollback", "add"])
    if kind == "decimate":
        kw = {}
        if rng.random() < 0.4:
            kw["ftype"] = str(rng.choice(["iir", "fir"]))
        if rng.random() < 0.4:
            kw["n"] = int(rng.integers(2, 6))
        if rng.random() < 0.4:
            kw["zero_phase"] = bool(rng.integers(0, 2))
        return ("decimate_data", (), dict(q=int(rng.integers(2, 4)), **kw))
    if kind == "detrend":
        kw = {}
        if rng.random() < 0.6:
            kw["type"] = str(rng.choice(["linear", "constant"]))
        if rng.random() < 0.2:
            kw["bp"] = [20]
        return ("detrend_data", (), kw)
    if kind == "filter":
        btype = str(rng.choice(["lowpass", "highpass", "bandpass", "bandstop"]))
        if btype in ("bandpass", "bandstop"):
            Wn = (0.05 * fs_now, 0.3 * fs_now)
        else:
            Wn = float(rng.uniform(0.05, 0.6)) * fs_now  # sometimes beyond Nyquist: raises
        return ("filter_data", (), dict(Wn=Wn, order=int(rng.integers(1, 5)), btype=btype))
    if kind == "rollback":
        return ("rollback", (), {})
    return ("add", step, None)


for it in range(40):
    datasets, ref_ind = random_case(rng)
    user_copy = copy.deepcopy(datasets)
    fs0 = float(rng.choice([64.0, 100.0, 200.0]))
    r_new = call(new_multi.MultiSetup_PreGER, fs=fs0, ref_ind=copy.deepcopy(ref_ind),
                 datasets=list(datasets))
    r_old = call(orig_multi.MultiSetup_PreGER, fs=fs0, ref_ind=copy.deepcopy(ref_ind),
                 datasets=list(datasets))
    check(f"hist[{it}] init", (r_new[0], None if r_new[0] == "ok" else r_new[1]),
          (r_old[0], None if r_old[0] == "ok" else r_old[1]))
    if r_new[0] != "ok" or r_old[0] != "ok":
        continue
    ms_new, ms_old = r_new[1], r_old[1]
    check(f"hist[{it}] state0", ("ok", snapshot(ms_new)), ("ok", snapshot(ms_old)))
    for step in range(int(rng.integers(1, 6))):
        name, args, kw = random_op(rng, ms_old.fs, step)
        if name == "add":
            for ms in (ms_new, ms_old):
                ms.add_algorithms(
                    FDD_MS(name=f"fdd{step}", nxseg=64),
                    SSIdat_MS(name=f"ssi{step}", br=4, ordmax=8),
                )
            ra = rb = ("ok", None)
        else:
            ra = call(getattr(ms_new, name), *args, **kw)
            rb = call(getattr(ms_old, name), *args, **kw)
        check(f"hist[{it}] step{step} {name} {kw}", ra, rb)
        check(f"hist[{it}] step{step} {name} state",
              ("ok", snapshot(ms_new)), ("ok", snapshot(ms_old)))
    if not same(user_copy, datasets):
        problems.append(f"hist[{it}]: the user's arrays were modified")

print(f"{n_checks} comparisons")
if problems:
    print("FAIL")
    for p in problems[:25]:
        print("  ", p)
    sys.exit(1)
print("PASS")
