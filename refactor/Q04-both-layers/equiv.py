"""
Equivalence check of the Q04 refactoring (property C04, PreGER spectral merging).

Compares the refactored code in src/pyoma2 with pristine copies of the touched files
(orig_*.py, taken with `git show HEAD:...`) on random inputs drawn from the property's
quantifier.  Prints PASS and exits 0 on success.

Run:  cd /tmp/wt/Q04 && PYTHONPATH=/tmp/wt/Q04/src /venv/bin/python _refactor/equiv.py
"""

import importlib.util
import logging
import os
import sys
import warnings

import numpy as np

HERE = os.path.dirname(os.path.abspath(__file__))
sys.path.insert(0, os.path.join(os.path.dirname(HERE), "src"))

os.environ["TQDM_DISABLE"] = "1"  # silence the progress bars (tqdm >= 4.66)

import pyoma2.algorithms.fdd as new_afdd  # noqa: E402
import pyoma2.algorithms.plscf as new_aplscf  # noqa: E402
import pyoma2.functions.fdd as new_ffdd  # noqa: E402
from pyoma2.setup import MultiSetup_PreGER, SingleSetup  # noqa: E402

logging.disable(logging.CRITICAL)
warnings.simplefilter("ignore")


def _load(modname, filename):
    """import a pristine copy under a name inside the package (relative imports work)"""
    spec = importlib.util.spec_from_file_location(modname, os.path.join(HERE, filename))
    mod = importlib.util.module_from_spec(spec)
    sys.modules[modname] = mod
    spec.loader.exec_module(mod)
    return mod


old_ffdd = _load("pyoma2.functions._orig_fdd", "orig_functions_fdd.py")
old_afdd = _load("pyoma2.algorithms._orig_fdd", "orig_algorithms_fdd.py")
old_aplscf = _load("pyoma2.algorithms._orig_plscf", "orig_algorithms_plscf.py")
# the pristine calling layer must call the pristine numerical routines
old_afdd.fdd = old_ffdd
old_aplscf.fdd = old_ffdd
assert new_afdd.fdd is new_ffdd and new_aplscf.fdd is new_ffdd
assert old_ffdd.SD_PreGER is not new_ffdd.SD_PreGER

RTOL = 1e-9  # stacked matmul/inv vs per-frequency np.dot: last-bit differences only
MAXREL = {"SD_PreGER": 0.0}
N_CHECKS = {"SD_est": 0, "SD_PreGER": 0, "exceptions": 0, "classes": 0, "gain": 0}


def same(a, b, exact=False, what=""):
    a = np.asarray(a)
    b = np.asarray(b)
    assert a.shape == b.shape, (what, a.shape, b.shape)
    assert a.dtype == b.dtype, (what, a.dtype, b.dtype)
    assert np.array_equal(np.isnan(a), np.isnan(b)), what
    if exact:
        assert np.array_equal(a, b, equal_nan=True), what
    else:
        scale = np.nanmax(np.abs(a)) if a.size and np.isfinite(a).any() else 1.0
        assert np.allclose(a, b, rtol=RTOL, atol=RTOL * 1e-3 * scale, equal_nan=True), (
            what,
            np.nanmax(np.abs(a - b)),
            scale,
        )


def outcome(fun, *args, **kwargs):
    try:
        return ("ok", fun(*args, **kwargs))
    except Exception as e:  # noqa: BLE001
        return ("exc", type(e))


# ---------------------------------------------------------------------------------------
# random inputs from the quantifier
# ---------------------------------------------------------------------------------------
def draw_case(rng):
    n_ch = int(rng.integers(2, 10))
    nxseg = int(rng.choice([64, 100, 128, 250, 256, 500, 512, 1024, 2048]))
    pov = float(rng.choice([0.0, 0.25, 0.3, 0.5, 0.66, 0.75]))
    method = str(rng.choice(["per", "cor"]))
    n_seg = int(rng.integers(4, 9))
    n_dat = nxseg * n_seg + int(rng.integers(0, nxseg))
    fs = float(rng.choice([1.0, 50.0, 100.0, 128.0, 333.3, 1000.0]))
    # coloured, correlated recording
    mix = rng.normal(size=(n_ch, n_ch)) + 2 * np.eye(n_ch)
    rec = (mix @ rng.normal(size=(n_ch, n_dat))).T  # [n_dat x n_ch]
    rec = rec + 0.3 * np.cumsum(rng.normal(size=rec.shape), axis=0) / np.sqrt(n_dat)
    # partition: 1..3 references (leave at least 1 roving channel per setup if possible)
    n_ref = int(rng.integers(1, min(3, n_ch - 1) + 1))
    n_rov = n_ch - n_ref
    n_setup = int(rng.integers(2, 5))
    perm = rng.permutation(n_ch)
    ref_ch, rov_ch = perm[:n_ref], perm[n_ref:]
    if n_rov >= n_setup:
        cuts = np.sort(rng.choice(np.arange(1, n_rov), size=n_setup - 1, replace=False))
        groups = np.split(rov_ch, cuts)
    else:  # fewer roving channels than setups: re-use them
        groups = [rng.choice(rov_ch, size=int(rng.integers(1, n_rov + 1)), replace=False)
                  for _ in range(n_setup)]
    same_record = bool(rng.integers(0, 2))
    datasets, ref_ind = [], []
    for g in groups:
        cols = np.concatenate([ref_ch, g])
        # references placed anywhere in the setup's channel list
        pos = rng.permutation(len(cols))
        order = np.empty(len(cols), dtype=int)
        order[pos] = np.arange(len(cols))
        data = rec[:, cols[pos]] if same_record else (
            rec[:, cols[pos]] + rng.normal(size=(n_dat, len(cols)))
        )
        gain = float(rng.choice([1.0, 1.0, 0.01, 3.7, 250.0]))
        datasets.append(np.ascontiguousarray(data * gain))
        ref_ind.append([int(i) for i in order[:n_ref]])
    return dict(fs=fs, nxseg=nxseg, pov=pov, method=method, datasets=datasets,
                ref_ind=ref_ind, rec=rec)


def to_Y(datasets, ref_ind):
    Y = []
    for d, r in zip(datasets, ref_ind):
        mov = [i for i in range(d.shape[1]) if i not in r]
        Y.append({"ref": d[:, r].T, "mov": d[:, mov].T})
    return Y


# ---------------------------------------------------------------------------------------
def check_functions(rng, n=40):
    for k in range(n):
        c = draw_case(rng)
        Y = to_Y(c["datasets"], c["ref_ind"])
        dt = 1 / c["fs"]
        # SD_est: identical scipy calls -> bit-identical results expected
        for sub in Y[:2]:
            Yall = np.vstack((sub["ref"], sub["mov"]))
            for Yref in (sub["ref"], sub["mov"], Yall):
                for call in (
                    lambda f: f(Yall, Yref, dt, c["nxseg"], c["method"], c["pov"]),
                    lambda f: f(Yall, Yref, dt, nxseg=c["nxseg"], method=c["method"],
                                pov=c["pov"]),
                ):
                    fo, So = call(old_ffdd.SD_est)
                    fn, Sn = call(new_ffdd.SD_est)
                    same(fo, fn, exact=True, what="SD_est freq")
                    same(So, Sn, exact=True, what="SD_est Sy")
                    N_CHECKS["SD_est"] += 1
        # defaults of SD_est (method='cor', nxseg=1024, pov=.5) on a long enough record
        if Y[0]["ref"].shape[1] >= 2048:
            Yall = np.vstack((Y[0]["ref"], Y[0]["mov"]))
            for a, b in zip(old_ffdd.SD_est(Yall, Y[0]["ref"], dt),
                            new_ffdd.SD_est(Yall, Y[0]["ref"], dt)):
                same(a, b, exact=True, what="SD_est defaults")
            N_CHECKS["SD_est"] += 1

        # SD_PreGER, positional and keyword call styles
        fo, So = old_ffdd.SD_PreGER(Y, c["fs"], c["nxseg"], c["pov"], c["method"])
        fn, Sn = new_ffdd.SD_PreGER(Y, c["fs"], c["nxseg"], c["pov"], c["method"])
        same(fo, fn, exact=True, what="SD_PreGER freq")
        same(So, Sn, what="SD_PreGER Sy")
        MAXREL["SD_PreGER"] = max(MAXREL["SD_PreGER"], float(np.max(np.abs(So - Sn) / np.abs(So))))
        assert So.strides == Sn.strides and So.flags.c_contiguous == Sn.flags.c_contiguous
        n_ref = Y[0]["ref"].shape[0]
        # the mean reference block involves no matrix product: bit-identical
        same(So[:n_ref], Sn[:n_ref], exact=True, what="SD_PreGER ref block")
        fn2, Sn2 = new_ffdd.SD_PreGER(Y=Y, fs=c["fs"], method=c["method"], pov=c["pov"],
                                      nxseg=c["nxseg"])
        same(fn, fn2, exact=True)
        same(Sn, Sn2, exact=True)
        N_CHECKS["SD_PreGER"] += 1

        # gain invariance holds for the refactored code exactly as for the original
        g = 7.3
        Yg = [dict(ref=y["ref"] * (g if i == 1 else 1), mov=y["mov"] * (g if i == 1 else 1))
              for i, y in enumerate(Y)]
        _, Sgo = old_ffdd.SD_PreGER(Yg, c["fs"], c["nxseg"], c["pov"], c["method"])
        _, Sgn = new_ffdd.SD_PreGER(Yg, c["fs"], c["nxseg"], c["pov"], c["method"])
        same(Sgo, Sgn, what="SD_PreGER gain")
        N_CHECKS["gain"] += 1

    # defaults of SD_PreGER
    c = draw_case(rng)
    Y = to_Y(c["datasets"], c["ref_ind"])
    Y = [dict(ref=np.tile(y["ref"], 8)[:, :5000], mov=np.tile(y["mov"], 8)[:, :5000])
         if y["ref"].shape[1] < 5000 else y for y in Y]
    Y = [dict(ref=y["ref"][:, :5000] + 0.0, mov=y["mov"][:, :5000] + 0.0) for y in Y]
    for a, b in zip(old_ffdd.SD_PreGER(Y, 100.0), new_ffdd.SD_PreGER(Y, 100.0)):
        same(a, b, what="SD_PreGER defaults")
    N_CHECKS["SD_PreGER"] += 1


def check_exceptions(rng):
    c = draw_case(rng)
    Y = to_Y(c["datasets"], c["ref_ind"])
    bad_inputs = {
        "unknown method": lambda f: f.SD_PreGER(Y, c["fs"], c["nxseg"], c["pov"], "xxx"),
        "no setups": lambda f: f.SD_PreGER([], c["fs"], c["nxseg"], c["pov"], "per"),
        "missing key": lambda f: f.SD_PreGER([{"ref": Y[0]["ref"]}], c["fs"], 64, 0.5, "per"),
        "singular reference block": lambda f: f.SD_PreGER(
            [dict(ref=np.zeros_like(y["ref"]), mov=y["mov"]) for y in Y],
            c["fs"], c["nxseg"], c["pov"], c["method"]),
        "different n_ref": lambda f: f.SD_PreGER(
            [Y[0], dict(ref=np.vstack((Y[1]["ref"], Y[1]["mov"][:1])), mov=Y[1]["mov"])],
            c["fs"], c["nxseg"], c["pov"], c["method"]),
        "different lengths": lambda f: f.SD_PreGER(
            [Y[0], dict(ref=Y[1]["ref"][:, :-1], mov=Y[1]["mov"])],
            c["fs"], c["nxseg"], c["pov"], c["method"]),
        "SD_est unknown method": lambda f: f.SD_est(Y[0]["ref"], Y[0]["ref"], 0.01, 64, "xxx"),
        "SD_est 1-D input": lambda f: f.SD_est(Y[0]["ref"][0], Y[0]["ref"][0], 0.01, 64, "per"),
        "SD_est pov=1": lambda f: f.SD_est(Y[0]["ref"], Y[0]["ref"], 0.01, 64, "per", 1.0),
    }
    for name, call in bad_inputs.items():
        o = outcome(call, old_ffdd)
        n = outcome(call, new_ffdd)
        assert o[0] == n[0], (name, o, n)
        print(f"  {name}: old={o[1].__name__ if o[0] == 'exc' else 'ok'}"
              f" new={n[1].__name__ if n[0] == 'exc' else 'ok'}")
        if o[0] == "exc":
            assert o[1] is n[1], (name, o, n)
        else:
            for a, b in zip(o[1], n[1]):
                same(a, b, what=name)
        N_CHECKS["exceptions"] += 1


def compare_results(ro, rn, what):
    do, dn = ro.model_dump(), rn.model_dump()
    assert do.keys() == dn.keys(), what
    for key in do:
        vo, vn = do[key], dn[key]
        if vo is None or vn is None:
            assert vo is None and vn is None, (what, key)
        elif isinstance(vo, (list, tuple)) and key in ("Ad", "Bn", "forPlot"):
            assert len(vo) == len(vn), (what, key)
            for a, b in zip(vo, vn):
                if isinstance(a, (list, tuple)):
                    for aa, bb in zip(a, b):
                        same(aa, bb, what=f"{what}.{key}")
                else:
                    same(a, b, what=f"{what}.{key}")
        else:
            same(vo, vn, exact=key == "freq", what=f"{what}.{key}")


def check_classes(rng, n=12):
    """FDD_MS / EFDD_MS / pLSCF_MS through MultiSetup_PreGER.run_all, FDD/EFDD through
    SingleSetup; then mpe on the stored results (FDD.mpe hand-over was refactored too)."""
    done = 0
    while done < n:
        c = draw_case(rng)
        if c["nxseg"] > 512:  # keep pLSCF quick
            continue
        sd = dict(nxseg=c["nxseg"], method_SD=c["method"], pov=c["pov"])
        pairs = {}
        for tag, (afdd, aplscf) in {"old": (old_afdd, old_aplscf),
                                    "new": (new_afdd, new_aplscf)}.items():
            ms = MultiSetup_PreGER(fs=c["fs"], ref_ind=c["ref_ind"],
                                   datasets=[d.copy() for d in c["datasets"]])
            algs = [afdd.FDD_MS(name="fdd", **sd), afdd.EFDD_MS(name="efdd", **sd),
                    aplscf.pLSCF_MS(name="plscf", ordmax=6, **sd)]
            ms.add_algorithms(*algs)
            ms.run_all()
            ss = SingleSetup(c["rec"].copy(), fs=c["fs"])
            salgs = [afdd.FDD(name="sfdd", **sd), afdd.FSDD(name="sfsdd", **sd)]
            ss.add_algorithms(*salgs)
            ss.run_all()
            pairs[tag] = {a.name: a for a in algs + salgs}
        for name in pairs["old"]:
            ao, an = pairs["old"][name], pairs["new"][name]
            compare_results(ao.result, an.result, f"{name}.run")
            assert ao.run_params.model_dump().keys() == an.run_params.model_dump().keys()
        # mpe on two frequencies inside the band
        freq = pairs["old"]["fdd"].result.freq
        sel = [float(freq[len(freq) // 4]) * 1.01, float(freq[len(freq) // 2])]
        DF = float(4 * (freq[1] - freq[0]))
        for name in ("fdd", "sfdd"):
            ao, an = pairs["old"][name], pairs["new"][name]
            ro = outcome(ao.mpe, sel, DF)
            rn = outcome(an.mpe, sel_freq=sel, DF=DF)
            assert ro[0] == rn[0] and (ro[0] == "ok" or ro[1] is rn[1]), (name, ro, rn)
            compare_results(ao.result, an.result, f"{name}.mpe")
            assert ao.run_params.sel_freq == an.run_params.sel_freq == sel
            assert ao.run_params.DF == an.run_params.DF == DF
        for name in ("efdd", "sfsdd"):
            ao, an = pairs["old"][name], pairs["new"][name]
            kw = dict(DF1=DF, DF2=8 * DF, sppk=1, npmax=6)
            ro = outcome(ao.mpe, sel, **kw)
            rn = outcome(an.mpe, sel, **kw)
            assert ro[0] == rn[0] and (ro[0] == "ok" or ro[1] is rn[1]), (name, ro, rn)
            if ro[0] == "ok":
                same(ao.result.Fn, an.result.Fn, what=f"{name}.Fn")
                same(ao.result.Xi, an.result.Xi, what=f"{name}.Xi")
                same(ao.result.Phi, an.result.Phi, what=f"{name}.Phi")
        # mpe before run: same exception
        for afdd_o, afdd_n in ((old_afdd.FDD_MS, new_afdd.FDD_MS), (old_afdd.FDD, new_afdd.FDD)):
            eo = outcome(afdd_o(name="x", **sd).mpe, sel, DF)
            en = outcome(afdd_n(name="x", **sd).mpe, sel, DF)
            assert eo[0] == en[0] == "exc" and eo[1] is en[1], (eo, en)
        done += 1
        N_CHECKS["classes"] += 1


def check_mpe_from_plot(rng):
    """FDD.mpe_from_plot with the interactive selection replaced by a stub"""

    class StubSFP:
        def __init__(self, algo, freqlim=None, plot="FDD"):
            f = algo.result.freq
            self.result = ([float(f[len(f) // 3]), float(f[len(f) // 2])], None)

    c = draw_case(rng)
    sd = dict(nxseg=min(c["nxseg"], 256), method_SD=c["method"], pov=c["pov"])
    res = {}
    for tag, afdd in (("old", old_afdd), ("new", new_afdd)):
        afdd.SelFromPlot = StubSFP
        ms = MultiSetup_PreGER(fs=c["fs"], ref_ind=c["ref_ind"], datasets=c["datasets"])
        alg = afdd.FDD_MS(name="fdd", **sd)
        ms.add_algorithms(alg)
        ms.run_all()
        alg.mpe_from_plot(freqlim=(0, c["fs"] / 2), DF=c["fs"] / 50)
        res[tag] = alg
    compare_results(res["old"].result, res["new"].result, "mpe_from_plot")
    assert res["old"].run_params.model_dump().keys() == res["new"].run_params.model_dump().keys()
    assert res["old"].run_params.DF == res["new"].run_params.DF
    assert res["old"].result.Fn is not None
    N_CHECKS["classes"] += 1


if __name__ == "__main__":
    rng = np.random.default_rng(20240404)
    check_functions(rng)
    check_exceptions(rng)
    check_classes(rng)
    check_mpe_from_plot(rng)
    print("checks:", N_CHECKS)
    print("largest elementwise relative difference of SD_PreGER Sy: %.2e" % MAXREL["SD_PreGER"])
    print("PASS")
