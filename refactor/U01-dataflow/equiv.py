"""
Equivalence check: refactored SSI code (src/pyoma2) vs pristine copies (orig_*.py).

Run:  cd /tmp/wt/U01 && PYTHONPATH=/tmp/wt/U01/src /venv/bin/python _refactor/equiv.py
All comparisons are EXACT (same type, dtype, shape, values, NaN pattern; real and
imaginary parts compared separately) unless stated otherwise.
"""

import importlib.util
import logging
import os
import sys
import warnings

import numpy as np

warnings.filterwarnings("ignore")
logging.disable(logging.CRITICAL)
os.environ.setdefault("MPLBACKEND", "Agg")

HERE = os.path.dirname(os.path.abspath(__file__))

# tqdm off (progress bars only clutter the output)
import tqdm as _tqdm_mod  # noqa: E402


def _quiet_tqdm(it=None, *a, **k):
    return it


def _quiet_trange(*a, **k):
    return range(*a)


def _load(name, fname):
    spec = importlib.util.spec_from_file_location(name, os.path.join(HERE, fname))
    mod = importlib.util.module_from_spec(spec)
    sys.modules[name] = mod
    spec.loader.exec_module(mod)
    return mod


import pyoma2.algorithms  # noqa: E402,F401  (package needed for the relative import)
from pyoma2.algorithms import ssi as new_algo  # noqa: E402
from pyoma2.functions import ssi as new_f  # noqa: E402
from pyoma2.setup.single import SingleSetup  # noqa: E402

orig_f = _load("orig_functions_ssi", "orig_functions_ssi.py")
orig_algo = _load("pyoma2.algorithms._orig_ssi", "orig_algorithms_ssi.py")
# the pristine algorithm layer must call the pristine numerical layer
orig_algo.ssi = orig_f
assert new_algo.ssi is new_f

for m in (orig_f, new_f):
    m.tqdm = _quiet_tqdm
    m.trange = _quiet_trange

N_CMP = 0
STATS = {}


def same(a, b, path="", tol=None):
    """Exact deep comparison."""
    global N_CMP
    N_CMP += 1
    if a is None or b is None:
        assert a is None and b is None, f"{path}: None mismatch {type(a)} {type(b)}"
        return
    if isinstance(a, (list, tuple)):
        assert type(a) is type(b), f"{path}: type {type(a)} vs {type(b)}"
        assert len(a) == len(b), f"{path}: len {len(a)} vs {len(b)}"
        for i, (x, y) in enumerate(zip(a, b)):
            same(x, y, f"{path}[{i}]", tol)
        return
    if isinstance(a, dict):
        assert a.keys() == b.keys(), f"{path}: keys"
        for k in a:
            same(a[k], b[k], f"{path}.{k}", tol)
        return
    if isinstance(a, np.ndarray) or isinstance(b, np.ndarray) or np.isscalar(a):
        assert type(a) is type(b), f"{path}: type {type(a)} vs {type(b)}"
        a_, b_ = np.asarray(a), np.asarray(b)
        assert a_.dtype == b_.dtype, f"{path}: dtype {a_.dtype} vs {b_.dtype}"
        assert a_.shape == b_.shape, f"{path}: shape {a_.shape} vs {b_.shape}"
        if a_.dtype.kind in "US" or a_.dtype == object:
            assert np.array_equal(a_, b_), f"{path}: values"
            return
        if tol is None:
            ok = np.array_equal(a_.real, b_.real, equal_nan=True) and np.array_equal(
                a_.imag, b_.imag, equal_nan=True
            )
        else:
            ok = np.allclose(a_, b_, rtol=tol, atol=0, equal_nan=True)
        assert ok, f"{path}: values differ (max abs diff {np.nanmax(np.abs(a_ - b_))})"
        return
    assert a == b, f"{path}: {a!r} vs {b!r}"


def both(fo, fn, *args, **kwargs):
    """Call original and new, compare outputs or exceptions; return the new output."""
    ro = rn = eo = en = None
    try:
        ro = fo(*args, **kwargs)
    except Exception as e:  # noqa: BLE001
        eo = e
    try:
        rn = fn(*args, **kwargs)
    except Exception as e:  # noqa: BLE001
        en = e
    if eo is not None or en is not None:
        assert type(eo) is type(en), f"{fo.__name__}: exceptions {eo!r} vs {en!r}"
        if isinstance(eo, (KeyError, AttributeError)):
            assert str(eo) == str(en), f"{fo.__name__}: messages {eo} vs {en}"
        return None
    same(ro, rn, fo.__name__)
    return rn


# ----------------------------------------------------------------------------
# free-vibration data of a linear system with m underdamped modes
# ----------------------------------------------------------------------------
def make_system(rng, m, nch, fs, complex_modes):
    fn = np.sort(rng.uniform(0.02, 0.45, size=m)) * fs
    # keep the frequencies distinct
    while m > 1 and np.min(np.diff(fn)) < 0.01 * fs:
        fn = np.sort(rng.uniform(0.02, 0.45, size=m)) * fs
    xi = rng.uniform(0.002, 0.08, size=m)
    phi = rng.normal(size=(nch, m))
    if complex_modes:
        phi = phi + 1j * 0.4 * rng.normal(size=(nch, m))
    wn = 2 * np.pi * fn
    lam = -xi * wn + 1j * wn * np.sqrt(1 - xi**2)
    return fn, xi, phi, lam


def free_response(rng, lam, phi, fs, ndat, noise=0.0):
    m = len(lam)
    c = rng.uniform(0.5, 1.5, size=m) * np.exp(1j * rng.uniform(0, 2 * np.pi, size=m))
    k = np.arange(ndat)
    mu = np.exp(lam / fs)
    modal = c[:, None] * mu[:, None] ** k[None, :]  # (m, ndat)
    y = 2 * np.real(phi @ modal)  # (nch, ndat)
    if noise:
        y = y + noise * np.std(y) * rng.normal(size=y.shape)
    return y.T.copy()  # (ndat, nch)


# ----------------------------------------------------------------------------
# 1. numerical layer
# ----------------------------------------------------------------------------
def check_functions(rng):
    # ---- build_hank
    for it in range(40):
        l = int(rng.integers(2, 9))
        br = int(rng.integers(2, 12))
        ndat = int(rng.integers(4 * br + 20, 900))
        Y = rng.normal(size=(l, ndat))
        if it % 2:  # time-major storage, as handed over by the algorithm classes
            Y = rng.normal(size=(ndat, l)).T
        if it % 3 == 0:
            Yref = Y
        else:
            nref = int(rng.integers(1, l + 1))
            ref_ind = list(rng.permutation(l)[:nref])  # non ascending on purpose
            Yref = Y[ref_ind, :]
        for method in ("cov_mm", "dat", "cov_R"):
            both(orig_f.build_hank, new_f.build_hank, Y, Yref, br, method)
        if it % 4 == 0:
            nb = int(rng.integers(5, 30))
            both(
                orig_f.build_hank, new_f.build_hank, Y=Y, Yref=Yref, br=br,
                method="cov_mm", calc_unc=True, nb=nb,
            )  # fmt: skip
        if it % 10 == 0:
            both(orig_f.build_hank, new_f.build_hank, Y, Yref, br, "dat", calc_unc=True)
            both(orig_f.build_hank, new_f.build_hank, Y, Yref, br, "nope")
    # integer valued data (exact products, exercises zeros)
    Yi = rng.integers(-3, 4, size=(3, 80)).astype(float)
    for method in ("cov_mm", "dat"):
        both(orig_f.build_hank, new_f.build_hank, Yi, Yi[[2, 0], :], 4, method)

    # ---- ac2mp
    for it in range(60):
        n = int(rng.integers(1, 15))
        nch = int(rng.integers(1, 9))
        A = rng.normal(size=(n, n)) * rng.uniform(0.1, 1.0)
        if it % 5 == 0:  # exact rotation blocks -> repeated moduli / ties
            A = np.kron(np.eye(n), np.array([[0.0, 1.0], [-1.0, 0.0]]))
        C = rng.normal(size=(nch, A.shape[0]))
        if it % 7 == 0:
            C = np.round(C)  # ties in the largest component
        if it % 4 == 0:  # C as a non contiguous slice, as produced by SSI_fast
            big = rng.normal(size=(nch + 3, A.shape[0] + 5))
            C = big[:nch, : A.shape[0]]
        dt = float(rng.uniform(1e-3, 0.1))
        for cu in (False, True, 1):
            both(orig_f.ac2mp, new_f.ac2mp, A, C, dt, calc_unc=cu)
    both(orig_f.ac2mp, new_f.ac2mp, np.array([[0.5]]), np.array([[2.0]]), 0.01)
    both(orig_f.ac2mp, new_f.ac2mp, np.array([[1, 2], [3, 4]]), np.array([[1, 1], [1, 1]]), 0.1)

    # ---- SSI_fast / SSI_poles (random Hankel and exact rank-2m Hankel)
    for it in range(30):
        l = int(rng.integers(2, 7))
        r = int(rng.integers(1, l + 1))
        br = int(rng.integers(2, 9))
        if it % 2 == 0:
            H = rng.normal(size=((br + 1) * l, (br + 1) * r))
        else:
            m = int(rng.integers(1, 4))
            n = 2 * m
            Ad = rng.normal(size=(n, n))
            Ad *= 0.95 / np.max(np.abs(np.linalg.eigvals(Ad)))
            Cd = rng.normal(size=(l, n))
            G = rng.normal(size=(n, r))
            O = np.vstack([Cd @ np.linalg.matrix_power(Ad, k) for k in range(br + 1)])
            Gam = np.hstack([np.linalg.matrix_power(Ad, k) @ G for k in range(br + 1)])
            H = O @ Gam
        ordmax = int(rng.integers(2, min(H.shape) + 1))
        step = int(rng.choice([1, 1, 2, 3]))
        out = both(orig_f.SSI_fast, new_f.SSI_fast, H, br, ordmax, step=step)
        both(orig_f.SSI, new_f.SSI, H, br, ordmax, step=step)
        if out is None:
            continue
        Obs, A, C = out[:3]
        dt = float(rng.uniform(1e-3, 0.05))
        both(orig_f.SSI_poles, new_f.SSI_poles, Obs, A, C, ordmax, dt, step=step)
    # with uncertainty (small sizes, slow otherwise)
    for it in range(4):
        l, br, nb = 3, 3, 12
        r = [3, 2, 1, 2][it]
        Y = rng.normal(size=(l, 400))
        Yref = Y[[2, 0, 1][:r], :]
        H, T = both(orig_f.build_hank, new_f.build_hank, Y, Yref, br, "cov_mm", True, nb)
        ordmax = min(6, (br + 1) * r)
        out = both(
            orig_f.SSI_fast, new_f.SSI_fast, H, br, ordmax, step=1, calc_unc=True, T=T, nb=nb
        )
        Obs, A, C, Q1, Q2, Q3, Q4 = out
        both(
            orig_f.SSI_poles, new_f.SSI_poles, Obs, A, C, ordmax, 0.01,
            step=1, calc_unc=True, Q1=Q1, Q2=Q2, Q3=Q3, Q4=Q4,
        )  # fmt: skip


# ----------------------------------------------------------------------------
# 2. calling layer: SingleSetup -> SSIcov / SSIdat (run, mpe, mpe_from_plot, plots)
# ----------------------------------------------------------------------------
RESULT_FIELDS = [
    "Obs", "A", "C", "H", "Lambds", "Fn_poles", "Xi_poles", "Phi_poles", "Lab",
    "Fn_poles_cov", "Xi_poles_cov", "Phi_poles_cov",
    "Fn", "Xi", "Phi", "order_out", "Fn_cov", "Xi_cov", "Phi_cov",
]  # fmt: skip


def result_dict(algo):
    res = algo.result
    if res is None:
        return None
    d = res.model_dump()
    assert set(RESULT_FIELDS) <= set(d), set(RESULT_FIELDS) - set(d)
    return d


def run_pair(data, fs, cls_name, params, mpe_calls, sfp_result=None):
    """Run the same analysis through the pristine and the refactored classes."""
    outs = []
    for mod in (orig_algo, new_algo):
        log = []
        try:
            algo = getattr(mod, cls_name)(name="alg", **params)
            if cls_name.endswith("_MS"):
                algo._set_data(data=data, fs=fs)
                algo._pre_run()
                algo._set_result(algo.run())
                runner = algo
                call_mpe = algo.mpe
                call_mfp = algo.mpe_from_plot
            else:
                ss = SingleSetup(data.copy(), fs=fs)
                ss.add_algorithms(algo)
                ss.run_by_name("alg")
                runner = ss["alg"]
                call_mpe = lambda *a, **k: ss.mpe("alg", *a, **k)  # noqa: E731
                call_mfp = lambda *a, **k: ss.mpe_from_plot("alg", *a, **k)  # noqa: E731
            log.append(("run", result_dict(runner)))
            for kw in mpe_calls:
                try:
                    call_mpe(**kw)
                    log.append(("mpe", result_dict(runner), runner.run_params.model_dump()))
                except Exception as e:  # noqa: BLE001
                    log.append(("mpe-exc", type(e).__name__, str(e)))
            if sfp_result is not None:

                class FakeSFP:
                    def __init__(self, algo, freqlim=None, plot="SSI"):
                        assert plot == "SSI"
                        self.result = sfp_result

                mod.SelFromPlot = FakeSFP
                try:
                    call_mfp(freqlim=(0.0, fs / 2), rtol=2e-2)
                    log.append(("mfp", result_dict(runner), runner.run_params.model_dump()))
                except Exception as e:  # noqa: BLE001
                    log.append(("mfp-exc", type(e).__name__, str(e)))
        except Exception as e:  # noqa: BLE001
            log.append(("exc", type(e).__name__, str(e)))
        outs.append(log)
    same(outs[0], outs[1], f"{cls_name}{ {k: v for k, v in params.items()} }")
    for entry in outs[1]:
        kind = entry[0] if not entry[0].endswith("exc") else f"{entry[0]}:{entry[1]}"
        STATS[kind] = STATS.get(kind, 0) + 1
        if entry[0] == "run":
            fnp = entry[1]["Fn_poles"]
            STATS["poles kept"] = STATS.get("poles kept", 0) + int(np.sum(~np.isnan(fnp)))
            # entries filled by SSI_poles (row < model order, step 1) but NaN in the result
            filled = np.arange(fnp.shape[0])[:, None] < np.arange(fnp.shape[1])[None, :]
            STATS["poles dropped"] = STATS.get("poles dropped", 0) + int(
                np.sum(np.isnan(fnp) & filled)
            )
            if entry[1]["Fn_poles_cov"] is not None:
                STATS["runs with cov tables"] = STATS.get("runs with cov tables", 0) + 1
    return outs[1]


def check_pipeline(rng):
    n_exact = 0
    for it in range(36):
        m = int(rng.integers(1, 7))
        nch = int(rng.integers(2, 9))
        fs = float(rng.choice([50.0, 100.0, 256.0]))
        cplx = bool(it % 2)
        fn, xi, phi, lam = make_system(rng, m, nch, fs, cplx)
        noise = 0.0 if it % 3 else 0.05  # noisy runs exercise the criteria masks
        ndat = int(rng.integers(500, 1400))
        data = free_response(rng, lam, phi, fs, ndat, noise=noise)

        # reference channels: all / non-ascending subset
        if it % 4 == 0:
            ref_ind = None
            nref = nch
        else:
            nref = int(rng.integers(max(1, nch // 2), nch + 1))
            ref_ind = [int(i) for i in rng.permutation(nch)[:nref]]
        br = int(np.ceil(2 * m / nref)) + int(rng.integers(2, 8))
        ordmax = int(min((br + 1) * nref, 2 * m + int(rng.integers(2, 10))))
        step = 1 if it % 12 else 2  # step=2 fails in SSI_poles (same IndexError in both)
        if step == 2 and ordmax % 2:
            ordmax -= 1
        params = dict(br=br, ordmax=ordmax, step=step, ref_ind=ref_ind)
        if it % 3 == 1:  # user-set criteria limits
            params["hc"] = dict(
                conj=bool(it % 2),
                xi_max=float(rng.uniform(0.03, 0.2)),
                mpc_lim=float(rng.uniform(0.3, 0.95)),
                mpd_lim=float(rng.uniform(0.05, 0.5)),
                cov_max=0.1,
            )
            params["sc"] = dict(
                err_fn=float(rng.uniform(0.005, 0.05)),
                err_xi=float(rng.uniform(0.02, 0.2)),
                err_phi=float(rng.uniform(0.01, 0.1)),
                extra="ignored",
            )
            params["ordmin"] = int(rng.integers(0, 4)) * step
        if it % 6 == 5:
            params["hc"] = dict(conj=False, xi_max=0.5, mpc_lim=0.0, mpd_lim=2.0, cov_max=1)

        o2 = (2 * m) // step if (2 * m) % step == 0 else ordmax // step
        mpe_calls = [
            dict(sel_freq=[float(f) for f in fn], order=int(o2), rtol=1e-2),
            dict(sel_freq=[float(f) for f in fn], order="find_min"),
            dict(
                sel_freq=[float(f) for f in fn[::-1]],
                order=[int(o2)] * m,
                rtol=5e-3,
            ),
            dict(sel_freq=[float(fn[0] * 1.5 + 0.3)], order=int(o2), rtol=1e-6),
            dict(sel_freq=[float(fn[0])], order=2.5),
        ]
        sfp = ([float(f) * 1.001 for f in fn], int(o2))
        for cls_name in ("SSIcov", "SSIdat"):
            log = run_pair(data, fs, cls_name, params, mpe_calls, sfp_result=sfp)
            # C01 on the refactored code (noise free, all orders available)
            if noise == 0.0 and step == 1 and log[0][0] == "run" and log[1][0] == "mpe":
                res = log[1][1]
                if res["Fn"] is not None and len(res["Fn"]) == m:
                    assert np.allclose(res["Fn"], fn, rtol=1e-5), (tag_of(params), res["Fn"], fn)
                    assert np.allclose(res["Xi"], xi, rtol=1e-3, atol=1e-6)
                    n_exact += 1
    assert n_exact >= 20, n_exact

    # explicit method override, uncertainty on, exceptions
    fs = 100.0
    fn, xi, phi, lam = make_system(rng, 2, 3, fs, True)
    data = free_response(rng, lam, phi, fs, 700, noise=0.02)
    base = dict(br=4, ordmax=8)
    mpe_calls = [
        dict(sel_freq=[float(f) for f in fn], order=4, rtol=5e-2),
        dict(sel_freq=[float(f) for f in fn], order="find_min", rtol=5e-2),
        dict(sel_freq=[float(f) for f in fn], order=[4, 6], rtol=5e-2),
    ]
    sfp = ([float(f) for f in fn], 6)
    for extra in (
        dict(calc_unc=True, nb=20),
        dict(calc_unc=True, nb=15, ref_ind=[2, 0], hc=dict(conj=True, xi_max=0.2, mpc_lim=0.1, mpd_lim=1.0, cov_max=1e-3)),
        dict(calc_unc=True, nb=15, hc=dict(conj=False, xi_max=0.2, mpc_lim=0.1, mpd_lim=1.0, cov_max=1e6)),
        dict(method="cov_R"),
        dict(method="dat"),
        dict(method="bogus"),
        dict(hc=dict(conj=True, xi_max=0.1)),  # missing keys -> KeyError
        dict(sc=dict(err_fn=0.01)),  # missing keys -> KeyError
        dict(ref_ind=[0, 7]),  # IndexError
    ):  # fmt: skip
        run_pair(data, fs, "SSIcov", {**base, **extra}, mpe_calls, sfp_result=sfp)
    run_pair(data, fs, "SSIdat", {**base, "calc_unc": True}, mpe_calls, sfp_result=sfp)

    # mpe before run -> ValueError in both
    for mod in (orig_algo, new_algo):
        a = mod.SSIcov(name="x", br=4, ordmax=8)
        for call in (lambda: a.mpe(sel_freq=[1.0], order=2), lambda: a.mpe_from_plot()):
            try:
                call()
                raise AssertionError("expected ValueError")
            except ValueError:
                pass


def tag_of(params):
    return {k: v for k, v in params.items()}


def check_multisetup(rng):
    fs = 100.0
    for it in range(4):
        m = 2
        n_ref, movs = 2, [2, 3, 1][: 2 + it % 2]
        nch = n_ref + sum(movs)
        fn, xi, phi, lam = make_system(rng, m, nch, fs, bool(it % 2))
        Y, start = [], n_ref
        for nm in movs:
            d = free_response(rng, lam, phi, fs, 600, noise=0.02 * (it % 2))
            Y.append({"ref": d[:, :n_ref].T.copy(), "mov": d[:, start : start + nm].T.copy()})
            start += nm
        params = dict(br=6, ordmax=8, step=1 + (it == 3))
        if it >= 2:
            params["hc"] = dict(conj=bool(it % 2), xi_max=0.2, mpc_lim=0.5, mpd_lim=0.6, cov_max=0.2)
        mpe_calls = [
            dict(sel_freq=[float(f) for f in fn], order=4 // params["step"], rtol=5e-2),
            dict(sel_freq=[float(f) for f in fn], order="find_min", rtol=5e-2),
        ]
        for cls_name in ("SSIcov_MS", "SSIdat_MS"):
            run_pair(Y, fs, cls_name, params, mpe_calls, sfp_result=([float(fn[0])], 4 // params["step"]))


def check_plots():
    """plot_* methods were not touched, but they read the result built with **tables."""
    import matplotlib

    matplotlib.use("Agg")
    import matplotlib.pyplot as plt

    rng = np.random.default_rng(5)
    fs = 100.0
    fn, xi, phi, lam = make_system(rng, 2, 3, fs, False)
    data = free_response(rng, lam, phi, fs, 600)
    offs = []
    for mod in (orig_algo, new_algo):
        ss = SingleSetup(data.copy(), fs=fs)
        algo = mod.SSIcov(name="a", br=5, ordmax=10)
        ss.add_algorithms(algo)
        ss.run_by_name("a")
        fig, ax = algo.plot_stab(freqlim=(0, 50), hide_poles=False)
        offs.append([np.asarray(c.get_offsets()) for c in ax.collections])
        fig2, ax2 = algo.plot_cluster(freqlim=(0, 50), hide_poles=False)
        offs[-1] += [np.asarray(c.get_offsets()) for c in ax2.collections]
        plt.close("all")
    same(offs[0], offs[1], "plots")


if __name__ == "__main__":
    rng = np.random.default_rng(20261004)
    check_functions(rng)
    print("functions ok", N_CMP)
    check_pipeline(rng)
    print("pipeline ok", N_CMP)
    check_multisetup(rng)
    print("multisetup ok", N_CMP)
    check_plots()
    print("plots ok", N_CMP)
    print("stats:", dict(sorted(STATS.items())))
    print("PASS")
