"""
Equivalence check: refactored pyoma2.functions.fdd vs. the pristine HEAD copy.

Runs SD_est, SD_PreGER and SD_svalsvec of both modules on random inputs that
cover the quantifier of property C13 and asserts bit-identical outputs
(np.array_equal, same dtype, same shape) and equal exceptions.
"""

import importlib.util
import logging
import os
import sys
import types

import numpy as np

HERE = os.path.dirname(os.path.abspath(__file__))
SRC = os.path.join(os.path.dirname(HERE), "src")
sys.path.insert(0, SRC)
logging.disable(logging.CRITICAL)
os.environ.setdefault("TQDM_DISABLE", "1")

import pyoma2.functions  # noqa: E402
from pyoma2.functions import fdd as new  # noqa: E402

assert os.path.abspath(new.__file__).startswith(SRC), new.__file__


def _load_orig():
    # load as a sub-module of pyoma2.functions so that "from .gen import MAC" works
    name = "pyoma2.functions._orig_fdd"
    spec = importlib.util.spec_from_file_location(
        name, os.path.join(HERE, "orig_fdd.py")
    )
    mod = importlib.util.module_from_spec(spec)
    sys.modules[name] = mod
    spec.loader.exec_module(mod)
    return mod


old = _load_orig()
assert isinstance(old, types.ModuleType) and old is not new
assert not hasattr(old, "_channel_pairs") and hasattr(new, "_channel_pairs")

n_checked = 0
n_exc = 0
max_dev = 0.0


def same(a, b, what):
    global max_dev
    a = np.asarray(a)
    b = np.asarray(b)
    assert a.dtype == b.dtype, (what, a.dtype, b.dtype)
    assert a.shape == b.shape, (what, a.shape, b.shape)
    if not np.array_equal(a, b, equal_nan=True):
        dev = np.max(np.abs(a - b)) / max(np.max(np.abs(a)), 1e-300)
        max_dev = max(max_dev, dev)
        raise AssertionError((what, "not bit-identical, rel dev", dev))


def run_both(fname, make_args, what):
    """call old.<fname> and new.<fname> on independent copies of the arguments"""
    global n_checked, n_exc
    res = []
    for mod in (old, new):
        args, kwargs = make_args()
        try:
            out = getattr(mod, fname)(*args, **kwargs)
            res.append(("ok", out, args))
        except Exception as e:  # noqa: BLE001
            res.append(("exc", (type(e), str(e)), args))
    (k0, o0, a0), (k1, o1, a1) = res
    assert k0 == k1, (what, k0, k1, o0 if k0 == "exc" else None, o1 if k1 == "exc" else None)
    if k0 == "exc":
        assert o0[0] is o1[0], (what, o0, o1)
        n_exc += 1
    else:
        assert len(o0) == len(o1)
        for i, (x, y) in enumerate(zip(o0, o1)):
            same(x, y, (what, "output", i))
    # inputs must be left alike (no new in-place modification of the arguments)
    for x, y in zip(a0, a1):
        if isinstance(x, np.ndarray):
            same(x, y, (what, "input after call"))
    n_checked += 1
    return k0, o0


rng = np.random.default_rng(20261003)

# ---------------------------------------------------------------- SD_est
NXSEG = [16, 32, 50, 64, 100, 128, 256, 500, 1024, 4096]
POV = [0.0, 0.25, 0.5, 0.75]
case = 0
for rep in range(6):
    for nxseg in NXSEG:
        for method in ("per", "cor"):
            case += 1
            n_all = int(rng.integers(1, 9))
            n_ref = int(rng.integers(1, min(4, n_all) + 1))
            pov = POV[int(rng.integers(0, len(POV)))]
            if (nxseg * pov) != int(nxseg * pov):
                pov = 0.5
            fs = float(rng.choice([1.0, 7.3, 100.0, 256.0, 1000.0, 12345.678]))
            nseg = float(rng.uniform(2.0, 6.5))
            ndat = int(nseg * nxseg) + int(rng.integers(0, 7))
            gain = 10.0 ** rng.uniform(-3, 3)
            Yall = gain * rng.standard_normal((n_all, ndat))
            if rep % 3 == 0:
                # reference = leading channels of the record (the library's use)
                ref_idx = np.arange(n_ref)
            else:
                ref_idx = rng.choice(n_all, size=n_ref, replace=False)
            kind = rep % 3
            if kind == 2:
                # delayed, scaled copy + sinusoid at a grid line
                d = int(rng.integers(0, max(nxseg // 64, 1) + 1))
                Yall[-1] = -3.7 * np.roll(Yall[0], d)
                k = int(rng.integers(1, nxseg // 2))
                t = np.arange(ndat) / fs
                Yall[0] += 0.5 * np.cos(2 * np.pi * k * fs / nxseg * t + 0.3)
            Yref0 = Yall[ref_idx].copy()
            dt = 1 / fs

            def mk(Yall=Yall, Yref0=Yref0, dt=dt, nxseg=nxseg, method=method, pov=pov):
                return (Yall.copy(), Yref0.copy(), dt), dict(
                    nxseg=nxseg, method=method, pov=pov
                )

            kind_, out = run_both("SD_est", mk, ("SD_est", case, nxseg, method, pov))
            assert kind_ == "ok"
            freq, Sy = out
            assert Sy.shape == (n_all, n_ref, nxseg // 2 + 1), Sy.shape
            assert freq.shape == (nxseg // 2 + 1,)

            # positional call (as in the algorithms) and identical data/reference object
            def mk2(Yall=Yall, dt=dt, nxseg=nxseg, method=method, pov=pov):
                Y = Yall.copy()
                return (Y, Y, dt, nxseg), dict(method=method, pov=pov)

            run_both("SD_est", mk2, ("SD_est Y,Y", case))

# defaults, other layouts / dtypes, exceptions
Yd = rng.standard_normal((3, 5000))
run_both("SD_est", lambda: ((Yd.copy(), Yd[:2].copy(), 0.01), {}), "defaults")
run_both(
    "SD_est",
    lambda: ((np.asfortranarray(Yd), Yd[:, ::1][1:3], 0.01, 256, "per", 0.5), {}),
    "fortran order",
)
Yt = np.ascontiguousarray(Yd.T)
for m in ("per", "cor"):
    run_both("SD_est", lambda m=m: ((Yt.T, Yt.T[:2], 0.01, 128, m, 0.5), {}), "views")
    run_both(
        "SD_est",
        lambda m=m: ((Yd.astype(np.float32), Yd[:1].astype(np.float32), 0.01, 64, m), {}),
        "float32",
    )
    run_both(
        "SD_est",
        lambda m=m: (((1000 * Yd).astype(np.int64), (1000 * Yd[:2]).astype(np.int64), 0.5, 64, m), {}),
        "int64",
    )
    # length mismatch between data and reference -> same exception
    run_both("SD_est", lambda m=m: ((Yd.copy(), Yd[:2, :4000].copy(), 0.01, 64, m), {}), "mismatch")
    # 1-D input -> same exception
    run_both("SD_est", lambda m=m: ((Yd[0].copy(), Yd[0].copy(), 0.01, 64, m), {}), "1d")
    # non-integer overlap / record shorter than a segment
    run_both("SD_est", lambda m=m: ((Yd.copy(), Yd[:2].copy(), 0.01, 50, m, 0.33), {}), "pov .33")
    run_both("SD_est", lambda m=m: ((Yd[:, :40].copy(), Yd[:2, :40].copy(), 0.01, 64, m), {}), "short")
    run_both("SD_est", lambda m=m: ((Yd.copy(), Yd[:2].copy(), 0.01, 64, m, 1.0), {}), "pov 1")
k, o = run_both("SD_est", lambda: ((Yd.copy(), Yd[:2].copy(), 0.01, 64, "welch"), {}), "bad method")
assert k == "exc"

# ---------------------------------------------------------------- SD_PreGER
case = 0
for rep in range(14):
    for method in ("per", "cor"):
        case += 1
        n_setup = int(rng.integers(1, 4))
        n_ref = int(rng.integers(1, 4))
        nxseg = int(rng.choice([16, 32, 64, 128, 256]))
        pov = float(rng.choice([0.0, 0.25, 0.5, 0.75]))
        fs = float(rng.choice([10.0, 100.0, 333.3]))
        Y = []
        for _ in range(n_setup):
            n_mov = int(rng.integers(1, 5))
            ndat = int(rng.integers(3 * nxseg, 8 * nxseg))
            mix = rng.standard_normal((n_ref + n_mov, n_ref + n_mov + 1))
            data = mix @ rng.standard_normal((n_ref + n_mov + 1, ndat))
            Y.append({"ref": data[:n_ref], "mov": data[n_ref:]})

        def mkp(Y=Y, fs=fs, nxseg=nxseg, pov=pov, method=method):
            Yc = [{k: v.copy() for k, v in d.items()} for d in Y]
            return (Yc, fs), dict(nxseg=nxseg, pov=pov, method=method)

        k, _ = run_both("SD_PreGER", mkp, ("SD_PreGER", case, method))
        assert k == "ok"

Y1 = [{"ref": Yd[:2, :3000], "mov": Yd[2:, :3000]}]
run_both("SD_PreGER", lambda: ((Y1, 100.0), {}), "PreGER defaults")
k, o = run_both("SD_PreGER", lambda: ((Y1, 100.0), dict(method="xx")), "PreGER bad method")
assert k == "exc"
k, o = run_both("SD_PreGER", lambda: (([], 100.0), {}), "PreGER empty")
assert k == "exc"
# singular reference block (two identical reference channels)
Ys = [{"ref": np.vstack([Yd[0, :2000], Yd[0, :2000]]), "mov": Yd[1:, :2000]}]
for m in ("per", "cor"):
    run_both("SD_PreGER", lambda m=m: ((Ys, 50.0), dict(nxseg=64, method=m)), "PreGER singular")

# ---------------------------------------------------------------- SD_svalsvec
for rep in range(12):
    n_all = int(rng.integers(1, 9))
    nxseg = int(rng.choice([16, 64, 256]))
    Yq = rng.standard_normal((n_all, 5 * nxseg))
    for m in ("per", "cor"):
        _, Sy = new.SD_est(Yq, Yq, 0.01, nxseg, method=m, pov=0.5)
        run_both("SD_svalsvec", lambda Sy=Sy: ((Sy.copy(),), {}), ("svalsvec", rep, m))
# rectangular input (more rows than columns / fewer): same result or same exception
_, Srect = new.SD_est(Yd, Yd[:2], 0.01, 64, method="per")
run_both("SD_svalsvec", lambda: ((Srect.copy(),), {}), "svalsvec 3x2")
run_both("SD_svalsvec", lambda: ((np.swapaxes(Srect, 0, 1).copy(),), {}), "svalsvec 2x3")
run_both("SD_svalsvec", lambda: ((np.real(Srect[:2]).copy(),), {}), "svalsvec real")

print(f"cases compared: {n_checked} (of which raising the same exception: {n_exc})")
print("PASS")
