"""
Differential test: SD_PreGER / SD_est of the library on the path (PYTHONPATH=<tree>/src)
against the pristine implementation saved next to this file as orig_fdd.py, on randomly
generated recordings / partitions / run parameters, and through the multi-setup
algorithm classes (FDD_MS, EFDD_MS, pLSCF_MS) after MultiSetup_PreGER.run_all.

Run as:  PYTHONPATH=<tree>/src /venv/bin/python equiv.py
"""
import importlib.util
import logging
import os
import sys
import warnings

import numpy as np

warnings.filterwarnings("ignore")
logging.disable(logging.CRITICAL)
os.environ.setdefault("TQDM_DISABLE", "1")

import pyoma2.functions  # noqa: E402
from pyoma2.functions import fdd as new  # noqa: E402

HERE = os.path.dirname(os.path.abspath(__file__))
spec = importlib.util.spec_from_file_location(
    "pyoma2.functions.orig_fdd", os.path.join(HERE, "orig_fdd.py")
)
orig = importlib.util.module_from_spec(spec)
sys.modules[spec.name] = orig
spec.loader.exec_module(orig)

# silence the progress bars of both implementations
for m in (new, orig):
    m.trange = range

RTOL = 1e-12
failures = []
n_cases = 0


def same(a, b):
    a = np.asarray(a)
    b = np.asarray(b)
    if a.shape != b.shape or a.dtype != b.dtype:
        return False
    if np.array_equal(a, b, equal_nan=True):
        return True
    # element-wise, with an absolute floor tied to the size of the matrix itself;
    # single-precision records can only agree to single precision
    rtol = RTOL if b.dtype.itemsize >= 8 and b.dtype != np.complex64 else 1e-4
    atol = rtol * float(np.nanmax(np.abs(b))) if b.size else 0.0
    return bool(np.allclose(a, b, rtol=rtol, atol=atol, equal_nan=True))


def call(f, *a, **k):
    try:
        return ("ok", f(*a, **k))
    except Exception as e:  # noqa: BLE001
        return ("exc", type(e).__name__)


def compare(tag, r_new, r_old, same_type=True):
    global n_cases
    n_cases += 1
    if r_new[0] != r_old[0]:
        failures.append(f"{tag}: {r_new[0]} vs {r_old[0]} ({r_new[1] if r_new[0]=='exc' else ''}{r_old[1] if r_old[0]=='exc' else ''})")
        return
    if r_new[0] == "exc":
        if same_type and r_new[1] != r_old[1]:
            failures.append(f"{tag}: raises {r_new[1]} vs {r_old[1]}")
        return
    for nm, x, y in zip(("freq", "Sy"), r_new[1], r_old[1]):
        if not same(x, y):
            x, y = np.asarray(x), np.asarray(y)
            d = (
                float(np.nanmax(np.abs(x - y)) / np.nanmax(np.abs(y)))
                if x.shape == y.shape
                else "shape"
            )
            failures.append(f"{tag}: {nm} differs ({x.shape},{x.dtype}) vs ({y.shape},{y.dtype}) rel={d}")


def structure(rng, n_ch, N, fs):
    """coloured multi-channel response: a few modes + noise"""
    t = np.arange(N) / fs
    nm = 3
    f0 = rng.uniform(0.05, 0.4, nm) * fs
    xi = rng.uniform(0.01, 0.03, nm)
    shapes = rng.standard_normal((n_ch, nm))
    q = np.zeros((nm, N))
    for k in range(nm):
        w = rng.standard_normal(N)
        om = 2 * np.pi * f0[k]
        h = np.exp(-xi[k] * om * t[: min(N, 2000)]) * np.sin(om * t[: min(N, 2000)])
        q[k] = np.convolve(w, h)[:N]
        q[k] /= q[k].std()
    return shapes @ q + 0.2 * rng.standard_normal((n_ch, N))


def random_case(rng, shared):
    nxseg = int(rng.choice([64, 128, 256, 512, 1024, 2048]))
    pov = float(rng.choice([0.0, 0.25, 0.5, 0.66, 0.75, rng.uniform(0, 0.75)]))
    method = str(rng.choice(["per", "cor"]))
    fs = float(rng.choice([50.0, 100.0, 256.0, 1000.0]))
    n_setup = int(rng.integers(2, 5))
    n_ref = int(rng.integers(1, 4))
    n_mov = [int(rng.integers(1, 4)) for _ in range(n_setup)]
    nseg = int(rng.integers(4, 12))
    Y = []
    if shared:
        N = nxseg * nseg + int(rng.integers(0, nxseg))
        rec = structure(rng, n_ref + sum(n_mov), N, fs)
        r = n_ref
        for k in range(n_setup):
            g = float(rng.choice([1.0, rng.uniform(0.2, 5.0)]))
            Y.append({"ref": g * rec[:n_ref], "mov": g * rec[r : r + n_mov[k]]})
            r += n_mov[k]
    else:
        for k in range(n_setup):
            N = nxseg * nseg + int(rng.integers(0, 3 * nxseg))
            rec = structure(rng, n_ref + n_mov[k], N, fs)
            Y.append({"ref": rec[:n_ref].copy(), "mov": rec[n_ref:].copy()})
    return Y, fs, nxseg, pov, method


rng = np.random.default_rng(20240404)

# ---------------------------------------------------------------- SD_PreGER
for i in range(36):
    Y, fs, nxseg, pov, method = random_case(rng, shared=(i % 2 == 0))
    tag = f"SD_PreGER[{i}] {method} nxseg={nxseg} pov={pov:.3f} n_ref={Y[0]['ref'].shape[0]} n_setup={len(Y)}"
    compare(
        tag,
        call(new.SD_PreGER, Y, fs, nxseg=nxseg, pov=pov, method=method),
        call(orig.SD_PreGER, Y, fs, nxseg=nxseg, pov=pov, method=method),
    )
    if i % 6 == 0:  # defaults / positional use
        compare(tag + " defaults", call(new.SD_PreGER, Y, fs), call(orig.SD_PreGER, Y, fs))
        compare(
            tag + " positional",
            call(new.SD_PreGER, Y, fs, nxseg, pov, method),
            call(orig.SD_PreGER, Y, fs, nxseg, pov, method),
        )

# the inputs are left alone
Y, fs, nxseg, pov, method = random_case(rng, shared=True)
before = [{k: v.copy() for k, v in d.items()} for d in Y]
new.SD_PreGER(Y, fs, nxseg=nxseg, pov=pov, method="cor")
n_cases += 1
if not all(np.array_equal(b[k], d[k]) for b, d in zip(before, Y) for k in d):
    failures.append("SD_PreGER modified its input records")

# single precision records, unknown estimator
Y32 = [{k: v.astype(np.float32) for k, v in d.items()} for d in Y]
for method in ("per", "cor"):
    compare(
        f"SD_PreGER float32 {method}",
        call(new.SD_PreGER, Y32, fs, nxseg=256, pov=0.5, method=method),
        call(orig.SD_PreGER, Y32, fs, nxseg=256, pov=0.5, method=method),
    )
# an unknown estimator was never validated: the pristine code trips over its empty list
# (IndexError), the estimate helper over its unset result (UnboundLocalError); both fail
compare(
    "SD_PreGER bad method",
    call(new.SD_PreGER, Y, fs, nxseg=256, method="welch"),
    call(orig.SD_PreGER, Y, fs, nxseg=256, method="welch"),
    same_type=False,
)

# ---------------------------------------------------------------- SD_est
for i in range(30):
    nxseg = int(rng.choice([64, 128, 256, 512, 1024, 2048]))
    pov = float(rng.uniform(0, 0.75))
    method = str(rng.choice(["per", "cor"]))
    n_all = int(rng.integers(1, 9))
    N = nxseg * int(rng.integers(1, 9)) + int(rng.integers(0, nxseg))
    Yall = structure(rng, n_all, N, 100.0)
    kind = i % 3
    if kind == 0:
        Yref = Yall  # auto: single-setup call
    elif kind == 1:
        Yref = Yall[rng.permutation(n_all)[: int(rng.integers(1, n_all + 1))]]
    else:
        Yref = Yall.T[:, : max(1, n_all // 2)].T  # non-contiguous view
    dt = 1 / float(rng.choice([50.0, 100.0, 1000.0]))
    tag = f"SD_est[{i}] {method} nxseg={nxseg} pov={pov:.3f} {Yall.shape}x{Yref.shape}"
    compare(
        tag,
        call(new.SD_est, Yall, Yref, dt, nxseg, method=method, pov=pov),
        call(orig.SD_est, Yall, Yref, dt, nxseg, method=method, pov=pov),
    )
    # repeated call (the correlogram window is shared between calls)
    compare(
        tag + " again",
        call(new.SD_est, Yall, Yref, dt, nxseg, method, pov),
        call(orig.SD_est, Yall, Yref, dt, nxseg, method, pov),
    )
compare(
    "SD_est defaults",
    call(new.SD_est, Yall, Yall, 0.01),
    call(orig.SD_est, Yall, Yall, 0.01),
)
compare(
    "SD_est bad method",
    call(new.SD_est, Yall, Yall, 0.01, 256, "welch"),
    call(orig.SD_est, Yall, Yall, 0.01, 256, "welch"),
)

# ---------------------------------------------------------------- algorithm classes
from pyoma2.algorithms import fdd as alg_fdd  # noqa: E402
from pyoma2.algorithms import plscf as alg_plscf  # noqa: E402
from pyoma2.algorithms.fdd import EFDD_MS, FDD_MS  # noqa: E402
from pyoma2.algorithms.plscf import pLSCF_MS  # noqa: E402
from pyoma2.setup import MultiSetup_PreGER  # noqa: E402


class _Patched:
    """route the algorithm layer to the pristine functions"""

    def __enter__(self):
        self.saved = (new.SD_PreGER, new.SD_est)
        new.SD_PreGER, new.SD_est = orig.SD_PreGER, orig.SD_est

    def __exit__(self, *a):
        new.SD_PreGER, new.SD_est = self.saved


assert alg_fdd.fdd is new and alg_plscf.fdd is new


def run_ms(datasets, ref_ind, fs, nxseg, pov, method):
    ms = MultiSetup_PreGER(fs=fs, ref_ind=ref_ind, datasets=datasets)
    algs = [
        FDD_MS(name="FDD", nxseg=nxseg, method_SD=method, pov=pov),
        EFDD_MS(name="EFDD", nxseg=nxseg, method_SD=method, pov=pov),
        pLSCF_MS(name="pLSCF", ordmax=6, nxseg=nxseg, method_SD=method, pov=pov),
    ]
    ms.add_algorithms(*algs)
    ms.run_all()
    return {a.name: (a.result.freq, a.result.Sy) for a in algs}


for i in range(6):
    nxseg = int(rng.choice([64, 128, 256]))
    pov = float(rng.choice([0.0, 0.5, 0.75, rng.uniform(0, 0.75)]))
    method = ["per", "cor"][i % 2]
    fs = 100.0
    n_ref = int(rng.integers(1, 4))
    n_setup = int(rng.integers(2, 4))
    N = nxseg * int(rng.integers(5, 10))
    datasets, ref_ind = [], []
    rec_ref = structure(rng, n_ref, N, fs)
    for k in range(n_setup):
        nm = int(rng.integers(1, 4))
        mov = structure(rng, nm, N, fs) + rec_ref[:1]
        pos = sorted(rng.permutation(n_ref + nm)[:n_ref].tolist())
        pos = list(rng.permutation(pos))  # references anywhere, in any order
        cols = [None] * (n_ref + nm)
        for j, p in enumerate(pos):
            cols[int(p)] = rec_ref[j]
        it = iter(mov)
        cols = [c if c is not None else next(it) for c in cols]
        datasets.append(np.array(cols).T)
        ref_ind.append([int(p) for p in pos])
    r_new = call(run_ms, datasets, ref_ind, fs, nxseg, pov, method)
    with _Patched():
        r_old = call(run_ms, datasets, ref_ind, fs, nxseg, pov, method)
    for name in ("FDD", "EFDD", "pLSCF"):
        tag = f"{name}_MS[{i}] {method} nxseg={nxseg} pov={pov:.3f} ref_ind={ref_ind}"
        if r_new[0] == "ok" and r_old[0] == "ok":
            compare(tag, ("ok", r_new[1][name]), ("ok", r_old[1][name]))
        else:
            compare(tag, r_new, r_old)

print(f"{n_cases} comparisons")
if failures:
    print("FAIL")
    for f in failures[:40]:
        print("  ", f)
    sys.exit(1)
print("PASS")
