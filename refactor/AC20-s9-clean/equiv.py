"""
Differential test: the library in the tree (CLEAN version of the commit) against the
pristine sources saved next to this file (orig_plot.py, orig_ssi.py).

Compared on randomly generated pole tables / configurations:
  * functions.plot.stab_plot and cluster_plot (every artist on the returned axes),
  * SSIdat / SSIcov .plot_stab and .plot_cluster (the touched calling layer),
  * functions.plot.CMIF_plot (untouched, sanity),
  * behaviour on inconsistent input (both sides must raise),
  * the tables handed in are left unchanged by both sides.

Run as:  PYTHONPATH=<tree>/src /venv/bin/python equiv.py     -> prints PASS, exit 0
"""

import importlib.util
import logging
import os
import sys

import matplotlib

matplotlib.use("Agg")
import matplotlib.pyplot as plt  # noqa: E402
import numpy as np  # noqa: E402
from matplotlib.collections import LineCollection, PathCollection  # noqa: E402

logging.disable(logging.CRITICAL)

HERE = os.path.dirname(os.path.abspath(__file__))


def load(modname, filename):
    spec = importlib.util.spec_from_file_location(modname, os.path.join(HERE, filename))
    mod = importlib.util.module_from_spec(spec)
    sys.modules[modname] = mod
    spec.loader.exec_module(mod)
    return mod


import pyoma2.algorithms.ssi as new_ssi  # noqa: E402
import pyoma2.functions.plot as new_plot  # noqa: E402
from pyoma2.algorithms.data.result import SSIResult  # noqa: E402

orig_plot = load("pyoma2.functions._orig_plot", "orig_plot.py")
orig_ssi = load("pyoma2.algorithms._orig_ssi", "orig_ssi.py")
orig_ssi.plot = orig_plot  # the pristine classes draw with the pristine functions

RTOL = 1e-12
failures = []
n_cases = 0


def arr_eq(a, b):
    a = np.ma.filled(np.ma.asarray(a, dtype=float), np.nan)
    b = np.ma.filled(np.ma.asarray(b, dtype=float), np.nan)
    return a.shape == b.shape and np.allclose(a, b, rtol=RTOL, atol=0, equal_nan=True)


def snapshot(ax):
    """Everything the diagrams put on an axes, in drawing order."""
    out = {"lines": [], "collections": []}
    for ln in ax.lines:
        out["lines"].append(
            dict(
                x=np.asarray(ln.get_xdata(), float),
                y=np.asarray(ln.get_ydata(), float),
                meta=(
                    str(ln.get_marker()),
                    str(ln.get_linestyle()),
                    matplotlib.colors.to_hex(ln.get_color()),
                    float(ln.get_markersize()),
                    float(ln.get_linewidth()),
                    str(ln.get_label()) if not str(ln.get_label()).startswith("_") else "_",
                ),
            )
        )
    for co in ax.collections:
        item = dict(kind=type(co).__name__, label=str(co.get_label()))
        if str(co.get_label()).startswith("_"):
            item["label"] = "_"
        if isinstance(co, PathCollection):
            item["data"] = [np.ma.filled(np.ma.asarray(co.get_offsets(), float), np.nan)]
            item["sizes"] = np.asarray(co.get_sizes(), float)
            item["colors"] = np.asarray(co.get_facecolor(), float)
        elif isinstance(co, LineCollection):
            item["data"] = [np.asarray(s, float) for s in co.get_segments()]
            item["sizes"] = np.asarray(co.get_linewidth(), float)
            item["colors"] = np.asarray(co.get_color(), float)
        else:
            item["data"] = []
            item["sizes"] = np.zeros(0)
            item["colors"] = np.zeros(0)
        out["collections"].append(item)
    leg = ax.get_legend()
    out["legend"] = None if leg is None else [t.get_text() for t in leg.get_texts()]
    out["texts"] = (ax.get_title(), ax.get_xlabel(), ax.get_ylabel())
    out["xlim"] = np.asarray(ax.get_xlim(), float)
    out["ylim"] = np.asarray(ax.get_ylim(), float)
    return out


def compare_snap(a, b):
    if len(a["lines"]) != len(b["lines"]):
        return f"number of lines {len(a['lines'])} != {len(b['lines'])}"
    for i, (la, lb) in enumerate(zip(a["lines"], b["lines"])):
        if la["meta"] != lb["meta"]:
            return f"line {i} style {la['meta']} != {lb['meta']}"
        if not (arr_eq(la["x"], lb["x"]) and arr_eq(la["y"], lb["y"])):
            return f"line {i} data differ"
    if len(a["collections"]) != len(b["collections"]):
        return f"number of collections {len(a['collections'])} != {len(b['collections'])}"
    for i, (ca, cb) in enumerate(zip(a["collections"], b["collections"])):
        if (ca["kind"], ca["label"]) != (cb["kind"], cb["label"]):
            return f"collection {i}: {(ca['kind'], ca['label'])} != {(cb['kind'], cb['label'])}"
        if len(ca["data"]) != len(cb["data"]):
            return f"collection {i}: number of items differ"
        for da, db in zip(ca["data"], cb["data"]):
            if not arr_eq(da, db):
                return f"collection {i}: data differ"
        if not (arr_eq(ca["sizes"], cb["sizes"]) and arr_eq(ca["colors"], cb["colors"])):
            return f"collection {i}: sizes / colours differ"
    for key in ("legend", "texts"):
        if a[key] != b[key]:
            return f"{key}: {a[key]} != {b[key]}"
    for key in ("xlim", "ylim"):
        if not arr_eq(a[key], b[key]):
            return f"{key}: {a[key]} != {b[key]}"
    return None


def run(func, *args, **kwargs):
    """Outcome of a call: ('ok', snapshot) or ('exc', exception type)."""
    try:
        fig, ax = func(*args, **kwargs)
    except Exception as e:  # noqa: BLE001
        plt.close("all")
        return "exc", type(e)
    snap = snapshot(ax)
    plt.close(fig)
    return "ok", snap


def compare(tag, new, old, strict_exc=True):
    global n_cases
    n_cases += 1
    if new[0] != old[0]:
        failures.append(f"{tag}: new -> {new[0]} {new[1] if new[0] == 'exc' else ''}, "
                        f"original -> {old[0]} {old[1] if old[0] == 'exc' else ''}")
        return
    if new[0] == "exc":
        if strict_exc and new[1] is not old[1]:
            failures.append(f"{tag}: exception {new[1].__name__} != {old[1].__name__}")
        return
    msg = compare_snap(new[1], old[1])
    if msg:
        failures.append(f"{tag}: {msg}")


def make_tables(rng):
    big = rng.random() < 0.15  # now and then a table of the largest size in use
    n_rows = int(rng.integers(1, 61 if big else 25))
    n_cols = int(rng.integers(1, 62 if big else 26))
    Fn = rng.uniform(0.1, 40.0, size=(n_rows, n_cols))
    Xi = rng.uniform(-0.01, 0.12, size=(n_rows, n_cols))
    Lab = (rng.random((n_rows, n_cols)) < rng.uniform(0, 1)).astype(int)
    Fn_cov = rng.uniform(0.0, 0.3, size=(n_rows, n_cols))
    pattern = int(rng.integers(0, 4))
    if pattern >= 1:  # rejected poles, same pattern everywhere
        rej = rng.random((n_rows, n_cols)) < rng.uniform(0, 0.8)
        Fn[rej] = np.nan
        Xi[rej] = np.nan
        Fn_cov[rej] = np.nan
        if pattern == 1:
            Lab[rej] = 0
    if pattern == 3:  # independent NaN patterns
        Xi[rng.random((n_rows, n_cols)) < 0.2] = np.nan
        Fn_cov[rng.random((n_rows, n_cols)) < 0.2] = np.nan
    if rng.random() < 0.2:
        Lab = Lab.astype(float)
    if rng.random() < 0.2:  # column-major storage
        Fn, Xi, Lab, Fn_cov = (np.asfortranarray(a) for a in (Fn, Xi, Lab, Fn_cov))
    return Fn, Xi, Lab, Fn_cov


def unchanged(tag, before, after):
    for name, b, a in zip(("Fn", "Xi", "Lab", "Fn_cov"), before, after):
        if not (np.array_equal(b, a, equal_nan=True) and b.dtype == a.dtype):
            failures.append(f"{tag}: input table {name} altered")


# ----------------------------------------------------------------------------
rng = np.random.default_rng(2020)

# 1. the functions
for case in range(26):
    Fn, Xi, Lab, Fn_cov = make_tables(rng)
    before = [a.copy() for a in (Fn, Xi, Lab, Fn_cov)]
    step = int(rng.integers(1, 5))
    ordmax = (Fn.shape[1] - 1) * step
    ordmin = int(rng.integers(0, 5))
    for hide in (True, False):
        for cov in (None, Fn_cov):
            freqlim = None if rng.random() < 0.5 else tuple(np.sort(rng.uniform(0, 40, 2)))
            kw = dict(ordmin=ordmin, freqlim=freqlim, hide_poles=hide, Fn_cov=cov)
            tag = f"stab_plot case {case} shape={Fn.shape} step={step} hide={hide} cov={cov is not None}"
            compare(
                tag,
                run(new_plot.stab_plot, Fn, Lab, step, ordmax, **kw),
                run(orig_plot.stab_plot, Fn, Lab, step, ordmax, **kw),
            )
        freqlim = None if rng.random() < 0.5 else tuple(np.sort(rng.uniform(0, 40, 2)))
        tag = f"cluster_plot case {case} shape={Fn.shape} hide={hide}"
        compare(
            tag,
            run(new_plot.cluster_plot, Fn, Xi, Lab, ordmin=ordmin, freqlim=freqlim, hide_poles=hide),
            run(orig_plot.cluster_plot, Fn, Xi, Lab, ordmin=ordmin, freqlim=freqlim, hide_poles=hide),
        )
    unchanged(f"functions case {case}", before, (Fn, Xi, Lab, Fn_cov))

# drawing on axes supplied by the caller
for case in range(5):
    Fn, Xi, Lab, Fn_cov = make_tables(rng)
    outs = []
    for mod in (new_plot, orig_plot):
        fig, ax = plt.subplots()
        outs.append(run(mod.stab_plot, Fn, Lab, 1, Fn.shape[1], hide_poles=False, fig=fig, ax=ax))
    compare(f"stab_plot on given axes, case {case}", *outs)

# inconsistent input: both sides must refuse it (the kind of exception is not compared:
# numpy reports a shape mismatch from a different routine)
for case in range(5):
    Fn, Xi, Lab, Fn_cov = make_tables(rng)
    if Fn.shape[0] < 4 or Fn.shape[1] < 4:
        Fn, Xi, Lab, Fn_cov = (np.resize(a, (6, 7)) for a in (Fn, Xi, Lab, Fn_cov))
    bad = Lab[:-2, :-1]
    for hide in (True, False):
        compare(
            f"stab_plot wrong label shape, case {case}",
            run(new_plot.stab_plot, Fn, bad, 1, Fn.shape[1], hide_poles=hide),
            run(orig_plot.stab_plot, Fn, bad, 1, Fn.shape[1], hide_poles=hide),
            strict_exc=False,
        )
        compare(
            f"cluster_plot wrong label shape, case {case}",
            run(new_plot.cluster_plot, Fn, Xi, bad, hide_poles=hide),
            run(orig_plot.cluster_plot, Fn, Xi, bad, hide_poles=hide),
            strict_exc=False,
        )

# 2. the algorithm classes (SSIdat / SSIcov and the multi-setup ones share the methods)
for case in range(20):
    Fn, Xi, Lab, Fn_cov = make_tables(rng)
    before = [a.copy() for a in (Fn, Xi, Lab, Fn_cov)]
    with_cov = rng.random() < 0.5
    step = int(rng.integers(1, 4))
    ordmax = max((Fn.shape[1] - 1) * step, 1)
    ordmin = int(rng.integers(0, 4))
    clsname = ["SSIdat", "SSIcov", "SSIdat_MS", "SSIcov_MS"][case % 4]
    algos = []
    for mod in (new_ssi, orig_ssi):
        algo = getattr(mod, clsname)(name="a", br=5, ordmax=ordmax, ordmin=ordmin, step=step)
        algo.result = SSIResult(
            Fn_poles=Fn, Xi_poles=Xi, Lab=Lab, Fn_poles_cov=Fn_cov if with_cov else None
        )
        algos.append(algo)
    for hide in (True, False):
        freqlim = None if rng.random() < 0.5 else tuple(np.sort(rng.uniform(0, 40, 2)))
        tag = f"{clsname}.plot_stab case {case} shape={Fn.shape} hide={hide} cov={with_cov}"
        compare(tag, *(run(a.plot_stab, freqlim=freqlim, hide_poles=hide) for a in algos))
        tag = f"{clsname}.plot_cluster case {case} shape={Fn.shape} hide={hide}"
        compare(tag, *(run(a.plot_cluster, freqlim=freqlim, hide_poles=hide) for a in algos))
    for a in algos:
        r = a.result
        unchanged(f"{clsname} case {case}", before, (r.Fn_poles, r.Xi_poles, r.Lab, Fn_cov))
        for arr in (r.Fn_poles, r.Xi_poles, r.Lab):
            if not arr.flags.writeable:
                failures.append(f"{clsname} case {case}: result array became read-only")
# not run yet -> same refusal
for clsname in ("SSIdat", "SSIcov"):
    algos = [getattr(m, clsname)(name="a", br=5, ordmax=10) for m in (new_ssi, orig_ssi)]
    compare(f"{clsname}.plot_stab before run", *(run(a.plot_stab) for a in algos))
    compare(f"{clsname}.plot_cluster before run", *(run(a.plot_cluster) for a in algos))

# 3. CMIF_plot (not touched by the commit)
for case in range(6):
    nch, nf = int(rng.integers(2, 7)), int(rng.integers(16, 300))
    sv = np.sort(rng.uniform(1e-8, 10.0, size=(nch, nf)), axis=0)[::-1]
    S_val = np.zeros((nch, nch, nf))
    for k in range(nch):
        S_val[k, k] = sv[k]
    freq = np.linspace(0, 25, nf)
    for nSv in ("all", int(rng.integers(1, nch)), nch, "x"):
        compare(
            f"CMIF_plot case {case} nSv={nSv}",
            run(new_plot.CMIF_plot, S_val, freq, nSv=nSv),
            run(orig_plot.CMIF_plot, S_val, freq, nSv=nSv),
        )

if failures:
    print(f"FAIL ({len(failures)} of {n_cases} comparisons)")
    for f in failures[:15]:
        print("  -", f)
    sys.exit(1)
print(f"PASS ({n_cases} comparisons)")
sys.exit(0)
