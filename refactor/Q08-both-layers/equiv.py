"""
Equivalence check for the Q08 (property C08) refactoring.

Runs the refactored code (src/pyoma2/functions/ssi.py, src/pyoma2/algorithms/ssi.py)
and the pristine HEAD copies (orig_functions_ssi.py, orig_algorithms_ssi.py) on the
same random inputs and asserts identical outputs / identical exceptions.

    PYTHONPATH=/tmp/wt/Q08/src /venv/bin/python /tmp/wt/Q08/_refactor/equiv.py
"""

import importlib.util
import logging
import os
import sys
import warnings

import numpy as np

os.environ.setdefault("MPLBACKEND", "Agg")
os.environ["TQDM_DISABLE"] = "1"
warnings.filterwarnings("ignore")
logging.disable(logging.CRITICAL)

HERE = os.path.dirname(os.path.abspath(__file__))

import pyoma2.algorithms  # noqa: E402  (package must exist before loading the copies)
import pyoma2.algorithms.ssi as new_alg  # noqa: E402
import pyoma2.functions.ssi as new_fn  # noqa: E402
from pyoma2.setup import MultiSetup_PreGER, SingleSetup  # noqa: E402

assert new_fn.__file__.startswith("/tmp/wt/Q08/src"), new_fn.__file__
assert new_alg.__file__.startswith("/tmp/wt/Q08/src"), new_alg.__file__


def _load(modname, filename):
    spec = importlib.util.spec_from_file_location(modname, os.path.join(HERE, filename))
    mod = importlib.util.module_from_spec(spec)
    sys.modules[modname] = mod
    spec.loader.exec_module(mod)
    return mod


orig_fn = _load("pyoma2.functions._orig_ssi", "orig_functions_ssi.py")
# loaded as a member of the package so that `from .base import BaseAlgorithm` works
orig_alg = _load("pyoma2.algorithms._orig_ssi", "orig_algorithms_ssi.py")
# the pristine algorithm classes must call the pristine numerical routines
orig_alg.ssi = orig_fn
assert new_alg.ssi is new_fn

N_CMP = 0
N_PLOT_OK = [0]
N_UNC = {"runs": 0, "finite_fn_cov": 0, "finite_xi_cov": 0}
N_MPE = {"ok": 0, "exc": 0}
EXACT = True  # bitwise comparison (NaN == NaN); no tolerance needed


def same(a, b, where=""):
    """Recursive exact comparison (type, shape, dtype, values, NaN pattern)."""
    global N_CMP
    N_CMP += 1
    if a is None or b is None:
        assert a is None and b is None, f"{where}: None mismatch {type(a)} {type(b)}"
        return
    if isinstance(a, (list, tuple)):
        assert type(a) is type(b) and len(a) == len(b), f"{where}: container mismatch"
        for k, (x, y) in enumerate(zip(a, b)):
            same(x, y, f"{where}[{k}]")
        return
    if isinstance(a, dict):
        assert a.keys() == b.keys(), f"{where}: keys"
        for k in a:
            same(a[k], b[k], f"{where}.{k}")
        return
    if isinstance(a, np.ndarray) or isinstance(b, np.ndarray):
        assert isinstance(a, np.ndarray) and isinstance(b, np.ndarray), f"{where}: type"
        assert a.shape == b.shape, f"{where}: shape {a.shape} vs {b.shape}"
        assert a.dtype == b.dtype, f"{where}: dtype {a.dtype} vs {b.dtype}"
        if a.dtype.kind in "fc":
            ok = np.array_equal(a, b, equal_nan=True)
            if not ok and not EXACT:
                ok = np.allclose(a, b, rtol=1e-13, atol=0, equal_nan=True)
            assert ok, f"{where}: values differ, max abs diff {np.nanmax(np.abs(a - b))}"
        else:
            assert np.array_equal(a, b), f"{where}: values differ"
        return
    assert type(a) is type(b), f"{where}: type {type(a)} vs {type(b)}"
    if isinstance(a, float) and np.isnan(a):
        assert np.isnan(b), where
    else:
        assert a == b, f"{where}: {a!r} vs {b!r}"


def call(f, *args, **kwargs):
    try:
        return ("ok", f(*args, **kwargs))
    except Exception as e:  # noqa: BLE001
        return ("exc", type(e), str(e))


def both(name, where, *args, **kwargs):
    """Call `name` of the new and of the original functions module; compare."""
    r_new = call(getattr(new_fn, name), *args, **kwargs)
    r_old = call(getattr(orig_fn, name), *args, **kwargs)
    assert r_new[0] == r_old[0], f"{where}: {r_new[:2]} vs {r_old[:2]}"
    if r_new[0] == "exc":
        assert r_new[1:] == r_old[1:], f"{where}: exceptions differ {r_new} vs {r_old}"
        return None
    same(r_new[1], r_old[1], where)
    return r_new[1]


# --------------------------------------------------------------------------
# data generators
# --------------------------------------------------------------------------
def response(rng, nch, ndat, fs, kind):
    """Noisy random response or free decay of a few damped modes."""
    nm = int(rng.integers(1, 4))
    t = np.arange(ndat) / fs
    fn = rng.uniform(0.03, 0.4, nm) * fs
    xi = rng.uniform(0.005, 0.04, nm)
    shapes = rng.standard_normal((nm, nch))
    y = np.zeros((ndat, nch))
    for m in range(nm):
        wn = 2 * np.pi * fn[m]
        wd = wn * np.sqrt(1 - xi[m] ** 2)
        h = np.exp(-xi[m] * wn * t) * np.sin(wd * t)
        if kind == "decay":
            q = h * rng.uniform(0.5, 2)
        else:
            q = np.convolve(rng.standard_normal(ndat), h)[:ndat]
        y += np.outer(q, shapes[m])
    y /= np.max(np.abs(y))
    y += rng.uniform(0.001, 0.05) * rng.standard_normal(y.shape)
    return y


def random_orthogonal(rng, n):
    q, _ = np.linalg.qr(rng.standard_normal((n, n)))
    return q


def transformed(rng, y, variant):
    """gain / permutation / orthogonal mixing variants of a data set."""
    nch = y.shape[1]
    if variant == "plain":
        return y
    if variant == "gain":
        return y * 10 ** rng.uniform(-6, 6) * rng.choice([-1, 1])
    if variant == "perm":
        return y[:, rng.permutation(nch)]
    if variant == "mix":
        return y @ random_orthogonal(rng, nch)
    raise ValueError(variant)


# --------------------------------------------------------------------------
# 1. numerical routines
# --------------------------------------------------------------------------
def check_functions(rng):
    n_cases = 0
    for it in range(48):
        nch = int(rng.integers(2, 9))
        ndat = int(rng.integers(300, 900))
        fs = float(10 ** rng.uniform(0, 3))
        y = response(rng, nch, ndat, fs, ["decay", "random"][it % 2])
        y = transformed(rng, y, ["plain", "gain", "perm", "mix"][it % 4])
        Y = y.T if it % 3 else np.ascontiguousarray(y.T)
        if it % 2:
            nref = int(rng.integers(1, nch + 1))
            ref_ind = list(rng.permutation(nch)[:nref])
            Yref = Y[ref_ind, :]
        else:
            Yref = Y
        br = int(rng.integers(2, 9))
        method = ["cov_mm", "cov_R", "dat"][it % 3]
        H, T_none = both("build_hank", f"build_hank[{it},{method}]", Y, Yref, br, method)
        assert T_none is None
        n_cases += 1

        # positional / keyword call with uncertainty (only valid for cov_mm)
        nb = int(rng.integers(3, 12))
        Hu = both(
            "build_hank",
            f"build_hank_unc[{it},{method}]",
            Y=Y,
            Yref=Yref,
            br=br,
            method=method,
            calc_unc=True,
            nb=nb,
        )
        # truthy-but-not-True flag must keep taking the "no uncertainty" branch
        both("build_hank", f"build_hank_1[{it}]", Y, Yref, br, method, 1, nb)

        ordmax = int(rng.integers(2, min(H.shape[0] - nch, H.shape[1], 16) + 1))
        step = 1 if it % 8 else 2  # step > 1: both versions must fail the same way
        k = float(10 ** rng.uniform(-2, 2))
        dt = 1 / (k * fs)

        # state-space matrices from the (unchanged) SSI_fast of the new module
        Obs, A, C, *_ = new_fn.SSI_fast(H, br, ordmax, step=step)
        for o in range(1, len(A)):
            both("ac2mp", f"ac2mp[{it},{o}]", A[o], C[o], dt)
            both("ac2mp", f"ac2mp_unc[{it},{o}]", A[o], C[o], dt, calc_unc=True)
        both("SSI_poles", f"SSI_poles[{it}]", Obs, A, C, ordmax, dt, step=step)
        both("SSI_poles", f"SSI_poles1[{it}]", Obs, A, C, ordmax, dt, step, 1)

        # full uncertainty chain on small problems (it is expensive)
        if Hu is not None and it % 2 == 0:
            Hh, T = Hu
            om = int(min(ordmax, 6))
            Obs, A, C, Q1, Q2, Q3, Q4 = new_fn.SSI_fast(
                Hh, br, om, step=1, calc_unc=True, T=T, nb=nb
            )
            both(
                "SSI_poles",
                f"SSI_poles_unc[{it}]",
                Obs,
                A,
                C,
                om,
                dt,
                step=1,
                calc_unc=True,
                Q1=Q1,
                Q2=Q2,
                Q3=Q3,
                Q4=Q4,
            )

    # ac2mp on plain random state-space pairs, including NaN / defective cases
    for it in range(40):
        n = int(rng.integers(1, 13))
        nch = int(rng.integers(1, 9))
        A = rng.standard_normal((n, n)) * rng.uniform(0.1, 1.5)
        C = rng.standard_normal((nch, n)) * 10 ** rng.uniform(-6, 6)
        if it % 10 == 7:
            C[:, 0] = 0.0  # zero mode shape -> division by zero, NaN pattern
        if it % 10 == 8:
            A[:] = 0.0  # log(0)
        if it % 10 == 9:
            C[0, 0] = np.nan
        dt = float(10 ** rng.uniform(-4, 1))
        both("ac2mp", f"ac2mp_rand[{it}]", A, C, dt, calc_unc=bool(it % 2))
        n_cases += 1

    # invalid arguments: same exceptions
    Y = rng.standard_normal((3, 200))
    both("build_hank", "bad_method", Y, Y, 4, "nope")
    both("build_hank", "unc_dat", Y, Y, 4, "dat", True)
    both("build_hank", "too_short", Y[:, :9], Y[:, :9], 4, "cov_mm")
    both("build_hank", "too_short_dat", Y[:, :9], Y[:, :9], 4, "dat")
    both("build_hank", "too_short_R", Y[:, :5], Y[:, :5], 4, "cov_R")

    # multi-setup routine (unchanged itself, but it calls build_hank)
    for it in range(9):
        nset = int(rng.integers(2, 4))
        nref = int(rng.integers(1, 3))
        Ys = []
        for _ in range(nset):
            nmov = int(rng.integers(1, 4))
            d = response(rng, nref + nmov, 500, 50.0, "random").T
            Ys.append({"ref": d[:nref], "mov": d[nref:]})
        br = int(rng.integers(3, 8))
        method = ["cov_mm", "cov_R", "dat"][it % 3]
        ordmax = int(rng.integers(2, nref * br + 1))
        both("SSI_multi_setup", f"SSI_ms[{it}]", Ys, 50.0, br, ordmax, method)
    return n_cases


# --------------------------------------------------------------------------
# 2. calling layer (through SingleSetup / MultiSetup_PreGER)
# --------------------------------------------------------------------------
RESULT_FIELDS = list(new_alg.SSIResult.model_fields)


def compare_results(a_new, a_old, where):
    for field in RESULT_FIELDS:
        same(getattr(a_new.result, field), getattr(a_old.result, field), f"{where}.{field}")
    same(a_new.run_params.model_dump(), a_old.run_params.model_dump(), f"{where}.rp")


class FakeSelFromPlot:
    """Stands in for the interactive window: returns a fixed selection."""

    selection = None

    def __init__(self, algo, freqlim=None, plot="SSI"):
        assert plot == "SSI"
        self.result = FakeSelFromPlot.selection


new_alg.SelFromPlot = FakeSelFromPlot
orig_alg.SelFromPlot = FakeSelFromPlot


def pick_selection(rng, res, nsel):
    """Frequencies of existing poles of one order + that order."""
    Fn = res.Fn_poles
    cols = [c for c in range(Fn.shape[1]) if np.sum(~np.isnan(Fn[:, c])) >= 1]
    if not cols:
        return [1.0], 1
    order = int(rng.choice(cols))
    vals = np.unique(Fn[:, order][~np.isnan(Fn[:, order])])
    sel = list(rng.choice(vals, size=min(nsel, len(vals)), replace=False))
    return [float(v) * (1 + 1e-4) for v in sel], order


def stable_selection(res):
    """A selection for which order='find_min' finds something, if possible."""
    Fn, Lab = res.Fn_poles, res.Lab
    for c in range(Fn.shape[1]):
        v = np.unique(Fn[:, c][(Lab[:, c] == 1) & ~np.isnan(Fn[:, c])])
        if len(v):
            return [float(v[0])]
    return [1.0]


def run_mpe_variants(rng, st_new, st_old, name, where):
    a_new, a_old = st_new[name], st_old[name]
    sel, order = pick_selection(rng, a_new.result, int(rng.integers(1, 4)))
    variants = [
        dict(sel_freq=sel, order=order),
        dict(sel_freq=sel, order=order, rtol=1e-3),
        dict(sel_freq=sel, order=[order] * len(sel), rtol=0.02),
        dict(sel_freq=stable_selection(a_new.result), order="find_min"),
        dict(sel_freq=[1e9], order="find_min"),
        dict(sel_freq=sel, order=2.5),  # invalid -> AttributeError in both
    ]
    for iv, kw in enumerate(variants):
        r_new = call(st_new.mpe, name, **kw)
        r_old = call(st_old.mpe, name, **kw)
        assert r_new[0] == r_old[0], f"{where}.mpe{iv}: {r_new} vs {r_old}"
        N_MPE[r_new[0]] += 1
        if r_new[0] == "exc":
            assert r_new[1:] == r_old[1:], f"{where}.mpe{iv}: {r_new} vs {r_old}"
        else:
            same(r_new[1], r_old[1], f"{where}.mpe{iv}.ret")
        compare_results(a_new, a_old, f"{where}.mpe{iv}")

    FakeSelFromPlot.selection = (sel, order)
    r_new = call(st_new.mpe_from_plot, name, freqlim=(0, 10), rtol=0.03)
    r_old = call(st_old.mpe_from_plot, name, freqlim=(0, 10), rtol=0.03)
    assert r_new[:2] == r_old[:2], f"{where}.mpe_from_plot: {r_new} vs {r_old}"
    if r_new[0] == "exc":
        assert r_new == r_old, f"{where}.mpe_from_plot: {r_new} vs {r_old}"
    else:
        N_PLOT_OK[0] += 1
    compare_results(a_new, a_old, f"{where}.mpe_from_plot")
    FakeSelFromPlot.selection = ([s for s in sel], [order] * len(sel))
    r_new = call(st_new.mpe_from_plot, name)
    r_old = call(st_old.mpe_from_plot, name)
    assert r_new[:2] == r_old[:2], f"{where}.mpe_from_plot_list: {r_new} vs {r_old}"
    compare_results(a_new, a_old, f"{where}.mpe_from_plot_list")
    # the selection is 1e-4 (relative) off the poles: a tight rtol finds nothing
    FakeSelFromPlot.selection = (sel, order)
    r_new = call(st_new.mpe_from_plot, name, rtol=1e-6)
    r_old = call(st_old.mpe_from_plot, name, rtol=1e-6)
    assert r_new[:2] == r_old[:2], f"{where}.mpe_from_plot_tight: {r_new} vs {r_old}"
    compare_results(a_new, a_old, f"{where}.mpe_from_plot_tight")


def check_single(rng):
    n = 0
    for it in range(28):
        nch = int(rng.integers(2, 9))
        ndat = int(rng.integers(400, 1000))
        fs = float(10 ** rng.uniform(0, 3))
        y = response(rng, nch, ndat, fs, ["random", "decay"][it % 2])
        y = transformed(rng, y, ["plain", "gain", "perm", "mix"][it % 4])
        k = float(10 ** rng.uniform(-2, 2))
        br = int(rng.integers(3, 9))
        nref = int(rng.integers(1, nch + 1))
        ref_ind = [int(i) for i in rng.permutation(nch)[:nref]] if it % 2 else None
        ordmax = int(rng.integers(3, (nref if ref_ind else nch) * br + 1))
        ordmax = min(ordmax, 16)
        common = dict(br=br, ordmax=ordmax, ref_ind=ref_ind)
        if it % 3 == 0:
            common["ordmin"] = int(rng.integers(0, 3))
        if it % 4 == 1:
            common["hc"] = dict(
                conj=False, xi_max=0.2, mpc_lim=0.5, mpd_lim=0.5, cov_max=0.5
            )
            common["sc"] = dict(err_fn=0.05, err_xi=0.1, err_phi=0.1)
        if it % 9 == 4:
            common["step"] = 2  # fails in SSI_poles in both versions
        specs = [
            ("SSIdat", {}),
            ("SSIdat", dict(method="cov_R")),  # run-param method overrides the class one
            ("SSIcov", {}),
            ("SSIcov", dict(method="cov_R")),
            ("SSIcov", dict(method="dat")),
        ]
        if it % 2 == 0:
            # uncertainty chain; loose hard criteria in half of the cases so that
            # finite covariances survive and reach the result / mpe
            unc = dict(
                method="cov_mm",
                calc_unc=True,
                nb=int(rng.integers(3, 9)),
                ordmax=min(ordmax, 7),
            )
            if it % 4 == 0:
                unc["hc"] = dict(
                    conj=False, xi_max=1.0, mpc_lim=0.0, mpd_lim=1.0, cov_max=1e9
                )
            specs.append(("SSIcov", unc))
        setups = []
        for mod in (new_alg, orig_alg):
            st = SingleSetup(y.copy(), fs=k * fs)
            algs = [
                getattr(mod, cls)(name=f"a{j}", **{**common, **extra})
                for j, (cls, extra) in enumerate(specs)
            ]
            st.add_algorithms(*algs)
            setups.append(st)
        st_new, st_old = setups
        for j in range(len(specs)):
            name = f"a{j}"
            where = f"single[{it}].{specs[j][0]}{specs[j][1]}"
            # mpe before run: same error
            if j == 0:
                e1 = call(st_new.mpe, name, sel_freq=[1.0], order=2)
                e2 = call(st_old.mpe, name, sel_freq=[1.0], order=2)
                assert e1[0] == e2[0] == "exc" and e1[1] is e2[1], where
            r_new = call(st_new.run_by_name, name)
            r_old = call(st_old.run_by_name, name)
            assert r_new[0] == r_old[0], f"{where}: {r_new} vs {r_old}"
            if r_new[0] == "exc":
                assert r_new[1:] == r_old[1:], f"{where}: {r_new} vs {r_old}"
                continue
            assert type(st_new[name].result) is new_alg.SSIResult
            compare_results(st_new[name], st_old[name], where)
            res = st_new[name].result
            if res.Fn_poles_cov is not None:
                N_UNC["runs"] += 1
                N_UNC["finite_fn_cov"] += int(np.isfinite(res.Fn_poles_cov).sum())
                N_UNC["finite_xi_cov"] += int(np.isfinite(res.Xi_poles_cov).sum())
            run_mpe_variants(rng, st_new, st_old, name, where)
            n += 1
    # malformed hard-criteria dict: same KeyError at the same place
    for missing in ("conj", "cov_max", "mpd_lim"):
        hc = dict(conj=True, xi_max=0.1, mpc_lim=0.7, mpd_lim=0.3, cov_max=0.2)
        del hc[missing]
        outs = []
        for mod in (new_alg, orig_alg):
            st = SingleSetup(y.copy(), fs=fs)
            st.add_algorithms(mod.SSIcov(name="x", br=4, ordmax=6, hc=hc))
            outs.append(call(st.run_by_name, "x"))
        assert outs[0] == outs[1] and outs[0][0] == "exc", outs
    return n


def check_multi(rng):
    n = 0
    for it in range(12):
        nset = int(rng.integers(2, 4))
        nref = int(rng.integers(1, 3))
        fs = float(10 ** rng.uniform(0, 3))
        k = float(10 ** rng.uniform(-2, 2))
        datasets, ref_ind = [], []
        for _ in range(nset):
            nch = nref + int(rng.integers(1, 4))
            d = response(rng, nch, 600, fs, ["random", "decay"][it % 2])
            d = transformed(rng, d, ["plain", "gain", "perm", "mix"][it % 4])
            datasets.append(d)
            ref_ind.append([int(i) for i in rng.permutation(nch)[:nref]])
        br = int(rng.integers(3, 8))
        ordmax = min(int(rng.integers(3, nref * br + 1)), 14)
        common = dict(br=br, ordmax=ordmax)
        if it % 3 == 1:
            common["hc"] = dict(
                conj=False, xi_max=0.3, mpc_lim=0.4, mpd_lim=0.6, cov_max=0.5
            )
        if it % 5 == 3:
            common["step"] = 2
        specs = [
            ("SSIdat_MS", {}),
            ("SSIcov_MS", {}),
            ("SSIcov_MS", dict(method="cov_R")),
            ("SSIdat_MS", dict(method="cov_mm")),
        ]
        setups = []
        for mod in (new_alg, orig_alg):
            st = MultiSetup_PreGER(
                fs=k * fs, ref_ind=ref_ind, datasets=[d.copy() for d in datasets]
            )
            st.add_algorithms(
                *[
                    getattr(mod, cls)(name=f"m{j}", **common, **extra)
                    for j, (cls, extra) in enumerate(specs)
                ]
            )
            setups.append(st)
        st_new, st_old = setups
        for j in range(len(specs)):
            name = f"m{j}"
            where = f"multi[{it}].{specs[j][0]}{specs[j][1]}"
            r_new = call(st_new.run_by_name, name)
            r_old = call(st_old.run_by_name, name)
            assert r_new[0] == r_old[0], f"{where}: {r_new} vs {r_old}"
            if r_new[0] == "exc":
                assert r_new[1:] == r_old[1:], f"{where}: {r_new} vs {r_old}"
                continue
            compare_results(st_new[name], st_old[name], where)
            run_mpe_variants(rng, st_new, st_old, name, where)
            n += 1
    return n


def main():
    rng = np.random.default_rng(20260808)
    n_fn = check_functions(rng)
    n_single = check_single(rng)
    n_multi = check_multi(rng)
    print(
        f"function-level cases: {n_fn}, SingleSetup runs: {n_single}, "
        f"MultiSetup_PreGER runs: {n_multi}, comparisons: {N_CMP}, exact={EXACT}"
    )
    print(f"mpe calls: {N_MPE}, successful mpe_from_plot calls: {N_PLOT_OK[0]}")
    print(f"uncertainty runs through SingleSetup: {N_UNC}")
    assert N_UNC["finite_fn_cov"] > 50 and N_UNC["finite_xi_cov"] > 50
    assert N_MPE["ok"] > 100 and N_PLOT_OK[0] > 20
    print("PASS")


if __name__ == "__main__":
    main()
