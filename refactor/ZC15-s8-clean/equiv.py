"""
Differential test: MultiSetup_PoSER of the working tree against the pristine
implementation kept in orig_multi.py (a copy of src/pyoma2/setup/multi.py at HEAD).

Run as:  PYTHONPATH=<tree>/src /venv/bin/python equiv.py
Prints PASS and exits 0 when, on every generated configuration, both
implementations accept / refuse alike (same exception type, the original
message kept as the leading part of the new one), hold the same state after
construction and merge to the same results.
"""

from __future__ import annotations

import importlib.util
import inspect
import logging
import os
import sys
import typing

import numpy as np

logging.disable(logging.CRITICAL)
os.environ.setdefault("TQDM_DISABLE", "1")

from pyoma2.algorithms import BaseAlgorithm  # noqa: E402
from pyoma2.algorithms.data.result import BaseResult  # noqa: E402
from pyoma2.algorithms.data.run_params import BaseRunParams  # noqa: E402
from pyoma2.setup import SingleSetup  # noqa: E402
from pyoma2.setup import multi as new_multi  # noqa: E402

HERE = os.path.dirname(os.path.abspath(__file__))
spec = importlib.util.spec_from_file_location(
    "orig_multi", os.path.join(HERE, "orig_multi.py")
)
orig_multi = importlib.util.module_from_spec(spec)
sys.modules["orig_multi"] = orig_multi
spec.loader.exec_module(orig_multi)

NewPoSER = new_multi.MultiSetup_PoSER
OrigPoSER = orig_multi.MultiSetup_PoSER


class _Params(BaseRunParams):
    gain: float = 1.0


class _Result(BaseResult):
    spectrum: typing.Optional[typing.Any] = None
    Xi: typing.Optional[typing.Any] = None


class Peak(BaseAlgorithm[_Params, _Result, typing.Iterable[float]]):
    RunParamCls = _Params
    ResultCls = _Result
    shift = 0.0

    def run(self) -> _Result:
        spec = np.abs(np.fft.rfft(self.data, axis=0)) * self.run_params.gain
        return _Result(spectrum=spec)

    def mpe(self, n_modes=2) -> None:
        super().mpe()
        sp = self.result.spectrum
        self.result.Fn = 1.0 + self.shift + sp[1 : 1 + n_modes, 0] / sp[:, 0].max()
        self.result.Xi = 0.01 + 0.01 * sp[1 : 1 + n_modes, 1] / sp[:, 1].max()
        self.result.Phi = sp[5 : 5 + self.data.shape[1], :n_modes] + 0.5

    def mpe_from_plot(self, *args, **kwargs) -> None:
        super().mpe_from_plot()


class EnhancedPeak(Peak):
    shift = 0.25


class Other(BaseAlgorithm[_Params, _Result, typing.Iterable[float]]):
    RunParamCls = _Params
    ResultCls = _Result

    def run(self) -> _Result:
        return _Result(spectrum=np.abs(np.cumsum(self.data, axis=0)) * self.run_params.gain)

    def mpe(self, n_modes=2) -> None:
        super().mpe()
        sp = self.result.spectrum
        self.result.Fn = 2.0 + sp[-1, :n_modes]
        self.result.Xi = 0.02 + 0.001 * sp[-2, :n_modes]
        self.result.Phi = sp[10 : 10 + self.data.shape[1], :n_modes] + 1.0

    def mpe_from_plot(self, *args, **kwargs) -> None:
        super().mpe_from_plot()


class OtherVariant(Other):
    pass


CLASSES = (Peak, EnhancedPeak, Other, OtherVariant)
rng = np.random.default_rng(2015)
problems: typing.List[str] = []


def build_setups(type_lists, states, seeds, n_ch):
    setups = []
    for tl, st, seed in zip(type_lists, states, seeds):
        data = np.random.default_rng(seed).standard_normal((128, n_ch))
        ss = SingleSetup(data, fs=64.0)
        algs = [
            cls(name=f"{cls.__name__}_{k}", gain=1.0 + 0.5 * k) for k, cls in enumerate(tl)
        ]
        if algs:
            ss.add_algorithms(*algs)
        for k, alg in enumerate(algs):
            s = st[k]
            if s in ("run", "mpe"):
                ss.run_by_name(alg.name)
            if s == "mpe":
                ss.mpe(alg.name)
        setups.append(ss)
    return setups


def construct(cls, ref_ind, setups, names):
    try:
        return cls(ref_ind=ref_ind, single_setups=setups, names=names), None
    except Exception as e:  # noqa: BLE001
        return None, e


def same_result(a, b) -> bool:
    if a.keys() != b.keys():
        return False
    for k in a:
        for field in ("Phi", "Fn", "Fn_cov", "Xi", "Xi_cov"):
            x, y = getattr(a[k], field), getattr(b[k], field)
            if (x is None) != (y is None):
                return False
            if x is not None and not (
                np.array_equal(x, y, equal_nan=True)
                or np.allclose(x, y, rtol=1e-12, atol=0.0, equal_nan=True)
            ):
                return False
    return True


def random_config():
    kind = rng.random()
    n_setups = int(rng.choice([0, 1, 2, 2, 2, 3, 3, 4]))
    n_ch = int(rng.integers(3, 6))
    if kind < 0.45:
        # mostly valid: one type list for every setup, possibly disturbed below
        base = tuple(rng.choice(len(CLASSES), size=int(rng.integers(1, 4))))
        type_lists = [tuple(CLASSES[i] for i in base) for _ in range(n_setups)]
        if type_lists and rng.random() < 0.4:
            j = int(rng.integers(0, n_setups))
            tl = list(type_lists[j])
            r = rng.random()
            if r < 0.4:
                tl[int(rng.integers(0, len(tl)))] = CLASSES[int(rng.integers(0, 4))]
            elif r < 0.6:
                tl = tl[::-1]
            elif r < 0.8:
                tl = tl[:-1]
            else:
                tl.append(CLASSES[int(rng.integers(0, 4))])
            type_lists[j] = tuple(tl)
    else:
        type_lists = [
            tuple(CLASSES[i] for i in rng.choice(len(CLASSES), size=int(rng.integers(0, 4))))
            for _ in range(n_setups)
        ]
    p_ready = rng.choice([1.0, 1.0, 1.0, 0.8, 0.4])
    states = [
        tuple("mpe" if rng.random() < p_ready else rng.choice(["new", "run"]) for _ in tl)
        for tl in type_lists
    ]
    n_alg = len(type_lists[0]) if type_lists else int(rng.integers(0, 3))
    r = rng.random()
    if r < 0.7:
        n_names = n_alg
    else:
        n_names = int(rng.integers(0, 5))
    names = [f"alg{k}" for k in range(n_names)]
    if n_names >= 2 and rng.random() < 0.15:
        names[-1] = names[0]  # repeated name: legal, groups are merged
    seeds = [int(s) for s in rng.integers(0, 2**31, size=n_setups)]
    return type_lists, states, names, seeds, n_ch


N_CASES = 400
n_accepted = 0
n_merged = 0
merge_errors: typing.Set[str] = set()
for case in range(N_CASES):
    type_lists, states, names, seeds, n_ch = random_config()
    ref_ind = [[0, 1] for _ in type_lists]
    label = (
        f"case {case}: types={[[c.__name__ for c in t] for t in type_lists]} "
        f"states={states} names={names}"
    )
    container = int(rng.integers(0, 3))

    def wrap(setups):
        if container == 1:
            return tuple(setups)
        if container == 2 and not setups:
            return None
        return setups

    s_new = build_setups(type_lists, states, seeds, n_ch)
    s_old = build_setups(type_lists, states, seeds, n_ch)
    obj_new, exc_new = construct(NewPoSER, ref_ind, wrap(s_new), list(names))
    obj_old, exc_old = construct(OrigPoSER, ref_ind, wrap(s_old), list(names))

    if (exc_new is None) != (exc_old is None):
        problems.append(f"{label}: orig -> {exc_old!r}, new -> {exc_new!r}")
        continue
    if exc_old is not None:
        if type(exc_new) is not type(exc_old) or not str(exc_new).startswith(str(exc_old)):
            problems.append(f"{label}: orig raised {exc_old!r}, new raised {exc_new!r}")
        continue

    n_accepted += 1
    # state after construction
    if obj_new.names != obj_old.names or obj_new.ref_ind != obj_old.ref_ind:
        problems.append(f"{label}: names / ref_ind differ after construction")
    if not (
        isinstance(obj_new.setups, list)
        and len(obj_new.setups) == len(s_new)
        and all(a is b for a, b in zip(obj_new.setups, s_new))
        and all(a is b for a, b in zip(obj_old.setups, s_old))
    ):
        problems.append(f"{label}: setups not kept in the given order")
    for which, obj in (("new", obj_new), ("orig", obj_old)):
        try:
            obj.result
            problems.append(f"{label}: {which} has a result before merge_results()")
        except ValueError:
            pass
    try:
        obj_new.setups = []
        problems.append(f"{label}: setups could be replaced after construction")
    except AttributeError:
        pass

    # the validation routine itself, called directly
    if "names" in inspect.signature(obj_new._init_setups).parameters:
        direct_new = list(obj_new._init_setups(setups=list(s_new), names=list(names)))
    else:
        direct_new = list(obj_new._init_setups(setups=list(s_new)))
    direct_old = list(obj_old._init_setups(setups=list(s_old)))
    if len(direct_new) != len(direct_old) or not all(
        a is b for a, b in zip(direct_new, s_new)
    ):
        problems.append(f"{label}: _init_setups returned different setups")

    # merged results
    try:
        r_old, e_old = obj_old.merge_results(), None
    except Exception as e:  # noqa: BLE001
        r_old, e_old = None, e
    try:
        r_new, e_new = obj_new.merge_results(), None
    except Exception as e:  # noqa: BLE001
        r_new, e_new = None, e
    if (e_old is None) != (e_new is None) or (
        e_old is not None and (type(e_old) is not type(e_new) or str(e_old) != str(e_new))
    ):
        problems.append(f"{label}: merge_results orig -> {e_old!r}, new -> {e_new!r}")
    elif e_old is not None:
        merge_errors.add(f"{type(e_old).__name__}: {e_old}")
    else:
        n_merged += 1
        if not same_result(r_old, r_new) or not same_result(obj_old.result, obj_new.result):
            problems.append(f"{label}: merged results differ")

if n_accepted < 20 or n_merged < 20:
    problems.append(
        f"generator too weak: only {n_accepted} accepted / {n_merged} merged configurations"
    )

if problems:
    print(f"FAIL ({len(problems)} problems in {N_CASES} cases)")
    for p in problems[:15]:
        print("  -", p)
    sys.exit(1)
print(
    f"PASS ({N_CASES} configurations: {n_accepted} accepted by both, "
    f"{n_merged} merged, {N_CASES - n_accepted} refused alike)"
)
if merge_errors:
    print("merge_results failed alike in both with:", sorted(merge_errors))
sys.exit(0)
