"""Equivalence check of the refactored modal parameter extraction (property C11).

Compares, on random structured pole tables,
  * functions.ssi.SSI_mpe / functions.plscf.pLSCF_mpe  (refactored vs. HEAD)
  * algorithms.ssi.SSIdat/SSIcov.mpe, mpe_from_plot and algorithms.plscf.pLSCF.mpe,
    mpe_from_plot (refactored classes vs. the HEAD classes wired to the HEAD functions)
Outputs must be identical: type, dtype, shape, values (NaN == NaN), exceptions.
"""

import copy
import importlib.util
import logging
import os
import sys

import numpy as np

HERE = os.path.dirname(os.path.abspath(__file__))
logging.disable(logging.CRITICAL)
os.environ.setdefault("TQDM_DISABLE", "1")

import pyoma2.algorithms.plscf as new_aplscf  # noqa: E402
import pyoma2.algorithms.ssi as new_assi  # noqa: E402
import pyoma2.functions.plscf as new_fplscf  # noqa: E402
import pyoma2.functions.ssi as new_fssi  # noqa: E402
from pyoma2.algorithms.data.result import SSIResult, pLSCFResult  # noqa: E402

assert new_fssi.__file__.startswith("/tmp/wt/U11/src"), new_fssi.__file__


def load(modname, fname):
    spec = importlib.util.spec_from_file_location(modname, os.path.join(HERE, fname))
    mod = importlib.util.module_from_spec(spec)
    sys.modules[modname] = mod
    spec.loader.exec_module(mod)
    return mod


orig_fssi = load("pyoma2.functions._orig_ssi", "orig_fssi.py")
orig_fplscf = load("pyoma2.functions._orig_plscf", "orig_fplscf.py")
orig_assi = load("pyoma2.algorithms._orig_ssi", "orig_assi.py")
orig_aplscf = load("pyoma2.algorithms._orig_plscf", "orig_aplscf.py")
# the pristine classes must call the pristine numerical routines
orig_assi.ssi = orig_fssi
orig_aplscf.plscf = orig_fplscf

for m in (new_fssi, new_fplscf, orig_fssi, orig_fplscf):
    m.tqdm = lambda x, *a, **k: x  # silence the progress bars


# ----------------------------------------------------------------------------
# comparison helpers
# ----------------------------------------------------------------------------
def same(a, b, path="out"):
    if isinstance(a, (tuple, list)):
        assert type(a) is type(b) and len(a) == len(b), (path, type(a), type(b))
        for k, (x, y) in enumerate(zip(a, b)):
            same(x, y, f"{path}[{k}]")
        return
    if isinstance(a, np.ndarray) or isinstance(b, np.ndarray):
        assert isinstance(a, np.ndarray) and isinstance(b, np.ndarray), (
            path,
            type(a),
            type(b),
        )
        assert a.dtype == b.dtype, (path, a.dtype, b.dtype)
        assert a.shape == b.shape, (path, a.shape, b.shape)
        assert np.array_equal(a, b, equal_nan=True), (path, a, b)
        if a.dtype.kind == "f":  # bit-identical, sign of zero included
            assert np.array_equal(np.signbit(a), np.signbit(b)), path
        return
    assert type(a) is type(b), (path, type(a), type(b))
    if isinstance(a, float) and np.isnan(a):
        assert np.isnan(b), path
        return
    assert a == b, (path, a, b)


def call(f, *args, **kwargs):
    try:
        return ("ok", f(*args, **kwargs))
    except Exception as e:  # noqa: BLE001
        return ("exc", type(e))


STATS = {"ok": 0, "exc": 0}
COVER = {}


def compare(f_new, f_old, args_new, args_old, label):
    r_new = call(f_new, *args_new[0], **args_new[1])
    r_old = call(f_old, *args_old[0], **args_old[1])
    assert r_new[0] == r_old[0], (label, r_new, r_old)
    STATS[r_new[0]] += 1
    if r_new[0] == "exc":
        assert r_new[1] is r_old[1], (label, r_new, r_old)
        key = (label.split()[0], "exception " + r_new[1].__name__)
    else:
        same(r_new[1], r_old[1], label)
        order, n_req, n_got = args_new[0][4] if len(args_new[0]) > 4 else "find_min", len(args_new[0][0]), len(r_new[1][0])
        kind = "find_min" if isinstance(order, str) else type(order).__name__
        got = "none" if n_got == 0 else ("all" if n_got == n_req else "some")
        key = (label.split()[0], f"order {kind}: {got} of the requested modes returned")
    COVER[key] = COVER.get(key, 0) + 1
    return r_new


# ----------------------------------------------------------------------------
# random structured pole tables
# ----------------------------------------------------------------------------
def make_tables(rng, stable_label, complex_phi, with_cov, kind="modes"):
    n_rows = int(rng.integers(4, 14))
    n_ord = int(rng.integers(1, 12))
    n_ch = int(rng.integers(1, 6))
    n_modes = int(rng.integers(1, 5))
    true_f = np.sort(rng.uniform(1.0, 40.0, n_modes))
    # keep the modes well separated (non-overlapping tolerance bands)
    true_f = true_f[np.r_[True, np.diff(true_f) > 3.0]]
    n_modes = len(true_f)

    if kind == "uniform":
        Fn = rng.uniform(0.0, 20.0, (n_rows, n_ord))
    else:
        Fn = np.full((n_rows, n_ord), np.nan)
        for j in range(n_ord):
            slots = rng.permutation(n_rows)
            k = 0
            for f in true_f:
                if rng.random() < 0.75 and k < n_rows:  # mode present at this order
                    Fn[slots[k], j] = f * (1 + rng.normal(0, 2e-3))
                    k += 1
                    if rng.random() < 0.15 and k < n_rows:  # duplicated (conjugate-like) pole
                        Fn[slots[k], j] = Fn[slots[k - 1], j] if rng.random() < 0.5 else f * (
                            1 + rng.normal(0, 2e-3)
                        )
                        k += 1
            n_spur = int(rng.integers(0, max(1, n_rows - k) + 1))
            for _ in range(n_spur):  # spurious poles
                if k < n_rows:
                    Fn[slots[k], j] = rng.uniform(0.5, 45.0)
                    k += 1
    # extra NaN pattern
    Fn[rng.random(Fn.shape) < 0.1] = np.nan
    if rng.random() < 0.15:  # one order without any retained pole
        Fn[:, rng.integers(0, n_ord)] = np.nan
    Xi = rng.uniform(0.001, 0.1, Fn.shape)
    Xi[np.isnan(Fn)] = np.nan
    Phi = rng.normal(size=(n_rows, n_ord, n_ch))
    if complex_phi:
        Phi = Phi + 1j * rng.normal(size=Phi.shape)
    Phi[np.isnan(Fn)] = np.nan
    if stable_label == 1:
        Lab = (rng.random(Fn.shape) < 0.8).astype(int)
    else:
        Lab = np.where(rng.random(Fn.shape) < 0.8, 7, rng.integers(0, 7, Fn.shape))
    cov = (None, None, None)
    if with_cov:
        cov = (
            rng.uniform(0, 1e-3, Fn.shape),
            rng.uniform(0, 1e-3, Fn.shape),
            rng.uniform(0, 1e-3, Phi.shape),
        )
    return true_f, Fn, Xi, Phi, Lab, cov


def make_request(rng, true_f, n_ord):
    """requested frequencies (ascending) and the list of orders to try"""
    if rng.random() < 0.05:
        sel = []
    else:
        sel = [float(f * (1 + rng.normal(0, 3e-3))) for f in true_f]
        if rng.random() < 0.3:  # a mode that does not exist in the table
            sel.append(float(true_f[-1] + 6.0 + rng.random()))
        if rng.random() < 0.3 and len(sel) > 1:  # ask only some of the modes
            sel.pop(int(rng.integers(0, len(sel))))
    flavour = rng.random()
    if flavour < 0.2:
        sel = [np.float64(f) for f in sel]
    elif flavour < 0.3:
        sel = [int(round(f)) for f in sel]
    n = len(sel)
    orders = ["find_min"]
    orders.append(int(rng.integers(0, n_ord)))
    orders.append(-int(rng.integers(1, n_ord + 1)))
    orders.append([int(o) for o in rng.integers(0, n_ord, n)])
    orders.append([int(o) for o in rng.integers(0, n_ord, n + 2)])  # longer than needed
    if n > 0:
        orders.append([int(o) for o in rng.integers(0, n_ord, n - 1)])  # too short
    orders.append(n_ord + 3)  # out of range
    orders.append("wrong")
    orders.append(2.5)
    orders.append(None)
    return sel, orders


# ----------------------------------------------------------------------------
# 1. numerical routines
# ----------------------------------------------------------------------------
def check_functions(n_cases=160):
    rng = np.random.default_rng(20261004)
    for case in range(n_cases):
        kind = "uniform" if case % 8 == 7 else "modes"
        # ---- SSI
        true_f, Fn, Xi, Phi, Lab, cov = make_tables(
            rng, 1, complex_phi=bool(case % 2), with_cov=bool(case % 3), kind=kind
        )
        sel, orders = make_request(rng, true_f, Fn.shape[1])
        for order in orders:
            # SSI 'find_min' uses rtol also as the (absolute) half-width of the bands
            for rtol in (5e-2, 1e-2, 0.5, float(rng.uniform(1e-3, 2.5))):
                for lab in (Lab, None) if order == "find_min" else (Lab,):
                    kw = dict(Lab=lab, rtol=rtol, Fn_cov=cov[0], Xi_cov=cov[1], Phi_cov=cov[2])
                    a = ((sel, Fn, Xi, Phi, order), kw)
                    compare(new_fssi.SSI_mpe, orig_fssi.SSI_mpe, a, a, f"SSI_mpe case {case} order {order!r}")
        # inconsistent covariance input (Fn_cov given, Xi_cov missing)
        if cov[0] is not None:
            a = ((sel, Fn, Xi, Phi, orders[1]), dict(Lab=Lab, Fn_cov=cov[0]))
            compare(new_fssi.SSI_mpe, orig_fssi.SSI_mpe, a, a, f"SSI_mpe case {case} bad cov")
        # defaults, positional Lab (as in the unit test)
        a = ((sel, Fn, Xi, Phi, "find_min", Lab), {})
        compare(new_fssi.SSI_mpe, orig_fssi.SSI_mpe, a, a, f"SSI_mpe case {case} defaults")

        # ---- pLSCF
        true_f, Fn, Xi, Phi, Lab, _ = make_tables(
            rng, 7, complex_phi=bool(case % 2), with_cov=False, kind=kind
        )
        sel, orders = make_request(rng, true_f, Fn.shape[1])
        for order in orders:
            for rtol in (1e-2, 5e-2, float(rng.uniform(1e-3, 0.3))):
                for deltaf in (0.05, 0.5, float(rng.uniform(0.01, 4.0))):
                    for lab in (Lab, None) if order == "find_min" else (Lab,):
                        kw = dict(Lab=lab, deltaf=deltaf, rtol=rtol)
                        a = ((sel, Fn, Xi, Phi, order), kw)
                        compare(
                            new_fplscf.pLSCF_mpe, orig_fplscf.pLSCF_mpe, a, a,
                            f"pLSCF_mpe case {case} order {order!r}",
                        )
        a = ((sel, Fn, Xi, Phi), {"Lab": Lab})  # default order / deltaf / rtol
        compare(new_fplscf.pLSCF_mpe, orig_fplscf.pLSCF_mpe, a, a, f"pLSCF_mpe case {case} defaults")
        # positional call of the unit test
        a = ((sel, Fn, Xi, Phi, "find_min", Lab, 0.05, 1e-2), {})
        compare(new_fplscf.pLSCF_mpe, orig_fplscf.pLSCF_mpe, a, a, f"pLSCF_mpe case {case} positional")


def check_overlapping_bands(n_cases=60):
    """Outside the quantifier (overlapping bands): the band layers must still be summed
    in the same order, so that even the 'mixed' values are bit-identical."""
    rng = np.random.default_rng(7)
    for case in range(n_cases):
        n_rows, n_ord, n_ch = 8, 6, 3
        Fn = rng.uniform(1.0, 6.0, (n_rows, n_ord))
        Fn[rng.random(Fn.shape) < 0.2] = np.nan
        Xi = rng.uniform(0, 0.1, Fn.shape)
        Phi = rng.normal(size=(n_rows, n_ord, n_ch))
        n = int(rng.integers(2, 14))
        sel = sorted(float(f) for f in rng.uniform(1.0, 6.0, n))
        a = ((sel, Fn, Xi, Phi, "find_min"), dict(Lab=np.ones(Fn.shape, int), rtol=1.5))
        compare(new_fssi.SSI_mpe, orig_fssi.SSI_mpe, a, a, f"SSI overlap {case}")
        same(
            new_fssi._poles_in_bands(Fn, sel, 1.5),
            _orig_ssi_aggregate(Fn, sel, 1.5),
            f"SSI aggregate {case}",
        )
        a = ((sel, Fn, Xi, Phi, "find_min"), dict(Lab=np.full(Fn.shape, 7), deltaf=1.5, rtol=0.3))
        compare(new_fplscf.pLSCF_mpe, orig_fplscf.pLSCF_mpe, a, a, f"pLSCF overlap {case}")
        same(
            new_fplscf._stable_poles_in_bands(Fn, sel, 1.5),
            _orig_plscf_aggregate(Fn, sel, 1.5),
            f"pLSCF aggregate {case}",
        )


def check_unit_test_inputs():
    """The (3-D!) pole tables fed by tests/unit/functions/test_plscf.py and random 3-D
    tables: outside the quantifier, but the routines must keep treating them alike."""
    rng = np.random.default_rng(11)
    base = np.array(
        [
            [[1.0, 2.0, 3.0], [1.1, 2.1, 3.1], [1.2, 2.2, 3.2]],
            [[4.0, 5.0, 6.0], [4.1, 5.1, 6.1], [4.2, 5.2, 6.2]],
            [[7.0, 8.0, 9.0], [7.1, 8.1, 9.1], [7.2, 8.2, 9.2]],
        ]
    )
    tables = [(base, [1.0, 2.0, 3.0])]
    for _ in range(30):
        t = np.round(rng.uniform(1, 9, (int(rng.integers(2, 5)), int(rng.integers(2, 5)), 3)), 1)
        t[rng.random(t.shape) < 0.2] = np.nan
        tables.append((t, sorted(float(f) for f in rng.choice(np.arange(1, 9), int(rng.integers(1, 5)), replace=False))))
    for t, sel in tables:
        n_ord = t.shape[1]
        for order in ("find_min", 0, 1, n_ord - 1, list(range(n_ord))[: len(sel)], [0] * len(sel)):
            for lab_val in (1, 7):
                Lab = np.full(t.shape[:2], lab_val)
                Lab[0] = 1 if lab_val == 7 else 0
                for Lab_ in (Lab, np.full(t.shape, lab_val)):
                    a = ((sel, t, t, t, order, Lab_, 0.05, 1e-2), {})
                    compare(new_fplscf.pLSCF_mpe, orig_fplscf.pLSCF_mpe, a, a, f"pLSCF_mpe 3-D order {order!r}")
                    a = ((sel, t, t, t, order, Lab_), {})
                    compare(new_fssi.SSI_mpe, orig_fssi.SSI_mpe, a, a, f"SSI_mpe 3-D order {order!r}")
                    a = ((sel, t, t, t, order, Lab_, 0.3, t, t, t), {})
                    compare(new_fssi.SSI_mpe, orig_fssi.SSI_mpe, a, a, f"SSI_mpe 3-D cov order {order!r}")


def _orig_ssi_aggregate(stable_poles, freq_ref, rtol):
    # verbatim from HEAD SSI_mpe
    limits = [(f - rtol, f + rtol) for f in freq_ref]
    aggregated_poles = np.zeros_like(stable_poles)
    for lower, upper in limits:
        within_limits = np.where(
            (stable_poles >= lower) & (stable_poles <= upper), stable_poles, 0
        )
        aggregated_poles += within_limits
    return np.where(aggregated_poles == 0, np.nan, aggregated_poles)


def _orig_plscf_aggregate(a, sel_freq, deltaf):
    # verbatim from HEAD pLSCF_mpe
    limits = [(fj - deltaf, fj + deltaf) for fj in sel_freq]
    aas = [
        np.where(((a < limits[ii][1]) & (a > limits[ii][0])), a, np.nan)
        for ii in range(len(sel_freq))
    ]
    aa = 0
    for bb in aas:
        bb = np.nan_to_num(bb, copy=True, nan=0.0)
        aa += bb
    return np.where(aa == 0, np.nan, aa)


# ----------------------------------------------------------------------------
# 2. calling layer (algorithm classes)
# ----------------------------------------------------------------------------
class FakeSFP:
    """Stand-in for the interactive SelFromPlot: returns a fixed selection."""

    selection = None

    def __init__(self, algo, freqlim=None, plot=None):
        assert algo.result is not None
        self.result = FakeSFP.selection


SSI_FIELDS = ("Fn", "Xi", "Phi", "order_out", "Fn_cov", "Xi_cov", "Phi_cov")
SSI_TABLES = ("Fn_poles", "Xi_poles", "Phi_poles", "Lab", "Fn_poles_cov", "Xi_poles_cov", "Phi_poles_cov")
PLSCF_FIELDS = ("Fn", "Xi", "Phi", "order_out")
PLSCF_TABLES = ("Fn_poles", "Xi_poles", "Phi_poles", "Lab")


def algo_state(algo, fields, tables):
    res = algo.result
    rp = algo.run_params
    return (
        [getattr(res, f) for f in fields],
        [getattr(res, t) for t in tables],
        [rp.sel_freq, rp.order_in, rp.rtol],
    )


def run_method(algo, method, args, kwargs, fields, tables):
    res_before = algo.result
    out = call(getattr(algo, method), *args, **kwargs)
    assert algo.result is res_before  # the result object is updated in place
    return out, algo_state(algo, fields, tables)


def check_classes(n_cases=60):
    rng = np.random.default_rng(99)
    new_assi.SelFromPlot = FakeSFP
    orig_assi.SelFromPlot = FakeSFP
    new_aplscf.SelFromPlot = FakeSFP
    orig_aplscf.SelFromPlot = FakeSFP
    pairs_ssi = [
        (new_assi.SSIdat, orig_assi.SSIdat),
        (new_assi.SSIcov, orig_assi.SSIcov),
        (new_assi.SSIdat_MS, orig_assi.SSIdat_MS),
        (new_assi.SSIcov_MS, orig_assi.SSIcov_MS),
    ]
    pairs_plscf = [
        (new_aplscf.pLSCF, orig_aplscf.pLSCF),
        (new_aplscf.pLSCF_MS, orig_aplscf.pLSCF_MS),
    ]
    for case in range(n_cases):
        # ------------------------------------------------------------- SSI
        true_f, Fn, Xi, Phi, Lab, cov = make_tables(
            rng, 1, complex_phi=bool(case % 2), with_cov=bool(case % 3)
        )
        sel, orders = make_request(rng, true_f, Fn.shape[1])
        cls_new, cls_old = pairs_ssi[case % len(pairs_ssi)]

        def fresh_ssi(cls):
            algo = cls(name="ssi", br=10, ordmax=20, calc_unc=cov[0] is not None)
            algo.result = SSIResult(
                Fn_poles=Fn.copy(), Xi_poles=Xi.copy(), Phi_poles=Phi.copy(), Lab=Lab.copy(),
                Fn_poles_cov=copy.deepcopy(cov[0]), Xi_poles_cov=copy.deepcopy(cov[1]),
                Phi_poles_cov=copy.deepcopy(cov[2]),
            )
            return algo

        for order in orders:
            rtol = float(rng.choice([5e-2, 1e-2, 0.7]))
            for args, kwargs in (
                ((sel, order, rtol), {}),
                ((sel,), {"order": order, "rtol": rtol}),
                ((), {"sel_freq": sel, "order": order}),
                ((sel,), {}),
            ):
                a_new, a_old = fresh_ssi(cls_new), fresh_ssi(cls_old)
                o_new = run_method(a_new, "mpe", args, kwargs, SSI_FIELDS, SSI_TABLES)
                o_old = run_method(a_old, "mpe", args, kwargs, SSI_FIELDS, SSI_TABLES)
                check_pair(o_new, o_old, f"SSI.mpe case {case} order {order!r}")
            # second extraction on the same object (results are overwritten)
            a_new, a_old = fresh_ssi(cls_new), fresh_ssi(cls_old)
            for a in (a_new, a_old):
                call(a.mpe, sel, orders[1])
            o_new = run_method(a_new, "mpe", (sel, order), {"rtol": rtol}, SSI_FIELDS, SSI_TABLES)
            o_old = run_method(a_old, "mpe", (sel, order), {"rtol": rtol}, SSI_FIELDS, SSI_TABLES)
            check_pair(o_new, o_old, f"SSI.mpe twice case {case} order {order!r}")
            # from plot: the plot returns the selected frequencies and one order per mode
            if isinstance(order, list) or order is None:
                FakeSFP.selection = (sel, order)
                for args, kwargs in (((), {}), (((1.0, 30.0),), {"rtol": rtol}), ((), {"freqlim": None, "rtol": rtol})):
                    a_new, a_old = fresh_ssi(cls_new), fresh_ssi(cls_old)
                    o_new = run_method(a_new, "mpe_from_plot", args, kwargs, SSI_FIELDS, SSI_TABLES)
                    o_old = run_method(a_old, "mpe_from_plot", args, kwargs, SSI_FIELDS, SSI_TABLES)
                    check_pair(o_new, o_old, f"SSI.mpe_from_plot case {case} order {order!r}")
        # not run yet
        for cls in (cls_new, cls_old):
            algo = cls(name="ssi", br=10)
            assert call(algo.mpe, sel, 1) == ("exc", ValueError)
            assert call(algo.mpe_from_plot) == ("exc", ValueError)

        # ----------------------------------------------------------- pLSCF
        true_f, Fn, Xi, Phi, Lab, _ = make_tables(rng, 7, complex_phi=bool(case % 2), with_cov=False)
        sel, orders = make_request(rng, true_f, Fn.shape[1])
        cls_new, cls_old = pairs_plscf[case % len(pairs_plscf)]

        def fresh_plscf(cls):
            algo = cls(name="plscf", ordmax=20)
            algo.result = pLSCFResult(
                Fn_poles=Fn.copy(), Xi_poles=Xi.copy(), Phi_poles=Phi.copy(), Lab=Lab.copy()
            )
            return algo

        for order in orders:
            rtol = float(rng.choice([5e-2, 1e-2, 0.3]))
            for args, kwargs in (
                ((sel, order, rtol), {}),
                ((sel,), {"order": order, "rtol": rtol}),
                ((), {"sel_freq": sel, "order": order}),
                ((sel,), {}),
            ):
                a_new, a_old = fresh_plscf(cls_new), fresh_plscf(cls_old)
                o_new = run_method(a_new, "mpe", args, kwargs, PLSCF_FIELDS, PLSCF_TABLES)
                o_old = run_method(a_old, "mpe", args, kwargs, PLSCF_FIELDS, PLSCF_TABLES)
                check_pair(o_new, o_old, f"pLSCF.mpe case {case} order {order!r}")
            if isinstance(order, list) or order is None:
                FakeSFP.selection = (sel, order)
                for args, kwargs in (((), {}), (((1.0, 30.0),), {"rtol": rtol}), ((), {"freqlim": None, "rtol": rtol})):
                    a_new, a_old = fresh_plscf(cls_new), fresh_plscf(cls_old)
                    o_new = run_method(a_new, "mpe_from_plot", args, kwargs, PLSCF_FIELDS, PLSCF_TABLES)
                    o_old = run_method(a_old, "mpe_from_plot", args, kwargs, PLSCF_FIELDS, PLSCF_TABLES)
                    check_pair(o_new, o_old, f"pLSCF.mpe_from_plot case {case} order {order!r}")
        for cls in (cls_new, cls_old):
            algo = cls(name="plscf", ordmax=20)
            assert call(algo.mpe, sel, 1) == ("exc", ValueError)
            assert call(algo.mpe_from_plot) == ("exc", ValueError)


def check_pair(o_new, o_old, label):
    (r_new, s_new), (r_old, s_old) = o_new, o_old
    assert r_new[0] == r_old[0], (label, r_new, r_old)
    STATS[r_new[0]] += 1
    if r_new[0] == "exc":
        assert r_new[1] is r_old[1], (label, r_new, r_old)
    else:
        assert r_new[1] is None and r_old[1] is None
    same(s_new, s_old, label)


# ----------------------------------------------------------------------------
# 3. end to end: real run() (uncertainty on, user-set criteria) + mpe
# ----------------------------------------------------------------------------
def synthetic_data(rng, fs=100.0, n=6000, n_ch=4):
    t = np.arange(n) / fs
    freqs = np.array([3.1, 8.4, 14.2])
    shapes = rng.normal(size=(n_ch, len(freqs)))
    # lightly damped oscillators driven by white noise
    y = np.zeros((n, n_ch))
    for k, f in enumerate(freqs):
        w = 2 * np.pi * f
        xi = 0.01
        h = np.exp(-xi * w * t[:800]) * np.sin(w * np.sqrt(1 - xi**2) * t[:800])
        q = np.convolve(rng.normal(size=n), h)[:n]
        y += np.outer(q, shapes[:, k])
    y += 0.05 * y.std() * rng.normal(size=y.shape)
    return y, fs, freqs


def check_end_to_end():
    rng = np.random.default_rng(3)
    data, fs, freqs = synthetic_data(rng)
    sel = [float(f) for f in freqs]

    runs = [
        (
            new_assi.SSIcov, orig_assi.SSIcov,
            dict(br=12, ordmax=24, step=1, calc_unc=True, nb=20, ref_ind=[2, 0],
                 hc=dict(conj=True, xi_max=0.08, mpc_lim=0.5, mpd_lim=0.5, cov_max=0.2)),
            SSI_FIELDS, SSI_TABLES,
        ),
        (
            new_assi.SSIdat, orig_assi.SSIdat,
            dict(br=10, ordmax=20, step=1,
                 hc=dict(conj=False, xi_max=0.1, mpc_lim=0.6, mpd_lim=0.4, cov_max=0.2)),
            SSI_FIELDS, SSI_TABLES,
        ),
        (
            new_aplscf.pLSCF, orig_aplscf.pLSCF,
            dict(ordmax=20, nxseg=512, hc=dict(conj=True, xi_max=0.08, mpc_lim=0.5, mpd_lim=0.5)),
            PLSCF_FIELDS, PLSCF_TABLES,
        ),
    ]
    for cls_new, cls_old, params, fields, tables in runs:
        base = cls_new(name="algo", **params)
        base._set_data(data=data, fs=fs)
        result = base.run()  # run() is untouched by the refactoring
        n_ord = result.Fn_poles.shape[1]
        n_retained = int(np.sum(~np.isnan(result.Fn_poles)))
        assert n_retained > 0
        if params.get("calc_unc"):
            assert result.Fn_poles_cov is not None
        # orders that contain at least one retained pole
        good = [j for j in range(n_ord) if not np.isnan(result.Fn_poles[:, j]).all()]
        # (gen.SC_apply labels the stable poles with 1, also for pLSCF)
        stable = result.Fn_poles[result.Lab == 1]
        sel = [float(np.median(stable[np.abs(stable - f) < 0.5])) for f in freqs]
        sel = [f for f in sel if not np.isnan(f)]
        assert len(sel) >= 2, sel
        requests = [
            ("find_min", 5e-2), ("find_min", 1e-2), (good[-1], 5e-2), (good[len(good) // 2], 2e-2),
            ([good[-1], good[-2], good[-3]], 5e-2), (good[0], 5e-2), (n_ord + 1, 5e-2),
        ]
        for order, rtol in requests:
            outs = []
            for cls in (cls_new, cls_old):
                algo = cls(name="algo", **params)
                algo._set_data(data=data, fs=fs)
                algo._set_result(copy.deepcopy(result))
                outs.append(run_method(algo, "mpe", (sel,), dict(order=order, rtol=rtol), fields, tables))
            check_pair(outs[0], outs[1], f"{cls_new.__name__} e2e mpe order {order!r}")
            if isinstance(order, list):
                FakeSFP.selection = (sel, order)
                outs = []
                for cls in (cls_new, cls_old):
                    algo = cls(name="algo", **params)
                    algo._set_data(data=data, fs=fs)
                    algo._set_result(copy.deepcopy(result))
                    outs.append(run_method(algo, "mpe_from_plot", (), dict(rtol=rtol), fields, tables))
                check_pair(outs[0], outs[1], f"{cls_new.__name__} e2e mpe_from_plot")
        print(f"  e2e {cls_new.__name__}: {n_retained} retained poles, {n_ord} orders, "
              f"find_min -> order_out={_e2e_order(cls_new, params, data, fs, result, sel)}")


def _e2e_order(cls, params, data, fs, result, sel):
    algo = cls(name="algo", **params)
    algo._set_data(data=data, fs=fs)
    algo._set_result(copy.deepcopy(result))
    algo.mpe(sel, order="find_min")
    return algo.result.order_out, np.round(algo.result.Fn, 3)


if __name__ == "__main__":
    check_functions()
    print("functions:", STATS)
    for key in sorted(COVER):
        print("   ", *key, COVER[key])
    check_unit_test_inputs()
    check_overlapping_bands()
    print("+ 3-D tables, overlapping bands:", STATS)
    check_classes()
    print("+ classes:", STATS)
    check_end_to_end()
    print("+ end to end:", STATS)
    assert STATS["ok"] > 1000 and STATS["exc"] > 100
    print("PASS")
