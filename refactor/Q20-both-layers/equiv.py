"""
Equivalence check: refactored plot.py / ssi.py / plscf.py / fdd.py versus the pristine HEAD copies.

Three views are compared for every random input
  (A) the exact sequence of calls (method name, positional and keyword arguments, including the
      dtype / shape / NaN pattern of every array) made on a recording Axes stand-in,
  (B) the artists found on a real Agg axes (Line2D x/y data, PathCollection offsets, error-bar
      segments, colours, labels, limits, legend texts),
  (C) for the algorithm classes: the fully bound argument set handed to the plot functions and
      the artists of the returned axes.
Exceptions must be of the same type with the same message.
"""
import importlib.util
import inspect
import os
import sys
import types
import warnings

import matplotlib

matplotlib.use("Agg")
import matplotlib.pyplot as plt  # noqa: E402
import numpy as np  # noqa: E402

HERE = os.path.dirname(os.path.abspath(__file__))
sys.path.insert(0, os.path.join(os.path.dirname(HERE), "src"))

import pyoma2.algorithms.fdd as new_fdd  # noqa: E402
import pyoma2.algorithms.plscf as new_plscf  # noqa: E402
import pyoma2.algorithms.ssi as new_ssi  # noqa: E402
import pyoma2.functions.plot as new_plot  # noqa: E402
from pyoma2.algorithms.data.result import FDDResult, SSIResult, pLSCFResult  # noqa: E402
from pyoma2.algorithms.data.run_params import (  # noqa: E402
    FDDRunParams,
    SSIRunParams,
    pLSCFRunParams,
)


def load(name, fname):
    spec = importlib.util.spec_from_file_location(name, os.path.join(HERE, fname))
    mod = importlib.util.module_from_spec(spec)
    sys.modules[name] = mod
    spec.loader.exec_module(mod)
    return mod


old_plot = load("pyoma2.functions._orig_plot", "orig_plot.py")
old_ssi = load("pyoma2.algorithms._orig_ssi", "orig_ssi.py")
old_plscf = load("pyoma2.algorithms._orig_plscf", "orig_plscf.py")
old_fdd = load("pyoma2.algorithms._orig_fdd", "orig_fdd.py")
assert "/_refactor/" in old_plot.__file__ and "/src/pyoma2/" in new_plot.__file__
# the pristine algorithm modules must call the pristine plot module
for m in (old_ssi, old_plscf, old_fdd):
    m.plot = old_plot

warnings.simplefilter("ignore")
N_CHECKS = 0


# ----------------------------------------------------------------------------- comparison
def same(a, b, path="", exact_type=True):
    """Deep, dtype- and NaN-aware equality."""
    if isinstance(a, np.ndarray) or isinstance(b, np.ndarray):
        assert isinstance(a, np.ndarray) and isinstance(b, np.ndarray), (path, type(a), type(b))
        assert a.dtype == b.dtype, (path, a.dtype, b.dtype)
        assert a.shape == b.shape, (path, a.shape, b.shape)
        if a.dtype.kind in "fc":
            assert np.array_equal(a, b, equal_nan=True), (path, a, b)
        else:
            assert np.array_equal(a, b), (path, a, b)
        return
    if isinstance(a, (list, tuple)):
        assert type(a) is type(b) and len(a) == len(b), (path, a, b)
        for i, (u, v) in enumerate(zip(a, b)):
            same(u, v, f"{path}[{i}]")
        return
    if isinstance(a, dict):
        assert isinstance(b, dict) and sorted(a) == sorted(b), (path, a, b)
        for k in a:
            same(a[k], b[k], f"{path}.{k}")
        return
    if isinstance(a, float) and isinstance(b, float) and a != a and b != b:
        return
    if exact_type:
        assert type(a) is type(b), (path, type(a), type(b))
    assert a == b, (path, a, b)


class RecAx:
    """Stand-in for Axes / Figure that records every call made on it."""

    def __init__(self, log, tag="ax"):
        self._log = log
        self._tag = tag

    def __getattr__(self, name):
        def method(*args, **kwargs):
            self._log.append((self._tag, name, tuple(args), dict(kwargs)))
            return [RecAx(self._log, self._tag + "." + name)]

        return method


def outcome(fn):
    try:
        return ("ok", fn())
    except Exception as e:  # noqa: BLE001
        return ("exc", type(e), str(e))


def artists(ax):
    """Everything observable on a real axes."""
    out = {
        "title": ax.get_title(),
        "xlabel": ax.get_xlabel(),
        "ylabel": ax.get_ylabel(),
        "xlim": tuple(float(v) for v in ax.get_xlim()),
        "ylim": tuple(float(v) for v in ax.get_ylim()),
        "lines": [],
        "collections": [],
        "legend": None,
    }
    for ln in ax.get_lines():
        out["lines"].append(
            {
                "x": np.asarray(ln.get_xdata(orig=True)),
                "y": np.asarray(ln.get_ydata(orig=True)),
                "color": str(ln.get_color()),
                "marker": str(ln.get_marker()),
                "ls": str(ln.get_linestyle()),
                "ms": float(ln.get_markersize()),
                "lw": float(ln.get_linewidth()),
                "label": str(ln.get_label()),
            }
        )
    for co in ax.collections:
        d = {
            "cls": type(co).__name__,
            "label": str(co.get_label()),
            "offsets": np.asarray(np.ma.filled(co.get_offsets(), np.nan), dtype=float),
            "fc": np.asarray(co.get_facecolor(), dtype=float),
            "ec": np.asarray(co.get_edgecolor(), dtype=float),
        }
        if hasattr(co, "get_segments"):
            d["segments"] = [np.asarray(s, dtype=float) for s in co.get_segments()]
        if hasattr(co, "get_sizes"):
            d["sizes"] = np.asarray(co.get_sizes(), dtype=float)
        out["collections"].append(d)
    leg = ax.get_legend()
    if leg is not None:
        out["legend"] = [t.get_text() for t in leg.get_texts()]
    return out


def compare_function(name, args, kwargs):
    """Views (A) and (B) for a module-level plot function."""
    global N_CHECKS
    f_new, f_old = getattr(new_plot, name), getattr(old_plot, name)
    assert inspect.signature(f_new) == inspect.signature(f_old), name

    # (A) recorded calls; cluster_plot creates its own axes, so only view (B) applies to it
    if "ax" in inspect.signature(f_old).parameters:
        logs = []
        res = []
        for f in (f_old, f_new):
            log = []
            fig, ax = RecAx(log, "fig"), RecAx(log, "ax")
            r = outcome(lambda: f(*args, fig=fig, ax=ax, **kwargs))  # noqa: B023
            if r[0] == "ok":
                assert r[1][0] is fig and r[1][1] is ax
                r = ("ok",)
            logs.append(log)
            res.append(r)
        same(res[0], res[1], name + ":outcome(rec)")
        same(logs[0], logs[1], name + ":calls")
        N_CHECKS += 1

    # (B) real artists
    res = []
    for f in (f_old, f_new):

        def run(f=f):
            fig, ax = f(*args, **kwargs)
            try:
                assert isinstance(fig, plt.Figure) and ax.figure is fig
                return artists(ax)
            finally:
                plt.close("all")

        res.append(outcome(run))
        plt.close("all")
    same(res[0], res[1], name + ":artists")
    N_CHECKS += 1
    return res[0]


# ----------------------------------------------------------------------------- generators
rng = np.random.default_rng(20)


def pole_tables(rows, n_ord):
    Fn = rng.uniform(0.1, 50.0, size=(rows, n_ord))
    Xi = rng.uniform(0.0, 0.2, size=(rows, n_ord))
    mode = rng.integers(0, 4)
    if mode == 0:  # labels 0/1, NaN where rejected
        Lab = rng.integers(0, 2, size=(rows, n_ord)).astype(float)
        rej = rng.random((rows, n_ord)) < rng.uniform(0, 0.6)
        Lab[rej] = np.nan
        Fn[rej] = np.nan
        Xi[rej] = np.nan
    elif mode == 1:  # lower-triangular NaN pattern as produced by the pole extraction
        Lab = rng.integers(0, 2, size=(rows, n_ord)).astype(float)
        for j in range(n_ord):
            k = min(rows, int(rows * (j + 1) / n_ord) + 1)
            Fn[k:, j] = np.nan
            Xi[k:, j] = np.nan
            Lab[k:, j] = np.nan
    elif mode == 2:  # integer labels, legacy values as well, NaN only in the poles
        Lab = rng.integers(0, 8, size=(rows, n_ord))
        Fn[rng.random((rows, n_ord)) < 0.3] = np.nan
    else:  # all stable / all unstable / all NaN
        Lab = np.full((rows, n_ord), rng.choice([0.0, 1.0, np.nan]))
    return Fn, Xi, Lab


def rand_cov(Fn):
    cov = rng.uniform(0, 0.03, size=Fn.shape)
    cov[rng.random(Fn.shape) < 0.2] *= 40  # some error bars above the 0.5 cap
    cov[rng.random(Fn.shape) < 0.1] = np.nan
    if rng.random() < 0.3:
        cov = -cov
    return cov


def rand_freqlim():
    return None if rng.random() < 0.4 else tuple(sorted(rng.uniform(0, 60, 2)))


# ----------------------------------------------------------------------------- functions
def check_stab_and_cluster():
    shapes = [(1, 1), (2, 1), (1, 7), (6, 3), (10, 60), (24, 12), (60, 60), (5, 5), (3, 17)]
    shapes += [(int(rng.integers(1, 40)), int(rng.integers(1, 61))) for _ in range(25)]
    for rows, n_ord in shapes:
        Fn, Xi, Lab = pole_tables(rows, n_ord)
        step = int(rng.integers(1, 6))
        ordmin = int(rng.integers(0, 5))
        ordmax = ordmin + step * n_ord
        for hide in (True, False, 1, 0):
            for cov in (None, rand_cov(Fn)):
                fl = rand_freqlim()
                got = compare_function(
                    "stab_plot",
                    (Fn, Lab, step, ordmax),
                    dict(ordmin=ordmin, freqlim=fl, hide_poles=hide, Fn_cov=cov),
                )
                assert got[0] == "ok"
            got = compare_function(
                "cluster_plot", (Fn, Xi, Lab), dict(ordmin=ordmin, freqlim=rand_freqlim(), hide_poles=hide)
            )
            assert got[0] == "ok"
    # positional use, default arguments, float step
    Fn, Xi, Lab = pole_tables(8, 9)
    compare_function("stab_plot", (Fn, Lab, 2, 18), {})
    compare_function("stab_plot", (Fn, Lab, 2, 18, 1, (0, 20), False), {})
    compare_function("stab_plot", (Fn, Lab, 2.5, 18), dict(hide_poles=False))
    compare_function("stab_plot", (Fn, Lab, np.int32(3), 18), dict(Fn_cov=rand_cov(Fn)))
    compare_function("cluster_plot", (Fn, Xi, Lab), {})
    compare_function("cluster_plot", (Fn, Xi, Lab, 0, (1, 2), False), {})
    # degenerate tables and invalid inputs: same result or same exception
    odd = [
        (np.empty((0, 4)), np.empty((0, 4))),
        (np.empty((4, 0)), np.empty((4, 0))),
        (np.empty((0,)), np.empty((0,))),
        (np.array([1.0, 2.0, np.nan]), np.array([1, 0, 1])),  # 1-D tables
        (np.array(3.0), np.array(1)),  # 0-d -> TypeError
        (rng.random((4, 5)), rng.integers(0, 2, (5, 4))),  # broadcast error
        (rng.random((4, 5)), rng.integers(0, 2, (1, 5))),  # broadcast OK
        (rng.random((4, 5)).tolist(), rng.integers(0, 2, (4, 5))),  # list table
        (rng.random((4, 5)), rng.integers(0, 2, (4, 5)).tolist()),  # list labels
        (rng.random((2, 3, 4)), rng.integers(0, 2, (2, 3, 4))),  # 3-D
    ]
    for Fn, Lab in odd:
        for hide in (True, False):
            for cov in (None, 0.02, np.full(np.shape(Fn), 0.3), rng.random((7, 7))):
                compare_function("stab_plot", (Fn, Lab, 2, 10), dict(hide_poles=hide, Fn_cov=cov))
            compare_function("cluster_plot", (Fn, Fn, Lab), dict(hide_poles=hide))
            compare_function("cluster_plot", (Fn, rng.random((9, 2)), Lab), dict(hide_poles=hide))


def check_cmif():
    for _ in range(30):
        n = int(rng.integers(1, 7))
        nf = int(rng.integers(1, 200))
        S = np.zeros((n, n, nf))
        sv = np.sort(rng.uniform(1e-6, 10.0, size=(n, nf)), axis=0)[::-1]
        for k in range(n):
            S[k, k, :] = sv[k]
        kind = rng.integers(0, 4)
        if kind == 1:
            S[rng.integers(0, n), rng.integers(0, n), rng.integers(0, nf)] = np.nan
            S[0, 0, rng.integers(0, nf)] = np.nan
        elif kind == 2:
            S[0, 0, :] = 0.0  # zero reference -> inf / nan
        elif kind == 3:
            S = rng.uniform(0.1, 5, size=(n, n, nf))  # full (non diagonal) array
        freq = np.linspace(0, 50, nf)
        for nSv in ["all", "invalid", "1", 1.0, None, -1] + list(range(0, n + 2)):
            compare_function("CMIF_plot", (S, freq), dict(freqlim=rand_freqlim(), nSv=nSv))
        compare_function("CMIF_plot", (S, freq), {})
        compare_function("CMIF_plot", (S, freq[: max(1, nf - 1)]), {})  # grid mismatch
    compare_function("CMIF_plot", (np.empty((0, 0, 5)), np.arange(5.0)), {})
    compare_function("CMIF_plot", (np.empty((2, 2, 0)), np.empty(0)), {})
    compare_function("CMIF_plot", (rng.random((3, 2, 6)), np.arange(6.0)), {})
    compare_function("CMIF_plot", (rng.random((2, 3, 6)), np.arange(6.0)), {})
    compare_function("CMIF_plot", (rng.random((3, 3, 6)).tolist(), np.arange(6.0)), dict(nSv=2))


# ----------------------------------------------------------------------------- classes
class Spy:
    """Replacement for the `plot` module inside an algorithm module: records the bound arguments."""

    def __init__(self, real):
        self.real = real
        self.calls = []

    def __getattr__(self, name):
        real_fn = getattr(self.real, name)
        sig = inspect.signature(getattr(old_plot, name))

        def fn(*args, **kwargs):
            ba = sig.bind(*args, **kwargs)
            ba.apply_defaults()
            self.calls.append((name, dict(ba.arguments)))
            return real_fn(*args, **kwargs)

        return fn


def compare_method(old_cls, new_cls, old_mod, new_mod, make_alg, meth, kwargs, args=()):
    global N_CHECKS
    res, calls = [], []
    for cls, mod, real in ((old_cls, old_mod, old_plot), (new_cls, new_mod, new_plot)):
        spy = Spy(real)
        saved = mod.plot
        mod.plot = spy
        try:
            alg = make_alg(cls)

            def run(alg=alg):
                r = getattr(alg, meth)(*args, **kwargs)
                try:
                    assert type(r) is tuple and len(r) == 2
                    fig, ax = r
                    assert isinstance(fig, plt.Figure) and ax.figure is fig
                    return artists(ax)
                finally:
                    plt.close("all")

            res.append(outcome(run))
        finally:
            mod.plot = saved
            plt.close("all")
        calls.append(spy.calls)
    same(res[0], res[1], f"{new_cls.__name__}.{meth}:artists")
    same(calls[0], calls[1], f"{new_cls.__name__}.{meth}:handover")
    N_CHECKS += 1
    return res[0]


def check_classes():
    ssi_pairs = [(getattr(old_ssi, n), getattr(new_ssi, n)) for n in ("SSIdat", "SSIcov", "SSIdat_MS", "SSIcov_MS")]
    plscf_pairs = [(getattr(old_plscf, n), getattr(new_plscf, n)) for n in ("pLSCF", "pLSCF_MS")]
    fdd_pairs = [(getattr(old_fdd, n), getattr(new_fdd, n)) for n in ("FDD", "EFDD", "FSDD", "FDD_MS")]

    for it in range(12):
        rows, n_ord = int(rng.integers(1, 30)), int(rng.integers(1, 61))
        Fn, Xi, Lab = pole_tables(rows, n_ord)
        step = int(rng.integers(1, 5))
        ordmin = int(rng.integers(0, 4))
        ordmax = ordmin + step * n_ord
        cov = None if it % 2 else rand_cov(Fn)

        ssi_res = SSIResult.model_construct(Fn_poles=Fn, Xi_poles=Xi, Lab=Lab, Fn_poles_cov=cov)
        ssi_rp = SSIRunParams(br=10, ordmin=ordmin, ordmax=ordmax, step=step)
        pl_res = pLSCFResult.model_construct(Fn_poles=Fn, Xi_poles=Xi, Lab=Lab)
        pl_rp = pLSCFRunParams(ordmax=ordmax, ordmin=ordmin)

        def mk(result, rp):
            def make(cls):
                alg = cls(run_params=rp)
                alg.result = result
                return alg

            return make

        for hide in (True, False):
            fl = rand_freqlim()
            for old_cls, new_cls in ssi_pairs:
                for meth in ("plot_stab", "plot_cluster"):
                    r = compare_method(
                        old_cls, new_cls, old_ssi, new_ssi, mk(ssi_res, ssi_rp), meth,
                        dict(freqlim=fl, hide_poles=hide),
                    )
                    assert r[0] == "ok", r
                    compare_method(old_cls, new_cls, old_ssi, new_ssi, mk(ssi_res, ssi_rp), meth, {}, (fl, hide))
            for old_cls, new_cls in plscf_pairs:
                for meth in ("plot_stab", "plot_cluster"):
                    r = compare_method(
                        old_cls, new_cls, old_plscf, new_plscf, mk(pl_res, pl_rp), meth,
                        dict(freqlim=fl, hide_poles=hide),
                    )
                    assert r[0] == "ok", r
                    compare_method(old_cls, new_cls, old_plscf, new_plscf, mk(pl_res, pl_rp), meth, {}, (fl, hide))

        # singular values through FDD.plot_CMIF
        n, nf = int(rng.integers(1, 6)), int(rng.integers(2, 150))
        S = rng.uniform(1e-3, 5, size=(n, n, nf))
        fdd_res = FDDResult.model_construct(freq=np.linspace(0, 40, nf), S_val=S)
        for old_cls, new_cls in fdd_pairs:
            for nSv in ("all", 0, n - 1, n, "bad"):
                fl = rand_freqlim()
                compare_method(
                    old_cls, new_cls, old_fdd, new_fdd, mk(fdd_res, None), "plot_CMIF", dict(freqlim=fl, nSv=nSv)
                )
                compare_method(old_cls, new_cls, old_fdd, new_fdd, mk(fdd_res, None), "plot_CMIF", {}, (fl, nSv))
            compare_method(old_cls, new_cls, old_fdd, new_fdd, mk(fdd_res, None), "plot_CMIF", {})

    # before run / without run parameters: same exception
    def bare(result, rp):
        def make(cls):
            alg = cls()
            alg.result = result
            alg.run_params = rp
            return alg

        return make

    Fn, Xi, Lab = pole_tables(4, 6)
    ns_res = types.SimpleNamespace(Fn_poles=Fn, Xi_poles=Xi, Lab=Lab, Fn_poles_cov=None)
    partial = types.SimpleNamespace(Fn_poles=Fn)  # missing attributes
    ns_rp = types.SimpleNamespace(ordmin=0, ordmax=6, step=1)
    for result, rp in ((None, None), (None, ns_rp), (ns_res, None), (ns_res, ns_rp), (partial, ns_rp), (ns_res, types.SimpleNamespace())):
        for old_cls, new_cls in ssi_pairs:
            for meth in ("plot_stab", "plot_cluster"):
                compare_method(old_cls, new_cls, old_ssi, new_ssi, bare(result, rp), meth, {})
        for old_cls, new_cls in plscf_pairs:
            for meth in ("plot_stab", "plot_cluster"):
                compare_method(old_cls, new_cls, old_plscf, new_plscf, bare(result, rp), meth, {})
    for result in (None, types.SimpleNamespace(), types.SimpleNamespace(S_val=np.ones((2, 2, 3)))):
        for old_cls, new_cls in fdd_pairs:
            compare_method(old_cls, new_cls, old_fdd, new_fdd, bare(result, None), "plot_CMIF", {})


if __name__ == "__main__":
    check_stab_and_cluster()
    n1 = N_CHECKS
    check_cmif()
    n2 = N_CHECKS
    check_classes()
    print(f"comparisons: stab/cluster={n1} cmif={n2 - n1} classes={N_CHECKS - n2}")
    print("PASS")
