"""
Differential test: the library in PYTHONPATH (CLEAN version of the commit) against the
pristine implementation, loaded from the copies orig_functions_fdd.py and
orig_algorithms_fdd.py saved next to this script.

Run:  PYTHONPATH=<tree>/src /venv/bin/python equiv.py
"""
import importlib.util
import logging
import os
import sys
import warnings

os.environ.setdefault("TQDM_DISABLE", "1")
warnings.filterwarnings("ignore")
logging.disable(logging.CRITICAL)

import numpy as np  # noqa: E402

import pyoma2.algorithms  # noqa: E402,F401
import pyoma2.functions  # noqa: E402,F401
from pyoma2.algorithms import fdd as new_alg  # noqa: E402
from pyoma2.functions import fdd as new_fun  # noqa: E402
from pyoma2.setup.multi import MultiSetup_PreGER  # noqa: E402
from pyoma2.setup.single import SingleSetup  # noqa: E402

HERE = os.path.dirname(os.path.abspath(__file__))


def _load(name, filename):
    spec = importlib.util.spec_from_file_location(name, os.path.join(HERE, filename))
    mod = importlib.util.module_from_spec(spec)
    sys.modules[name] = mod
    spec.loader.exec_module(mod)
    return mod


orig_fun = _load("pyoma2.functions._orig_fdd", "orig_functions_fdd.py")
orig_alg = _load("pyoma2.algorithms._orig_fdd", "orig_algorithms_fdd.py")
orig_alg.fdd = orig_fun  # the pristine classes call the pristine routines

problems = []
n_checks = 0


def same(a, b):
    a, b = np.asarray(a), np.asarray(b)
    if a.shape != b.shape:
        return False
    return np.array_equal(a, b, equal_nan=True) or np.allclose(
        a, b, rtol=1e-12, atol=0, equal_nan=True
    )


def call(f, *a, **k):
    try:
        return "ok", f(*a, **k)
    except Exception as e:  # noqa: BLE001
        return "exc", e


def compare(tag, f_new, f_orig, args_new, args_orig=None, kwargs=None, exc_type=True):
    global n_checks
    n_checks += 1
    kwargs = kwargs or {}
    args_orig = args_new if args_orig is None else args_orig
    sn, rn = call(f_new, *args_new, **kwargs)
    so, ro = call(f_orig, *args_orig, **kwargs)
    if sn != so:
        problems.append(f"{tag}: new -> {sn} ({rn!r:.80}), orig -> {so} ({ro!r:.80})")
    elif sn == "exc":
        if exc_type and type(rn) is not type(ro):
            problems.append(f"{tag}: exception {type(rn).__name__} vs {type(ro).__name__}")
    else:
        for i, (x, y) in enumerate(zip(rn, ro)):
            if not same(x, y):
                problems.append(f"{tag}: output {i} differs")


def rand_setups(rng, n_setup, n_ref, nxseg):
    ndat = int(rng.integers(4 * nxseg, 7 * nxseg))
    Y = []
    for _ in range(n_setup):
        gain = float(rng.uniform(0.2, 5.0))
        Y.append(
            {
                "ref": gain * rng.standard_normal((n_ref, ndat)),
                "mov": gain * rng.standard_normal((int(rng.integers(1, 4)), ndat)),
            }
        )
    return Y


def results(alg):
    r = alg.result
    return r.freq, r.Sy, r.S_val, r.S_vec


def run_ms(cls, datasets, ref_ind, fs, **params):
    ms = MultiSetup_PreGER(fs=fs, ref_ind=ref_ind, datasets=datasets)
    alg = cls(name="a", **params)
    ms.add_algorithms(alg)
    ms.run_all()
    return results(alg)


def run_ss(cls, data, fs, **params):
    ss = SingleSetup(data, fs=fs)
    alg = cls(name="a", **params)
    ss.add_algorithms(alg)
    ss.run_all()
    return results(alg)


def main():
    rng = np.random.default_rng(4)
    segs = [64, 100, 128, 256, 500, 512, 1024, 2048]
    povs = [0.0, 0.0, 0.25, 0.5, 0.5, 0.75]

    # 1. SD_PreGER, keyword and positional, arrays / nested lists / tuple of setups
    for i in range(30):
        method = ["per", "cor"][i % 2]
        nxseg = int(rng.choice(segs))
        pov = float(rng.choice(povs)) if i % 5 else float(rng.uniform(0, 0.75))
        fs = float(rng.choice([50.0, 100.0, 333.0, 1000.0]))
        Y = rand_setups(rng, int(rng.integers(2, 5)), int(rng.integers(1, 4)), nxseg)
        tag = f"SD_PreGER[{i}] {method} nxseg={nxseg} pov={pov:.3f}"
        if i % 3 == 0:
            compare(tag, new_fun.SD_PreGER, orig_fun.SD_PreGER, (Y, fs, nxseg, pov, method))
        elif i % 3 == 1:
            compare(
                tag,
                new_fun.SD_PreGER,
                orig_fun.SD_PreGER,
                (Y, fs),
                kwargs=dict(nxseg=nxseg, pov=pov, method=method),
            )
        else:  # new input forms against the plain form of the original
            Yl = tuple({"ref": s["ref"].tolist(), "mov": s["mov"].tolist()} for s in Y)
            compare(
                tag + " (lists)",
                new_fun.SD_PreGER,
                orig_fun.SD_PreGER,
                (Yl, fs),
                (Y, fs),
                kwargs=dict(nxseg=nxseg, pov=pov, method=method),
            )
    # defaults
    Y = rand_setups(rng, 2, 2, 1024)
    compare("SD_PreGER defaults", new_fun.SD_PreGER, orig_fun.SD_PreGER, (Y, 100.0))
    # one reference channel given as a 1D record
    Y1 = [{"ref": s["ref"][0], "mov": s["mov"]} for s in rand_setups(rng, 3, 1, 256)]
    Y2 = [{"ref": s["ref"][None, :], "mov": s["mov"]} for s in Y1]
    compare("SD_PreGER 1D ref", new_fun.SD_PreGER, orig_fun.SD_PreGER, (Y1, 100.0, 256), (Y2, 100.0, 256))
    # deprecated long spelling
    for long, short in (("periodogram", "per"), ("Correlogram", "cor")):
        compare(
            f"SD_PreGER {long}",
            new_fun.SD_PreGER,
            orig_fun.SD_PreGER,
            (Y, 100.0, 512, 0.25, long),
            (Y, 100.0, 512, 0.25, short),
        )

    # 2. SD_est
    for i in range(24):
        method = ["per", "cor"][i % 2]
        nxseg = int(rng.choice(segs))
        pov = float(rng.choice(povs))
        ndat = int(rng.integers(4 * nxseg, 6 * nxseg))
        Yall = rng.standard_normal((int(rng.integers(2, 7)), ndat))
        Yref = Yall[: int(rng.integers(1, Yall.shape[0] + 1))]
        dt = 1 / float(rng.choice([50.0, 100.0, 333.0]))
        tag = f"SD_est[{i}] {method} nxseg={nxseg} pov={pov}"
        if i % 2:
            compare(tag, new_fun.SD_est, orig_fun.SD_est, (Yall, Yref, dt, nxseg, method, pov))
        else:
            compare(
                tag,
                new_fun.SD_est,
                orig_fun.SD_est,
                (Yall, Yref, dt, nxseg),
                kwargs=dict(method=method, pov=pov),
            )
    Yall = rng.standard_normal((3, 4096))
    compare("SD_est defaults", new_fun.SD_est, orig_fun.SD_est, (Yall, Yall[:2], 0.01))

    # 3. FDD_MS / EFDD_MS through MultiSetup_PreGER
    for i in range(24):
        method = ["per", "cor"][(i // 2) % 2]
        nxseg = int(rng.choice(segs[:-1]))
        pov = float(rng.choice(povs))
        fs = float(rng.choice([50.0, 100.0, 333.0]))
        n_ref = int(rng.integers(1, 4))
        ndat = int(rng.integers(4 * nxseg, 6 * nxseg))
        datasets, ref_ind = [], []
        for _ in range(int(rng.integers(2, 5))):
            n_loc = n_ref + int(rng.integers(1, 4))
            datasets.append(float(rng.uniform(0.5, 3)) * rng.standard_normal((ndat, n_loc)))
            ref_ind.append([int(p) for p in rng.permutation(n_loc)[:n_ref]])
        name = ["FDD_MS", "EFDD_MS"][i % 2]
        params = dict(nxseg=nxseg, method_SD=method, pov=pov)
        if i % 6 == 5:
            params = {}  # run-parameter defaults
            params["DF" if name == "FDD_MS" else "DF1"] = 0.1
        compare(
            f"{name}[{i}] {params}",
            lambda *a, **k: run_ms(getattr(new_alg, name), *a, **k),
            lambda *a, **k: run_ms(getattr(orig_alg, name), *a, **k),
            (datasets, ref_ind, fs),
            kwargs=params,
        )

    # 4. single-setup classes (SD_est gained a parameter)
    for i in range(8):
        method = ["per", "cor"][i % 2]
        nxseg = int(rng.choice(segs[:-1]))
        pov = float(rng.choice(povs))
        data = rng.standard_normal((5 * nxseg + 11, int(rng.integers(2, 6))))
        name = ["FDD", "EFDD"][(i // 2) % 2]
        compare(
            f"{name}[{i}] {method} nxseg={nxseg} pov={pov}",
            lambda *a, **k: run_ss(getattr(new_alg, name), *a, **k),
            lambda *a, **k: run_ss(getattr(orig_alg, name), *a, **k),
            (data, 100.0),
            kwargs=dict(nxseg=nxseg, method_SD=method, pov=pov),
        )

    # 5. invalid use is rejected by both
    Y = rand_setups(rng, 2, 2, 128)
    bad_len = [Y[0], {"ref": Y[1]["ref"], "mov": Y[1]["mov"][:, :-5]}]
    compare("ref/mov length mismatch", new_fun.SD_PreGER, orig_fun.SD_PreGER, (bad_len, 100.0, 128))
    compare("pov = 1", new_fun.SD_PreGER, orig_fun.SD_PreGER, (Y, 100.0, 128, 1.0, "per"))
    compare("missing key", new_fun.SD_PreGER, orig_fun.SD_PreGER, ([{"ref": Y[0]["ref"]}], 100.0, 128))
    few_ref = [Y[0], {"ref": Y[1]["ref"][:1], "mov": Y[1]["mov"]}]
    # deliberate change: the original silently mixed roving rows into the reference block
    st, r = call(new_fun.SD_PreGER, few_ref, 100.0, 128)
    if not (st == "exc" and isinstance(r, ValueError)):
        problems.append("unequal number of references is not rejected with ValueError")
    # the kind of exception changes on purpose here (ValueError instead of a NameError-like
    # failure / IndexError further down), only "both reject" is compared
    compare("unknown method", new_fun.SD_PreGER, orig_fun.SD_PreGER, (Y, 100.0, 128, 0.5, "xyz"), exc_type=False)
    compare("unknown method SD_est", new_fun.SD_est, orig_fun.SD_est, (Y[0]["ref"], Y[0]["ref"], 0.01, 128, "xyz"), exc_type=False)
    compare("no setup", new_fun.SD_PreGER, orig_fun.SD_PreGER, ([], 100.0), exc_type=False)

    print(f"{n_checks} comparisons")
    if problems:
        print("FAIL")
        for p in problems:
            print("  " + p)
        return 1
    print("PASS")
    return 0


if __name__ == "__main__":
    sys.exit(main())
