"""
Equivalence check for the C19 refactoring (geometry tables / mode-shape mapping).

Runs the refactored functions (pyoma2 from /tmp/wt/Q19/src) and the ORIGINAL ones
(pristine copies orig_gen.py / orig_mixin.py / orig_mpl_plotter.py next to this file)
on random inputs that cover the quantifier of the property and asserts identical
results: return values, in-place changes of the dictionary of sheets, exceptions
(type and message), geometry models stored by the mixin, and the artists / pixels
drawn by plot_mode_geo1 / plot_mode_geo2_mpl (Agg backend).

usage: PYTHONPATH=/tmp/wt/Q19/src /venv/bin/python /tmp/wt/Q19/_refactor/equiv.py
"""
import copy
import importlib.util
import os
import sys
import warnings

import matplotlib

matplotlib.use("Agg")
import matplotlib.pyplot as plt  # noqa: E402
import numpy as np  # noqa: E402
import pandas as pd  # noqa: E402

HERE = os.path.dirname(os.path.abspath(__file__))
warnings.filterwarnings("ignore")

import pyoma2.functions.gen as new_gen  # noqa: E402
import pyoma2.support.geometry.mixin as new_mixin  # noqa: E402
import pyoma2.support.geometry.mpl_plotter as new_mpl  # noqa: E402
from pyoma2.algorithms.data.result import BaseResult  # noqa: E402


def _load(name, fname):
    spec = importlib.util.spec_from_file_location(name, os.path.join(HERE, fname))
    mod = importlib.util.module_from_spec(spec)
    sys.modules[name] = mod
    spec.loader.exec_module(mod)
    return mod


# the originals; the package-qualified names make the relative imports work
orig_gen = _load("orig_gen", "orig_gen.py")
orig_mpl = _load("pyoma2.support.geometry.orig_mpl_plotter", "orig_mpl_plotter.py")
orig_mixin = _load("pyoma2.support.geometry.orig_mixin", "orig_mixin.py")
# wire the original calling layer to the original routines
orig_mpl.dfphi_map_func = orig_gen.dfphi_map_func
orig_mixin.check_on_geo1 = orig_gen.check_on_geo1
orig_mixin.check_on_geo2 = orig_gen.check_on_geo2
orig_mixin.Geo1MplPlotter = orig_mpl.Geo1MplPlotter
orig_mixin.Geo2MplPlotter = orig_mpl.Geo2MplPlotter

# make sure that two different implementations are compared
assert new_gen.__file__.startswith("/tmp/wt/Q19/src/"), new_gen.__file__
assert hasattr(new_gen, "_finalise_sheets") and not hasattr(orig_gen, "_finalise_sheets")
assert hasattr(new_mixin.GeometryMixin, "_set_geo1")
assert not hasattr(orig_mixin.GeometryMixin, "_set_geo1")
assert new_mpl.Geo2MplPlotter is not orig_mpl.Geo2MplPlotter

COUNTS = {}


def count(key):
    COUNTS[key] = COUNTS.get(key, 0) + 1


# --------------------------------------------------------------------------- compare
def same(a, b, path="result"):
    """Strict structural equality (types, dtypes, index/columns, NaN pattern)."""
    assert type(a) is type(b), f"{path}: type {type(a)} != {type(b)}"
    if a is None:
        return
    if isinstance(a, pd.DataFrame):
        pd.testing.assert_frame_equal(a, b, check_exact=True, obj=path)
        assert list(a.dtypes) == list(b.dtypes), path
    elif isinstance(a, pd.Series):
        pd.testing.assert_series_equal(a, b, check_exact=True, obj=path)
    elif isinstance(a, pd.Index):
        pd.testing.assert_index_equal(a, b, exact=True, obj=path)
    elif isinstance(a, np.ndarray):
        assert a.dtype == b.dtype, f"{path}: dtype {a.dtype} != {b.dtype}"
        assert a.shape == b.shape, f"{path}: shape {a.shape} != {b.shape}"
        if a.dtype == object:
            same(a.ravel().tolist(), b.ravel().tolist(), path)
        else:
            assert np.array_equal(a, b, equal_nan=a.dtype.kind in "fc"), path
    elif isinstance(a, dict):
        assert list(a.keys()) == list(b.keys()), f"{path}: keys {list(a)} != {list(b)}"
        for k in a:
            same(a[k], b[k], f"{path}[{k!r}]")
    elif isinstance(a, (list, tuple)):
        assert len(a) == len(b), f"{path}: len {len(a)} != {len(b)}"
        for i, (x, y) in enumerate(zip(a, b)):
            same(x, y, f"{path}[{i}]")
    elif isinstance(a, float) and np.isnan(a):
        assert np.isnan(b), path
    else:
        assert a == b, f"{path}: {a!r} != {b!r}"


def run(fun, *args, **kwargs):
    try:
        return ("ok", fun(*args, **kwargs))
    except Exception as e:  # noqa: BLE001
        return ("exc", type(e), str(e))


def both(label, f_new, f_orig, args, kwargs=None, expect=None):
    """Call both versions on independent deep copies; compare outcome and arguments."""
    kwargs = kwargs or {}
    a_new, k_new = copy.deepcopy((args, kwargs))
    a_orig, k_orig = copy.deepcopy((args, kwargs))
    out_new = run(f_new, *a_new, **k_new)
    out_orig = run(f_orig, *a_orig, **k_orig)
    assert out_new[0] == out_orig[0], f"{label}: {out_new} != {out_orig}"
    if out_new[0] == "exc":
        assert out_new[1] is out_orig[1], f"{label}: {out_new} != {out_orig}"
        assert out_new[2] == out_orig[2], f"{label}: {out_new[2]!r} != {out_orig[2]!r}"
        count(f"{label.split(':')[0]} raises {out_new[1].__name__}")
    else:
        same(out_new[1], out_orig[1], f"{label}: result")
        count(f"{label.split(':')[0]} returns")
    # in-place effects on the arguments (the dictionary of sheets is modified in place)
    same(a_new, a_orig, f"{label}: args after the call")
    same(k_new, k_orig, f"{label}: kwargs after the call")
    if expect is not None:
        got = "ok" if out_new[0] == "ok" else out_new[1]
        assert got == expect, f"{label}: expected {expect}, got {out_new}"
    return out_new


# --------------------------------------------------------------------------- generators
def gen_names(rng):
    """Sensor names in one of the documented forms -> (sheet, ref_ind, flat names)."""
    form = rng.choice(["list", "array", "row", "lol", "table"])
    if form in ("list", "array", "row"):
        n = int(rng.integers(1, 13))
        flat = [f"ch{i}" for i in rng.permutation(np.arange(1, n + 1))]
        if form == "list":
            return list(flat), None, flat
        if form == "array":
            return np.array(flat), None, flat
        return pd.DataFrame([flat], index=["setup1"]), None, flat
    # multi setup: k reference sensors + roving sensors in every setup
    n_setup = int(rng.integers(2, 5))
    k = int(rng.integers(1, 3))
    setups, ref_ind, rov = [], [], []
    budget = 12 - k
    for s in range(n_setup):
        left_for_others = n_setup - s - 1
        n_rov = int(rng.integers(1, max(2, min(4, budget - left_for_others) + 1)))
        n_rov = max(1, min(n_rov, budget - left_for_others))
        budget -= n_rov
        length = k + n_rov
        refs = sorted(rng.choice(length, size=k, replace=False).tolist())
        if rng.random() < 0.5:
            refs = refs[::-1]  # reference layout in any order
        row, r = [], 0
        for j in range(length):
            if j in refs:
                row.append(f"s{s + 1}ref{refs.index(j) + 1}")
            else:
                r += 1
                row.append(f"s{s + 1}rov{r}")
                rov.append(row[-1])
        setups.append(row)
        ref_ind.append(refs)
    flat = [f"REF{i + 1}" for i in range(k)] + rov
    assert len(flat) <= 12
    if form == "lol":
        return setups, ref_ind, flat
    width = max(len(r) for r in setups)
    table = pd.DataFrame(
        [r + [np.nan] * (width - len(r)) for r in setups],
        index=[f"setup{i + 1}" for i in range(n_setup)],
    )
    return table, ref_ind, flat


def opt_table(rng, nrows, ncols, kind, npts):
    """Optional sheet: None (absent), empty dataframe or a table as read from Excel."""
    u = rng.random()
    if u < 0.25:
        return None
    if u < 0.45:
        return pd.DataFrame()
    if kind == "float":
        data = np.round(rng.normal(size=(nrows, ncols)) * 5, 3)
    else:  # one-based indices
        data = rng.integers(1, npts + 1, size=(nrows, ncols))
    cols = {2: ["p1", "p2"], 3: ["x", "y", "z"]}[ncols] if kind == "float" else None
    df = pd.DataFrame(data, columns=cols, index=np.arange(1, nrows + 1))
    df.index.name = "ID"
    return df


def add_optional(rng, fd, sheets):
    for name, tab in sheets.items():
        if tab is not None:
            fd[name] = tab


def gen_geo1(rng):
    names_sheet, ref_ind, flat = gen_names(rng)
    n = len(flat)
    order = list(rng.permutation(n))
    idx = [flat[i] for i in order]
    if rng.random() < 0.3:
        idx.insert(int(rng.integers(0, n + 1)), "spare")  # row that no sensor uses
    coord = pd.DataFrame(
        np.round(rng.normal(size=(len(idx), 3)) * 10, 3), index=idx, columns=["x", "y", "z"]
    )
    coord.index.name = "sName"
    direc = pd.DataFrame(
        rng.integers(-1, 2, size=(len(idx), 3)), index=idx, columns=["x", "y", "z"]
    )
    direc.index.name = "sName"
    fd = {
        "sensors names": names_sheet,
        "sensors coordinates": coord,
        "sensors directions": direc,
    }
    nbg = int(rng.integers(3, 7))
    add_optional(
        rng,
        fd,
        {
            "sensors lines": opt_table(rng, int(rng.integers(1, 6)), 2, "int", n),
            "BG nodes": opt_table(rng, nbg, 3, "float", nbg),
            "BG lines": opt_table(rng, int(rng.integers(1, 6)), 2, "int", nbg),
            "BG surfaces": opt_table(rng, int(rng.integers(1, 4)), 3, "int", nbg),
        },
    )
    return fd, ref_ind, flat


def gen_geo2(rng):
    names_sheet, ref_ind, flat = gen_names(rng)
    n = len(flat)
    npts = int(rng.integers(max(2, (n + 2) // 3), 9))
    while npts * 3 < n + 2:
        npts += 1
    n_cstr = int(rng.integers(0, 3))
    cstr_names = [f"cs{i + 1}" for i in range(n_cstr)]
    # every sensor (and every constraint) at least once, the rest 0 / NaN / repeats
    cells = list(flat) + list(cstr_names)
    while len(cells) < npts * 3:
        u = rng.random()
        if u < 0.35:
            cells.append(0)
        elif u < 0.6:
            cells.append(np.nan)
        elif u < 0.85 or not cstr_names:
            cells.append(flat[int(rng.integers(0, n))])
        else:
            cells.append(cstr_names[int(rng.integers(0, n_cstr))])
    cells = [cells[i] for i in rng.permutation(len(cells))]
    pt_idx = np.arange(1, npts + 1)
    mapping = pd.DataFrame(
        np.array(cells, dtype=object).reshape(npts, 3), index=pt_idx, columns=["x", "y", "z"]
    )
    mapping = mapping.infer_objects()
    mapping.index.name = "ptName"
    pts = pd.DataFrame(
        rng.integers(-20, 21, size=(npts, 3))
        if rng.random() < 0.3
        else np.round(rng.normal(size=(npts, 3)) * 10, 3),
        index=pt_idx,
        columns=["x", "y", "z"],
    )
    pts.index.name = "ptName"
    fd = {"sensors names": names_sheet, "points coordinates": pts, "mapping": mapping}
    # constraints: rows = constraint names, columns = (a subset of) the sensor names
    cstr = None
    if n_cstr:
        ncol = int(rng.integers(1, n + 1))
        cols = [flat[i] for i in rng.permutation(n)[:ncol]]
        vals = np.round(rng.normal(size=(n_cstr, ncol)), 3)
        vals[rng.random(vals.shape) < 0.3] = np.nan
        cstr = pd.DataFrame(vals, index=cstr_names, columns=cols)
        cstr.index.name = "cName"
    elif rng.random() < 0.3:
        cstr = pd.DataFrame()
    sign = None
    u = rng.random()
    if u < 0.5:
        sign = pd.DataFrame(
            rng.choice([-1, 0, 1], size=(npts, 3)), index=pt_idx, columns=["x", "y", "z"]
        )
        sign.index.name = "ptName"
    elif u < 0.7:
        sign = pd.DataFrame()
    nbg = int(rng.integers(3, 7))
    add_optional(
        rng,
        fd,
        {
            "constraints": cstr,
            "sensors sign": sign,
            "sensors lines": opt_table(rng, int(rng.integers(1, 6)), 2, "int", npts),
            "sensors surfaces": opt_table(rng, int(rng.integers(1, 4)), 3, "int", npts),
            "BG nodes": opt_table(rng, nbg, 3, "float", nbg),
            "BG lines": opt_table(rng, int(rng.integers(1, 6)), 2, "int", nbg),
            "BG surfaces": opt_table(rng, int(rng.integers(1, 4)), 3, "int", nbg),
        },
    )
    return fd, ref_ind, flat


# --------------------------------------------------------------------------- faults
def bg_fault(fd, sheet, ncols, rng):
    fd[sheet] = pd.DataFrame(
        rng.integers(1, 4, size=(3, ncols)), index=[1, 2, 3], columns=list("abcd")[:ncols]
    )


GEO1_FAULTS = {
    "none": (lambda fd, ri, fl, rng: None, "ok"),
    "info sheet": (lambda fd, ri, fl, rng: fd.update({"INFO": pd.DataFrame({"a": [1]})}), "ok"),
    "no names": (lambda fd, ri, fl, rng: fd.pop("sensors names"), ValueError),
    "no coordinates": (lambda fd, ri, fl, rng: fd.pop("sensors coordinates"), ValueError),
    "no directions": (lambda fd, ri, fl, rng: fd.pop("sensors directions"), ValueError),
    "unknown sheet": (lambda fd, ri, fl, rng: fd.update({"sensor lines": pd.DataFrame()}), ValueError),
    "coordinates 2 columns": (
        lambda fd, ri, fl, rng: fd.update({"sensors coordinates": fd["sensors coordinates"][["x", "y"]]}),
        ValueError,
    ),
    "coordinates 4 columns": (
        lambda fd, ri, fl, rng: fd.update(
            {"sensors coordinates": fd["sensors coordinates"].assign(w=1.0)}
        ),
        ValueError,
    ),
    "directions fewer rows": (
        lambda fd, ri, fl, rng: fd.update({"sensors directions": fd["sensors directions"].iloc[:-1]}),
        ValueError,
    ),
    "directions other index": (
        lambda fd, ri, fl, rng: fd.update(
            {
                "sensors directions": fd["sensors directions"].rename(
                    index={fd["sensors directions"].index[0]: "other"}
                )
            }
        ),
        ValueError,
    ),
    "BG nodes 2 columns": (lambda fd, ri, fl, rng: bg_fault(fd, "BG nodes", 2, rng), ValueError),
    "BG lines 3 columns": (lambda fd, ri, fl, rng: bg_fault(fd, "BG lines", 3, rng), ValueError),
    "BG surfaces 2 columns": (lambda fd, ri, fl, rng: bg_fault(fd, "BG surfaces", 2, rng), ValueError),
    "sensor absent from coordinates": (
        lambda fd, ri, fl, rng: [
            fd.update({k: fd[k].rename(index={fl[-1]: "renamed"})})
            for k in ("sensors coordinates", "sensors directions")
        ],
        ValueError,
    ),
    "names of a wrong type": (
        lambda fd, ri, fl, rng: fd.update({"sensors names": np.array([fl, fl])}),
        ValueError,
    ),
    "names mixed list": (
        lambda fd, ri, fl, rng: fd.update({"sensors names": ["a", ["b"]]}),
        ValueError,
    ),
}


def _drop_sensor_from_map(fd, ri, fl, rng):
    fd["mapping"] = fd["mapping"].replace({fl[-1]: 0})


def _cstr_unknown_column(fd, ri, fl, rng):
    c = fd.get("constraints")
    if c is None or c.empty:
        c = pd.DataFrame([[1.0]], index=["csX"], columns=[fl[0]])
        m = fd["mapping"].astype(object)
        m.iloc[0, 0] = m.iloc[0, 0]
        fd["mapping"] = m
    fd["constraints"] = c.assign(unknown=0.5)


def _cstr_unused(fd, ri, fl, rng):
    c = fd.get("constraints")
    if c is None or c.empty:
        fd["constraints"] = pd.DataFrame([[1.0]], index=["never used"], columns=[fl[0]])
    else:
        fd["constraints"] = pd.concat(
            [c, pd.DataFrame([[0.5] * c.shape[1]], index=["never used"], columns=c.columns)]
        )


GEO2_FAULTS = {
    "none": (lambda fd, ri, fl, rng: None, "ok"),
    "info sheet": (lambda fd, ri, fl, rng: fd.update({"INFO": pd.DataFrame({"a": [1]})}), "ok"),
    "no names": (lambda fd, ri, fl, rng: fd.pop("sensors names"), ValueError),
    "no points": (lambda fd, ri, fl, rng: fd.pop("points coordinates"), ValueError),
    "no mapping": (lambda fd, ri, fl, rng: fd.pop("mapping"), ValueError),
    "unknown sheet": (lambda fd, ri, fl, rng: fd.update({"constraint": pd.DataFrame()}), ValueError),
    "points 2 columns": (
        lambda fd, ri, fl, rng: fd.update({"points coordinates": fd["points coordinates"][["x", "y"]]}),
        ValueError,
    ),
    "mapping fewer rows": (
        lambda fd, ri, fl, rng: fd.update(
            {"mapping": pd.concat([fd["mapping"], fd["mapping"].iloc[:1]])}
        ),
        ValueError,
    ),
    "mapping 2 columns": (
        lambda fd, ri, fl, rng: fd.update({"mapping": fd["mapping"].assign(w=0)}),
        ValueError,
    ),
    "sign of another shape": (
        lambda fd, ri, fl, rng: fd.update(
            {"sensors sign": pd.DataFrame(np.ones((fd["mapping"].shape[0] + 1, 3)))}
        ),
        ValueError,
    ),
    "BG nodes 4 columns": (lambda fd, ri, fl, rng: bg_fault(fd, "BG nodes", 4, rng), ValueError),
    "BG lines 1 column": (lambda fd, ri, fl, rng: bg_fault(fd, "BG lines", 1, rng), ValueError),
    "BG surfaces 4 columns": (lambda fd, ri, fl, rng: bg_fault(fd, "BG surfaces", 4, rng), ValueError),
    "sensor absent from mapping": (_drop_sensor_from_map, ValueError),
    "constraint with unknown sensor": (_cstr_unknown_column, ValueError),
    "constraint never used": (_cstr_unused, ValueError),
    "names of a wrong type": (
        lambda fd, ri, fl, rng: fd.update({"sensors names": 3}),
        ValueError,
    ),
}


# --------------------------------------------------------------------------- 1. flatten
def test_flatten(rng):
    for _ in range(60):
        sheet, ref_ind, flat = gen_names(rng)
        out = both("flatten_sns_names", new_gen.flatten_sns_names, orig_gen.flatten_sns_names,
                   (sheet, ref_ind), expect="ok")
        assert out[1] == flat, (out[1], flat)
        if ref_ind is not None:
            # multi setup without / with too few / with wrong reference indices
            both("flatten_sns_names", new_gen.flatten_sns_names, orig_gen.flatten_sns_names,
                 (sheet, None), expect=AttributeError)
            both("flatten_sns_names", new_gen.flatten_sns_names, orig_gen.flatten_sns_names,
                 (sheet, ref_ind[:-1]), expect=IndexError)
            both("flatten_sns_names", new_gen.flatten_sns_names, orig_gen.flatten_sns_names,
                 (sheet, [[0, 1, 2]] + ref_ind[1:]))
            both("flatten_sns_names", new_gen.flatten_sns_names, orig_gen.flatten_sns_names,
                 (sheet, [[]] * len(ref_ind)))
            both("flatten_sns_names", new_gen.flatten_sns_names, orig_gen.flatten_sns_names,
                 (sheet, tuple(tuple(r) for r in ref_ind)))
        else:
            both("flatten_sns_names", new_gen.flatten_sns_names, orig_gen.flatten_sns_names,
                 (sheet, [[0]]))
    for bad in (3, "ch1", np.array([["a", "b"], ["c", "d"]]), ["a", 1], ["a", ["b"]],
                pd.DataFrame(), [], [[]], [[], ["a"]], ("a", "b"), None):
        for ri in (None, [[0], [0]], []):
            both("flatten_sns_names", new_gen.flatten_sns_names, orig_gen.flatten_sns_names,
                 (bad, ri))


# --------------------------------------------------------------------------- 2./3. checks
def test_check(rng, which):
    gen_fun, faults, f_new, f_orig = {
        "geo1": (gen_geo1, GEO1_FAULTS, new_gen.check_on_geo1, orig_gen.check_on_geo1),
        "geo2": (gen_geo2, GEO2_FAULTS, new_gen.check_on_geo2, orig_gen.check_on_geo2),
    }[which]
    valid = []
    for _ in range(40):
        fd, ref_ind, flat = gen_fun(rng)
        for fault, (apply, expect) in faults.items():
            fd_f = copy.deepcopy(fd)
            apply(fd_f, ref_ind, flat, rng)
            out = both(f"check_on_{which}: {fault}", f_new, f_orig, (fd_f,),
                       {"ref_ind": ref_ind}, expect=expect)
            if fault == "none":
                assert out[1][0] == flat, (out[1][0], flat)
                valid.append((fd, ref_ind, flat, out[1]))
        # positional reference indices / missing reference indices
        both(f"check_on_{which}: positional ref_ind", f_new, f_orig, (copy.deepcopy(fd), ref_ind))
        if ref_ind is not None:
            both(f"check_on_{which}: multi setup without ref_ind", f_new, f_orig,
                 (copy.deepcopy(fd),), expect=AttributeError)
        if which == "geo2":
            both("check_on_geo2: fill_na other", f_new, f_orig, (copy.deepcopy(fd),),
                 {"ref_ind": ref_ind, "fill_na": "interp"})
        # sheets of a type the functions do not handle (same exception expected)
        for sheet in ("sensors lines", "BG nodes", "BG lines"):
            fd_f = copy.deepcopy(fd)
            fd_f[sheet] = np.array([[1, 2, 3], [2, 3, 1]])
            both(f"check_on_{which}: array instead of table", f_new, f_orig, (fd_f,),
                 {"ref_ind": ref_ind})
            fd_f = copy.deepcopy(fd)
            fd_f[sheet] = None
            both(f"check_on_{which}: None instead of table", f_new, f_orig, (fd_f,),
                 {"ref_ind": ref_ind})
    return valid


# --------------------------------------------------------------------------- 4. mapping
def test_dfphi(rng, valid_geo2):
    for fd, ref_ind, flat, res in valid_geo2:
        sens_names, _pts, sens_map, cstr = res[0], res[1], res[2], res[3]
        for _ in range(2):
            phi = rng.normal(size=len(sens_names))
            out = both("dfphi_map_func", new_gen.dfphi_map_func, orig_gen.dfphi_map_func,
                       (phi, sens_names, sens_map), {"cstrn": cstr}, expect="ok")
            both("dfphi_map_func", new_gen.dfphi_map_func, orig_gen.dfphi_map_func,
                 (phi, sens_names, sens_map, cstr), expect="ok")
            # independent look at the property: sensor cells hold the component
            got = out[1].to_numpy()
            for k, name in enumerate(sens_names):
                cells = (sens_map.to_numpy() == name)
                assert np.array_equal(got[cells], np.full(cells.sum(), phi[k]))
            if cstr is not None:
                both("dfphi_map_func", new_gen.dfphi_map_func, orig_gen.dfphi_map_func,
                     (phi, sens_names, sens_map), {"cstrn": None})
            # wrong length of the mode shape: same exception
            both("dfphi_map_func", new_gen.dfphi_map_func, orig_gen.dfphi_map_func,
                 (phi[:-1], sens_names, sens_map), {"cstrn": cstr})
            if cstr is not None:
                # a constraint called like a sensor takes precedence over the sensor
                clash = cstr.rename(index={cstr.index[0]: sens_names[0]})
                both("dfphi_map_func", new_gen.dfphi_map_func, orig_gen.dfphi_map_func,
                     (phi, sens_names, sens_map.replace({cstr.index[0]: 0}), clash),
                     expect="ok" if len(cstr.index) == 1 else None)
            # integer mode shape
            both("dfphi_map_func", new_gen.dfphi_map_func, orig_gen.dfphi_map_func,
                 (np.arange(len(sens_names)), sens_names, sens_map, cstr), expect="ok")


# --------------------------------------------------------------------------- 5. mixin
def model_fields(model):
    return None if model is None else {k: getattr(model, k) for k in type(model).model_fields}


def make_setups(ref_ind):
    class NewSetup(new_mixin.GeometryMixin):
        pass

    class OrigSetup(orig_mixin.GeometryMixin):
        pass

    s_new, s_orig = NewSetup(), OrigSetup()
    if ref_ind is not None:
        s_new.ref_ind = copy.deepcopy(ref_ind)
        s_orig.ref_ind = copy.deepcopy(ref_ind)
    return s_new, s_orig


GEO1_ARGS = {
    "sens_names": "sensors names",
    "sens_coord": "sensors coordinates",
    "sens_dir": "sensors directions",
    "sens_lines": "sensors lines",
    "bg_nodes": "BG nodes",
    "bg_lines": "BG lines",
    "bg_surf": "BG surfaces",
}
GEO2_ARGS = {
    "sens_names": "sensors names",
    "pts_coord": "points coordinates",
    "sens_map": "mapping",
    "cstr": "constraints",
    "sens_sign": "sensors sign",
    "sens_lines": "sensors lines",
    "sens_surf": "sensors surfaces",
    "bg_nodes": "BG nodes",
    "bg_lines": "BG lines",
    "bg_surf": "BG surfaces",
}


def drawn(fig, ax):
    """Everything that identifies the picture: artists' data and the rendered pixels."""
    fig.canvas.draw()
    data = {
        "title": ax.get_title(),
        "lines": [[np.asarray(c, dtype=float) for c in ln.get_data_3d()] for ln in ax.lines],
        "line colors": [matplotlib.colors.to_rgba(ln.get_color()) for ln in ax.lines],
        "texts": [(t.get_text(), t.get_position()) for t in ax.texts],
        "collections": [],
        "view": (ax.elev, ax.azim),
        "limits": (ax.get_xlim3d(), ax.get_ylim3d(), ax.get_zlim3d()),
        "pixels": np.asarray(fig.canvas.buffer_rgba()).copy(),
    }
    for coll in ax.collections:
        item = [type(coll).__name__]
        if hasattr(coll, "_offsets3d"):
            item.append([np.asarray(np.ma.filled(c, np.nan), dtype=float) for c in coll._offsets3d])
        if hasattr(coll, "_vec"):
            item.append(np.asarray(coll._vec, dtype=float))
        item.append(np.asarray(coll.get_facecolor(), dtype=float))
        data["collections"].append(item)
    plt.close(fig)
    return data


def test_mixin(rng, valid1, valid2):
    n_plots = 0
    for which, valid, argmap in (("geo1", valid1, GEO1_ARGS), ("geo2", valid2, GEO2_ARGS)):
        faults = GEO1_FAULTS if which == "geo1" else GEO2_FAULTS
        for i, (fd, ref_ind, flat, _res) in enumerate(valid):
            # --- def_geoX with the documented arguments (valid and corrupted tables)
            for fault in ["none"] + list(rng.choice(list(faults)[5:], size=2, replace=False)):
                fd_f = copy.deepcopy(fd)
                faults[fault][0](fd_f, ref_ind, flat, rng)
                if any(k not in argmap.values() for k in fd_f):
                    continue
                kwargs = {a: fd_f[s] for a, s in argmap.items() if s in fd_f}
                if any(k not in kwargs for k in list(argmap)[:3]):
                    continue
                s_new, s_orig = make_setups(ref_ind)
                k_new, k_orig = copy.deepcopy(kwargs), copy.deepcopy(kwargs)
                o_new = run(getattr(s_new, f"def_{which}"), **k_new)
                o_orig = run(getattr(s_orig, f"def_{which}"), **k_orig)
                same(o_new, o_orig, f"def_{which}: {fault}")
                same(k_new, k_orig, f"def_{which}: arguments after the call")
                same(model_fields(getattr(s_new, which)), model_fields(getattr(s_orig, which)),
                     f"def_{which}: stored model ({fault})")
                same(model_fields(s_new.geo1 if which == "geo2" else s_new.geo2), None)
                count(f"def_{which} {'stores' if o_new[0] == 'ok' else 'raises ' + o_new[1].__name__}")
                if fault == "none":
                    assert o_new[0] == "ok", o_new
                    assert getattr(s_new, which).sens_names == flat

            # --- def_geoX_by_file with the reader replaced (no openpyxl needed)
            for fault in ["none", "info sheet", "unknown sheet",
                          str(rng.choice(list(faults)[5:]))]:
                fd_f = copy.deepcopy(fd)
                faults[fault][0](fd_f, ref_ind, flat, rng)
                s_new, s_orig = make_setups(ref_ind)
                seen = []

                def fake_reader(path, _fd=fd_f, _seen=seen, **kw):
                    _seen.append((path, kw))
                    return copy.deepcopy(_fd)

                new_mixin.read_excel_file = fake_reader
                orig_mixin.read_excel_file = fake_reader
                try:
                    kw = {"sheet_name": None} if rng.random() < 0.5 else {}
                    o_new = run(getattr(s_new, f"def_{which}_by_file"), "some.xlsx", **kw)
                    o_orig = run(getattr(s_orig, f"def_{which}_by_file"), path="some.xlsx", **kw)
                    same(o_new, o_orig, f"def_{which}_by_file: {fault}")
                    same(model_fields(getattr(s_new, which)),
                         model_fields(getattr(s_orig, which)),
                         f"def_{which}_by_file: stored model ({fault})")
                    assert len(seen) == 2 and seen[0] == seen[1], seen
                    count(f"def_{which}_by_file "
                          f"{'stores' if o_new[0] == 'ok' else 'raises ' + o_new[1].__name__}")
                    # invalid geometry type: the file is read first, then ValueError
                    o_new = run(s_new._def_geo_by_file, "geo3", "some.xlsx")
                    o_orig = run(s_orig._def_geo_by_file, "geo3", "some.xlsx")
                    same(o_new, o_orig, "_def_geo_by_file: geo3")
                    assert o_new[1] is ValueError and len(seen) == 4
                finally:
                    new_mixin.read_excel_file = new_gen.read_excel_file
                    orig_mixin.read_excel_file = orig_gen.read_excel_file

            # --- plots of the mode shapes (a subset: rendering is slow)
            if i % 3 != 0:
                continue
            s_new, s_orig = make_setups(ref_ind)
            kwargs = {a: fd[s] for a, s in argmap.items() if s in fd}
            getattr(s_new, f"def_{which}")(**copy.deepcopy(kwargs))
            getattr(s_orig, f"def_{which}")(**copy.deepcopy(kwargs))
            n_modes = 3
            Phi = rng.normal(size=(len(flat), n_modes)) + 1j * rng.normal(size=(len(flat), n_modes))
            res = BaseResult(Fn=np.sort(rng.uniform(1, 20, n_modes)), Phi=Phi)
            mode_nr = int(rng.integers(1, n_modes + 1))
            scaleF = float(rng.choice([1, 2.5, 10]))
            view = str(rng.choice(["3D", "xy", "xz", "yz"]))
            if which == "geo1":
                calls = [
                    ((res, mode_nr), {"scaleF": scaleF, "view": view}),
                    ((res, mode_nr, scaleF, view, "blue", "green", "k", "orange", "cyan"), {}),
                ]
                method = "plot_mode_geo1"
            else:
                geo = s_new.geo2
                if geo.sens_surf is not None or geo.bg_surf is not None:
                    # degenerate random triangles may not be accepted by matplotlib: the
                    # outcome (also an exception) is compared all the same
                    pass
                calls = [
                    ((res, mode_nr), {"scaleF": scaleF, "view": view}),
                    ((res, mode_nr, scaleF, view, "blue"), {}),
                    ((res,), {"mode_nr": mode_nr, "color": "cmap", "scaleF": scaleF}),
                ]
                method = "plot_mode_geo2_mpl"
            for args, kw in calls:
                plt.close("all")
                o_new = run(getattr(s_new, method), *args, **kw)
                p_new = drawn(*o_new[1]) if o_new[0] == "ok" else o_new
                plt.close("all")
                o_orig = run(getattr(s_orig, method), *args, **kw)
                p_orig = drawn(*o_orig[1]) if o_orig[0] == "ok" else o_orig
                same(p_new, p_orig, f"{method}{args[1:]}{kw}")
                count(f"{method} {'draws' if o_new[0] == 'ok' else 'raises ' + o_new[1].__name__}")
                n_plots += 1
            # not run / geometry not defined: same errors
            empty = BaseResult()
            same(run(getattr(s_new, method), empty, 1), run(getattr(s_orig, method), empty, 1))
            e_new, e_orig = make_setups(ref_ind)
            same(run(getattr(e_new, method), res, 1), run(getattr(e_orig, method), res, 1))
            same(run(getattr(s_new, method), res, n_modes + 1),
                 run(getattr(s_orig, method), res, n_modes + 1))
            # geometry plots (keyword hand-over in plot_geo1 / plot_geo2_mpl)
            geo_method = "plot_geo1" if which == "geo1" else "plot_geo2_mpl"
            for args in ((), (scaleF, view, "blue", "green")):
                plt.close("all")
                o_new = run(getattr(s_new, geo_method), *args)
                p_new = drawn(*o_new[1]) if o_new[0] == "ok" else o_new
                plt.close("all")
                o_orig = run(getattr(s_orig, geo_method), *args)
                p_orig = drawn(*o_orig[1]) if o_orig[0] == "ok" else o_orig
                same(p_new, p_orig, f"{geo_method}{args}")
                count(f"{geo_method} {'draws' if o_new[0] == 'ok' else 'raises ' + o_new[1].__name__}")
    return n_plots


def main():
    rng = np.random.default_rng(20190)
    test_flatten(rng)
    valid1 = test_check(rng, "geo1")
    valid2 = test_check(rng, "geo2")
    test_dfphi(rng, valid2)
    n_plots = test_mixin(rng, valid1, valid2)
    for k in sorted(COUNTS):
        print(f"  {k}: {COUNTS[k]}")
    print(f"  figures compared pixel by pixel: {n_plots} (+ geometry plots)")
    print("PASS")


if __name__ == "__main__":
    main()
