# -*- coding: utf-8 -*-
"""
Equivalence check for the C09 refactoring (hard validation criteria).

Compares, on random inputs,
  * the refactored gen.HC_conj / gen.HC_phi_comp with the pristine ones
    (orig_gen.py), directly;
  * the refactored SSIdat / SSIcov / SSIdat_MS / SSIcov_MS / pLSCF / pLSCF_MS
    run() (through the setup classes) with the pristine algorithm classes
    (orig_alg_ssi.py / orig_alg_plscf.py, wired to the pristine gen module);
  * the new private SSIdat._apply_hard_criteria with the pristine inline block
    on synthetic pole tables with and without covariance tables.

Prints PASS and exits 0 when every comparison is bit-identical.
"""
import importlib.util
import itertools
import os
import sys
import warnings

import numpy as np

HERE = os.path.dirname(os.path.abspath(__file__))
SRC = os.path.join(os.path.dirname(HERE), "src")
sys.path.insert(0, SRC)
warnings.filterwarnings("ignore")
os.environ.setdefault("TQDM_DISABLE", "1")

import pyoma2.algorithms  # noqa: E402
import pyoma2.algorithms.plscf as new_alg_plscf  # noqa: E402
import pyoma2.algorithms.ssi as new_alg_ssi  # noqa: E402
from pyoma2.functions import gen as new_gen  # noqa: E402
from pyoma2.setup import MultiSetup_PreGER, SingleSetup  # noqa: E402

import logging  # noqa: E402

logging.disable(logging.CRITICAL)
assert os.path.abspath(new_gen.__file__).startswith(SRC), new_gen.__file__


def _load(name, filename):
    spec = importlib.util.spec_from_file_location(name, os.path.join(HERE, filename))
    mod = importlib.util.module_from_spec(spec)
    sys.modules[name] = mod
    spec.loader.exec_module(mod)
    return mod


orig_gen = _load("orig_gen", "orig_gen.py")
# the algorithm modules use `from .base import BaseAlgorithm`: load them as
# members of the pyoma2.algorithms package
orig_alg_ssi = _load("pyoma2.algorithms._orig_alg_ssi", "orig_alg_ssi.py")
orig_alg_plscf = _load("pyoma2.algorithms._orig_alg_plscf", "orig_alg_plscf.py")
# ... and make them use the pristine numerical routines
orig_alg_ssi.gen = orig_gen
orig_alg_plscf.gen = orig_gen
assert new_alg_ssi.gen is new_gen and new_alg_plscf.gen is new_gen

N_CHECKS = 0


def same(a, b, what):
    """bit-identical comparison (values, NaN pattern, dtype, shape)"""
    global N_CHECKS
    N_CHECKS += 1
    if a is None or b is None:
        assert a is None and b is None, what
        return
    a = np.asarray(a)
    b = np.asarray(b)
    assert a.shape == b.shape, (what, a.shape, b.shape)
    assert a.dtype == b.dtype, (what, a.dtype, b.dtype)
    assert np.array_equal(a, b, equal_nan=True), what


def call(f, *args, **kw):
    try:
        return ("ok", f(*args, **kw))
    except Exception as e:  # noqa: BLE001
        return ("exc", type(e))


# =============================================================================
# 1. numerical routines
# =============================================================================
def random_lambd(rng, n_rows, n_cols):
    """pole table: conjugate pairs, lonely poles, real poles, NaN padding"""
    lam = rng.standard_normal((n_rows, n_cols)) + 1j * rng.standard_normal(
        (n_rows, n_cols)
    )
    kind = rng.integers(0, 6, size=lam.shape)
    # real poles (self conjugate)
    lam[kind == 0] = lam[kind == 0].real
    # NaN padding
    lam[kind == 1] = np.nan
    flat = lam.ravel()
    # conjugate partners placed somewhere else in the table
    idx = np.flatnonzero(kind.ravel() == 2)
    for k in idx:
        tgt = rng.integers(0, flat.size)
        flat[tgt] = np.conj(flat[k])
    lam = flat.reshape(n_rows, n_cols)
    # some partially NaN values and signed zeros
    if lam.size > 4:
        lam.flat[rng.integers(0, lam.size)] = complex(np.nan, 1.0)
        lam.flat[rng.integers(0, lam.size)] = complex(1.0, np.nan)
        lam.flat[rng.integers(0, lam.size)] = complex(0.5, -0.0)
        lam.flat[rng.integers(0, lam.size)] = complex(0.5, 0.0)
    return lam


def random_phi(rng, n_ord, n_pol, n_ch):
    phi = rng.standard_normal((n_ord, n_pol, n_ch)) + 1j * rng.standard_normal(
        (n_ord, n_pol, n_ch)
    )
    kind = rng.integers(0, 7, size=(n_ord, n_pol))
    # nearly real (monophase) shapes, rotated by a random angle
    sel = kind == 0
    ang = np.exp(1j * rng.uniform(0, 2 * np.pi, size=(n_ord, n_pol, 1)))
    mono = rng.standard_normal((n_ord, n_pol, n_ch)) * ang
    mono = mono + 1e-3 * (
        rng.standard_normal(mono.shape) + 1j * rng.standard_normal(mono.shape)
    )
    phi[sel] = mono[sel]
    # exactly real shapes
    phi[kind == 1] = phi[kind == 1].real
    # NaN padding (whole pole) and a single NaN component
    phi[kind == 2] = np.nan
    one_nan = np.argwhere(kind == 3)
    for o, i in one_nan:
        phi[o, i, rng.integers(0, n_ch)] = np.nan
    # zero shape / shape with zero components
    phi[kind == 4] = 0
    return phi


def check_numerical(rng):
    # ---- HC_conj
    shapes = [(1, 1), (2, 3), (6, 4), (12, 13), (20, 11), (0, 3), (3, 0), (30, 31)]
    for shape, rep in itertools.product(shapes, range(4)):
        lam = random_lambd(rng, *shape)
        for dtype in (complex, np.complex64):
            arr = lam.astype(dtype)
            # non contiguous views too
            for view in (arr, np.asfortranarray(arr), arr[::-1, ::-1]):
                keep = view.copy()
                r_new = call(new_gen.HC_conj, view)
                r_old = call(orig_gen.HC_conj, view)
                assert r_new[0] == r_old[0] == "ok", (r_new, r_old)
                same(r_new[1][0], r_old[1][0], "HC_conj filt")
                same(r_new[1][1], r_old[1][1], "HC_conj mask")
                same(view, keep, "HC_conj input untouched")
    # same exception class on ill-shaped input
    for bad in (np.zeros(3, dtype=complex), np.zeros((2, 2, 2), dtype=complex)):
        r_new = call(new_gen.HC_conj, bad)
        r_old = call(orig_gen.HC_conj, bad)
        assert r_new[0] == r_old[0] == "exc" and r_new[1] is r_old[1], (r_new, r_old)

    # ---- HC_phi_comp
    shapes = [(1, 1, 2), (3, 4, 2), (6, 7, 3), (10, 11, 5), (8, 5, 12), (0, 4, 3), (4, 0, 3)]
    for shape, rep in itertools.product(shapes, range(4)):
        phi = random_phi(rng, *shape)
        lims = [
            (rng.uniform(0, 1), rng.uniform(0, np.pi / 2)),
            (0.0, np.pi / 2),
            (1.0, 0.0),
            (0.7, 0.3),
            (np.float64(0.5), np.float32(0.4)),
            (rng.uniform(0, 1), rng.uniform(0, 0.05)),
        ]
        for mpc_lim, mpd_lim in lims:
            for view in (phi, phi[::-1], np.asfortranarray(phi)):
                keep = view.copy()
                r_new = call(new_gen.HC_phi_comp, view, mpc_lim, mpd_lim)
                r_old = call(orig_gen.HC_phi_comp, view, mpc_lim, mpd_lim)
                assert r_new[0] == r_old[0] == "ok", (r_new, r_old)
                same(r_new[1][0], r_old[1][0], "HC_phi_comp mpd mask")
                same(r_new[1][1], r_old[1][1], "HC_phi_comp mpc mask")
                same(view, keep, "HC_phi_comp input untouched")
                # the masks feed applymask: identical effect on the tables
                if view.shape[0] and view.shape[1]:
                    tab = rng.standard_normal(view.shape[:2])
                    for m_new, m_old in zip(r_new[1], r_old[1]):
                        a = new_gen.applymask([tab, view], m_new, view.shape[2])
                        b = orig_gen.applymask([tab, view], m_old, view.shape[2])
                        same(a[0], b[0], "applymask 2D")
                        same(a[1], b[1], "applymask 3D")
    # real valued mode shapes (float dtype)
    phi = rng.standard_normal((5, 6, 4))
    a = new_gen.HC_phi_comp(phi, 0.5, 0.5)
    b = orig_gen.HC_phi_comp(phi, 0.5, 0.5)
    same(a[0], b[0], "real phi mpd")
    same(a[1], b[1], "real phi mpc")


# =============================================================================
# 2. the private helper of the SSI classes against the pristine inline block
# =============================================================================
def orig_inline_hc(gen, hc, Fns, Xis, Phis, Lambds, Fn_cov, Xi_cov, Phi_cov):
    """verbatim copy of the hard-criteria block of SSIdat.run at HEAD"""
    hc_conj = hc["conj"]
    hc_xi_max = hc["xi_max"]
    hc_mpc_lim = hc["mpc_lim"]
    hc_mpd_lim = hc["mpd_lim"]
    hc_cov_max = hc["cov_max"]

    # Apply HARD CRITERIA
    # HC - presence of complex conjugate
    if hc_conj:
        Lambds, mask1 = gen.HC_conj(Lambds)
        lista = [Fns, Xis, Phis, Fn_cov, Xi_cov, Phi_cov]
        Fns, Xis, Phis, Fn_cov, Xi_cov, Phi_cov = gen.applymask(
            lista, mask1, Phis.shape[2]
        )

    # HC - damping
    Xis, mask2 = gen.HC_damp(Xis, hc_xi_max)
    lista = [Fns, Lambds, Phis, Fn_cov, Xi_cov, Phi_cov]
    Fns, Lambds, Phis, Fn_cov, Xi_cov, Phi_cov = gen.applymask(
        lista, mask2, Phis.shape[2]
    )

    # HC - MPC and MPD
    mask3, mask4 = gen.HC_phi_comp(Phis, hc_mpc_lim, hc_mpd_lim)
    lista = [Fns, Xis, Phis, Lambds, Fn_cov, Xi_cov, Phi_cov]
    Fns, Xis, Phis, Lambds, Fn_cov, Xi_cov, Phi_cov = gen.applymask(
        lista, mask3, Phis.shape[2]
    )
    lista = [Fns, Xis, Phis, Lambds, Fn_cov, Xi_cov, Phi_cov]
    Fns, Xis, Phis, Lambds, Fn_cov, Xi_cov, Phi_cov = gen.applymask(
        lista, mask4, Phis.shape[2]
    )

    # HC - maximum covariance
    if Fn_cov is not None:
        Fn_cov, mask5 = gen.HC_cov(Fn_cov, hc_cov_max)
        lista = [Fns, Xis, Phis, Lambds, Xi_cov, Phi_cov]
        Fns, Xis, Phis, Lambds, Xi_cov, Phi_cov = gen.applymask(
            lista, mask5, Phis.shape[2]
        )
    return Fns, Xis, Phis, Lambds, Fn_cov, Xi_cov, Phi_cov


def random_hc(rng, with_cov=True, mild=False):
    """criteria values over the quantifier; `mild` avoids the limits that reject all"""
    if mild:
        hc = dict(
            conj=bool(rng.integers(0, 2)),
            xi_max=float(rng.choice([rng.uniform(0.03, 1.0), 1.0, 0.1])),
            mpc_lim=float(rng.choice([rng.uniform(0, 0.9), 0.0, 0.7])),
            mpd_lim=float(rng.choice([rng.uniform(0.1, np.pi / 2), np.pi / 2, 0.3])),
        )
    else:
        hc = dict(
            conj=bool(rng.integers(0, 2)),
            xi_max=float(rng.choice([rng.uniform(0.01, 1.0), 1.0, 0.1, 0.05])),
            mpc_lim=float(rng.choice([rng.uniform(0, 1), 0.0, 1.0, 0.7])),
            mpd_lim=float(rng.choice([rng.uniform(0, np.pi / 2), np.pi / 2, 0.0, 0.3])),
        )
    if with_cov:
        hc["cov_max"] = float(rng.choice([rng.uniform(1e-4, 1.0), 0.2, 1e6]))
    return hc


def check_helper(rng):
    names = ("Fns", "Xis", "Phis", "Lambds", "Fn_cov", "Xi_cov", "Phi_cov")
    for rep in range(40):
        n_ord = int(rng.integers(2, 14))
        n_pol = int(rng.integers(1, 12))
        n_ch = int(rng.integers(2, 7))
        Lambds = random_lambd(rng, n_ord, n_pol)
        Phis = random_phi(rng, n_ord, n_pol, n_ch)
        Fns = np.abs(Lambds) / (2 * np.pi)
        Xis = rng.uniform(-0.05, 0.3, size=(n_ord, n_pol))
        Xis[np.isnan(Fns)] = np.nan
        if rep % 2:
            Fn_cov = rng.uniform(0, 0.5, size=(n_ord, n_pol))
            Fn_cov[np.isnan(Fns)] = np.nan
            Xi_cov = rng.uniform(0, 0.5, size=(n_ord, n_pol))
            Phi_cov = rng.uniform(0, 0.5, size=(n_ord, n_pol, n_ch))
        else:
            Fn_cov = Xi_cov = Phi_cov = None
        hc = random_hc(rng)
        tabs = (Fns, Xis, Phis, Lambds, Fn_cov, Xi_cov, Phi_cov)
        copies = [None if t is None else t.copy() for t in tabs]
        res_new = new_alg_ssi.SSIdat._apply_hard_criteria(hc, *tabs)
        res_old = orig_inline_hc(orig_gen, hc, *copies)
        for nm, a, b in zip(names, res_new, res_old):
            same(a, b, f"helper {nm} rep {rep}")
        for nm, a, b in zip(names, tabs, copies):
            same(a, b, f"helper input untouched {nm}")
        # a missing criterion raises the same exception
        if rep < 5:
            for key in list(hc):
                bad = {k: v for k, v in hc.items() if k != key}
                r_new = call(new_alg_ssi.SSIdat._apply_hard_criteria, bad, *tabs)
                r_old = call(orig_inline_hc, orig_gen, bad, *copies)
                assert r_new[0] == r_old[0] == "exc" and r_new[1] is r_old[1]


# =============================================================================
# 3. calling layer: run() of the six algorithm classes through the setups
# =============================================================================
def simulate(rng, n_dof, n_samp, fs, noise=0.05):
    """response of a shear-type chain to white noise (modal superposition)"""
    k = 1e4 * rng.uniform(0.8, 1.2, size=n_dof + 1)
    K = np.diag(k[:-1] + k[1:]) - np.diag(k[1:-1], 1) - np.diag(k[1:-1], -1)
    M = np.eye(n_dof) * 5.0
    w2, V = np.linalg.eigh(np.linalg.solve(M, K))
    wn = np.sqrt(w2)
    xi = 0.02
    dt = 1 / fs
    t = np.arange(n_samp) * dt
    out = np.zeros((n_samp, n_dof))
    for j in range(n_dof):
        wd = wn[j] * np.sqrt(1 - xi**2)
        h = np.exp(-xi * wn[j] * t) * np.sin(wd * t) / wd
        q = np.convolve(rng.standard_normal(n_samp), h)[:n_samp] * dt
        out += np.outer(q, V[:, j])
    out /= out.std()
    return out + noise * rng.standard_normal(out.shape)


SSI_FIELDS = (
    "Obs A C H Lambds Fn_poles Xi_poles Phi_poles Lab "
    "Fn_poles_cov Xi_poles_cov Phi_poles_cov"
).split()
PLSCF_FIELDS = "freq Sy Ad Bn Fn_poles Xi_poles Phi_poles Lab".split()


def compare_results(res_new, res_old, fields, tag):
    assert type(res_new) is type(res_old), tag
    for f in fields:
        a, b = getattr(res_new, f), getattr(res_old, f)
        if isinstance(a, (list, tuple)):
            assert len(a) == len(b), (tag, f)
            for x, y in zip(a, b):
                same(x, y, f"{tag} {f}")
        else:
            same(a, b, f"{tag} {f}")
    # one NaN pattern shared by the tables (as in the original)
    assert np.array_equal(np.isnan(res_new.Fn_poles), np.isnan(res_old.Fn_poles))


KEPT = []


def run_pair(setup_factory, new_cls, old_cls, params, fields, tag, expect_ok=True):
    outs = []
    for cls in (new_cls, old_cls):
        setup = setup_factory()
        # fields left at None keep the default of the run parameters
        alg = cls(name="alg", **{k: v for k, v in params.items() if v is not None})
        setup.add_algorithms(alg)
        try:
            setup.run_by_name("alg")
            outs.append(("ok", alg.result))
        except Exception as e:  # noqa: BLE001
            outs.append(("exc", type(e)))
    assert outs[0][0] == outs[1][0], (tag, outs)
    if outs[0][0] == "exc":
        assert outs[0][1] is outs[1][1], (tag, outs)
        if expect_ok:
            print("  both raise", outs[0][1].__name__, "-", tag)
        return "exc"
    compare_results(outs[0][1], outs[1][1], fields, tag)
    kept = np.isfinite(outs[0][1].Fn_poles)
    KEPT.append((int(kept.sum()), int(kept.size)))
    return "ok"


def check_calling_layer(rng):
    fs = 100.0
    n_ok = 0
    # ---------------- single setup
    for rep in range(8):
        n_dof = int(rng.integers(3, 6))
        data = simulate(rng, n_dof, 3000, fs)

        def single():
            return SingleSetup(data.copy(), fs=fs)

        # SSIdat / SSIcov
        for new_cls, old_cls, methods in (
            (new_alg_ssi.SSIdat, orig_alg_ssi.SSIdat, [None]),
            (new_alg_ssi.SSIcov, orig_alg_ssi.SSIcov, [None, "cov_R", "cov_mm"]),
        ):
            hc = random_hc(rng, mild=rep < 6)
            # step > 1 makes SSI_poles raise IndexError before the criteria are
            # reached (at HEAD too): one such case is kept, to compare the exception
            step = 2 if rep == 7 else 1
            ordmax = int(rng.choice([10, 12, 16]))
            params = dict(
                br=int(rng.integers(8, 12)),
                ordmin=int(rng.choice([0, 2])),
                ordmax=ordmax,
                step=step,
                hc=hc,
                method=methods[int(rng.integers(0, len(methods)))],
                ref_ind=[0, n_dof - 1] if rep % 2 else None,
            )
            tag = f"{new_cls.__name__} rep {rep} {params}"
            n_ok += (
                run_pair(single, new_cls, old_cls, params, SSI_FIELDS, tag, step == 1)
                == "ok"
            )

        # SSIcov with uncertainty bounds -> covariance criterion active
        if rep < 4:
            hc = random_hc(rng, mild=True)
            hc["cov_max"] = [0.05, 0.2, 1e-3, 10.0][rep]
            params = dict(
                br=8,
                ordmax=10,
                step=1,
                hc=hc,
                method="cov_mm",
                calc_unc=True,
                nb=20,
                ref_ind=[0, 1] if rep % 2 else None,
            )
            tag = f"SSIcov unc rep {rep} {params}"
            n_ok += (
                run_pair(
                    single, new_alg_ssi.SSIcov, orig_alg_ssi.SSIcov, params, SSI_FIELDS, tag
                )
                == "ok"
            )

        # pLSCF
        hc = random_hc(rng, with_cov=bool(rep % 2), mild=rep < 6)
        params = dict(
            ordmax=int(rng.choice([6, 8, 10])),
            ordmin=int(rng.choice([0, 2])),
            nxseg=int(rng.choice([256, 512])),
            method_SD=str(rng.choice(["per", "cor"])),
            pov=0.5,
            hc=hc,
        )
        tag = f"pLSCF rep {rep} {params}"
        n_ok += (
            run_pair(
                single, new_alg_plscf.pLSCF, orig_alg_plscf.pLSCF, params, PLSCF_FIELDS, tag
            )
            == "ok"
        )

    # ---------------- multi setup (PreGER)
    for rep in range(5):
        n_dof = 6
        full = [simulate(rng, n_dof, 2500, fs) for _ in range(3)]
        chans = [[0, 1, 2, 3], [0, 1, 4, 5], [0, 1, 3, 5]]
        datasets = [f[:, c] for f, c in zip(full, chans)]
        ref_ind = [[0, 1], [0, 1], [0, 1]]

        def multi():
            return MultiSetup_PreGER(
                fs=fs, ref_ind=[list(r) for r in ref_ind], datasets=[d.copy() for d in datasets]
            )

        for new_cls, old_cls, methods in (
            (new_alg_ssi.SSIdat_MS, orig_alg_ssi.SSIdat_MS, [None]),
            (new_alg_ssi.SSIcov_MS, orig_alg_ssi.SSIcov_MS, [None, "cov_R", "cov_mm"]),
        ):
            step = 2 if rep == 4 else 1  # step 2: IndexError in SSI_poles, as at HEAD
            params = dict(
                br=int(rng.integers(8, 11)),
                ordmin=int(rng.choice([0, 2])),
                ordmax=int(rng.choice([10, 14])),
                step=step,
                hc=random_hc(rng, mild=rep < 4),
                method=methods[int(rng.integers(0, len(methods)))],
            )
            tag = f"{new_cls.__name__} rep {rep} {params}"
            n_ok += (
                run_pair(multi, new_cls, old_cls, params, SSI_FIELDS, tag, step == 1)
                == "ok"
            )

        params = dict(
            ordmax=int(rng.choice([6, 8])),
            ordmin=0,
            nxseg=256,
            method_SD=str(rng.choice(["per", "cor"])),
            pov=0.5,
            hc=random_hc(rng, with_cov=bool(rep % 2), mild=rep < 4),
        )
        tag = f"pLSCF_MS rep {rep} {params}"
        n_ok += (
            run_pair(
                multi, new_alg_plscf.pLSCF_MS, orig_alg_plscf.pLSCF_MS, params, PLSCF_FIELDS, tag
            )
            == "ok"
        )

    # a hard-criteria dict lacking a key fails identically
    data = simulate(rng, 3, 1500, fs)
    for key in ("conj", "xi_max", "mpc_lim", "mpd_lim", "cov_max"):
        hc = {k: v for k, v in random_hc(rng).items() if k != key}
        r = run_pair(
            lambda: SingleSetup(data.copy(), fs=fs),
            new_alg_ssi.SSIdat,
            orig_alg_ssi.SSIdat,
            dict(br=6, ordmax=6, hc=hc),
            SSI_FIELDS,
            f"SSIdat missing {key}",
            expect_ok=False,
        )
        assert r == "exc", key
    for key in ("conj", "xi_max", "mpc_lim", "mpd_lim"):
        hc = {k: v for k, v in random_hc(rng, False).items() if k != key}
        r = run_pair(
            lambda: SingleSetup(data.copy(), fs=fs),
            new_alg_plscf.pLSCF,
            orig_alg_plscf.pLSCF,
            dict(ordmax=4, nxseg=128, hc=hc),
            PLSCF_FIELDS,
            f"pLSCF missing {key}",
            expect_ok=False,
        )
        assert r == "exc", key
    return n_ok


def main():
    rng = np.random.default_rng(20240909)
    check_numerical(rng)
    n1 = N_CHECKS
    check_helper(rng)
    n2 = N_CHECKS
    n_runs = check_calling_layer(rng)
    print(
        f"numerical routines: {n1} array comparisons; helper: {n2 - n1}; "
        f"calling layer: {N_CHECKS - n2} comparisons over {n_runs} successful run pairs"
    )
    n_some = sum(0 < k < n for k, n in KEPT)
    print(
        f"kept poles per run (min/median/max fraction): "
        f"{min(k / n for k, n in KEPT):.2f}/"
        f"{float(np.median([k / n for k, n in KEPT])):.2f}/"
        f"{max(k / n for k, n in KEPT):.2f}; runs with some but not all poles kept: {n_some}"
    )
    print("PASS")


if __name__ == "__main__":
    main()
