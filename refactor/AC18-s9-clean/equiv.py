"""Differential test: the library on PYTHONPATH against the pristine gen.py
(saved next to this script as orig_gen.py) on the routines touched by the commit:
gen.MAC, gen.MPC, gen.MPD, gen.HC_phi_comp.

Run as:  PYTHONPATH=<tree>/src /venv/bin/python equiv.py
Prints PASS and exits 0 if every output (or raised exception) agrees.
"""
import importlib.util
import os
import sys
import warnings

import numpy as np

warnings.simplefilter("ignore")
np.seterr(all="ignore")

HERE = os.path.dirname(os.path.abspath(__file__))
spec = importlib.util.spec_from_file_location("orig_gen", os.path.join(HERE, "orig_gen.py"))
orig = importlib.util.module_from_spec(spec)
spec.loader.exec_module(orig)

from pyoma2.functions import gen as new  # noqa: E402

RTOL, ATOL = 1e-12, 1e-14
rng = np.random.default_rng(20240518)
n_cases = 0
failures = []


def call(f, *a):
    try:
        return ("ok", f(*a))
    except Exception as e:  # noqa: BLE001
        return ("exc", type(e).__name__, str(e))


def same(r_old, r_new):
    if r_old[0] != r_new[0]:
        return False
    if r_old[0] == "exc":
        return r_old[1:] == r_new[1:]
    a, b = r_old[1], r_new[1]
    if isinstance(a, tuple):
        return len(a) == len(b) and all(same(("ok", x), ("ok", y)) for x, y in zip(a, b))
    a, b = np.asarray(a), np.asarray(b)
    if a.shape != b.shape:
        return False
    if a.dtype.kind in "iub" and b.dtype.kind in "iub":
        return np.array_equal(a, b)
    return np.allclose(a, b, rtol=RTOL, atol=ATOL, equal_nan=True)


def check(label, f_old, f_new, *args):
    global n_cases
    n_cases += 1
    copies = [np.array(a, copy=True) if isinstance(a, np.ndarray) else a for a in args]
    r_old = call(f_old, *args)
    r_new = call(f_new, *copies)
    if not same(r_old, r_new):
        failures.append((label, r_old, r_new))
    # the inputs must not be modified
    for a, c in zip(args, copies):
        if isinstance(a, np.ndarray) and not np.array_equal(a, c, equal_nan=True):
            failures.append((label + " [input modified]", None, None))


def cshape(n, kind):
    """One complex mode shape of n components of the given kind."""
    z = rng.normal(size=n) + 1j * rng.normal(size=n)
    if kind == "random":
        return z
    if kind == "collinear":
        return rng.normal(size=n) * np.exp(1j * rng.uniform(0, 2 * np.pi)) * rng.uniform(0.1, 10)
    if kind == "nearly":
        r = rng.normal(size=n)
        return (r + 1j * 10.0 ** rng.uniform(-12, -2) * rng.normal(size=n)) * np.exp(
            1j * rng.uniform(0, 2 * np.pi)
        )
    if kind == "unit":
        return z / z[np.argmax(np.abs(z))]
    if kind == "zeros":
        z[rng.choice(n, size=max(1, n // 3), replace=False)] = 0
        return z
    if kind == "real":
        return rng.normal(size=n)
    if kind == "tiny":
        return z * 10.0 ** rng.uniform(-12, -5)
    if kind == "huge":
        return z * 10.0 ** rng.uniform(3, 6)
    raise ValueError(kind)


KINDS = ["random", "collinear", "nearly", "unit", "zeros", "real", "tiny", "huge"]

# ---- single shapes: MPC, MPD, MAC -----------------------------------------
for rep in range(40):
    for kind in KINDS:
        n = int(rng.integers(2, 65))
        v = cshape(n, kind)
        c = 10.0 ** rng.uniform(-6, 6) * np.exp(1j * rng.uniform(0, 2 * np.pi))
        for lab, x in (("", v), ("*c", c * v)):
            check(f"MPC 1-D {kind}{lab} n={n}", orig.MPC, new.MPC, x)
            check(f"MPD 1-D {kind}{lab} n={n}", orig.MPD, new.MPD, x)
        u = cshape(n, KINDS[int(rng.integers(len(KINDS)))])
        check(f"MAC 1-D/1-D {kind} n={n}", orig.MAC, new.MAC, v, u)
        check(f"MAC 1-D/1-D {kind} collinear n={n}", orig.MAC, new.MAC, v, c * v)

# degenerate single shapes
for n in (2, 3, 7):
    check("MPD zero shape", orig.MPD, new.MPD, np.zeros(n, dtype=complex))
    check("MPC zero shape", orig.MPC, new.MPC, np.zeros(n, dtype=complex))
    bad = cshape(n, "random")
    bad[0] = np.nan
    check("MPD nan shape", orig.MPD, new.MPD, bad)
    check("MPC nan shape", orig.MPC, new.MPC, bad)
    check("MAC zero shape", orig.MAC, new.MAC, np.zeros(n, dtype=complex), cshape(n, "random"))
    check("MPD int shape", orig.MPD, new.MPD, np.arange(1, n + 1))
    check("MPC int shape", orig.MPC, new.MPC, np.arange(1, n + 1))
check("pinned MPC", orig.MPC, new.MPC, np.array([1 + 2j, 2 + 3j, 3 + 4j]))
check("pinned MPD", orig.MPD, new.MPD, np.array([1 + 2j, 2 + 3j, 3 + 4j]))

# ---- sets of shapes --------------------------------------------------------
for rep in range(60):
    n = int(rng.integers(2, 65))
    kx, ka = int(rng.integers(1, 9)), int(rng.integers(1, 9))
    X = np.stack([cshape(n, KINDS[int(rng.integers(len(KINDS)))]) for _ in range(kx)], axis=1)
    A = np.stack([cshape(n, KINDS[int(rng.integers(len(KINDS)))]) for _ in range(ka)], axis=1)
    check(f"MAC set/set {X.shape} {A.shape}", orig.MAC, new.MAC, X, A)
    check(f"MAC set/set T {A.shape} {X.shape}", orig.MAC, new.MAC, A, X)
    check(f"MAC auto {X.shape}", orig.MAC, new.MAC, X, X)
    check(f"MAC 1-D/set {A.shape}", orig.MAC, new.MAC, X[:, 0], A)
    check(f"MAC set/1-D {X.shape}", orig.MAC, new.MAC, X, A[:, 0])
    check("MAC real sets", orig.MAC, new.MAC, X.real, A.real)
    check("MAC int sets", orig.MAC, new.MAC, np.rint(3 * X.real).astype(int), np.rint(3 * A.real).astype(int))
    # Fortran-ordered and strided inputs
    check("MAC F-order", orig.MAC, new.MAC, np.asfortranarray(X), A[::-1])
    # column-by-column reference for the generalised MPC / MPD
    check(
        f"MPC set {X.shape}", lambda M: np.array([orig.MPC(M[:, k]) for k in range(M.shape[1])]), new.MPC, X
    )
    check(
        f"MPD set {X.shape}", lambda M: np.array([orig.MPD(M[:, k]) for k in range(M.shape[1])]), new.MPD, X
    )

# exceptions of MAC
check("MAC dim mismatch", orig.MAC, new.MAC, np.ones((1, 3), dtype=complex), np.ones(4, dtype=complex))
check("MAC 3-D", orig.MAC, new.MAC, np.ones((1, 1, 3), dtype=complex), np.ones(4, dtype=complex))
check("MAC 3-D second", orig.MAC, new.MAC, np.ones(4, dtype=complex), np.ones((4, 2, 2), dtype=complex))

# ---- the hard criterion on mode shapes --------------------------------------
for rep in range(30):
    n_rows, n_cols, n_loc = int(rng.integers(1, 9)), int(rng.integers(1, 7)), int(rng.integers(2, 13))
    phi = np.empty((n_rows, n_cols, n_loc), dtype=complex)
    for i in range(n_rows):
        for j in range(n_cols):
            phi[i, j] = cshape(n_loc, KINDS[int(rng.integers(len(KINDS)))])
    # discarded poles: all-NaN rows, partially NaN rows, an infinite entry, a zero row
    drop = rng.random((n_rows, n_cols)) < 0.3
    phi[drop] = np.nan
    if rng.random() < 0.5:
        phi[rng.integers(n_rows), rng.integers(n_cols), 0] = np.nan
    if rng.random() < 0.3:
        phi[rng.integers(n_rows), rng.integers(n_cols), -1] = np.inf
    if rng.random() < 0.3:
        phi[rng.integers(n_rows), rng.integers(n_cols)] = 0
    if rep % 5 == 4:
        phi[:] = np.nan
    mpc_lim, mpd_lim = rng.uniform(0.3, 0.99), rng.uniform(0.02, 0.8)
    check(f"HC_phi_comp {phi.shape}", orig.HC_phi_comp, new.HC_phi_comp, phi, mpc_lim, mpd_lim)
    check("HC_phi_comp real", orig.HC_phi_comp, new.HC_phi_comp, phi.real.copy(), mpc_lim, mpd_lim)
    check(
        "HC_phi_comp strided",
        orig.HC_phi_comp,
        new.HC_phi_comp,
        np.moveaxis(np.moveaxis(phi, 0, 1).copy(), 0, 1),
        mpc_lim,
        mpd_lim,
    )

if failures:
    print(f"FAIL: {len(failures)} of {n_cases} comparisons differ")
    for lab, a, b in failures[:15]:
        print("  ", lab, "\n      old:", a, "\n      new:", b)
    sys.exit(1)
print(f"PASS: {n_cases} comparisons agree (rtol={RTOL}, atol={ATOL}, exceptions included)")
