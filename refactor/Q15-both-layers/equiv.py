"""
Equivalence check for the C15 refactoring (gating / isolation / persistence of runs, PoSER validation).

Two complete copies of the package live in this process:

* NEW  - the refactored sources under /tmp/wt/Q15/src
* ORIG - the same package in which the five touched modules are loaded BY PATH from the pristine
         copies `_refactor/orig_*.py` (`git show HEAD:...`); every other module is re-executed from src
         so that e.g. SingleSetup / SSIcov inherit from the ORIGINAL BaseSetup / BaseAlgorithm.

The same scenario functions are executed in both worlds and their traces (values, dtypes, shapes,
memory layout, exception types and messages, object identities) are compared exactly.
"""

from __future__ import annotations

import contextlib
import importlib
import importlib.abc
import importlib.util
import itertools
import logging
import os
import pickle
import sys
import tempfile
import types
import warnings

import numpy as np

HERE = os.path.dirname(os.path.abspath(__file__))
SRC = os.path.join(os.path.dirname(HERE), "src")
if SRC not in sys.path:
    sys.path.insert(0, SRC)

ORIG_FILES = {
    "pyoma2.algorithms.base": os.path.join(HERE, "orig_alg_base.py"),
    "pyoma2.algorithms.fdd": os.path.join(HERE, "orig_alg_fdd.py"),
    "pyoma2.functions.gen": os.path.join(HERE, "orig_gen.py"),
    "pyoma2.setup.base": os.path.join(HERE, "orig_setup_base.py"),
    "pyoma2.setup.multi": os.path.join(HERE, "orig_setup_multi.py"),
}

warnings.filterwarnings("ignore")


# ---------------------------------------------------------------------------------------------
# the two worlds
# ---------------------------------------------------------------------------------------------
class _OrigFinder(importlib.abc.MetaPathFinder):
    def find_spec(self, fullname, path, target=None):
        if fullname in ORIG_FILES:
            return importlib.util.spec_from_file_location(fullname, ORIG_FILES[fullname])
        return None


def _pyoma_modules():
    return {k: v for k, v in sys.modules.items() if k == "pyoma2" or k.startswith("pyoma2.")}


def _drop_pyoma_modules():
    for k in list(_pyoma_modules()):
        del sys.modules[k]


def _import_world():
    import pyoma2  # noqa
    import pyoma2.algorithms  # noqa
    import pyoma2.functions.gen  # noqa
    import pyoma2.setup  # noqa

    return _pyoma_modules()


def build_worlds():
    assert not _pyoma_modules()
    new = _import_world()
    _drop_pyoma_modules()
    finder = _OrigFinder()
    sys.meta_path.insert(0, finder)
    try:
        orig = _import_world()
    finally:
        sys.meta_path.remove(finder)
    _drop_pyoma_modules()
    # sanity: the touched modules really come from the two different files
    for name, path in ORIG_FILES.items():
        assert orig[name].__file__ == path, (name, orig[name].__file__)
        assert new[name].__file__.startswith(SRC), (name, new[name].__file__)
        assert open(orig[name].__file__).read() != open(new[name].__file__).read(), name
    assert orig["pyoma2.setup.single"].SingleSetup.__mro__[1] is orig["pyoma2.setup.base"].BaseSetup
    assert new["pyoma2.setup.single"].SingleSetup.__mro__[1] is new["pyoma2.setup.base"].BaseSetup
    assert orig["pyoma2.setup.base"].BaseSetup is not new["pyoma2.setup.base"].BaseSetup
    assert (
        orig["pyoma2.algorithms.ssi"].SSIcov.__mro__[2]
        is orig["pyoma2.algorithms.base"].BaseAlgorithm
    )
    return orig, new


class World:
    def __init__(self, label, mods):
        self.label = label
        self.mods = mods
        self.gen = mods["pyoma2.functions.gen"]
        self.alg = mods["pyoma2.algorithms"]
        self.alg_base = mods["pyoma2.algorithms.base"]
        self.setup = mods["pyoma2.setup"]
        self.result = mods["pyoma2.algorithms.data.result"]
        self.run_params = mods["pyoma2.algorithms.data.run_params"]

    @contextlib.contextmanager
    def active(self):
        """Make this world the one `import pyoma2...` / pickle sees."""
        saved = _pyoma_modules()
        _drop_pyoma_modules()
        sys.modules.update(self.mods)
        try:
            yield self
        finally:
            _drop_pyoma_modules()
            sys.modules.update(saved)


# ---------------------------------------------------------------------------------------------
# canonical traces and exact comparison
# ---------------------------------------------------------------------------------------------
def canon(x, depth=0):
    """Turn a value into a structure of plain python + ('nd', dtype, shape, layout, array)."""
    assert depth < 12
    if isinstance(x, np.ndarray):
        if x.dtype == object:
            return ("ndobj", x.shape, [canon(e, depth + 1) for e in x.ravel().tolist()])
        return (
            "nd",
            str(x.dtype),
            x.shape,
            (bool(x.flags.c_contiguous), bool(x.flags.f_contiguous), bool(x.flags.owndata)),
            np.array(x, copy=True),
        )
    if isinstance(x, np.generic):
        return ("npscalar", str(x.dtype), x.item())
    if isinstance(x, dict):
        return ("dict", [(canon(k, depth + 1), canon(v, depth + 1)) for k, v in x.items()])
    if isinstance(x, (list, tuple)):
        return (type(x).__name__, [canon(e, depth + 1) for e in x])
    if isinstance(x, (str, int, float, bool, complex, type(None))):
        return (type(x).__name__, x)
    if isinstance(x, type):
        return ("class", x.__module__, x.__qualname__)
    if hasattr(x, "model_dump"):  # pydantic result / run params
        return (
            "model",
            type(x).__module__,
            type(x).__qualname__,
            canon({k: getattr(x, k) for k in type(x).model_fields}, depth + 1),
        )
    raise TypeError(f"cannot canonicalise {type(x)}")


def same(a, b, path="root"):
    if type(a) is not type(b):
        raise AssertionError(f"{path}: type {type(a)} != {type(b)}")
    if isinstance(a, np.ndarray):
        if a.dtype != b.dtype or a.shape != b.shape:
            raise AssertionError(f"{path}: dtype/shape {a.dtype}{a.shape} != {b.dtype}{b.shape}")
        if not np.array_equal(a, b, equal_nan=a.dtype.kind in "fc"):
            raise AssertionError(f"{path}: arrays differ, max |d| = {np.nanmax(np.abs(a - b))}")
        return
    if isinstance(a, (list, tuple)):
        if len(a) != len(b):
            raise AssertionError(f"{path}: len {len(a)} != {len(b)}")
        for i, (x, y) in enumerate(zip(a, b)):
            same(x, y, f"{path}[{i}]")
        return
    if isinstance(a, dict):
        if list(a) != list(b):
            raise AssertionError(f"{path}: keys {list(a)} != {list(b)}")
        for k in a:
            same(a[k], b[k], f"{path}[{k!r}]")
        return
    if isinstance(a, float) and a != a:
        assert b != b, path
        return
    if a != b:
        raise AssertionError(f"{path}: {a!r} != {b!r}")


def noflags(t):
    """Drop the memory-layout entry of canonical arrays (it does not survive pickling)."""
    if isinstance(t, tuple) and len(t) == 5 and t[0] == "nd":
        return t[:3] + (None,) + t[4:]
    if isinstance(t, (list, tuple)):
        return type(t)(noflags(e) for e in t)
    if isinstance(t, dict):
        return {k: noflags(v) for k, v in t.items()}
    return t


def attempt(fn, *args, **kwargs):
    """('ok', canon(value)) or ('exc', type name, message)."""
    try:
        return ("ok", canon(fn(*args, **kwargs)))
    except Exception as e:  # noqa: BLE001
        return ("exc", type(e).__name__, str(e))


@contextlib.contextmanager
def workdir():
    """Temporary working directory; files are addressed relatively so messages are comparable."""
    cwd = os.getcwd()
    with tempfile.TemporaryDirectory() as tmp:
        os.chdir(tmp)
        try:
            yield "."
        finally:
            os.chdir(cwd)


class _ListHandler(logging.Handler):
    def __init__(self):
        super().__init__(level=logging.DEBUG)
        self.records = []

    def emit(self, record):
        self.records.append((record.name, record.levelname, record.getMessage()))


@contextlib.contextmanager
def capture_logs():
    lg = logging.getLogger("pyoma2")
    h = _ListHandler()
    old_level, old_prop = lg.level, lg.propagate
    old_handlers = lg.handlers[:]
    lg.handlers = [h]
    lg.setLevel(logging.DEBUG)
    lg.propagate = False
    try:
        yield h.records
    finally:
        lg.handlers = old_handlers
        lg.setLevel(old_level)
        lg.propagate = old_prop


# ---------------------------------------------------------------------------------------------
# data
# ---------------------------------------------------------------------------------------------
def synth(seed, n=3000, nch=5, fs=100.0):
    """Response of a few resonators to white noise, mixed on nch channels."""
    from scipy import signal

    rng = np.random.default_rng(seed)
    fns = np.array([6.0, 13.0, 21.0, 31.0])[: max(2, min(4, nch - 1))]
    xis = np.array([0.012, 0.015, 0.01, 0.02])[: len(fns)]
    modal = []
    for fn, xi in zip(fns, xis):
        wn = 2 * np.pi * fn
        sysd = signal.cont2discrete(([wn**2], [1, 2 * xi * wn, wn**2]), 1 / fs, method="zoh")
        b, a = np.ravel(sysd[0]), np.ravel(sysd[1])
        modal.append(signal.lfilter(b, a, rng.standard_normal(n)))
    modal = np.array(modal).T
    shapes = rng.standard_normal((len(fns), nch))
    data = modal @ shapes + 0.01 * rng.standard_normal((n, nch))
    return np.ascontiguousarray(data), fs, list(map(float, fns))


# ---------------------------------------------------------------------------------------------
# scenario 1: numerical routines of gen.py
# ---------------------------------------------------------------------------------------------
def scen_pre_multisetup(W, seed):
    rng = np.random.default_rng(seed)
    out = []
    for case in range(12):
        n_setup = int(rng.integers(1, 5))
        n_ref = int(rng.integers(0, 4))
        datas, refs = [], []
        for _ in range(n_setup):
            n_sens = int(rng.integers(max(n_ref, 1), n_ref + 5))
            n_dat = int(rng.integers(3, 40))
            y = rng.standard_normal((n_dat, n_sens))
            kind = int(rng.integers(0, 5))
            if kind == 1:
                y = np.asfortranarray(y)
            elif kind == 2:
                y = rng.standard_normal((n_sens, n_dat)).T  # transposed view
            elif kind == 3:
                y = rng.integers(-5, 5, size=(n_dat, n_sens))  # integer data
            elif kind == 4:
                y = rng.standard_normal((n_dat, 2 * n_sens))[:, ::2]  # strided view
            ref = [int(i) for i in rng.permutation(n_sens)[:n_ref]]
            datas.append(y)
            refs.append(ref)
        variant = case % 6
        if variant == 1:
            refs = [tuple(r) for r in refs]
        elif variant == 2:
            refs = [np.array(r, dtype=int) for r in refs]
        elif variant == 3 and n_ref:  # duplicate index -> ValueError of list.remove
            refs[-1] = refs[-1][:-1] + [refs[-1][0]] if n_ref > 1 else refs[-1]
        elif variant == 4 and n_ref:  # index out of range / negative
            refs[0] = [-1] + refs[0][1:]
        elif variant == 5:  # reflist shorter than the data list
            refs = refs[:-1]
        keep = [d.copy() for d in datas]
        res = attempt(W.gen.pre_multisetup, datas, refs)
        out.append(res)
        # the inputs are not modified and the outputs never alias them
        out.append([np.array_equal(a, b) for a, b in zip(datas, keep)])
        try:
            Y = W.gen.pre_multisetup(datas, refs)
            out.append(
                [
                    (bool(np.shares_memory(d, blk["ref"])), bool(np.shares_memory(d, blk["mov"])))
                    for d, blk in zip(datas, Y)
                ]
            )
            out.append([list(blk.keys()) for blk in Y])
        except Exception:  # noqa: BLE001
            out.append("raised")
    # wrong kinds of arguments
    out.append(attempt(W.gen.pre_multisetup, [], []))
    out.append(attempt(W.gen.pre_multisetup, [np.zeros(4)], [[0]]))
    out.append(attempt(W.gen.pre_multisetup, [np.zeros((4, 2))], [None]))
    out.append(attempt(W.gen.pre_multisetup, [np.zeros((4, 2))], None))
    out.append(attempt(W.gen.pre_multisetup, None, [[0]]))
    return out


def scen_filter_and_pickle(W, seed):
    rng = np.random.default_rng(seed)
    out = []
    for _ in range(10):
        fs = float(rng.choice([50.0, 100.0, 256.0]))
        data = rng.standard_normal((int(rng.integers(60, 400)), int(rng.integers(1, 5))))
        btype = str(rng.choice(["lowpass", "highpass", "bandpass", "bandstop"]))
        if btype in ("lowpass", "highpass"):
            Wn = float(rng.uniform(0.05, 0.45) * fs)
        else:
            lo = float(rng.uniform(0.05, 0.2) * fs)
            Wn = (lo, lo + float(rng.uniform(0.05, 0.2) * fs))
        order = int(rng.integers(1, 9))
        keep = data.copy()
        out.append(attempt(W.gen.filter_data, data, fs, Wn, order, btype))
        out.append(attempt(W.gen.filter_data, data=data, fs=fs, Wn=Wn))  # default order / btype
        out.append(bool(np.array_equal(data, keep)))
    out.append(attempt(W.gen.filter_data, np.zeros((100, 2)), 100.0, 60.0))  # above Nyquist
    out.append(attempt(W.gen.filter_data, np.zeros((100, 2)), 100.0, 10.0, 4, "nonsense"))
    out.append(attempt(W.gen.filter_data, np.zeros((5, 2)), 100.0, 10.0, 8))  # too short
    out.append(attempt(W.gen.filter_data, np.zeros((100, 2)), 100.0, (10.0, 5.0), 4, "bandpass"))
    out.append(attempt(W.gen.filter_data, np.zeros((100, 2)), None, 0.2))  # normalised frequency
    # save / load of plain objects, error cases
    with workdir() as tmp:
        for i in range(6):
            obj = {
                "a": rng.standard_normal((3, 2)),
                "b": [int(i), "x", None, (1.5, 2 + 3j)],
                "c": {"nested": rng.integers(0, 9, size=4)},
            }
            fn = os.path.join(tmp, f"o{i}.pkl")
            out.append(attempt(W.gen.save_to_file, obj, fn))
            out.append(open(fn, "rb").read() == pickle.dumps(obj))
            out.append(attempt(W.gen.load_from_file, fn))
        out.append(attempt(W.gen.load_from_file, os.path.join(tmp, "missing.pkl")))
        bad = os.path.join(tmp, "bad.pkl")
        open(bad, "wb").write(b"not a pickle")
        out.append(attempt(W.gen.load_from_file, bad))
        empty = os.path.join(tmp, "empty.pkl")
        open(empty, "wb").close()
        out.append(attempt(W.gen.load_from_file, empty))
        unp = os.path.join(tmp, "unp.pkl")
        out.append(attempt(W.gen.save_to_file, lambda: 0, unp))  # not picklable
        out.append((os.path.exists(unp), os.path.getsize(unp) if os.path.exists(unp) else None))
        out.append(attempt(W.gen.save_to_file, 1, os.path.join(tmp, "no_dir", "x.pkl")))
    return out


# ---------------------------------------------------------------------------------------------
# scenario 2: BaseAlgorithm gating and data binding
# ---------------------------------------------------------------------------------------------
def scen_algorithm_gate(W, seed):
    rng = np.random.default_rng(seed)
    out = []
    A = W.alg
    classes = [A.FDD, A.EFDD, A.FSDD, A.SSIcov, A.SSIdat, A.pLSCF]
    for cls in classes:
        kw = {"br": 6} if "SSI" in cls.__name__ else ({"ordmax": 8} if cls is A.pLSCF else {})
        for with_params, name in itertools.product([False, True], [None, "custom"]):
            alg = cls(name=name, **kw) if with_params and kw else cls(name=name)
            if with_params and not kw:
                alg = cls(name=name, nxseg=128)
            out.append((alg.name, canon(alg.run_params), canon(alg.result)))
            out.append(attempt(alg._pre_run))  # never bound: AttributeError on fs
            out.append(attempt(alg.run))
            out.append(attempt(alg.mpe, [1.0]))
            # all combinations of fs / data / run_params being set
            for fs, data in itertools.product([None, 0.0, 50.0], [None, np.zeros((4, 2))]):
                alg.fs, alg.data = fs, data
                out.append(attempt(alg._pre_run))
            del alg.fs, alg.data
            # binding
            d = rng.standard_normal((20, 3))
            for fs in [100.0, 7, 0, 0.0, None, "x", np.float32(12.5)]:
                b = cls(name=name)
                r = attempt(lambda: b._set_data(data=d, fs=fs) is b)
                out.append(r)
                out.append(
                    (
                        getattr(b, "data", "unset") is d,
                        canon(getattr(b, "fs", "unset")),
                        canon(getattr(b, "dt", "unset")),
                    )
                )
            b = cls(name=name)
            out.append(attempt(lambda: b._set_data(d, 20.0) is b))
            out.append(attempt(lambda: b._set_result("R") is b))
            out.append(b.result)
    return out


# ---------------------------------------------------------------------------------------------
# scenario 3: histories of add / run_by_name / run_all / mpe on a SingleSetup
# ---------------------------------------------------------------------------------------------
def make_alg(W, kind, name=None, params=True):
    A = W.alg
    if kind == "FDD":
        return A.FDD(name=name, nxseg=256, method_SD="cor") if params else A.FDD(name=name)
    if kind == "EFDD":
        return A.EFDD(name=name, nxseg=256, method_SD="per") if params else A.EFDD(name=name)
    if kind == "FSDD":
        return A.FSDD(name=name, nxseg=256, method_SD="per", pov=0.4) if params else A.FSDD(name=name)
    if kind == "SSIcov":
        return (
            A.SSIcov(name=name, br=8, ordmax=16)
            if params
            else A.SSIcov(name=name)
        )
    if kind == "SSIdat":
        return A.SSIdat(name=name, br=8, ordmax=16) if params else A.SSIdat(name=name)
    if kind == "pLSCF":
        return A.pLSCF(name=name, ordmax=10, nxseg=256) if params else A.pLSCF(name=name)
    raise KeyError(kind)


def mpe_args(kind, fns):
    sel = fns[:2]
    if kind == "FDD":
        return (sel,), {"DF": 0.5}
    if kind in ("EFDD", "FSDD"):
        return (sel,), {"DF1": 0.5, "DF2": 2.0, "npmax": 10}
    if kind in ("SSIcov", "SSIdat"):
        return (), {"sel_freq": sel, "order": 12}
    return (), {"sel_freq": sel, "order": 8}


KINDS = ["FDD", "EFDD", "FSDD", "SSIcov", "SSIdat", "pLSCF"]


def snapshot(ss, data_ref):
    algs = getattr(ss, "algorithms", None)
    snap = {
        "data_is_ref": ss.data is data_ref,
        "data": canon(ss.data),
        "fs": ss.fs,
        "names": list(algs) if algs is not None else None,
    }
    if algs:
        for n, a in algs.items():
            snap[n] = (
                type(a).__name__,
                a.name,
                getattr(a, "data", "unset") is ss.data,
                canon(getattr(a, "fs", "unset")),
                canon(getattr(a, "dt", "unset")),
                canon(a.run_params),
                canon(a.result),
            )
    return snap


def scen_history(W, seed):
    """Random history of at most 5 calls over a random subset/order of algorithm classes."""
    rng = np.random.default_rng(seed)
    data, fs, fns = synth(seed % 3, n=1500, nch=4)
    ss = W.setup.SingleSetup(data, fs=fs)
    out = [snapshot(ss, data)]
    kinds = [KINDS[i] for i in rng.permutation(len(KINDS))[: int(rng.integers(1, 4))]]
    kind_of = {}
    pool = []  # algorithm names known so far
    n_ops = int(rng.integers(2, 6))
    planned_run = []  # names the generator has asked to run so far (bookkeeping uses rng only)
    for _ in range(n_ops):
        op = str(rng.choice(["add", "run_by_name", "run_all", "mpe", "mpe", "run_by_name"]))
        if not pool:
            op = "add" if rng.random() < 0.7 else op
        elif rng.random() < 0.5:  # natural progress: run what was added, extract what was run
            op = "mpe" if planned_run and rng.random() < 0.6 else "run_by_name"
        if op == "add":
            k = int(rng.integers(1, len(kinds) + 1))
            new = []
            for kind in [kinds[i] for i in rng.permutation(len(kinds))[:k]]:
                name = f"{kind}_{int(rng.integers(0, 2))}" if rng.random() < 0.6 else None
                params = rng.random() < 0.85
                alg = make_alg(W, kind, name=name, params=params)
                new.append(alg)
                kind_of[alg.name] = kind
                pool.append(alg.name)
            desc = ("add", [a.name for a in new])
            with capture_logs() as logs:
                res = attempt(ss.add_algorithms, *new)
        elif op == "run_all":
            desc = ("run_all",)
            planned_run.extend(pool)
            with capture_logs() as logs:
                res = attempt(ss.run_all)
        else:
            name = str(rng.choice(pool)) if pool and rng.random() < 0.9 else "ghost"
            if op == "mpe" and planned_run and rng.random() < 0.7:
                name = str(rng.choice(planned_run))
            if op == "run_by_name":
                planned_run.append(name)
                desc = ("run_by_name", name)
                with capture_logs() as logs:
                    res = attempt(ss.run_by_name, name)
            else:
                a, kw = mpe_args(kind_of.get(name, "FDD"), fns)
                desc = ("mpe", name)
                with capture_logs() as logs:
                    res = attempt(ss.mpe, name, *a, **kw)
        out.append((desc, res, list(logs)))
        out.append(snapshot(ss, data))
    # __getitem__ / get
    out.append(attempt(lambda: type(ss["ghost"]).__name__))
    out.append(ss.get("ghost") is None)
    # persistence of whatever state was reached
    with workdir() as tmp, W.active():
        fn = os.path.join(tmp, "setup.pkl")
        out.append(attempt(W.gen.save_to_file, ss, fn))
        back = W.gen.load_from_file(fn)
        assert type(back) is type(ss)
        s1, s2 = snapshot(ss, data), snapshot(back, back.data)
        s1.pop("data_is_ref"), s2.pop("data_is_ref")
        same(noflags(s1), noflags(s2), f"{W.label}: pickle round trip")
        out.append(snapshot(back, back.data))
    return out


def scen_order_independence(W, seed):
    """Run the same algorithms alone / together / repeatedly / reversed: results must agree."""
    data, fs, fns = synth(seed, n=1500, nch=4)
    kinds = ["FDD", "SSIcov", "pLSCF", "EFDD"]
    out = []

    def run(order, repeat=1, use_run_all=False):
        d = data.copy()
        ss = W.setup.SingleSetup(d, fs=fs)
        ss.add_algorithms(*[make_alg(W, k, name=k) for k in order])
        for _ in range(repeat):
            if use_run_all:
                ss.run_all()
            else:
                for k in order:
                    ss.run_by_name(k)
        for k in order:
            a, kw = mpe_args(k, fns)
            ss.mpe_from_plot  # attribute exists
            ss.mpe(k, *a, **kw)
        assert np.array_equal(d, data), "shared data modified"
        return {k: canon(ss[k].result) for k in order}, {k: canon(ss[k].run_params) for k in order}

    together = run(kinds)
    out.append(together)
    rev = run(kinds[::-1], use_run_all=True)
    twice = run(kinds, repeat=2)
    for k in kinds:
        alone = run([k])
        same(alone[0][k], together[0][k], f"{W.label}: alone vs together {k}")
        same(rev[0][k], together[0][k], f"{W.label}: reversed vs together {k}")
        same(twice[0][k], together[0][k], f"{W.label}: twice vs once {k}")
        same(alone[1][k], together[1][k], f"{W.label}: run params {k}")
    return out


def scen_mpe_from_plot_forwarding(W, seed):
    """setup.mpe / mpe_from_plot hand the user's arguments to the algorithm unchanged."""
    calls = []
    Base = W.alg_base.BaseAlgorithm
    RP, RS = W.run_params.FDDRunParams, W.result.FDDResult

    class Probe(Base[RP, RS, object]):
        RunParamCls = RP
        ResultCls = RS

        def run(self):
            calls.append(("run", self.name, self.data is self._expected))
            return RS(freq=np.arange(3.0))

        def mpe(self, *args, **kwargs):
            calls.append(("mpe", self.name, args, sorted(kwargs.items())))
            if kwargs.get("boom"):
                raise RuntimeError("boom")
            return "ignored"

        def mpe_from_plot(self, *args, **kwargs):
            calls.append(("mpe_from_plot", self.name, args, sorted(kwargs.items())))
            return "ignored"

    data = np.arange(12.0).reshape(6, 2)
    ss = W.setup.SingleSetup(data, fs=10.0)
    p1, p2 = Probe(name="p1", nxseg=8), Probe(name="p2")
    p1._expected = p2._expected = data
    out = []
    with capture_logs() as logs:
        out.append(attempt(ss.add_algorithms, p1, p2))
        out.append(attempt(ss.mpe, "p1", 1, 2, a=3))
        out.append(attempt(ss.mpe, name="p1", boom=True))
        out.append(attempt(ss.mpe_from_plot, "p2", (0, 5), DF=0.2))
        out.append(attempt(ss.mpe_from_plot, "nope", 1))
        out.append(attempt(ss.mpe, "nope"))
        out.append(attempt(ss.run_by_name, "p1"))
        out.append(attempt(ss.run_by_name, "p2"))  # no run params
        out.append(attempt(ss.run_all))
        out.append(attempt(ss.run_by_name, name="nope"))
    out.append(canon(calls))
    out.append(list(logs))
    out.append((canon(p1.result), canon(p2.result)))
    # add_algorithms builds a NEW dict and keeps the insertion order / overwrites equal names
    before = ss.algorithms
    p3 = Probe(name="p1", nxseg=16)
    ss.add_algorithms(p3)
    out.append((before is ss.algorithms, list(before), list(ss.algorithms), ss["p1"] is p3))
    out.append((p3.data is data, p3.fs, p3.dt))
    # a setup whose fs makes the binding fail: nothing is registered
    bad = W.setup.SingleSetup(data, fs=10.0)
    bad.fs = 0
    q1, q2 = Probe(name="q1"), Probe(name="q2")
    out.append(attempt(bad.add_algorithms, q1, q2))
    out.append((list(bad.algorithms), hasattr(q1, "data"), hasattr(q1, "dt"), hasattr(q2, "data")))
    # a bare BaseSetup without `algorithms`
    bare = W.setup.BaseSetup()
    bare.data, bare.fs = data, 5.0
    out.append(attempt(bare.add_algorithms, Probe(name="z")))
    out.append(list(bare.algorithms))
    out.append(attempt(bare.add_algorithms))
    return out


# ---------------------------------------------------------------------------------------------
# scenario 4: PoSER constructor over configurations
# ---------------------------------------------------------------------------------------------
def scen_poser_configs(W, seed):
    rng = np.random.default_rng(seed)
    A = W.alg
    cls_pool = {"FDD": A.FDD, "EFDD": A.EFDD, "FSDD": A.FSDD, "SSIcov": A.SSIcov, "pLSCF": A.pLSCF}
    res_pool = {
        "FDD": W.result.FDDResult,
        "EFDD": W.result.EFDDResult,
        "FSDD": W.result.EFDDResult,
        "SSIcov": W.result.SSIResult,
        "pLSCF": W.result.pLSCFResult,
    }
    out = []
    data = np.zeros((10, 3))

    def build(kinds, states):
        ss = W.setup.SingleSetup(data, fs=10.0)
        algs = []
        for j, (k, st) in enumerate(zip(kinds, states)):
            a = cls_pool[k](name=f"{k}{j}")
            if st == "run":
                a.result = res_pool[k]()
            elif st == "mpe":
                a.result = res_pool[k](Fn=np.array([1.0, 2.0]), Phi=np.ones((3, 2)))
            elif st == "empty_fn":
                a.result = res_pool[k](Fn=np.array([]), Phi=np.ones((3, 0)))
            algs.append(a)
        ss.add_algorithms(*algs)
        return ss

    for case in range(60):
        n_set = int(rng.choice([0, 1, 2, 2, 3, 3, 4]))
        n_alg = int(rng.choice([0, 1, 1, 2, 2, 3]))
        base_kinds = [str(k) for k in rng.choice(list(cls_pool), size=n_alg)]
        setups = []
        for _ in range(n_set):
            kinds = list(base_kinds)
            r = rng.random()
            if r < 0.05 and len(kinds) > 1:
                kinds = kinds[::-1]
            elif r < 0.10 and kinds:
                kinds[int(rng.integers(0, len(kinds)))] = str(rng.choice(list(cls_pool)))
            elif r < 0.14 and kinds:
                kinds = kinds[:-1]
            elif r < 0.18:
                kinds = kinds + [str(rng.choice(list(cls_pool)))]
            states = [
                str(rng.choice(["mpe", "mpe", "mpe", "mpe", "mpe", "run", "none", "empty_fn"]))
                if rng.random() < 0.35
                else "mpe"
                for _ in kinds
            ]
            setups.append(build(kinds, states))
        r = rng.random()
        if r < 0.6:
            names = [f"n{j}" for j in range(n_alg)]
        elif r < 0.75:
            names = [f"n{j}" for j in range(n_alg + 1)]
        elif r < 0.85:
            names = [f"n{j}" for j in range(max(n_alg - 1, 0))]
        elif r < 0.9:
            names = None
        elif r < 0.95:
            names = tuple(f"n{j}" for j in range(n_alg))
        else:
            names = "ab"[:n_alg]
        arg = setups
        if n_set == 0:
            arg = [None, [], ()][case % 3]
        ref_ind = [[0]] * max(n_set, 1)

        def construct():
            ms = W.setup.MultiSetup_PoSER(ref_ind=ref_ind, single_setups=arg, names=names)
            return (
                [s is t for s, t in zip(ms.setups, setups)],
                len(ms.setups),
                type(ms.setups).__name__,
                ms.names is names,
                ms.ref_ind is ref_ind,
            )

        with capture_logs() as logs:
            res = attempt(construct)
        out.append((n_set, n_alg, res, list(logs)))
        # the generator itself, consumed lazily
        probe = W.setup.MultiSetup_PoSER.__new__(W.setup.MultiSetup_PoSER)
        probe.names = names

        def lazy():
            g = probe._init_setups(setups=setups)
            got = []
            try:
                for s in g:
                    got.append(setups.index(s))
            except Exception as e:  # noqa: BLE001
                return (got, type(e).__name__, str(e))
            return (got, None, None)

        out.append(attempt(lazy))
    # result property before merge, setups setter after init
    ok = [build(["FDD"], ["mpe"]), build(["FDD"], ["mpe"])]
    ms = W.setup.MultiSetup_PoSER(ref_ind=[[0], [0]], single_setups=ok, names=["x"])
    out.append(attempt(lambda: ms.result))

    def set_setups():
        ms.setups = []

    out.append(attempt(set_setups))
    # objects that are not setups
    out.append(attempt(W.setup.MultiSetup_PoSER, [[0]], [1, 2], ["x"]))
    out.append(attempt(W.setup.MultiSetup_PoSER, [[0]], [ok[0], None], ["x"]))
    return out


def scen_poser_merge(W, seed):
    """Full PoSER path with really run algorithms, and the PreGER setup."""
    out = []
    rng = np.random.default_rng(seed)
    setups = []
    fns = None
    mix = rng.standard_normal((4, 6))
    for i in range(3):
        data, fs, fns = synth(seed, n=1500, nch=4)
        data = data @ mix[:, [0, 1, 2 + i, 3 + i]]  # 4 channels, the first 2 shared
        ss = W.setup.SingleSetup(data, fs=fs)
        ss.add_algorithms(make_alg(W, "EFDD", "fdd"), make_alg(W, "SSIcov", "ssi"))
        ss.run_all()
        for k, n in (("EFDD", "fdd"), ("SSIcov", "ssi")):
            a, kw = mpe_args(k, fns)
            ss.mpe(n, *a, **kw)
        setups.append(ss)
    ref = [[0, 1]] * 3

    def merge():
        ms = W.setup.MultiSetup_PoSER(ref_ind=ref, single_setups=setups, names=["FDD", "SSI"])
        r = ms.merge_results()
        assert r is ms.result
        return {k: v for k, v in r.items()}

    out.append(attempt(merge))

    # PreGER
    datasets = [synth(seed + i, n=1200, nch=4)[0] for i in range(3)]
    refs = [[0, 1], [1, 0], [3, 0]]
    keep = [d.copy() for d in datasets]

    def preger():
        mg = W.setup.MultiSetup_PreGER(fs=100.0, ref_ind=refs, datasets=datasets)
        tr = [
            (mg.Nchs, mg.Ndats, mg.Ts, mg.dt, mg.Nsetup, canon(mg.data), list(mg.algorithms)),
        ]
        mg.add_algorithms(
            W.alg.FDD_MS(name="fdd", nxseg=256), W.alg.SSIcov_MS(name="ssi", br=6, ordmax=12)
        )
        tr.append((mg["fdd"].data is mg.data, mg["ssi"].fs, mg["ssi"].dt))
        mg.run_all()
        tr.append({n: canon(a.result) for n, a in mg.algorithms.items()})
        mg.mpe("fdd", fns[:2], DF=0.5)
        tr.append(canon(mg["fdd"].result))
        mg.detrend_data()
        tr.append(canon(mg.data))
        mg.filter_data(Wn=20.0, order=4)
        tr.append(canon(mg.data))
        mg.decimate_data(q=2)
        tr.append((mg.fs, mg.dt, mg.Ndats, mg.Ts, mg.Nchs, canon(mg.data)))
        mg.rollback()
        tr.append((mg.fs, mg.dt, mg.Ndats, mg.Ts, mg.Nchs, canon(mg.data), list(mg.algorithms)))
        return tr

    out.append(attempt(preger))
    out.append([bool(np.array_equal(a, b)) for a, b in zip(datasets, keep)])
    # inconsistent PreGER inputs
    out.append(attempt(lambda: W.setup.MultiSetup_PreGER(100.0, refs[:2], datasets).Nchs))
    out.append(attempt(lambda: W.setup.MultiSetup_PreGER(100.0, refs + [[0, 1]], datasets).Ndats))
    out.append(attempt(lambda: W.setup.MultiSetup_PreGER(0, refs, datasets).Ts))
    out.append(attempt(lambda: W.setup.MultiSetup_PreGER(100.0, refs, [d[:, 0] for d in datasets])))
    out.append(
        attempt(lambda: W.setup.MultiSetup_PreGER(50, refs, [d[:, :3] for d in datasets]).Nchs)
    )
    return out


# ---------------------------------------------------------------------------------------------
SCENARIOS = (
    [(scen_pre_multisetup, s) for s in range(6)]
    + [(scen_filter_and_pickle, s) for s in range(3)]
    + [(scen_algorithm_gate, 0)]
    + [(scen_history, s) for s in range(40)]
    + [(scen_order_independence, s) for s in range(2)]
    + [(scen_mpe_from_plot_forwarding, 0)]
    + [(scen_poser_configs, s) for s in range(4)]
    + [(scen_poser_merge, s) for s in range(2)]
)


def main():
    orig_mods, new_mods = build_worlds()
    ORIG, NEW = World("orig", orig_mods), World("new", new_mods)
    import matplotlib

    matplotlib.use("Agg")
    logging.getLogger("pyoma2").setLevel(logging.ERROR)  # quiet outside capture_logs()
    n_exc = n_ok = 0

    def count(t):
        nonlocal n_exc, n_ok
        if isinstance(t, (list, tuple)):
            if len(t) >= 2 and t[0] == "exc" and isinstance(t[1], str):
                n_exc += 1
                return
            if len(t) == 2 and t[0] == "ok":
                n_ok += 1
            for e in t:
                count(e)
        elif isinstance(t, dict):
            for e in t.values():
                count(e)

    for fn, seed in SCENARIOS:
        traces = []
        for W in (ORIG, NEW):
            with W.active():
                traces.append(fn(W, seed))
        same(traces[0], traces[1], f"{fn.__name__}[{seed}]")
        count(traces[1])
        print(f"  {fn.__name__}[{seed}]: identical")
    print(f"compared {len(SCENARIOS)} scenarios: {n_ok} successful calls, {n_exc} raised exceptions")
    assert n_ok > 200 and n_exc > 100, (n_ok, n_exc)
    print("PASS")


if __name__ == "__main__":
    main()
