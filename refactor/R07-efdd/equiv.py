"""
Equivalence check: refactored pyoma2.functions.fdd / pyoma2.algorithms.fdd versus the
pristine HEAD copies (orig_functions_fdd.py, orig_algorithms_fdd.py).

Run:  cd /tmp/wt/R07 && PYTHONPATH=/tmp/wt/R07/src /venv/bin/python _refactor/equiv.py
Prints PASS and exits 0 if every output is identical (bitwise, including dtype, shape,
NaN pattern and raised exception types).
"""

import importlib.util
import logging
import os
import sys
import warnings

import numpy as np

warnings.filterwarnings("ignore")
logging.disable(logging.CRITICAL)
os.environ.setdefault("TQDM_DISABLE", "1")

HERE = os.path.dirname(os.path.abspath(__file__))

import pyoma2.algorithms.fdd as new_alg  # noqa: E402
import pyoma2.functions.fdd as new_fdd  # noqa: E402
from pyoma2.algorithms.data.result import EFDDResult  # noqa: E402


def _load(modname, filename):
    spec = importlib.util.spec_from_file_location(modname, os.path.join(HERE, filename))
    mod = importlib.util.module_from_spec(spec)
    sys.modules[modname] = mod
    spec.loader.exec_module(mod)
    return mod


# loaded inside the package namespace so that `from .gen import MAC` resolves
orig_fdd = _load("pyoma2.functions._orig_fdd", "orig_functions_fdd.py")
orig_alg = _load("pyoma2.algorithms._orig_fdd", "orig_algorithms_fdd.py")
# the pristine algorithm module must call the pristine function module
orig_alg.fdd = orig_fdd
assert new_alg.fdd is new_fdd
assert orig_fdd.EFDD_mpe is not new_fdd.EFDD_mpe
assert new_fdd.__file__.startswith("/tmp/wt/R07/src/")

# silence progress bars in both modules
for m in (orig_fdd, new_fdd):
    m.tqdm = lambda it, *a, **k: it
    m.trange = lambda n, *a, **k: range(n)

N_CMP = 0


def same(a, b, path="out"):
    """Strict structural + bitwise equality."""
    global N_CMP
    if isinstance(a, (list, tuple)):
        assert type(a) is type(b), f"{path}: type {type(a)} vs {type(b)}"
        assert len(a) == len(b), f"{path}: len {len(a)} vs {len(b)}"
        for i, (x, y) in enumerate(zip(a, b)):
            same(x, y, f"{path}[{i}]")
        return
    if isinstance(a, (str, type(None), dict)) or isinstance(b, (str, type(None), dict)):
        assert type(a) is type(b) and a == b, f"{path}: {a!r} vs {b!r}"
        N_CMP += 1
        return
    if isinstance(a, np.ndarray) or isinstance(b, np.ndarray) or np.isscalar(a):
        aa, bb = np.asarray(a), np.asarray(b)
        assert type(a) is type(b), f"{path}: type {type(a)} vs {type(b)}"
        assert aa.dtype == bb.dtype, f"{path}: dtype {aa.dtype} vs {bb.dtype}"
        assert aa.shape == bb.shape, f"{path}: shape {aa.shape} vs {bb.shape}"
        assert np.array_equal(aa, bb, equal_nan=True), (
            f"{path}: values differ, max abs diff "
            f"{np.nanmax(np.abs(aa.astype(complex) - bb.astype(complex)))}"
        )
        N_CMP += 1
        return
    assert a == b, f"{path}: {a!r} vs {b!r}"
    N_CMP += 1


def run(fun, *args, **kwargs):
    try:
        return ("ok", fun(*args, **kwargs))
    except Exception as exc:  # noqa: BLE001
        return ("exc", type(exc).__name__)


def compare_call(name, *args, **kwargs):
    f_old, f_new = getattr(orig_fdd, name), getattr(new_fdd, name)
    r_old = run(f_old, *args, **kwargs)
    r_new = run(f_new, *args, **kwargs)
    assert r_old[0] == r_new[0], f"{name}: {r_old[0]}:{r_old[1]} vs {r_new[0]}:{r_new[1]}"
    same(r_old[1], r_new[1], name)
    return r_old


# ---------------------------------------------------------------------------------------
# input generators
def sdof_spectrum(rng, nxseg, fs, fn, xi, nch, floor=1e-9, complex_shape=False):
    """Exact SDOF spectral density times mode-shape dyad + full-rank floor."""
    nf = nxseg // 2 + 1
    freq = np.arange(nf) * fs / nxseg
    H = 1.0 / (fn**2 - freq**2 + 2j * xi * fn * freq)
    S = np.abs(H) ** 2
    phi = rng.uniform(0.3, 1.0, nch) * rng.choice([-1.0, 1.0], nch)
    if complex_shape:
        phi = phi * np.exp(1j * rng.uniform(-0.3, 0.3, nch))
    dyad = np.outer(phi, phi.conj())
    Sy = dyad[:, :, None] * S[None, None, :]
    Sy = Sy + (floor * S.max()) * np.eye(nch)[:, :, None]
    return freq, Sy, phi


def draw_mode(rng, nxseg, fs):
    """Mode inside the property's quantifier (resolved bell, >= 30 periods)."""
    for _ in range(1000):
        fn = rng.uniform(0.04, 0.25) * fs
        xi = rng.uniform(0.02, 0.05)
        df = fs / nxseg
        if 2 * xi * fn >= 4 * df and fn * (nxseg / fs) / 2 >= 30:
            return fn, xi
    raise RuntimeError("no admissible mode")


def simulated_csd(rng, nch, nxseg, fs, method):
    """Spectral matrix estimated from simulated 2-mode response (complex Hermitian)."""
    from scipy import signal

    n = 30 * nxseg
    t_modes = []
    for fn, xi in ((0.08 * fs, 0.02), (0.2 * fs, 0.03)):
        wn = 2 * np.pi * fn
        sys_c = signal.TransferFunction([1.0], [1.0, 2 * xi * wn, wn**2])
        sys_d = sys_c.to_discrete(1 / fs)
        num, den = np.ravel(sys_d.num), np.ravel(sys_d.den)
        t_modes.append(signal.lfilter(num, den, rng.standard_normal(n)))
    shapes = rng.standard_normal((nch, 2))
    Y = shapes @ np.array(t_modes)
    Y = Y / Y.std() + 0.02 * rng.standard_normal((nch, n))
    freq, Sy = new_fdd.SD_est(Y, Y, 1 / fs, nxseg, method=method, pov=0.5)
    return freq, Sy, (0.08 * fs, 0.2 * fs)


# ---------------------------------------------------------------------------------------
def main():
    rng = np.random.default_rng(20240707)
    n_ok = n_exc = 0

    # 1) property quantifier: exact SDOF bells, EFDD + FSDD, 'per', default sppk/npmax/MAClim
    for case in range(36):
        nxseg = int(rng.choice([1024, 2048, 4096, 8192]))
        fs = float(rng.choice([1.0, 10.0, 50.0, 100.0, 256.0, rng.uniform(5, 500)]))
        nch = int(rng.integers(2, 7))
        fn, xi = draw_mode(rng, nxseg, fs)
        freq, Sy, phi = sdof_spectrum(rng, nxseg, fs, fn, xi, nch)
        bw = 2 * xi * fn
        DF2 = float(rng.uniform(4, 8)) * bw
        DF1 = float(rng.uniform(0.5, 2.0)) * bw
        sel = [fn * (1 + rng.uniform(-0.002, 0.002))]
        scale = float(rng.choice([1.0, 1.0, 3.7e-6, 2.5e4]))
        for method in ("EFDD", "FSDD"):
            r = compare_call(
                "EFDD_mpe", Sy * scale, freq, 1 / fs, sel, "per",
                method=method, DF1=DF1, DF2=DF2,
            )  # fmt: skip
            if r[0] == "ok":
                n_ok += 1
                Fn, Xi, Phi, _ = r[1]
                # sanity: we are really exercising the accurate regime of the property
                assert abs(Fn[0, 0] / fn - 1) < 0.025 and abs(Xi[0, 0] / xi - 1) < 0.15, (
                    case, method, Fn, fn, Xi, xi,
                )  # fmt: skip
            else:
                n_exc += 1
            # the bell / mode-shape helper on its own (positional call like the unit test)
            phi_ref = phi / phi[np.argmax(np.abs(phi))]
            compare_call(
                "SDOF_bellandMS", Sy * scale, 1 / fs, sel[0], phi_ref.astype(complex),
                method, 1, 0.85, DF2,
            )  # fmt: skip

    # 2) outside the quantifier: options, close modes, several modes, list/array sel_freq,
    #    complex shapes, 'cor' / unknown methodSy, unknown method, too few extrema (raises)
    for case in range(30):
        nxseg = int(rng.choice([256, 512, 1024, 2048]))
        fs = float(rng.choice([1.0, 20.0, 100.0]))
        nch = int(rng.integers(2, 6))
        fn, xi = rng.uniform(0.05, 0.3) * fs, rng.uniform(0.005, 0.08)
        freq, Sy, phi = sdof_spectrum(
            rng, nxseg, fs, fn, xi, nch, floor=10.0 ** rng.uniform(-9, -2),
            complex_shape=bool(case % 2),
        )  # fmt: skip
        fn2 = rng.uniform(0.32, 0.45) * fs
        _, Sy2, _ = sdof_spectrum(rng, nxseg, fs, fn2, 0.02, nch, complex_shape=bool(case % 2))
        Sy = Sy + 0.3 * Sy2 * (np.abs(Sy).max() / np.abs(Sy2).max())
        sel = [fn, fn2] if case % 3 else np.array([fn2, fn, 0.5 * (fn + fn2)])
        kw = dict(
            method=str(rng.choice(["EFDD", "FSDD", "FSDD", "EFDD", "XFDD"])),
            DF1=float(rng.uniform(0.001, 0.05) * fs),
            DF2=float(rng.uniform(0.01, 0.3) * fs),
            cm=int(rng.choice([1, 1, 2])),
            MAClim=float(rng.choice([0.85, 0.5, 0.95, 0.999999])),
            sppk=int(rng.choice([3, 0, 1, 5])),
            npmax=int(rng.choice([20, 2, 6, 40, 200])),
        )
        methodSy = str(rng.choice(["per", "cor", "paer"]))
        r = compare_call("EFDD_mpe", Sy, freq, 1 / fs, sel, methodSy, **kw)
        n_ok += r[0] == "ok"
        n_exc += r[0] == "exc"
        phi_c = (phi / phi[np.argmax(np.abs(phi))]).astype(complex)
        compare_call(
            "SDOF_bellandMS", Sy, 1 / fs, float(fn), phi_c,
            method=kw["method"], cm=kw["cm"], MAClim=kw["MAClim"], DF=kw["DF2"],
        )  # fmt: skip

    # 3) pure random arrays as in the unit tests (real non-symmetric and complex)
    for case in range(12):
        nch, nf = int(rng.integers(2, 5)), int(rng.choice([100, 129, 257]))
        Sy = rng.random((nch, nch, nf))
        if case % 2:
            Sy = Sy + 1j * rng.random((nch, nch, nf))
        freq = np.linspace(0, 1, nf)
        for methodSy in ("cor", "paer", "per"):
            r = compare_call(
                "EFDD_mpe", Sy=Sy, freq=freq, dt=0.1, sel_freq=[0.3, 0.5, 0.7],
                methodSy=methodSy, npmax=2, method="EFDD" if case % 4 < 2 else "FSDD",
            )  # fmt: skip
            n_ok += r[0] == "ok"
            n_exc += r[0] == "exc"
        phi = rng.random(nch) + 1j * rng.random(nch)
        for method in ("FSDD", "EFDD", "other"):
            compare_call("SDOF_bellandMS", Sy, 0.01, 10.0, phi, method, 1, 0.85, 1.0)
            compare_call("SDOF_bellandMS", Sy, 0.01, 10.0, phi, method, 2, 0.2, 4.0)
        # empty analysis band (upper index <= lower index)
        compare_call("SDOF_bellandMS", Sy, 0.01, 10.0, phi, "FSDD", 1, 0.85, 0.0)
        compare_call("SDOF_bellandMS", Sy, 0.01, 10.0, phi, "EFDD", 1, 0.85, -2.0)

    # 4) spectra estimated from simulated data (complex Hermitian, both estimators)
    for case in range(6):
        nxseg, fs, nch = int(rng.choice([1024, 2048])), float(rng.choice([50.0, 100.0])), 4
        methodSy = "per" if case % 2 == 0 else "cor"
        freq, Sy, fns = simulated_csd(rng, nch, nxseg, fs, methodSy)
        for method in ("EFDD", "FSDD"):
            r = compare_call(
                "EFDD_mpe", Sy, freq, 1 / fs, list(fns), methodSy,
                method=method, DF1=0.01 * fs, DF2=0.04 * fs, npmax=12,
            )  # fmt: skip
            n_ok += r[0] == "ok"
            n_exc += r[0] == "exc"

    # 5) algorithm classes (EFDD / FSDD .mpe and .mpe_from_plot -> result.{Fn,Xi,Phi,forPlot})
    class _StubSelFromPlot:
        picked = None

        def __init__(self, algo, freqlim=None, plot="FDD"):
            self.result = (list(_StubSelFromPlot.picked), None)

    orig_alg.SelFromPlot = _StubSelFromPlot
    new_alg.SelFromPlot = _StubSelFromPlot

    n_alg = 0
    for case in range(16):
        nxseg = int(rng.choice([1024, 2048, 4096]))
        fs = float(rng.choice([10.0, 100.0, 200.0]))
        nch = int(rng.integers(2, 7))
        fn, xi = draw_mode(rng, nxseg, fs)
        freq, Sy, phi = sdof_spectrum(rng, nxseg, fs, fn, xi, nch)
        bw = 2 * xi * fn
        kwargs = dict(DF1=bw, DF2=5 * bw)
        if case % 4 == 3:  # non-default options, one of them failing (too many extrema)
            kwargs.update(cm=1, MAClim=0.9, sppk=2, npmax=int(rng.choice([10, 100000])))
        for clsname in ("EFDD", "FSDD"):
            outs = []
            for mod in (orig_alg, new_alg):
                alg = getattr(mod, clsname)(name="alg", nxseg=nxseg, method_SD="per")
                alg.fs, alg.dt = fs, 1 / fs
                alg.result = EFDDResult(freq=freq, Sy=Sy)
                if case % 2 == 0:
                    status = run(alg.mpe, sel_freq=[fn], **kwargs)
                else:
                    _StubSelFromPlot.picked = [fn]
                    status = run(alg.mpe_from_plot, **kwargs)
                res = alg.result
                outs.append(
                    [
                        list(status),
                        res.Fn, res.Xi, res.Phi, res.forPlot,
                        alg.run_params.model_dump(),
                    ]
                )  # fmt: skip
            rp_old, rp_new = outs[0].pop(), outs[1].pop()
            assert rp_old.keys() == rp_new.keys()
            for k in rp_old:
                same(rp_old[k], rp_new[k], f"run_params.{k}")
            same(outs[0], outs[1], f"{clsname}.result")
            n_alg += 1
    # mpe before run -> same exception
    for clsname in ("EFDD", "FSDD"):
        st = [
            run(getattr(mod, clsname)(name="a", nxseg=1024).mpe, sel_freq=[1.0])
            for mod in (orig_alg, new_alg)
        ]
        same(list(st[0]), list(st[1]), "mpe-before-run")

    print(
        f"function-level EFDD_mpe calls: {n_ok} returned, {n_exc} raised (same exception); "
        f"algorithm-level cases: {n_alg}; leaf comparisons: {N_CMP}"
    )
    assert n_ok >= 60 and n_exc >= 3
    print("PASS")


if __name__ == "__main__":
    main()
