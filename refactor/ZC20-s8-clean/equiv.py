"""
Differential test: the CLEAN version of the commit against the unmodified library.

Run as:  PYTHONPATH=<tree>/src /venv/bin/python equiv.py   (with the CLEAN version applied)

The pristine implementations are loaded from the copies `orig_plot.py` and
`orig_plscf.py` saved next to this script.  Every artist that ends up on the axes
(lines, scatter offsets, error-bar segments, legend, limits, labels) is compared
for stab_plot / cluster_plot called directly, in the way SelFromPlot calls them,
and through pLSCF.plot_stab / plot_cluster (and SSIcov, whose code is untouched
but which reaches the touched functions), on random tables and configurations.
"""

import importlib.util
import logging
import os
import sys
import warnings

import matplotlib

matplotlib.use("Agg")
import matplotlib.pyplot as plt  # noqa: E402
import numpy as np  # noqa: E402
from matplotlib.collections import LineCollection, PathCollection  # noqa: E402

warnings.filterwarnings("ignore")
logging.disable(logging.CRITICAL)

import pyoma2.algorithms.plscf as new_plscf  # noqa: E402
import pyoma2.algorithms.ssi as new_ssi  # noqa: E402
from pyoma2.algorithms.data.result import SSIResult, pLSCFResult  # noqa: E402
from pyoma2.functions import plot as new_plot  # noqa: E402

HERE = os.path.dirname(os.path.abspath(__file__))


def load(name, filename):
    spec = importlib.util.spec_from_file_location(name, os.path.join(HERE, filename))
    mod = importlib.util.module_from_spec(spec)
    sys.modules[name] = mod
    spec.loader.exec_module(mod)
    return mod


orig_plot = load("pyoma2.functions._orig_plot", "orig_plot.py")
orig_plscf = load("pyoma2.algorithms._orig_plscf", "orig_plscf.py")
orig_plscf.plot = orig_plot  # the pristine class draws with the pristine functions

MISMATCH = []
N_CASES = 0
N_DRAWN = 0


def snapshot(fig, ax):
    snap = {
        "title": ax.get_title(),
        "xlabel": ax.get_xlabel(),
        "ylabel": ax.get_ylabel(),
        "xlim": np.asarray(ax.get_xlim(), dtype=float),
        "ylim": np.asarray(ax.get_ylim(), dtype=float),
        "n_axes": len(fig.axes),
    }
    for i, ln in enumerate(ax.lines):
        snap[f"line{i}.style"] = (
            str(ln.get_marker()),
            str(ln.get_color()),
            str(ln.get_linestyle()),
            float(ln.get_markersize()),
            str(ln.get_label()) if not str(ln.get_label()).startswith("_") else "_",
        )
        snap[f"line{i}.x"] = np.asarray(ln.get_xdata(), dtype=float)
        snap[f"line{i}.y"] = np.asarray(ln.get_ydata(), dtype=float)
    for i, col in enumerate(ax.collections):
        snap[f"col{i}.type"] = type(col).__name__
        if isinstance(col, PathCollection):
            off = np.ma.filled(np.ma.masked_invalid(col.get_offsets()), np.nan)
            snap[f"col{i}.offsets"] = np.asarray(off, dtype=float)
            snap[f"col{i}.sizes"] = np.asarray(col.get_sizes(), dtype=float)
            snap[f"col{i}.colors"] = np.asarray(col.get_facecolor(), dtype=float)
        elif isinstance(col, LineCollection):
            segs = col.get_segments()
            snap[f"col{i}.nseg"] = len(segs)
            if segs:
                snap[f"col{i}.segs"] = np.concatenate(
                    [np.asarray(s, dtype=float).ravel() for s in segs]
                )
            snap[f"col{i}.colors"] = np.asarray(col.get_color(), dtype=float)
    leg = ax.get_legend()
    snap["legend"] = None if leg is None else tuple(t.get_text() for t in leg.get_texts())
    return snap


def outcome(func, *args, **kwargs):
    """Either ("ok", snapshot) or ("exc", type name)."""
    try:
        fig, ax = func(*args, **kwargs)
    except Exception as e:  # noqa: BLE001
        plt.close("all")
        return ("exc", type(e).__name__)
    snap = snapshot(fig, ax)
    plt.close("all")
    return ("ok", snap)


def compare(what, a, b):
    global N_CASES, N_DRAWN
    N_CASES += 1
    N_DRAWN += a[0] == "ok" and b[0] == "ok"
    if a[0] != b[0]:
        MISMATCH.append(f"{what}: {a[0]} {a[1] if a[0] == 'exc' else ''} vs {b[0]}")
        return
    if a[0] == "exc":
        if a[1] != b[1]:
            MISMATCH.append(f"{what}: raises {a[1]} vs {b[1]}")
        return
    sa, sb = a[1], b[1]
    if sa.keys() != sb.keys():
        MISMATCH.append(f"{what}: artists differ {sorted(sa.keys() ^ sb.keys())}")
        return
    for k in sa:
        va, vb = sa[k], sb[k]
        if isinstance(va, np.ndarray):
            ok = va.shape == vb.shape and np.allclose(
                va, vb, rtol=1e-12, atol=0, equal_nan=True
            )
            if k.endswith((".x", ".y")) and va.dtype != vb.dtype:
                ok = False
        else:
            ok = va == vb
        if not ok:
            MISMATCH.append(f"{what}: {k} differs")


def random_tables(rng):
    n_poles = int(rng.integers(1, 40))
    n_orders = int(rng.integers(1, 61))
    Fn = rng.uniform(0.2, 30.0, (n_poles, n_orders))
    Xi = rng.uniform(1e-4, 0.2, (n_poles, n_orders))
    pattern = rng.integers(0, 4)
    if pattern == 0:
        Fn[rng.random(Fn.shape) < rng.uniform(0, 0.9)] = np.nan
    elif pattern == 1:  # lower orders have fewer poles
        for j in range(n_orders):
            Fn[j + 1 :, j] = np.nan
    elif pattern == 2:
        Fn[:, rng.random(n_orders) < 0.3] = np.nan
        Fn[rng.random(n_poles) < 0.3, :] = np.nan
    Xi[np.isnan(Fn)] = np.nan
    Lab = (rng.random(Fn.shape) < rng.uniform(0, 1)).astype(int)
    if rng.random() < 0.2:  # label tables with NaN / other labels
        Lab = Lab.astype(float)
        Lab[rng.random(Fn.shape) < 0.2] = np.nan
        Lab[rng.random(Fn.shape) < 0.1] = 7
    cov = rng.uniform(0.0, 0.12, Fn.shape)
    cov[np.isnan(Fn)] = np.nan
    cov[rng.random(Fn.shape) < 0.1] = np.nan
    if rng.random() < 0.25:  # memory layout must not matter
        Fn, Xi, Lab, cov = (np.asfortranarray(t) for t in (Fn, Xi, Lab, cov))
    return Fn, Xi, Lab, cov


def functions_part(rng, n=40):
    for k in range(n):
        Fn, Xi, Lab, cov = random_tables(rng)
        step = int(rng.choice([1, 1, 2, 3, 5]))
        ordmin = int(rng.integers(0, 5))
        ordmax = (Fn.shape[1] - 1) * step
        hide = bool(rng.integers(0, 2))
        freqlim = None if rng.random() < 0.4 else tuple(np.sort(rng.uniform(0, 30, 2)))
        Fn_cov = cov if rng.random() < 0.5 else None
        kw = dict(ordmin=ordmin, freqlim=freqlim, hide_poles=hide, Fn_cov=Fn_cov)
        copies = [t.copy() for t in (Fn, Lab, cov)]
        compare(
            f"stab_plot #{k} {Fn.shape} step={step} {kw['hide_poles']}",
            outcome(new_plot.stab_plot, Fn, Lab, step, ordmax, **kw),
            outcome(orig_plot.stab_plot, Fn, Lab, step, ordmax, **kw),
        )
        # the way SelFromPlot calls it: positional, on existing axes
        outs = []
        for mod in (new_plot, orig_plot):
            fig, (ax1, ax2) = plt.subplots(1, 2)
            outs.append(
                outcome(
                    mod.stab_plot,
                    Fn,
                    Lab,
                    1,
                    ordmax,
                    ordmin=ordmin,
                    freqlim=freqlim,
                    hide_poles=hide,
                    fig=fig,
                    ax=ax2,
                )
            )
        compare(f"stab_plot on given axes #{k}", *outs)
        compare(
            f"cluster_plot #{k} {Fn.shape}",
            outcome(new_plot.cluster_plot, Fn, Xi, Lab, ordmin, freqlim, hide),
            outcome(orig_plot.cluster_plot, Fn, Xi, Lab, ordmin, freqlim, hide),
        )
        for t, c in zip((Fn, Lab, cov), copies):
            if not np.array_equal(t, c, equal_nan=True):
                MISMATCH.append(f"#{k}: an input table was modified")

        # the new pure functions against the expressions of the pristine code
        global N_CASES
        N_CASES += 1
        (x, y), (x1, y1) = new_plot.stab_coords(Fn, Lab, step=step)
        ex = np.where(Lab == 1, Fn, np.nan).flatten(order="F")
        ex1 = np.where(Lab == 0, Fn, np.nan).flatten(order="F")
        ey = np.array([i // len(Fn) for i in range(len(ex))]) * step
        for got, exp in ((x, ex), (x1, ex1), (y, ey), (y1, ey)):
            if not np.array_equal(got, exp, equal_nan=True):
                MISMATCH.append(f"stab_coords #{k} {Fn.shape} step={step}")

    # invalid input: same exception type from both
    Fn, Xi, Lab, cov = random_tables(rng)
    bad_lab = np.zeros((Fn.shape[0] + 1, Fn.shape[1] + 2), dtype=int)
    for hide in (True, False):
        compare(
            "stab_plot with a label table of another shape",
            outcome(new_plot.stab_plot, Fn, bad_lab, 1, 10, hide_poles=hide),
            outcome(orig_plot.stab_plot, Fn, bad_lab, 1, 10, hide_poles=hide),
        )
        compare(
            "cluster_plot with a label table of another shape",
            outcome(new_plot.cluster_plot, Fn, Xi, bad_lab, hide_poles=hide),
            outcome(orig_plot.cluster_plot, Fn, Xi, bad_lab, hide_poles=hide),
        )


def classes_part(rng, n=20):
    for k in range(n):
        Fn, Xi, Lab, cov = random_tables(rng)
        hide = bool(rng.integers(0, 2))
        freqlim = None if rng.random() < 0.4 else tuple(np.sort(rng.uniform(0, 30, 2)))

        # pLSCF: one column per order
        ordmax = Fn.shape[1]
        ordmin = int(rng.integers(0, 4))
        algs = []
        for mod in (new_plscf, orig_plscf):
            alg = mod.pLSCF(name="p", ordmax=ordmax, ordmin=ordmin)
            alg.result = pLSCFResult(Fn_poles=Fn, Xi_poles=Xi, Lab=Lab)
            algs.append(alg)
        compare(
            f"pLSCF.plot_stab #{k} {Fn.shape} hide={hide}",
            outcome(algs[0].plot_stab, freqlim=freqlim, hide_poles=hide),
            outcome(algs[1].plot_stab, freqlim=freqlim, hide_poles=hide),
        )
        compare(
            f"pLSCF.plot_cluster #{k} {Fn.shape} hide={hide}",
            outcome(algs[0].plot_cluster, freqlim=freqlim, hide_poles=hide),
            outcome(algs[1].plot_cluster, freqlim=freqlim, hide_poles=hide),
        )

        # SSI (code untouched, reaches the touched functions); with covariances
        step = int(rng.choice([1, 2]))
        ssi = new_ssi.SSIcov(name="s", br=10, ordmax=(Fn.shape[1] - 1) * step, step=step)
        ssi.result = SSIResult(
            Fn_poles=Fn,
            Xi_poles=Xi,
            Lab=Lab,
            Fn_poles_cov=cov if k % 2 else None,
        )
        outs = []
        for mod in (new_plot, orig_plot):
            new_ssi.plot = mod
            try:
                outs.append(
                    (
                        outcome(ssi.plot_stab, freqlim=freqlim, hide_poles=hide),
                        outcome(ssi.plot_cluster, freqlim=freqlim, hide_poles=hide),
                    )
                )
            finally:
                new_ssi.plot = new_plot
        compare(f"SSIcov.plot_stab #{k}", outs[0][0], outs[1][0])
        compare(f"SSIcov.plot_cluster #{k}", outs[0][1], outs[1][1])

    # not run yet: same exception from both
    a, b = new_plscf.pLSCF(name="p", ordmax=5), orig_plscf.pLSCF(name="p", ordmax=5)
    compare("pLSCF.plot_stab before run", outcome(a.plot_stab), outcome(b.plot_stab))
    compare(
        "pLSCF.plot_cluster before run", outcome(a.plot_cluster), outcome(b.plot_cluster)
    )


def main():
    rng = np.random.default_rng(2020)
    functions_part(rng)
    classes_part(rng)
    print(f"{N_CASES} comparisons, {N_DRAWN} of them of drawn diagrams")
    if MISMATCH:
        print("FAIL")
        for m in MISMATCH[:15]:
            print(" -", m)
        return 1
    print("PASS")
    return 0


if __name__ == "__main__":
    sys.exit(main())
