"""Equivalence check: refactored pyoma2.functions.ssi vs the pristine HEAD copy.

Run:  cd /tmp/wt/R01 && PYTHONPATH=/tmp/wt/R01/src /venv/bin/python _refactor/equiv.py
Prints PASS and exits 0 when every compared output is identical.
"""

import importlib.util
import itertools
import os
import sys
import warnings

os.environ.setdefault("TQDM_DISABLE", "1")
warnings.filterwarnings("ignore")

import logging  # noqa: E402

import numpy as np  # noqa: E402

logging.disable(logging.CRITICAL)

HERE = os.path.dirname(os.path.abspath(__file__))


def _load(name, path):
    spec = importlib.util.spec_from_file_location(name, path)
    mod = importlib.util.module_from_spec(spec)
    spec.loader.exec_module(mod)
    return mod


orig = _load("orig_functions_ssi", os.path.join(HERE, "orig_functions_ssi.py"))
import pyoma2.functions.ssi as new  # noqa: E402

assert os.path.realpath(new.__file__).startswith("/tmp/wt/R01/src/"), new.__file__
assert os.path.realpath(new.__file__) != os.path.realpath(orig.__file__)

N_COMPARED = 0
MSG_DIFFS = []
N_MPE_OK = []
# strict=True -> bit-for-bit (np.array_equal with NaN == NaN); this is what we use
# everywhere.  The tolerance variant exists only as a diagnostic.
STRICT = True


def same(a, b, where):
    """Recursively compare two results; identical type, shape, dtype, values, NaN pattern."""
    global N_COMPARED
    if a is None or b is None:
        assert a is None and b is None, f"{where}: None mismatch {type(a)} {type(b)}"
        return
    if isinstance(a, (list, tuple)):
        assert type(a) is type(b), f"{where}: container type {type(a)} vs {type(b)}"
        assert len(a) == len(b), f"{where}: len {len(a)} vs {len(b)}"
        for k, (x, y) in enumerate(zip(a, b)):
            same(x, y, f"{where}[{k}]")
        return
    a_arr, b_arr = np.asarray(a), np.asarray(b)
    assert type(a) is type(b), f"{where}: type {type(a)} vs {type(b)}"
    assert a_arr.shape == b_arr.shape, f"{where}: shape {a_arr.shape} vs {b_arr.shape}"
    assert a_arr.dtype == b_arr.dtype, f"{where}: dtype {a_arr.dtype} vs {b_arr.dtype}"
    if a_arr.dtype.kind not in "biufc":
        assert all(x == y for x, y in zip(a_arr.ravel(), b_arr.ravel())), where
    elif STRICT:
        assert np.array_equal(a_arr, b_arr, equal_nan=True), (
            f"{where}: values differ, max abs diff "
            f"{np.nanmax(np.abs(a_arr - b_arr)) if a_arr.size else 0}"
        )
    else:
        assert np.array_equal(np.isnan(a_arr), np.isnan(b_arr)), f"{where}: NaN pattern"
        assert np.allclose(a_arr, b_arr, rtol=1e-13, atol=1e-15, equal_nan=True), where
    N_COMPARED += 1


def call(fun, *args, **kwargs):
    """Return ('ok', result) or ('exc', type, message)."""
    try:
        return ("ok", fun(*args, **kwargs))
    except Exception as exc:  # noqa: BLE001
        return ("exc", type(exc), str(exc))


def both(name, *args, **kwargs):
    """Call function `name` of both modules on (copies of) the same inputs and compare."""
    import copy

    r_new = call(getattr(new, name), *copy.deepcopy(args), **copy.deepcopy(kwargs))
    r_old = call(getattr(orig, name), *copy.deepcopy(args), **copy.deepcopy(kwargs))
    assert r_new[0] == r_old[0], f"{name}: outcome {r_new[:2]} vs {r_old[:2]}"
    if r_new[0] == "exc":
        assert r_new[1] is r_old[1], f"{name}: exception type {r_new[1]} vs {r_old[1]}"
        # The message text of shape-mismatch ValueErrors differs between np.dot and
        # the @ operator (invalid inputs only); the exception TYPE must be equal.
        if r_new[2] != r_old[2]:
            MSG_DIFFS.append((name, r_new[1].__name__, r_new[2], r_old[2]))
        return r_new
    same(r_new[1], r_old[1], name)
    return r_new


# ----------------------------------------------------------------------------
# random systems of the property's quantifier
# ----------------------------------------------------------------------------
def random_system(rng, m, n_ch, complex_shapes, fs):
    # distinct frequencies in (0, 0.45 fs), separated
    while True:
        fn = np.sort(rng.uniform(0.02 * fs, 0.45 * fs, size=m))
        if m == 1 or np.min(np.diff(fn)) > 0.02 * fs:
            break
    xi = rng.uniform(0.002, 0.08, size=m)
    wn = 2 * np.pi * fn
    lam_c = -xi * wn + 1j * wn * np.sqrt(1 - xi**2)
    phi = rng.standard_normal((n_ch, m))
    if complex_shapes:
        phi = phi + 1j * rng.standard_normal((n_ch, m))
    return fn, xi, lam_c, phi


def free_response(rng, lam_c, phi, fs, n_dat):
    m = lam_c.size
    amp = rng.uniform(0.5, 2.0, size=m) * np.exp(1j * rng.uniform(0, 2 * np.pi, size=m))
    k = np.arange(n_dat)
    lam_d = np.exp(lam_c / fs)
    modal = amp[:, None] * lam_d[:, None] ** k[None, :]  # (m, n_dat)
    return 2 * np.real(phi @ modal)  # (n_ch, n_dat)


def ref_subset(rng, n_ch):
    n_ref = int(rng.integers(1, n_ch + 1))
    return np.sort(rng.choice(n_ch, size=n_ref, replace=False))


def pipeline_case(rng, seed_info):
    fs = float(rng.choice([50.0, 100.0, 256.0, 1000.0]))
    m = int(rng.integers(1, 7))
    n_ch = int(rng.integers(2, 9))
    complex_shapes = bool(rng.integers(0, 2))
    fn, xi, lam_c, phi = random_system(rng, m, n_ch, complex_shapes, fs)
    refs = ref_subset(rng, n_ch)
    n_ref = refs.size
    # enough block rows: (br) * n_ref >= 2m and br*n_ch >= 2m, plus margin
    br = int(np.ceil(2 * m / n_ref)) + 1 + int(rng.integers(0, 4))
    n_dat = int(rng.integers(400, 1500))
    Y = free_response(rng, lam_c, phi, fs, n_dat)
    Yref = Y[refs, :]
    method = str(rng.choice(["cov_mm", "dat"]))
    extra = int(rng.integers(0, 5))
    ordmax = min(2 * m + extra, (br + 1) * n_ref, br * n_ch)
    step = 1
    dt = 1 / fs

    res = both("build_hank", Y, Yref, br, method)
    H = res[1][0]

    fast = both("SSI_fast", H, br, ordmax, step=step)
    legacy = both("SSI", H, br, ordmax, step)
    # positional/keyword spelling of the same call
    both("SSI_fast", H, br, ordmax, step, False, None, 100)

    Obs, A, C = fast[1][0], fast[1][1], fast[1][2]
    poles = both("SSI_poles", Obs, A, C, ordmax, dt, step=step)
    A_l, C_l = legacy[1]
    both("SSI_poles", None, A_l, C_l, ordmax, dt, step)

    for n in range(len(A)):
        both("ac2mp", A[n], C[n], dt)
        both("ac2mp", A_l[n], C_l[n], dt, calc_unc=True)

    if poles[0] == "ok" and ordmax >= 2 * m:
        Fn_p, Xi_p, Phi_p = poles[1][0], poles[1][1], poles[1][2]
        both("SSI_mpe", list(fn), Fn_p, Xi_p, Phi_p, 2 * m)
        # sanity: the property itself holds for the refactored code
        col = Fn_p[:, 2 * m]
        found = np.sort(col[~np.isnan(col)])
        assert found.size == 2 * m, seed_info
        assert np.allclose(found[::2], fn, rtol=1e-5), (seed_info, found, fn)


def exact_hankel_case(rng):
    """Realisation step alone on an exact rank-2m product O * Gamma."""
    fs = 100.0
    m = int(rng.integers(1, 7))
    n_ch = int(rng.integers(2, 9))
    n_ref = int(rng.integers(1, n_ch + 1))
    _, _, lam_c, phi = random_system(rng, m, n_ch, bool(rng.integers(0, 2)), fs)
    lam_d = np.exp(lam_c / fs)
    # real block-diagonal state matrix and real output matrix
    A = np.zeros((2 * m, 2 * m))
    Cm = np.zeros((n_ch, 2 * m))
    for j in range(m):
        a, b = lam_d[j].real, lam_d[j].imag
        A[2 * j : 2 * j + 2, 2 * j : 2 * j + 2] = [[a, b], [-b, a]]
        Cm[:, 2 * j] = phi[:, j].real
        Cm[:, 2 * j + 1] = phi[:, j].imag
    G = rng.standard_normal((2 * m, n_ref))
    br = int(np.ceil(2 * m / n_ref)) + 1 + int(rng.integers(0, 3))
    O = np.vstack([Cm @ np.linalg.matrix_power(A, k) for k in range(br + 1)])
    Gam = np.hstack([np.linalg.matrix_power(A, k) @ G for k in range(br + 1)])
    H = O @ Gam
    ordmax = min(2 * m + int(rng.integers(0, 3)), br * n_ch, (br + 1) * n_ref)
    fast = both("SSI_fast", H, br, ordmax)
    legacy = both("SSI", H, br, ordmax)
    both("SSI_poles", fast[1][0], fast[1][1], fast[1][2], ordmax, 1 / fs)
    both("SSI_poles", fast[1][0], legacy[1][0], legacy[1][1], ordmax, 1 / fs)


def ac2mp_case(rng):
    n = int(rng.integers(1, 13))
    n_ch = int(rng.integers(1, 9))
    A = rng.standard_normal((n, n)) * rng.uniform(0.1, 1.5)
    C = rng.standard_normal((n_ch, n))
    dt = float(rng.choice([1e-3, 0.01, 0.02, 0.5]))
    both("ac2mp", A, C, dt)
    both("ac2mp", A, C, dt, True)
    both("ac2mp", A, C, dt=dt, calc_unc=1)  # truthy but not True: no unc outputs


def unc_case(rng):
    """Uncertainty branch (outside the property, but touched by the refactoring)."""
    fs = 100.0
    m = int(rng.integers(1, 4))
    n_ch = int(rng.integers(2, 5))
    _, _, lam_c, phi = random_system(rng, m, n_ch, False, fs)
    n_dat = 3000
    Y = free_response(rng, lam_c, phi, fs, n_dat) + 0.5 * rng.standard_normal(
        (n_ch, n_dat)
    )
    refs = ref_subset(rng, n_ch)
    Yref = Y[refs, :]
    br = int(np.ceil(2 * m / refs.size)) + 2
    nb = int(rng.choice([10, 20]))
    ordmax = min(2 * m + 2, br * n_ch, (br + 1) * refs.size)
    res = both("build_hank", Y, Yref, br, "cov_mm", calc_unc=True, nb=nb)
    H, T = res[1]
    fast = both("SSI_fast", H, br, ordmax, step=1, calc_unc=True, T=T, nb=nb)
    Obs, A, C, Q1, Q2, Q3, Q4 = fast[1]
    both(
        "SSI_poles", Obs, A, C, ordmax, 1 / fs, step=1, calc_unc=True,
        Q1=Q1, Q2=Q2, Q3=Q3, Q4=Q4,
    )  # fmt: skip


def exception_cases(rng):
    H = rng.standard_normal((12, 9))  # br=2, l=4, r=3
    # ordmax larger than what the Hankel matrix supports
    both("SSI_fast", H, 2, 20)
    both("SSI", H, 2, 20)
    # step = 0
    both("SSI_fast", H, 2, 4, step=0)
    both("SSI", H, 2, 4, 0)
    # step > 1: SSI_poles indexes AA[ii] by order -> same outcome expected in both
    fast = both("SSI_fast", H, 2, 6, step=2)
    both("SSI_poles", fast[1][0], fast[1][1], fast[1][2], 6, 0.01, step=2)
    fast = both("SSI_fast", H, 2, 6, step=1)
    both("SSI_poles", fast[1][0], fast[1][1], fast[1][2], 6, 0.01, step=2)
    # empty lists / wrong shapes
    both("SSI_poles", None, [], [], 4, 0.01)
    both("ac2mp", np.zeros((0, 0)), np.zeros((3, 0)), 0.01)
    both("ac2mp", np.eye(3), np.ones((2, 4)), 0.01)
    both("ac2mp", np.zeros((2, 2)), np.ones((2, 2)), 0.01)  # log(0), 0/0 -> NaN pattern
    both("ac2mp", np.eye(2), np.zeros((2, 2)), 0.01)  # zero mode shape -> NaN pattern
    both("SSI_fast", np.zeros((6, 6)), 2, 3)  # singular R
    both("SSI", np.zeros((6, 6)), 2, 3)
    both("SSI_fast", H, 2.0, 4)  # float br
    both("SSI", H, 2.0, 4)


def setup_level_cases(rng):
    """Same comparison through SingleSetup / SSIcov / SSIdat (property's observe_at)."""
    import pyoma2.algorithms.ssi as alg_mod
    from pyoma2.algorithms import SSIcov, SSIdat
    from pyoma2.setup import SingleSetup

    assert alg_mod.ssi is new

    def run_once(ssi_module, cls, data, fs, kwargs, fn_sel, order):
        alg_mod.ssi = ssi_module
        try:
            ss = SingleSetup(data.copy(), fs=fs)
            alg = cls(name="alg", **kwargs)
            ss.add_algorithms(alg)
            ss.run_by_name("alg")
            # the default hard criteria (MPC/MPD limits) may mask every pole of a
            # system with strongly complex mode shapes; SSI_mpe (untouched) then raises
            mpe_out = call(ss.mpe, "alg", sel_freq=list(fn_sel), order=order)
            r = alg.result
            return [
                mpe_out[0], None if mpe_out[0] == "ok" else mpe_out[1].__name__,
                r.Obs, r.A, r.C, r.H, r.Lambds, r.Fn_poles, r.Xi_poles, r.Phi_poles,
                r.Lab, r.Fn, r.Xi, r.Phi, r.order_out,
            ]  # fmt: skip
        finally:
            alg_mod.ssi = new

    for k in range(8):
        fs = 100.0
        m = int(rng.integers(1, 5))
        n_ch = int(rng.integers(2, 7))
        fn, _, lam_c, phi = random_system(rng, m, n_ch, k % 4 == 3, fs)
        data = free_response(rng, lam_c, phi, fs, 800).T  # (n_dat, n_ch)
        refs = ref_subset(rng, n_ch)
        br = int(np.ceil(2 * m / refs.size)) + 2
        ordmax = min(2 * m + 2, br * n_ch, (br + 1) * refs.size)
        kwargs = dict(br=br, ordmax=ordmax, ref_ind=[int(i) for i in refs])
        for cls in (SSIcov, SSIdat):
            out_new = run_once(new, cls, data, fs, kwargs, fn, 2 * m)
            out_old = run_once(orig, cls, data, fs, kwargs, fn, 2 * m)
            same(out_new, out_old, f"SingleSetup/{cls.__name__}")
            N_MPE_OK.append(out_new[0] == "ok")


def main():
    for seed in range(40):
        rng = np.random.default_rng(1000 + seed)
        pipeline_case(rng, f"pipeline seed {seed}")
    for seed in range(30):
        exact_hankel_case(np.random.default_rng(2000 + seed))
    for seed in range(40):
        ac2mp_case(np.random.default_rng(3000 + seed))
    for seed in range(4):
        unc_case(np.random.default_rng(4000 + seed))
    exception_cases(np.random.default_rng(5000))
    setup_level_cases(np.random.default_rng(6000))
    print(f"SingleSetup runs with successful mpe: {sum(N_MPE_OK)}/{len(N_MPE_OK)}")
    print(f"compared {N_COMPARED} arrays/values bit-for-bit (NaN pattern included)")
    for name, exc, m_new, m_old in MSG_DIFFS:
        print(f"note: {name} raises {exc} in both versions, message text differs")
    print("PASS")


if __name__ == "__main__":
    try:
        main()
    except AssertionError as exc:
        print("FAIL:", exc)
        sys.exit(1)
