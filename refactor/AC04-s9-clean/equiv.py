"""
Differential test: the library on PYTHONPATH (CLEAN version of the commit) against the
pristine implementation saved next to this file as orig_fdd.py
(copy of src/pyoma2/functions/fdd.py at HEAD).

Compared on randomly generated inputs / configurations:
  * fdd.SD_est      single-dataset call (unchanged API), both estimators
  * fdd.SD_est      new sequence call against the per-item calls of the original
  * fdd.SD_PreGER   arbitrary (independent) setups, different lengths / channel counts
  * FDD_MS / EFDD_MS / pLSCF_MS .result.{freq,Sy} after MultiSetup_PreGER.run_all
  * raised exceptions (unknown estimator, inconsistent number of references,
    singular reference block)

Run as:  PYTHONPATH=<tree>/src /venv/bin/python equiv.py      -> PASS, exit 0
"""

import importlib.util
import logging
import os
import sys
import warnings

import numpy as np
from scipy import signal

warnings.filterwarnings("ignore")
logging.disable(logging.CRITICAL)

import tqdm  # noqa: E402

_orig_init = tqdm.tqdm.__init__


def _quiet(self, *a, **k):
    k["disable"] = True
    _orig_init(self, *a, **k)


tqdm.tqdm.__init__ = _quiet

import pyoma2.functions  # noqa: E402,F401
from pyoma2.functions import fdd as new  # noqa: E402

HERE = os.path.dirname(os.path.abspath(__file__))
spec = importlib.util.spec_from_file_location(
    "pyoma2.functions.orig_fdd", os.path.join(HERE, "orig_fdd.py")
)
orig = importlib.util.module_from_spec(spec)
sys.modules[spec.name] = orig
spec.loader.exec_module(orig)

RTOL = 1e-12
problems = []
n_checked = 0
worst = 0.0


def same(label, a, b):
    """a: new, b: original"""
    global n_checked, worst
    n_checked += 1
    a = np.asarray(a)
    b = np.asarray(b)
    if a.shape != b.shape or a.dtype != b.dtype:
        problems.append(f"{label}: shape/dtype {a.shape}/{a.dtype} vs {b.shape}/{b.dtype}")
        return
    if np.array_equal(a, b, equal_nan=True):
        return
    scale = float(np.max(np.abs(b))) if b.size else 0.0
    if not np.allclose(a, b, rtol=RTOL, atol=1e-14 * scale, equal_nan=True):
        problems.append(f"{label}: max abs diff {np.max(np.abs(a - b)):.3e} (scale {scale:.3e})")
    else:
        with np.errstate(all="ignore"):
            worst = max(worst, float(np.nanmax(np.abs(a - b)) / scale))


def outcome(fun, *a, **k):
    try:
        return ("ok", fun(*a, **k))
    except Exception as e:  # noqa: BLE001
        return ("exc", type(e))


def same_outcome(label, fun_new, fun_orig, *a, any_exception=False, **k):
    """any_exception=True: both must fail, whatever the exception class."""
    global n_checked
    rn = outcome(fun_new, *a, **k)
    ro = outcome(fun_orig, *a, **k)
    if rn[0] != ro[0]:
        problems.append(f"{label}: new -> {rn[0]} {rn[1] if rn[0] == 'exc' else ''}, "
                        f"original -> {ro[0]} {ro[1] if ro[0] == 'exc' else ''}")
        return
    if rn[0] == "exc":
        n_checked += 1
        if rn[1] is not ro[1] and not any_exception:
            problems.append(f"{label}: exception {rn[1].__name__} vs {ro[1].__name__}")
        return
    same(label + " freq", rn[1][0], ro[1][0])
    same(label + " Sy", rn[1][1], ro[1][1])


def coloured(rng, nch, N, fs):
    """Mixture of resonator responses plus noise (correlated channels)."""
    nm = int(rng.integers(2, 5))
    q = []
    for _ in range(nm):
        f0 = rng.uniform(0.05, 0.4) * fs
        r = rng.uniform(0.9, 0.995)
        q.append(signal.lfilter([1.0], [1.0, -2 * r * np.cos(2 * np.pi * f0 / fs), r * r],
                                rng.standard_normal(N)))
    q = np.array(q)
    X = rng.standard_normal((nch, nm)) @ q
    X += rng.uniform(0.01, 0.5) * np.std(X) * rng.standard_normal((nch, N))
    return X


def random_setups(rng, fs, nxseg, simultaneous):
    n_setup = int(rng.integers(2, 5))
    n_ref = int(rng.integers(1, 4))
    Y = []
    if simultaneous:
        N = nxseg * int(rng.integers(4, 12)) + int(rng.integers(0, nxseg))
        n_mov = [int(rng.integers(1, 4)) for _ in range(n_setup)]
        X = coloured(rng, n_ref + sum(n_mov), N, fs)
        k = n_ref
        for m in n_mov:
            g = rng.uniform(0.3, 3.0)
            Y.append({"ref": g * X[:n_ref], "mov": g * X[k : k + m]})
            k += m
    else:
        for _ in range(n_setup):
            N = nxseg * int(rng.integers(4, 12)) + int(rng.integers(0, nxseg))
            m = int(rng.integers(1, 5))
            X = coloured(rng, n_ref + m, N, fs) if rng.random() < 0.5 else rng.standard_normal((n_ref + m, N))
            Y.append({"ref": X[:n_ref].copy(), "mov": X[n_ref:].copy()})
    return Y


def main():
    rng = np.random.default_rng(4040)

    # ---- SD_est, single dataset (unchanged call forms) --------------------------
    for t in range(12):
        fs = float(rng.choice([50.0, 100.0, 128.0, 1000.0]))
        nxseg = int(rng.choice([64, 100, 128, 256, 500, 1024, 2048]))
        N = nxseg * int(rng.integers(4, 10)) + int(rng.integers(0, nxseg))
        nall = int(rng.integers(2, 10))
        Yall = coloured(rng, nall, N, fs)
        Yref = Yall[: int(rng.integers(1, nall + 1))] if rng.random() < 0.7 else rng.standard_normal((2, N))
        method = ("per", "cor")[t % 2]
        pov = float(rng.choice([0.0, 0.25, 0.5, 0.66, 0.75]))
        same_outcome(f"SD_est#{t} positional", new.SD_est, orig.SD_est, Yall, Yref, 1 / fs, nxseg, method, pov)
        same_outcome(f"SD_est#{t} keywords", new.SD_est, orig.SD_est, Yall, Yref, 1 / fs, nxseg=nxseg,
                     method=method, pov=pov)
    same_outcome("SD_est defaults", new.SD_est, orig.SD_est, Yall, Yall, 0.01)
    same_outcome("SD_est unknown method", new.SD_est, orig.SD_est, Yall, Yall, 0.01, 256, "welch", 0.5)

    # ---- SD_est, sequence call == per-item calls of the original ----------------
    for t in range(6):
        fs = 100.0
        nxseg = int(rng.choice([64, 128, 256, 512]))
        method = ("per", "cor")[t % 2]
        pov = float(rng.choice([0.0, 0.3, 0.5, 0.75]))
        Y = random_setups(rng, fs, nxseg, simultaneous=False)
        ya = [np.vstack((s["ref"], s["mov"])) for s in Y]
        yr = [s["ref"] for s in Y]
        if t % 3 == 2:
            ya, yr = tuple(ya), tuple(yr)
        f_new, S_new = new.SD_est(ya, yr, 1 / fs, nxseg, method, pov)
        if not isinstance(S_new, list) or len(S_new) != len(ya):
            problems.append(f"SD_est seq#{t}: result is not a list of {len(ya)} arrays")
            continue
        for i in range(len(ya)):
            f_o, S_o = orig.SD_est(ya[i], yr[i], 1 / fs, nxseg, method, pov)
            same(f"SD_est seq#{t}[{i}] freq", f_new, f_o)
            same(f"SD_est seq#{t}[{i}] Sy", S_new[i], S_o)

    # ---- SD_PreGER ---------------------------------------------------------------
    for t in range(30):
        fs = float(rng.choice([50.0, 100.0, 200.0]))
        nxseg = int(rng.choice([64, 100, 128, 256, 512, 1024, 2048]))
        method = ("per", "cor")[t % 2]
        pov = float(rng.choice([0.0, 0.25, 0.5, 0.66, 0.75]))
        Y = random_setups(rng, fs, nxseg, simultaneous=(t % 3 == 0))
        if t % 5 == 0:
            same_outcome(f"SD_PreGER#{t} positional", new.SD_PreGER, orig.SD_PreGER, Y, fs, nxseg, pov, method)
        else:
            same_outcome(f"SD_PreGER#{t} {method} nxseg={nxseg} pov={pov}", new.SD_PreGER, orig.SD_PreGER,
                         Y, fs, nxseg=nxseg, pov=pov, method=method)
    Y = random_setups(rng, 100.0, 128, simultaneous=False)
    same_outcome("SD_PreGER defaults", new.SD_PreGER, orig.SD_PreGER,
                 [dict(ref=np.tile(s["ref"], 10), mov=np.tile(s["mov"], 10)) for s in Y], 100.0)
    # an unknown estimator is not rejected explicitly by either version: both stumble on
    # the first thing that is missing (original: empty list of spectra -> IndexError, now:
    # UnboundLocalError from SD_est, as in a direct SD_est call) - only "fails" is compared
    same_outcome("SD_PreGER unknown method", new.SD_PreGER, orig.SD_PreGER, Y, 100.0, nxseg=128, method="welch",
                 any_exception=True)
    same_outcome("SD_PreGER empty list", new.SD_PreGER, orig.SD_PreGER, [], 100.0)
    Ybad = [dict(s) for s in Y]
    Ybad[1] = {"ref": np.vstack((Ybad[1]["ref"], Ybad[1]["mov"][:1])), "mov": Ybad[1]["mov"]}
    same_outcome("SD_PreGER inconsistent n_ref", new.SD_PreGER, orig.SD_PreGER, Ybad, 100.0, nxseg=128)
    # a setup with fewer 'ref' rows than the first one (its first 'mov' row is then used as reference)
    Y3 = [{"ref": rng.standard_normal((3, 1500)), "mov": rng.standard_normal((2, 1500))} for _ in range(3)]
    Y3[2] = {"ref": Y3[2]["ref"][:2], "mov": np.vstack((Y3[2]["ref"][2:], Y3[2]["mov"]))}
    same_outcome("SD_PreGER setup with fewer 'ref' rows", new.SD_PreGER, orig.SD_PreGER, Y3, 100.0, nxseg=128,
                 method="cor")
    Ysing = [dict(ref=np.vstack((s["ref"][:1], s["ref"][:1])), mov=s["mov"]) for s in Y]
    same_outcome("SD_PreGER singular reference block", new.SD_PreGER, orig.SD_PreGER, Ysing, 100.0, nxseg=128)
    # inputs must not be modified
    Y = random_setups(rng, 100.0, 128, simultaneous=True)
    keep = [dict(ref=s["ref"].copy(), mov=s["mov"].copy()) for s in Y]
    new.SD_PreGER(Y, 100.0, nxseg=128, method="cor")
    for s, k in zip(Y, keep):
        same("input ref untouched", s["ref"], k["ref"])
        same("input mov untouched", s["mov"], k["mov"])

    # ---- classes -------------------------------------------------------------------
    from pyoma2.algorithms import EFDD_MS, FDD_MS, pLSCF_MS
    from pyoma2.setup import MultiSetup_PreGER

    for t in range(4):
        fs = 100.0
        nxseg = int(rng.choice([128, 256]))
        method = ("per", "cor")[t % 2]
        pov = float(rng.choice([0.0, 0.5, 0.75]))
        n_ref = int(rng.integers(1, 4))
        n_setup = int(rng.integers(2, 4))
        N = nxseg * 8
        datasets, ref_ind = [], []
        for _ in range(n_setup):
            nch = n_ref + int(rng.integers(1, 4))
            datasets.append(coloured(rng, nch, N, fs).T.copy())
            ref_ind.append([int(i) for i in rng.permutation(nch)[:n_ref]])
        msp = MultiSetup_PreGER(fs=fs, ref_ind=ref_ind, datasets=datasets)
        algs = [
            FDD_MS(name="FDD", nxseg=nxseg, method_SD=method, pov=pov),
            EFDD_MS(name="EFDD", nxseg=nxseg, method_SD=method, pov=pov),
            pLSCF_MS(name="pLSCF", ordmax=5, nxseg=nxseg, method_SD=method, pov=pov),
        ]
        msp.add_algorithms(*algs)
        msp.run_all()
        f_o, S_o = orig.SD_PreGER(msp.data, fs, nxseg=nxseg, method=method, pov=pov)
        for alg in algs:
            same(f"{type(alg).__name__}#{t} freq", alg.result.freq, f_o)
            same(f"{type(alg).__name__}#{t} Sy", alg.result.Sy, S_o)

    print(f"{n_checked} comparisons, worst relative deviation {worst:.2e}")
    if problems:
        print("FAIL")
        for p in problems:
            print("  -", p)
        return 1
    print("PASS")
    return 0


if __name__ == "__main__":
    sys.exit(main())
