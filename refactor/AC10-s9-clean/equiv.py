# -*- coding: utf-8 -*-
"""
Differential test: CLEAN version of the commit versus the unmodified library.

Run as:  PYTHONPATH=<tree>/src /venv/bin/python equiv.py   (with the CLEAN version applied)

The pristine implementations are loaded from the copies saved next to this
script (orig_gen.py, orig_plscf.py).  Compared:
  * gen.SC_apply (positional form) on random pole tables / ordmin / ordmax /
    step / tolerances, including the calls that raise;
  * gen.SC_apply(..., ordmin + 1, ordmax, 1, ..., first_order=1) - the new form
    used by the pLSCF classes - versus the old form (ordmin, ordmax - 1, 1);
  * gen.order_to_col versus the old in-line conversion int(order / step);
  * pLSCF.run() and pLSCF_MS.run(): every field of the result.
"""
import importlib.util
import logging
import os
import sys
import warnings

import numpy as np

os.environ.setdefault("TQDM_DISABLE", "1")
warnings.filterwarnings("ignore")
logging.disable(logging.CRITICAL)

HERE = os.path.dirname(os.path.abspath(__file__))

from pyoma2.algorithms import plscf as new_plscf  # noqa: E402
from pyoma2.functions import gen as new_gen  # noqa: E402


def load(name, fname):
    spec = importlib.util.spec_from_file_location(name, os.path.join(HERE, fname))
    mod = importlib.util.module_from_spec(spec)
    sys.modules[name] = mod
    spec.loader.exec_module(mod)
    return mod


orig_gen = load("pyoma2.functions._orig_gen", "orig_gen.py")
orig_plscf = load("pyoma2.algorithms._orig_plscf", "orig_plscf.py")
orig_plscf.gen = orig_gen  # the pristine classes use the pristine helpers

failures = []


def call(fun, *a, **k):
    try:
        return ("ok", fun(*a, **k))
    except Exception as e:  # noqa: BLE001
        return ("exc", type(e))


def same(a, b):
    if a is None or b is None:
        return a is None and b is None
    if isinstance(a, (list, tuple)) or isinstance(b, (list, tuple)):
        return (
            isinstance(a, (list, tuple))
            and isinstance(b, (list, tuple))
            and len(a) == len(b)
            and all(same(x, y) for x, y in zip(a, b))
        )
    a, b = np.asarray(a), np.asarray(b)
    if a.shape != b.shape or a.dtype != b.dtype:
        return False
    if a.dtype.kind in "iub":
        return np.array_equal(a, b)
    return np.allclose(a, b, rtol=1e-12, atol=0, equal_nan=True)


def make_table(rng, n_poles, n_cols, n_ch, nan_frac, cplx):
    n_modes = int(rng.integers(1, 5))
    f0 = np.sort(rng.uniform(1.0, 20.0, n_modes))
    x0 = rng.uniform(0.005, 0.05, n_modes)
    p0 = rng.standard_normal((n_modes, n_ch)) + 1j * 0.3 * rng.standard_normal(
        (n_modes, n_ch)
    )
    Fn = rng.uniform(0.5, 25.0, (n_poles, n_cols))
    Xi = rng.uniform(0.001, 0.09, (n_poles, n_cols))
    Phi = rng.standard_normal((n_poles, n_cols, n_ch)) + 1j * rng.standard_normal(
        (n_poles, n_cols, n_ch)
    )
    for c in range(n_cols):
        rows = rng.permutation(n_poles)[:n_modes]
        for k, r in enumerate(rows):
            if rng.random() < 0.85:
                Fn[r, c] = f0[k] * (1 + rng.normal(0, 3e-3))
                Xi[r, c] = x0[k] * (1 + rng.normal(0, 2e-2))
                Phi[r, c, :] = p0[k] + 0.05 * rng.standard_normal(n_ch)
    if rng.random() < 0.3:
        # exact duplicates
        c = int(rng.integers(0, n_cols))
        Fn[0, c] = Fn[min(1, n_poles - 1), c]
    if not cplx:
        Phi = Phi.real.copy()
    mask = rng.random((n_poles, n_cols)) < nan_frac
    if rng.random() < 0.3:
        mask[:, int(rng.integers(0, n_cols))] = True
    # NaN patterns of the three tables need not coincide
    Fn[mask] = np.nan
    if rng.random() < 0.8:
        Xi[mask] = np.nan
        Phi[mask, :] = np.nan
    return Fn, Xi, Phi


def test_sc_apply(n_cases=300):
    rng = np.random.default_rng(7)
    n_exc = 0
    for case in range(n_cases):
        n_cols = int(rng.integers(1, 30))
        n_poles = int(rng.integers(1, 12))
        n_ch = int(rng.integers(1, 6))
        Fn, Xi, Phi = make_table(
            rng, n_poles, n_cols, n_ch, float(rng.choice([0.0, 0.2, 0.6])),
            bool(case % 2),
        )
        step = int(rng.choice([1, 1, 1, 2, 3, 5]))
        top = (n_cols - 1) * step
        ordmax = int(rng.integers(0, top + 1)) if rng.random() < 0.9 else top + int(
            rng.integers(1, 3 * step + 1)
        )
        ordmin = int(rng.integers(0, ordmax + 1)) if rng.random() < 0.9 else ordmax + 2
        if case % 3 == 0:
            ordmin = 0
        if case % 50 == 49:
            step = 0  # range() raises
        tol = tuple(float(t) for t in rng.choice([0.0, 0.01, 0.05, 0.3, 2.0], 3))
        args = (Fn, Xi, Phi, ordmin, ordmax, step) + tol
        Fc, Xc, Pc = Fn.copy(), Xi.copy(), Phi.copy()
        r_old = call(orig_gen.SC_apply, *args)
        r_new = call(new_gen.SC_apply, *args)
        tag = f"SC_apply case {case} (shape={Fn.shape}, ordmin={ordmin}, ordmax={ordmax}, step={step})"
        if r_old[0] != r_new[0]:
            failures.append(f"{tag}: {r_old[0]} vs {r_new[0]} ({r_old[1]}, {r_new[1]})")
        elif r_old[0] == "exc":
            n_exc += 1
            if r_old[1] is not r_new[1]:
                failures.append(f"{tag}: raised {r_old[1]} vs {r_new[1]}")
        elif not same(r_old[1], r_new[1]):
            failures.append(f"{tag}: labels differ in {np.argwhere(r_old[1] != r_new[1])[:3]}")
        if not (same(Fc, Fn) and same(Xc, Xi) and same(Pc, Phi)):
            failures.append(f"{tag}: inputs modified")

        # the form used by the pLSCF classes: columns = orders 1..ordmax
        if step == 1 and n_cols >= 1:
            om, o0 = n_cols, int(rng.integers(0, n_cols + 1))
            r_old = call(orig_gen.SC_apply, Fn, Xi, Phi, o0, om - 1, 1, *tol)
            r_new = call(new_gen.SC_apply, Fn, Xi, Phi, o0 + 1, om, 1, *tol, first_order=1)
            if r_old[0] != r_new[0] or (
                r_old[0] == "ok" and not same(r_old[1], r_new[1])
            ) or (r_old[0] == "exc" and r_old[1] is not r_new[1]):
                failures.append(f"{tag}: pLSCF form differs (ordmin={o0}, ordmax={om})")
    return n_cases, n_exc


def test_order_to_col():
    n = 0
    for step in (1, 2, 3, 7):
        for order in range(0, 60):
            n += 1
            if int(new_gen.order_to_col(order, step)) != int(order / step):
                failures.append(f"order_to_col({order}, {step})")
        orders = np.arange(0, 60)
        if not np.array_equal(
            new_gen.order_to_col(orders, step), np.array([int(o / step) for o in orders])
        ):
            failures.append(f"order_to_col(array, {step})")
    for order in range(1, 40):
        if int(new_gen.order_to_col(order, first_order=1)) != order - 1:
            failures.append(f"order_to_col({order}, first_order=1)")
    return n


def simulate(rng, n, n_ch, fs):
    from scipy import signal

    n_modes = 3
    fn = np.sort(rng.uniform(1.0, 0.4 * fs, n_modes))
    xi = rng.uniform(0.005, 0.03, n_modes)
    shapes = rng.standard_normal((n_modes, n_ch))
    y = np.zeros((n, n_ch))
    for k in range(n_modes):
        wn = 2 * np.pi * fn[k]
        sysd = signal.cont2discrete(([1.0], [1.0, 2 * xi[k] * wn, wn**2]), 1 / fs)
        q = signal.lfilter(sysd[0].ravel(), sysd[1], rng.standard_normal(n))
        y += np.outer(q / q.std(), shapes[k])
    return y + 0.02 * rng.standard_normal(y.shape)


STATS = {"ok_runs": 0, "stable": 0}
RESULT_FIELDS = ("freq", "Sy", "Ad", "Bn", "Fn_poles", "Xi_poles", "Phi_poles", "Lab")


def compare_results(tag, r_old, r_new):
    if r_old[0] != r_new[0]:
        failures.append(f"{tag}: {r_old} vs {r_new}")
        return
    if r_old[0] == "exc":
        if r_old[1] is not r_new[1]:
            failures.append(f"{tag}: raised {r_old[1]} vs {r_new[1]}")
        return
    STATS["ok_runs"] += 1
    STATS["stable"] += int(np.sum(r_old[1].Lab == 1))
    for f in RESULT_FIELDS:
        if not same(getattr(r_old[1], f), getattr(r_new[1], f)):
            failures.append(f"{tag}: result.{f} differs")


def test_classes():
    rng = np.random.default_rng(11)
    fs = 40.0
    n_runs = 0
    for case in range(12):
        ordmax = int(rng.integers(3, 13))
        ordmin = 0 if case % 3 == 0 else int(rng.integers(0, ordmax + 1))
        method = "per" if case % 4 else "cor"
        sc = dict(
            err_fn=float(rng.choice([0.01, 0.05])),
            err_xi=float(rng.choice([0.05, 0.3])),
            err_phi=float(rng.choice([0.03, 0.1])),
        )
        kw = dict(ordmin=ordmin, ordmax=ordmax, nxseg=256, method_SD=method, sc=sc)

        # single setup
        y = simulate(rng, 4000, int(rng.integers(2, 5)), fs)
        res = []
        for mod in (orig_plscf, new_plscf):
            alg = mod.pLSCF(name="a", **kw)
            alg._set_data(y, fs)
            res.append(call(alg.run))
        compare_results(f"pLSCF.run case {case} ({kw})", *res)
        n_runs += 1

        # multi setup (PreGER): 2 reference + 1..2 roving channels per setup
        datalist = [simulate(rng, 4000, 4, fs) for _ in range(2)]
        Y = new_gen.pre_multisetup(datalist, [[0, 1], [0, 1]])
        res = []
        for mod in (orig_plscf, new_plscf):
            alg = mod.pLSCF_MS(name="b", **kw)
            alg._set_data(Y, fs)
            res.append(call(alg.run))
        compare_results(f"pLSCF_MS.run case {case} ({kw})", *res)
        n_runs += 1
    return n_runs


def main():
    n1, n_exc = test_sc_apply()
    n2 = test_order_to_col()
    n3 = test_classes()
    print(
        f"SC_apply: {n1} random calls ({n_exc} raising in both versions); "
        f"order_to_col: {n2} values; class runs: {n3} "
        f"({STATS['ok_runs']} completed, {STATS['stable']} stable poles in total)"
    )
    if failures:
        print("FAIL")
        for f in failures[:15]:
            print("  " + f)
        return 1
    print("PASS")
    return 0


if __name__ == "__main__":
    sys.exit(main())
