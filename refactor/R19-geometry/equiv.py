"""
Equivalence check for the C19 refactoring (geometry tables validation / mapping).

Runs the refactored functions of pyoma2.functions.gen and the ORIGINAL ones
(pristine copy of HEAD in _refactor/orig_gen.py) on random valid and corrupted
table sets and asserts identical results / identical exceptions, including the
in-place side effects on the `file_dict` argument.

Run:  PYTHONPATH=/tmp/wt/R19/src /venv/bin/python /tmp/wt/R19/_refactor/equiv.py
"""
import copy
import importlib.util
import os
import sys
import types
import warnings

import matplotlib

matplotlib.use("Agg")
import matplotlib.pyplot as plt  # noqa: E402
import numpy as np  # noqa: E402
import pandas as pd  # noqa: E402

HERE = os.path.dirname(os.path.abspath(__file__))

import pyoma2.functions.gen as new  # noqa: E402

assert os.path.abspath(new.__file__).startswith("/tmp/wt/R19/src"), new.__file__

spec = importlib.util.spec_from_file_location(
    "orig_gen", os.path.join(HERE, "orig_gen.py")
)
orig = importlib.util.module_from_spec(spec)
spec.loader.exec_module(orig)

warnings.simplefilter("ignore")
COUNTS = {"ok": 0, "exc": 0}
EXC_KINDS = set()


# ----------------------------------------------------------------------------
# strict comparison
def same(a, b, path="res"):
    assert type(a) is type(b), f"{path}: type {type(a)} != {type(b)}"
    if a is None:
        return
    if isinstance(a, pd.DataFrame):
        assert list(a.columns) == list(b.columns) or (
            len(a.columns) == len(b.columns) == 0
        ), f"{path}: columns"
        pd.testing.assert_frame_equal(
            a, b, check_exact=True, check_dtype=True, check_index_type=True,
            check_column_type=True, obj=path,
        )
        return
    if isinstance(a, pd.Series):
        pd.testing.assert_series_equal(a, b, check_exact=True, obj=path)
        return
    if isinstance(a, np.ndarray):
        assert a.dtype == b.dtype, f"{path}: dtype {a.dtype} != {b.dtype}"
        assert a.shape == b.shape, f"{path}: shape {a.shape} != {b.shape}"
        if a.dtype == object:
            for x, y in zip(a.ravel(), b.ravel()):
                same_scalar(x, y, path)
        elif a.dtype.kind in "fc":
            assert np.array_equal(a, b, equal_nan=True), f"{path}: values differ"
            assert a.tobytes() == b.tobytes() or np.isnan(a).any(), f"{path}: bits"
        else:
            assert np.array_equal(a, b), f"{path}: values differ"
        return
    if isinstance(a, (list, tuple)):
        assert len(a) == len(b), f"{path}: len {len(a)} != {len(b)}"
        for i, (x, y) in enumerate(zip(a, b)):
            same(x, y, f"{path}[{i}]")
        return
    if isinstance(a, dict):
        assert list(a.keys()) == list(b.keys()), f"{path}: keys {list(a)} != {list(b)}"
        for k in a:
            same(a[k], b[k], f"{path}[{k!r}]")
        return
    same_scalar(a, b, path)


def same_scalar(x, y, path):
    assert type(x) is type(y), f"{path}: scalar type {type(x)} != {type(y)}"
    if isinstance(x, float) and x != x:
        assert y != y, path
    else:
        assert x == y, f"{path}: {x!r} != {y!r}"


def run_both(name, *args, **kwargs):
    """Call orig.<name> and new.<name> on independent deep copies of the
    arguments; compare result or exception AND the (mutated) arguments."""
    out = []
    for mod in (orig, new):
        a = copy.deepcopy(args)
        k = copy.deepcopy(kwargs)
        try:
            r = ("ok", getattr(mod, name)(*a, **k))
        except Exception as e:  # noqa: BLE001
            r = ("exc", (type(e), str(e)))
        out.append((r, a, k))
    (r0, a0, k0), (r1, a1, k1) = out
    assert r0[0] == r1[0], f"{name}: {r0} vs {r1}"
    if r0[0] == "exc":
        assert r0[1] == r1[1], f"{name}: exceptions differ\n{r0[1]}\n{r1[1]}"
        COUNTS["exc"] += 1
        EXC_KINDS.add((name, r0[1][0].__name__, r0[1][1][:45]))
    else:
        same(r0[1], r1[1], f"{name}.result")
        COUNTS["ok"] += 1
    # side effects on the inputs (file_dict is modified in place)
    same(list(a0), list(a1), f"{name}.args_after")
    same(k0, k1, f"{name}.kwargs_after")
    return r1


# ----------------------------------------------------------------------------
# random generators
def rand_names(rng, n):
    pool = [f"ch{i}" for i in range(1, 40)] + [f"S{i}{d}" for i in range(1, 9) for d in "xyz"]
    return [str(x) for x in rng.choice(pool, size=n, replace=False)]


def name_forms(rng, n_tot):
    """Return (sens_names argument, ref_ind, flat expected order)."""
    kind = rng.choice(["row_df", "list", "array", "multi_df", "multi_list"])
    if kind in ("row_df", "list", "array") or n_tot < 3:
        names = rand_names(rng, n_tot)
        if kind == "row_df":
            arg = pd.DataFrame([names], index=["setup1"], columns=range(1, n_tot + 1))
        elif kind == "array":
            arg = np.array(names)
        else:
            arg = list(names)
        ref = None if rng.random() < 0.7 else [[0]]
        return arg, ref, names
    # multi setup: k references, then roving sensors per setup
    n_set = int(rng.integers(2, 5))
    k = int(rng.integers(1, 3))
    pool = rand_names(rng, n_tot + n_set * k + 4)
    setups, ref_ind, flat = [], [], [f"REF{i+1}" for i in range(k)]
    left = max(n_tot - k, n_set)
    sizes = [1] * n_set
    for _ in range(left - n_set):
        sizes[int(rng.integers(n_set))] += 1
    it = iter(pool)
    for s in range(n_set):
        m = sizes[s] + k
        refpos = sorted(int(x) for x in rng.choice(m, size=k, replace=False))
        row = []
        for j in range(m):
            nm = next(it)
            row.append(nm)
            if j not in refpos:
                flat.append(nm)
        setups.append(row)
        ref_ind.append(refpos)
    if rng.random() < 0.3:
        ref_ind = np.array(ref_ind)  # array form of the reference layout
    if kind == "multi_df":
        width = max(len(r) for r in setups)
        if len({len(r) for r in setups}) == 1 and rng.random() < 0.5:
            width += 1  # force NaN padding
        rows = [r + [np.nan] * (width - len(r)) for r in setups]
        arg = pd.DataFrame(rows, index=[f"setup{i+1}" for i in range(n_set)])
    else:
        arg = setups
    return arg, ref_ind, flat


def opt_table(rng, ncols, kind, nmax):
    """optional sheet: absent (None returned), empty DataFrame or filled table"""
    u = rng.random()
    if u < 0.3:
        return None
    if u < 0.45:
        return pd.DataFrame()
    nr = int(rng.integers(1, 6)) if kind == "int" else 5  # BG lines/surfaces index 5 nodes
    if kind == "int":
        data = rng.integers(1, nmax + 1, size=(nr, ncols))
    else:
        data = rng.normal(size=(nr, ncols)) * 5
    return pd.DataFrame(data, index=range(1, nr + 1), columns=list("abc")[:ncols])


def make_geo1(rng):
    n = int(rng.integers(1, 13))
    arg, ref, flat = name_forms(rng, n)
    extra = rand_names(np.random.default_rng(int(rng.integers(1 << 30))), 2)
    extra = [f"x_{e}" for e in extra][: int(rng.integers(0, 3))]
    idx = list(flat) + extra
    perm = rng.permutation(len(idx))
    idx_p = [idx[i] for i in perm]
    coords = pd.DataFrame(
        rng.normal(size=(len(idx), 3)) * 10, index=idx_p, columns=["x", "y", "z"]
    )
    dirs = pd.DataFrame(
        rng.integers(-1, 2, size=(len(idx), 3)), index=idx_p, columns=["x", "y", "z"]
    )
    if rng.random() < 0.3:
        dirs = dirs.astype(float)
    fd = {}
    if rng.random() < 0.3:
        fd["INFO"] = pd.DataFrame({"a": ["some text"]})
    fd["sensors names"] = arg
    fd["sensors coordinates"] = coords
    fd["sensors directions"] = dirs
    for key, nc, kind, nmax in [
        ("sensors lines", 2, "int", len(flat)),
        ("BG nodes", 3, "float", 0),
        ("BG lines", 2, "int", 5),
        ("BG surfaces", 3, "int", 5),
    ]:
        t = opt_table(rng, nc, kind, nmax)
        if t is not None:
            fd[key] = t
    if rng.random() < 0.3:  # other sheet order
        keys = list(fd)
        fd = {k: fd[k] for k in [keys[i] for i in rng.permutation(len(keys))]}
    return fd, ref, flat


def make_geo2(rng):
    n = int(rng.integers(1, 13))
    arg, ref, flat = name_forms(rng, n)
    n = len(flat)
    n_c = int(rng.integers(0, 4))
    cnames = [f"C{i+1}" for i in range(n_c)]
    ncell_min = n + n_c
    npts = int(np.ceil(ncell_min / 3)) + int(rng.integers(0, 4))
    fillers = [0, 0.0, np.nan, 0]
    cells = list(flat) + cnames
    # a name may be used in several cells
    while len(cells) < 3 * npts:
        u = rng.random()
        if u < 0.25:
            cells.append(str(rng.choice(flat)))
        elif u < 0.35 and cnames:
            cells.append(str(rng.choice(cnames)))
        else:
            cells.append(fillers[int(rng.integers(len(fillers)))])
    order = rng.permutation(len(cells))
    cells = [cells[i] for i in order]
    mapping = pd.DataFrame(
        np.array(cells, dtype=object).reshape(npts, 3),
        index=range(1, npts + 1),
        columns=["x", "y", "z"],
    )
    pts = pd.DataFrame(
        rng.normal(size=(npts, 3)) * 10, index=range(1, npts + 1), columns=["x", "y", "z"]
    )
    if rng.random() < 0.2:
        pts = pts.round().astype(int)
    fd = {}
    if rng.random() < 0.3:
        fd["INFO"] = pd.DataFrame({"a": ["some text"]})
    fd["sensors names"] = arg
    fd["points coordinates"] = pts
    fd["mapping"] = mapping
    # constraints
    u = rng.random()
    if n_c > 0 or u < 0.3:
        if n_c > 0:
            ncol = int(rng.integers(1, n + 1))
            cols = [str(c) for c in rng.choice(flat, size=ncol, replace=False)]
            vals = rng.normal(size=(n_c, ncol)).round(3)
            vals[rng.random(vals.shape) < 0.3] = np.nan
            fd["constraints"] = pd.DataFrame(vals, index=cnames, columns=cols)
        else:
            fd["constraints"] = pd.DataFrame()
    # sign
    u = rng.random()
    if u < 0.5:
        sg = rng.choice([-1, 0, 1], size=(npts, 3))
        fd["sensors sign"] = pd.DataFrame(
            sg, index=range(1, npts + 1), columns=["x", "y", "z"]
        )
    elif u < 0.65:
        fd["sensors sign"] = pd.DataFrame()
    for key, nc, kind, nmax in [
        ("sensors lines", 2, "int", npts),
        ("sensors surfaces", 3, "int", npts),
        ("BG nodes", 3, "float", 0),
        ("BG lines", 2, "int", 5),
        ("BG surfaces", 3, "int", 5),
    ]:
        t = opt_table(rng, nc, kind, nmax)
        if t is not None:
            fd[key] = t
    if rng.random() < 0.3:
        keys = list(fd)
        fd = {k: fd[k] for k in [keys[i] for i in rng.permutation(len(keys))]}
    return fd, ref, flat, cnames



def as_table(nm):
    """sensor names in the table form of the Excel template (row table)."""
    if isinstance(nm, pd.DataFrame):
        return nm
    if isinstance(nm, list) and nm and isinstance(nm[0], list):
        w = max(len(r) for r in nm)
        return pd.DataFrame([r + [np.nan] * (w - len(r)) for r in nm])
    return pd.DataFrame([list(nm)])


def tabled(fd):
    """NOTE: with list / array sensor names check_on_geo1/2 raise AttributeError
    ('list' object has no attribute 'empty') in the ORIGINAL code as well (the
    final loop calls .empty on every entry). Those forms are compared as
    identical exceptions; the valid runs use the table form."""
    if isinstance(fd["sensors names"], pd.DataFrame):
        return fd
    fd = dict(fd)
    fd["sensors names"] = as_table(fd["sensors names"])
    return fd


# ----------------------------------------------------------------------------
# single-fault corruptions
def corrupt_common(rng, fd, which, coord_key, second_key):
    fd = copy.deepcopy(fd)
    if which == "drop_required":
        req = ["sensors names", coord_key, second_key]
        del fd[req[int(rng.integers(3))]]
    elif which == "unknown_sheet":
        fd["Sheet7"] = pd.DataFrame({"a": [1]})
    elif which == "coord_cols":
        df = fd[coord_key]
        fd[coord_key] = df.iloc[:, :2] if rng.random() < 0.5 else df.assign(w=1.0)
    elif which == "shape_mismatch":
        fd[second_key] = fd[second_key].iloc[:-1] if len(fd[second_key]) > 1 else pd.concat(
            [fd[second_key], fd[second_key]]
        )
    elif which == "bg_nodes_cols":
        fd["BG nodes"] = pd.DataFrame(rng.normal(size=(3, 2)))
    elif which == "bg_lines_cols":
        fd["BG lines"] = pd.DataFrame(rng.integers(1, 4, size=(3, 3)))
    elif which == "bg_surf_cols":
        fd["BG surfaces"] = pd.DataFrame(rng.integers(1, 4, size=(3, 4)))
    elif which == "names_bad_type":
        bad_forms = [
            ("a", "b"), "abc", 5, None, np.array([["a", "b"]]), ["a", 1], pd.DataFrame()
        ]
        fd["sensors names"] = bad_forms[int(rng.integers(len(bad_forms)))]
    elif which == "optional_is_none":
        fd["BG nodes"] = None
    else:
        raise KeyError(which)
    return fd


COMMON = [
    "drop_required", "unknown_sheet", "coord_cols", "shape_mismatch", "bg_nodes_cols",
    "bg_lines_cols", "bg_surf_cols", "names_bad_type", "optional_is_none",
]


def corrupt_geo1(rng, fd, flat, which):
    if which in COMMON:
        return corrupt_common(rng, fd, which, "sensors coordinates", "sensors directions")
    fd = copy.deepcopy(fd)
    if which == "index_mismatch":
        d = fd["sensors directions"]
        if len(d) > 1 and rng.random() < 0.5:
            fd["sensors directions"] = d.iloc[::-1]
        else:
            fd["sensors directions"] = d.rename(index={d.index[0]: "zzz"})
    elif which == "name_absent":
        victim = flat[int(rng.integers(len(flat)))]
        for k in ("sensors coordinates", "sensors directions"):
            fd[k] = fd[k].rename(index={victim: victim + "_typo"})
    elif which == "dirs_not_df":
        fd["sensors directions"] = fd["sensors directions"].to_numpy()
    elif which == "lines_not_df":
        fd["sensors lines"] = np.array([[1, 2]])
    else:
        raise KeyError(which)
    return fd


GEO1_FAULTS = COMMON + ["index_mismatch", "name_absent", "dirs_not_df", "lines_not_df"]


def corrupt_geo2(rng, fd, flat, cnames, which):
    if which in COMMON:
        return corrupt_common(rng, fd, which, "points coordinates", "mapping")
    fd = copy.deepcopy(fd)
    if which == "sign_shape":
        s = np.ones((len(fd["points coordinates"]) + 1, 3))
        fd["sensors sign"] = pd.DataFrame(s)
    elif which == "name_absent_in_map":
        victim = flat[int(rng.integers(len(flat)))]
        fd["mapping"] = fd["mapping"].replace({victim: 0})
    elif which == "cstr_unknown_sensor":
        c = fd.get("constraints")
        if c is None or c.empty:
            c = pd.DataFrame([[1.0]], index=["C1"], columns=[flat[0]])
            m = fd["mapping"].copy()
            fd["mapping"] = pd.concat(
                [m, pd.DataFrame([["C1", 0, 0]], index=[len(m) + 1], columns=m.columns)]
            )
            p = fd["points coordinates"]
            fd["points coordinates"] = pd.concat(
                [p, pd.DataFrame([[0, 0, 0]], index=[len(p) + 1], columns=p.columns)]
            )
            if "sensors sign" in fd and not fd["sensors sign"].empty:
                del fd["sensors sign"]
        fd["constraints"] = c.assign(ghost=1.0)
    elif which == "cstr_unused":
        c = fd.get("constraints")
        if c is None or c.empty:
            fd["constraints"] = pd.DataFrame([[1.0]], index=["CX"], columns=[flat[0]])
        else:
            extra = pd.DataFrame(
                [[1.0] * c.shape[1]], index=["C_unused"], columns=c.columns
            )
            fd["constraints"] = pd.concat([c, extra])
    elif which == "cstr_none":
        fd["constraints"] = None
    elif which == "map_not_df":
        fd["mapping"] = fd["mapping"].to_numpy()
    else:
        raise KeyError(which)
    return fd


GEO2_FAULTS = COMMON + [
    "sign_shape", "name_absent_in_map", "cstr_unknown_sensor", "cstr_unused",
    "cstr_none", "map_not_df",
]


# ----------------------------------------------------------------------------
def test_flatten(rng):
    for _ in range(200):
        arg, ref, flat = name_forms(rng, int(rng.integers(1, 13)))
        r = run_both("flatten_sns_names", arg, ref)
        assert r[0] == "ok" and r[1] == flat, (r, flat)
        run_both("flatten_sns_names", arg)  # ref_ind omitted
        run_both("flatten_sns_names", arg, ref_ind=None)
        if isinstance(ref, (list, np.ndarray)) and len(ref) > 1:
            run_both("flatten_sns_names", arg, ref[:-1])  # too short layout
            run_both("flatten_sns_names", arg, list(ref) + [[0]])  # too long
            run_both("flatten_sns_names", arg, [[] for _ in ref])  # no references
    for bad in [("a", "b"), "abc", 5, None, np.array([["a"], ["b"]]), ["a", 1], [],
                [[]], [[], ["a"]], pd.DataFrame(), pd.DataFrame(columns=["a"]),
                np.array([]), np.array(["a"]), [["a", "b"], "c"]]:
        run_both("flatten_sns_names", bad)
        run_both("flatten_sns_names", bad, [[0], [0]])
        run_both("flatten_sns_names", bad, [])


def test_geo1(rng):
    n_valid = 0
    for it in range(150):
        fd, ref, flat = make_geo1(rng)
        if not isinstance(fd["sensors names"], pd.DataFrame):
            run_both("check_on_geo1", fd, ref_ind=ref)  # list / array form
            fd = tabled(fd)
        r = run_both("check_on_geo1", fd, ref_ind=ref)
        assert r[0] == "ok", r
        n_valid += 1
        res = r[1]
        # sanity on the property itself: rows follow the sensor names order
        assert res[0] == flat
        assert list(res[1].index) == flat
        assert np.array_equal(
            res[2], fd["sensors directions"].loc[flat].to_numpy()
        )
        run_both("check_on_geo1", fd, ref)  # positional
        if ref is not None:
            run_both("check_on_geo1", fd)  # multi setup without ref_ind
        for which in GEO1_FAULTS:
            if it % 3 == GEO1_FAULTS.index(which) % 3:
                bad = corrupt_geo1(rng, fd, flat, which)
                run_both("check_on_geo1", bad, ref_ind=ref)
    return n_valid


def test_geo2_and_map(rng):
    n_valid = 0
    for it in range(150):
        fd, ref, flat, cnames = make_geo2(rng)
        if not isinstance(fd["sensors names"], pd.DataFrame):
            run_both("check_on_geo2", fd, ref_ind=ref)  # list / array form
            fd = tabled(fd)
        r = run_both("check_on_geo2", fd, ref_ind=ref)
        assert r[0] == "ok", r
        n_valid += 1
        res = r[1]
        assert res[0] == flat
        run_both("check_on_geo2", fd, ref, "zero")
        run_both("check_on_geo2", fd, ref_ind=ref, fill_na="interp")
        run_both("check_on_geo2", fd, ref_ind=ref, fill_na=None)
        if ref is not None:
            run_both("check_on_geo2", fd)
        for which in GEO2_FAULTS:
            if it % 3 == GEO2_FAULTS.index(which) % 3:
                bad = corrupt_geo2(rng, fd, flat, cnames, which)
                run_both("check_on_geo2", bad, ref_ind=ref)

        # ---- mode shape mapping on the validated geometry
        sens_map, cstr = res[2], res[3]
        for phi in (
            rng.normal(size=len(flat)),
            rng.integers(-3, 4, size=len(flat)),
            (rng.normal(size=len(flat)) * 1e-9),
            list(rng.normal(size=len(flat))),
        ):
            rr = run_both("dfphi_map_func", phi, flat, sens_map, cstrn=cstr)
            assert rr[0] == "ok", rr
            run_both("dfphi_map_func", phi, flat, sens_map, cstr)
            if cstr is None:
                run_both("dfphi_map_func", phi, flat, sens_map)
            # faithfulness sanity check of the property (on the new code)
            out = rr[1].to_numpy()
            ph = np.asarray(phi, dtype=float)
            cv = (
                np.nan_to_num(cstr.to_numpy(dtype=float)) @ ph
                if cstr is not None
                else None
            )
            for (i, j), cell in np.ndenumerate(sens_map.to_numpy()):
                if str(cell) in flat:
                    exp = ph[flat.index(str(cell))]
                elif cstr is not None and str(cell) in list(cstr.index):
                    exp = cv[list(cstr.index).index(str(cell))]
                else:
                    exp = 0.0
                assert np.isclose(out[i, j], exp, rtol=1e-12, atol=0), (cell, out[i, j], exp)
        # wrong inputs -> same exception
        run_both("dfphi_map_func", rng.normal(size=len(flat) + 1), flat, sens_map, cstrn=cstr)
        run_both("dfphi_map_func", rng.normal(size=(len(flat), 2)), flat, sens_map, cstrn=cstr)
        run_both(
            "dfphi_map_func",
            rng.normal(size=len(flat)) + 1j * rng.normal(size=len(flat)),
            flat, sens_map, cstrn=cstr,
        )
        # raw (not validated) mapping table with NaN cells
        raw_map = fd["mapping"]
        run_both("dfphi_map_func", rng.normal(size=len(flat)), flat, raw_map, cstrn=cstr)
    return n_valid


def test_end_to_end(rng):
    """def_geo1/def_geo2 + mode plots through the GeometryMixin with the
    original functions monkeypatched in, against the refactored ones."""
    import pyoma2.support.geometry.mixin as mixin
    import pyoma2.support.geometry.mpl_plotter as mplp

    class Setup(mixin.GeometryMixin):
        pass

    def fields(model):
        return {k: getattr(model, k) for k in type(model).model_fields}

    def artists(ax):
        out = []
        for c in ax.collections:
            if hasattr(c, "_offsets3d"):
                out.append([np.asarray(v, dtype=float) for v in c._offsets3d])
            if hasattr(c, "_segments3d"):
                out.append(np.asarray(c._segments3d, dtype=float))
        for ln in ax.lines:
            out.append([np.asarray(v, dtype=float) for v in ln._verts3d])
        return out

    n_done = 0
    for it in range(25):
        # ---------------- geo1
        fd1, ref1, flat1 = make_geo1(rng)
        nm = as_table(fd1["sensors names"])
        # ---------------- geo2
        fd2, ref2, flat2, _ = make_geo2(rng)
        nm2 = as_table(fd2["sensors names"])
        phi1 = rng.normal(size=(len(flat1), 2)) + 1j * rng.normal(size=(len(flat1), 2))
        phi2 = rng.normal(size=(len(flat2), 2)) + 1j * rng.normal(size=(len(flat2), 2))
        got = []
        for mod in (orig, new):
            mixin.check_on_geo1 = mod.check_on_geo1
            mixin.check_on_geo2 = mod.check_on_geo2
            mplp.dfphi_map_func = mod.dfphi_map_func
            s1 = Setup()
            if ref1 is not None:
                s1.ref_ind = copy.deepcopy(ref1)
            s1.def_geo1(
                copy.deepcopy(nm),
                fd1["sensors coordinates"].copy(),
                fd1["sensors directions"].copy(),
                sens_lines=copy.deepcopy(fd1.get("sensors lines")),
                bg_nodes=copy.deepcopy(fd1.get("BG nodes")),
                bg_lines=copy.deepcopy(fd1.get("BG lines")),
                bg_surf=copy.deepcopy(fd1.get("BG surfaces")),
            )
            res1 = types.SimpleNamespace(Fn=np.array([1.0, 2.0]), Phi=phi1)
            fig, ax = s1.plot_mode_geo1(res1, mode_nr=2, scaleF=2)
            a1 = artists(ax)
            plt.close(fig)

            s2 = Setup()
            if ref2 is not None:
                s2.ref_ind = copy.deepcopy(ref2)
            s2.def_geo2(
                copy.deepcopy(nm2),
                fd2["points coordinates"].copy(),
                fd2["mapping"].copy(),
                cstr=copy.deepcopy(fd2.get("constraints")),
                sens_sign=copy.deepcopy(fd2.get("sensors sign")),
                sens_lines=copy.deepcopy(fd2.get("sensors lines")),
                sens_surf=copy.deepcopy(fd2.get("sensors surfaces")),
                bg_nodes=copy.deepcopy(fd2.get("BG nodes")),
                bg_lines=copy.deepcopy(fd2.get("BG lines")),
                bg_surf=copy.deepcopy(fd2.get("BG surfaces")),
            )
            res2 = types.SimpleNamespace(Fn=np.array([1.0, 2.0]), Phi=phi2)
            fig, ax = s2.plot_mode_geo2_mpl(res2, mode_nr=1, scaleF=3, color="blue")
            a2 = artists(ax)
            plt.close(fig)
            got.append((fields(s1.geo1), a1, fields(s2.geo2), a2))
        same(list(got[0]), list(got[1]), "end_to_end")
        assert len(got[1][1]) > 0 and len(got[1][3]) > 0
        n_done += 1
    mixin.check_on_geo1 = new.check_on_geo1
    mixin.check_on_geo2 = new.check_on_geo2
    mplp.dfphi_map_func = new.dfphi_map_func
    return n_done


def main():
    rng = np.random.default_rng(20260319)
    test_flatten(rng)
    n1 = test_geo1(rng)
    n2 = test_geo2_and_map(rng)
    n3 = test_end_to_end(rng)
    print(f"valid geo1 table sets: {n1}, valid geo2 table sets: {n2}, end-to-end cases: {n3}")
    print(f"compared calls: {COUNTS['ok']} identical results, {COUNTS['exc']} identical exceptions")
    kinds = sorted({(k[0], k[1]) for k in EXC_KINDS})
    print("exception kinds exercised:", kinds)
    print(f"distinct exception messages exercised: {len(EXC_KINDS)}")
    print("PASS")


if __name__ == "__main__":
    main()
    sys.exit(0)
