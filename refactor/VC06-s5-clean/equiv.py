"""
Differential test: the library under PYTHONPATH (CLEAN version applied) against the
pristine implementation saved next to this file (orig_functions_fdd.py,
orig_algorithms_fdd.py), on randomly generated inputs / configurations of the touched
routines (fdd.SD_svalsvec, fdd.FDD_mpe, fdd.EFDD_mpe as caller) and methods (FDD.mpe and
the classes that inherit it, FDD_MS; EFDD / FSDD as users of the touched functions).

Run as:  PYTHONPATH=<tree>/src /venv/bin/python equiv.py
Prints PASS and exits 0 when every output (or raised exception type) is identical.
"""

import importlib.util
import logging
import os
import pathlib
import sys
import warnings

os.environ.setdefault("TQDM_DISABLE", "1")

import numpy as np  # noqa: E402
from scipy import signal  # noqa: E402

warnings.filterwarnings("ignore")
logging.disable(logging.CRITICAL)

import pyoma2.algorithms.fdd as new_alg  # noqa: E402
import pyoma2.functions.fdd as new_fdd  # noqa: E402
from pyoma2.setup import MultiSetup_PreGER, SingleSetup  # noqa: E402

HERE = pathlib.Path(__file__).resolve().parent


def _load(name, filename):
    spec = importlib.util.spec_from_file_location(name, HERE / filename)
    mod = importlib.util.module_from_spec(spec)
    sys.modules[name] = mod
    spec.loader.exec_module(mod)
    return mod


# the pristine numerical module (relative import of .gen resolves inside pyoma2.functions)
orig_fdd = _load("pyoma2.functions.orig_fdd", "orig_functions_fdd.py")
# the pristine algorithm module, made to call the pristine numerical module
orig_alg = _load("pyoma2.algorithms.orig_fdd", "orig_algorithms_fdd.py")
orig_alg.fdd = orig_fdd

problems = []
ncases = 0
nraised = 0


def same(a, b, path="out"):
    """Deep comparison; returns a description of the first difference or None."""
    if isinstance(a, (list, tuple)) and isinstance(b, (list, tuple)):
        if type(a) is not type(b) or len(a) != len(b):
            return f"{path}: container {type(a).__name__}[{len(a)}] vs {type(b).__name__}[{len(b)}]"
        for i, (x, y) in enumerate(zip(a, b)):
            d = same(x, y, f"{path}[{i}]")
            if d:
                return d
        return None
    if a is None or b is None:
        return None if a is b else f"{path}: {a!r} vs {b!r}"
    xa, xb = np.asarray(a), np.asarray(b)
    if xa.shape != xb.shape:
        return f"{path}: shape {xa.shape} vs {xb.shape}"
    if xa.dtype != xb.dtype:
        return f"{path}: dtype {xa.dtype} vs {xb.dtype}"
    if np.array_equal(xa, xb, equal_nan=True):
        return None
    if np.allclose(xa, xb, rtol=1e-12, atol=0, equal_nan=True):
        return None
    return f"{path}: values differ (max abs diff {np.nanmax(np.abs(xa - xb))})"


def run(fun, *args, **kwargs):
    try:
        return ("ok", fun(*args, **kwargs))
    except Exception as exc:  # noqa: BLE001
        return ("raise", type(exc))


def compare(tag, f_new, f_old, *args, **kwargs):
    global ncases, nraised
    ncases += 1
    rn = run(f_new, *args, **kwargs)
    ro = run(f_old, *args, **kwargs)
    nraised += rn[0] == "raise"
    if rn[0] != ro[0]:
        problems.append(f"{tag}: new {rn[0]} {rn[1] if rn[0] == 'raise' else ''} / old {ro[0]} {ro[1] if ro[0] == 'raise' else ''}")
    elif rn[0] == "raise":
        if rn[1] is not ro[1]:
            problems.append(f"{tag}: raised {rn[1].__name__} vs {ro[1].__name__}")
    else:
        d = same(rn[1], ro[1])
        if d:
            problems.append(f"{tag}: {d}")
    return rn


rng = np.random.default_rng(20606)


# ----------------------------------------------------------------------------
# A. SD_svalsvec
# ----------------------------------------------------------------------------
def rand_sd(nr, nc, nf, kind):
    A = rng.normal(size=(nr, nc, nf))
    if kind == "real":
        return A
    A = A + 1j * rng.normal(size=(nr, nc, nf))
    if kind == "herm" and nr == nc:
        return np.einsum("ijk,ljk->ilk", A, A.conj())
    return A


sd_cases = []
for _ in range(14):
    nc = int(rng.integers(2, 9))
    nr = nc if rng.random() < 0.7 else nc + int(rng.integers(1, 4))
    nf = int(rng.integers(1, 60))
    kind = rng.choice(["real", "cplx", "herm"])
    sd_cases.append((f"SD_svalsvec {nr}x{nc}x{nf} {kind}", rand_sd(nr, nc, nf, kind)))
sd_cases.append(("SD_svalsvec no lines", np.zeros((3, 3, 0), dtype=complex)))
sd_cases.append(("SD_svalsvec 2D", rng.normal(size=(3, 3))))
sd_cases.append(("SD_svalsvec rows<cols", rng.normal(size=(2, 4, 5))))
sd_cases.append(("SD_svalsvec 4D", rng.normal(size=(2, 2, 2, 2))))
for tag, SD in sd_cases:
    SD0 = SD.copy()
    compare(tag, new_fdd.SD_svalsvec, orig_fdd.SD_svalsvec, SD)
    if not np.array_equal(SD, SD0):
        problems.append(f"{tag}: input modified")


# ----------------------------------------------------------------------------
# B. FDD_mpe
# ----------------------------------------------------------------------------
def rand_selection(freq, df):
    n = int(rng.integers(1, 6))
    style = rng.choice(["list", "tuple", "array", "intlist", "intarray", "edge", "mixed"])
    sel = rng.uniform(freq[0], freq[-1], n)
    if style == "list":
        return [float(x) for x in sel]
    if style == "tuple":
        return tuple(float(x) for x in np.sort(sel)[::-1])
    if style == "array":
        return sel
    if style == "intlist":
        return [int(x) for x in np.unique(np.clip(np.round(sel), 1, None))]
    if style == "intarray":
        return np.unique(np.clip(np.round(sel), 1, None)).astype(np.int64)[::-1]
    if style == "edge":
        return [float(freq[0]), float(freq[1] * 0.4), float(freq[-1]), float(freq[-2])]
    return [int(round(sel[0])) if sel[0] >= 1 else 1, float(sel[-1])]


for it in range(40):
    nch = int(rng.integers(2, 9))
    nf = int(rng.integers(40, 400))
    df = float(rng.choice([0.01, 0.048828125, 0.125, 0.3]))
    freq = np.arange(nf) * df
    if it % 4 == 3:  # what the unit test feeds: arbitrary real arrays
        Sval = rng.random((nch, nch, nf))
        Svec = rng.random((nch, nch, nf))
    else:
        Sy = rand_sd(nch, nch, nf, "herm" if it % 2 else "cplx")
        Sval, Svec = orig_fdd.SD_svalsvec(Sy)
    sel = rand_selection(freq, df)
    DF = float(df * rng.choice([0.3, 1.0, 1.5, 4.0, 10.0]))
    Sval0, Svec0 = Sval.copy(), Svec.copy()
    tag = f"FDD_mpe#{it} nch={nch} nf={nf} df={df} sel={sel!r} DF={DF}"
    if it % 3 == 0:
        compare(tag, new_fdd.FDD_mpe, orig_fdd.FDD_mpe, Sval, Svec, freq, sel, DF)
    elif it % 3 == 1:
        compare(tag, new_fdd.FDD_mpe, orig_fdd.FDD_mpe, Sval, Svec, freq, sel, DF=DF)
    else:
        compare(
            tag, new_fdd.FDD_mpe, orig_fdd.FDD_mpe,
            Sval=Sval, Svec=Svec, freq=freq, sel_freq=sel, DF=DF,
        )  # fmt: skip
    if not (np.array_equal(Sval, Sval0) and np.array_equal(Svec, Svec0)):
        problems.append(f"{tag}: inputs modified")
# default DF, empty selection, zero / negative DF, wrong dimensions
Sy = rand_sd(4, 4, 300, "herm")
Sval, Svec = orig_fdd.SD_svalsvec(Sy)
freq = np.arange(300) * 0.05
compare("FDD_mpe default DF", new_fdd.FDD_mpe, orig_fdd.FDD_mpe, Sval, Svec, freq, [3.3, 7])
compare("FDD_mpe empty", new_fdd.FDD_mpe, orig_fdd.FDD_mpe, Sval, Svec, freq, [])
compare("FDD_mpe DF=0", new_fdd.FDD_mpe, orig_fdd.FDD_mpe, Sval, Svec, freq, [3.3], 0.0)
compare("FDD_mpe DF<0", new_fdd.FDD_mpe, orig_fdd.FDD_mpe, Sval, Svec, freq, [3.3], -0.2)
compare("FDD_mpe 2D", new_fdd.FDD_mpe, orig_fdd.FDD_mpe, Sval[0], Svec, freq, [3.3], 0.2)


# ----------------------------------------------------------------------------
# C / D. data driven: EFDD_mpe and the algorithm classes through the setup classes
# ----------------------------------------------------------------------------
def simulate(seed, fs, N, fns, nch):
    r = np.random.default_rng(seed)
    shapes = r.normal(size=(len(fns), nch))
    q = []
    for fn in fns:
        xi = 0.01
        wn = 2 * np.pi * fn
        p = np.exp((-xi * wn + 1j * wn * np.sqrt(1 - xi**2)) / fs)
        q.append(signal.lfilter([1.0], [1.0, -2 * p.real, abs(p) ** 2], r.normal(size=N)))
    y = shapes.T @ np.array(q)
    y += 0.05 * np.std(y) * r.normal(size=y.shape)
    return y.T


fs = 50.0
fns = [2.03, 4.97, 8.06]
data = simulate(11, fs, 20000, fns, 4)

# C. EFDD_mpe (calls SD_svalsvec and FDD_mpe)
for methodSy, method, nxseg, sel in (
    ("per", "EFDD", 1024, [2.0, 5.0, 8.1]),
    ("cor", "FSDD", 1024, [8.05, 2.05]),
    ("per", "FSDD", 2048, np.array([5.0, 2.0])),
):
    f, Sy = orig_fdd.SD_est(data.T, data.T, 1 / fs, nxseg, method=methodSy, pov=0.5)
    compare(
        f"EFDD_mpe {methodSy} {method} {nxseg} {sel!r}",
        new_fdd.EFDD_mpe, orig_fdd.EFDD_mpe,
        Sy, f, 1 / fs, sel, methodSy, method=method, DF1=0.15, DF2=1.0, npmax=15,
    )  # fmt: skip


def result_fields(algo):
    res = algo.result
    out = [getattr(res, k, None) for k in ("freq", "Sy", "S_val", "S_vec", "Fn", "Phi", "Xi")]
    rp = algo.run_params
    out.append([getattr(rp, k, None) for k in ("sel_freq", "DF", "DF1", "DF2", "nxseg")])
    fp = getattr(res, "forPlot", None)
    out.append([list(x) for x in fp] if fp is not None else None)
    return out


def single(cls_mod, cls_name, run_kw, mpe_args, mpe_kw):
    def go():
        ss = SingleSetup(data.copy(), fs)
        algo = getattr(cls_mod, cls_name)(name="A", **run_kw)
        ss.add_algorithms(algo)
        ss.run_by_name("A")
        ss.mpe("A", *mpe_args, **mpe_kw)
        first = result_fields(algo)
        ss.mpe("A", *mpe_args, **mpe_kw)  # second call on the same object
        return [first, result_fields(algo)]

    return go


d1 = simulate(12, fs, 20000, fns, 5)[:, [0, 1, 2, 3]]
d2 = simulate(13, fs, 20000, fns, 5)[:, [0, 1, 4]]


def multi(cls_mod, cls_name, run_kw, mpe_args, mpe_kw):
    def go():
        ms = MultiSetup_PreGER(fs=fs, ref_ind=[[0, 1], [0, 1]], datasets=[d1.copy(), d2.copy()])
        algo = getattr(cls_mod, cls_name)(name="A", **run_kw)
        ms.add_algorithms(algo)
        ms.run_by_name("A")
        ms.mpe("A", *mpe_args, **mpe_kw)
        return result_fields(algo)

    return go


class_cases = [
    ("FDD", single, dict(nxseg=1024, method_SD="per"), ([2.0, 5.0, 8.1],), {}),
    ("FDD", single, dict(nxseg=512, method_SD="cor"), ([8.1, 2.0],), dict(DF=0.3)),
    ("FDD", single, dict(nxseg=1024, method_SD="cor"), ([2, 5, 8], 0.25), {}),
    ("FDD", single, dict(nxseg=2048, method_SD="per", pov=0.25), (), dict(sel_freq=(5.0,), DF=0.05)),
    ("FDD", single, dict(nxseg=1024), (np.array([8, 5, 2]),), dict(DF=0.2)),
    ("FDD", single, dict(nxseg=1024), ([5.0],), dict(DF=0.001)),  # band without lines
    ("EFDD", single, dict(nxseg=1024, method_SD="per"), ([2.0, 8.1],), dict(DF1=0.2, npmax=15)),
    ("FSDD", single, dict(nxseg=1024, method_SD="cor"), ([5.0, 2.0],), dict(DF1=0.1, DF2=0.8, npmax=15)),
    ("FDD_MS", multi, dict(nxseg=1024, method_SD="per"), ([2.0, 5.0, 8.1],), {}),
    ("FDD_MS", multi, dict(nxseg=512, method_SD="cor"), ([8, 2],), dict(DF=0.3)),
    ("EFDD_MS", multi, dict(nxseg=1024, method_SD="per"), ([2.0, 5.0],), dict(DF1=0.2, npmax=15)),
]  # fmt: skip
for cls_name, maker, run_kw, mpe_args, mpe_kw in class_cases:
    compare(
        f"{cls_name} {run_kw} mpe{mpe_args}{mpe_kw}",
        maker(new_alg, cls_name, run_kw, mpe_args, mpe_kw),
        maker(orig_alg, cls_name, run_kw, mpe_args, mpe_kw),
    )

# mpe before run: same exception from both
compare(
    "FDD mpe before run",
    lambda: new_alg.FDD(name="A", nxseg=512).mpe([2.0]),
    lambda: orig_alg.FDD(name="A", nxseg=512).mpe([2.0]),
)

assert orig_alg.FDD is not new_alg.FDD and orig_fdd.FDD_mpe is not new_fdd.FDD_mpe
print(f"{ncases} comparisons ({nraised} of them on inputs that raise)")
if problems:
    print("FAIL")
    for p in problems[:30]:
        print("  -", p)
    sys.exit(1)
print("PASS")
sys.exit(0)
