"""
Equivalence check for the C04 refactoring (PreGER spectral merging).

Runs the refactored code (package under /tmp/wt/R04/src) and the ORIGINAL code
(pristine copies `orig_*.py` taken from HEAD, imported by path) on random inputs
covering the quantifier of the property and asserts identical outputs.

    cd /tmp/wt/R04 && PYTHONPATH=/tmp/wt/R04/src /venv/bin/python _refactor/equiv.py
"""

import importlib.util
import logging
import os
import sys
import warnings

import numpy as np

HERE = os.path.dirname(os.path.abspath(__file__))
sys.path.insert(0, os.path.join(os.path.dirname(HERE), "src"))
os.environ.setdefault("TQDM_DISABLE", "1")
logging.disable(logging.CRITICAL)
warnings.filterwarnings("ignore")

import pyoma2.algorithms.fdd as new_alg_fdd  # noqa: E402
import pyoma2.algorithms.plscf as new_alg_plscf  # noqa: E402
import pyoma2.functions.fdd as new_fdd  # noqa: E402
from pyoma2.setup import MultiSetup_PreGER  # noqa: E402

assert new_fdd.__file__.startswith("/tmp/wt/R04/src"), new_fdd.__file__


def _load(modname, filename):
    """import a pristine copy *inside* the package so relative imports work"""
    spec = importlib.util.spec_from_file_location(modname, os.path.join(HERE, filename))
    mod = importlib.util.module_from_spec(spec)
    sys.modules[modname] = mod
    spec.loader.exec_module(mod)
    return mod


orig_fdd = _load("pyoma2.functions._orig_fdd", "orig_functions_fdd.py")
orig_alg_fdd = _load("pyoma2.algorithms._orig_fdd", "orig_algorithms_fdd.py")
orig_alg_plscf = _load("pyoma2.algorithms._orig_plscf", "orig_algorithms_plscf.py")
# the original algorithm classes must call the original functions
orig_alg_fdd.fdd = orig_fdd
orig_alg_plscf.fdd = orig_fdd
assert new_alg_fdd.fdd is new_fdd and new_alg_plscf.fdd is new_fdd

# silence the progress bars of both versions
for m in (new_fdd, orig_fdd):
    m.trange = range

N_EXACT = 0
N_RUNS = {"ok": 0, "exc": 0}


def same(a, b, where):
    """identical value, dtype, shape (and memory layout for arrays)"""
    global N_EXACT
    assert type(a) is type(b), (where, type(a), type(b))
    if isinstance(a, np.ndarray):
        assert a.dtype == b.dtype, (where, a.dtype, b.dtype)
        assert a.shape == b.shape, (where, a.shape, b.shape)
        assert a.strides == b.strides, (where, a.strides, b.strides)
        assert np.array_equal(np.isnan(a), np.isnan(b)), where
        # the refactoring keeps every floating point operation and its order, so
        # bit-identical results are required (no tolerance)
        assert np.array_equal(a, b, equal_nan=True), (where, np.max(np.abs(a - b)))
        N_EXACT += 1
    elif isinstance(a, dict):
        assert list(a.keys()) == list(b.keys()), where
        for k in a:
            same(a[k], b[k], f"{where}[{k!r}]")
    elif isinstance(a, (list, tuple)):
        assert len(a) == len(b), where
        for i, (x, y) in enumerate(zip(a, b)):
            same(x, y, f"{where}[{i}]")
    else:
        assert a == b or (a != a and b != b), (where, a, b)


def outcome(fun, *args, **kwargs):
    try:
        return ("ok", fun(*args, **kwargs))
    except Exception as e:  # noqa: BLE001
        return ("exc", type(e), str(e))


def same_outcome(f_new, f_old, where, *args, **kwargs):
    r_new = outcome(f_new, *args, **kwargs)
    r_old = outcome(f_old, *args, **kwargs)
    assert r_new[0] == r_old[0], (where, r_new, r_old)
    if r_new[0] == "exc":
        assert r_new[1:] == r_old[1:], (where, r_new, r_old)
    else:
        same(r_new[1], r_old[1], where)
    return r_new


# ----------------------------------------------------------------------------
# random inputs covering the quantifier
# ----------------------------------------------------------------------------
def random_recording(rng, n_ch, n_dat):
    """coloured, correlated multi-channel record, shape (n_dat, n_ch)"""
    t = np.arange(n_dat)
    modes = np.array(
        [np.sin(2 * np.pi * f * t + rng.uniform(0, 6)) for f in rng.uniform(0.01, 0.4, 3)]
    )
    mix = rng.normal(size=(n_ch, 3))
    x = (mix @ modes).T + rng.normal(size=(n_dat, n_ch)) * rng.uniform(0.2, 2.0)
    return x * rng.uniform(0.1, 10.0, size=n_ch)


def random_case(rng, simultaneous):
    n_ch = int(rng.integers(2, 10))
    n_ref = int(rng.integers(1, min(3, n_ch - 1) + 1))
    n_rov = n_ch - n_ref
    n_setup = int(rng.integers(2, 5))
    nxseg = int(rng.choice([64, 100, 128, 250, 256, 512, 1024, 2048]))
    pov = float(rng.choice([0.0, 0.1, 0.25, 1 / 3, 0.5, 0.66, 0.75]))
    fs = float(rng.choice([1.0, 50.0, 100.0, 128.0, 1000.0]))
    n_dat = int(nxseg * rng.uniform(4.0, 9.0)) + int(rng.integers(0, 7))
    # roving channels of each setup (a partition, possibly with empty slots filled)
    cuts = np.sort(rng.integers(0, n_rov + 1, size=n_setup - 1))
    bounds = [0, *cuts.tolist(), n_rov]
    rov_sets = [list(range(bounds[i], bounds[i + 1])) for i in range(n_setup)]
    rec = random_recording(rng, n_ch, n_dat)
    datasets, ref_ind = [], []
    for s in range(n_setup):
        rov = rov_sets[s]
        if not rov:  # keep at least one roving channel per setup
            rov = [int(rng.integers(0, n_rov))]
        if simultaneous:
            src = rec
            gain = 1.0
        else:
            src = random_recording(rng, n_ch, n_dat)
            gain = float(rng.uniform(0.05, 20.0))
        n_s = n_ref + len(rov)
        pos = np.sort(rng.choice(n_s, size=n_ref, replace=False)).tolist()
        if rng.random() < 0.3:
            pos = rng.permutation(pos).tolist()
        data = np.empty((n_dat, n_s))
        mov_pos = [p for p in range(n_s) if p not in pos]
        for k, p in enumerate(pos):
            data[:, p] = src[:, k]
        for k, p in enumerate(mov_pos):
            data[:, p] = src[:, n_ref + rov[k]]
        datasets.append(gain * data)
        ref_ind.append([int(p) for p in pos])
    return dict(fs=fs, nxseg=nxseg, pov=pov, datasets=datasets, ref_ind=ref_ind)


def check_functions(rng, n_cases):
    for c in range(n_cases):
        case = random_case(rng, simultaneous=(c % 2 == 0))
        ms = MultiSetup_PreGER(
            fs=case["fs"], ref_ind=case["ref_ind"], datasets=case["datasets"]
        )
        Y = ms.data
        for method in ("per", "cor"):
            tag = f"case{c}/{method}"
            # SD_PreGER with keyword arguments (as the algorithm classes do) ...
            same_outcome(
                new_fdd.SD_PreGER,
                orig_fdd.SD_PreGER,
                tag + "/SD_PreGER",
                Y,
                case["fs"],
                nxseg=case["nxseg"],
                method=method,
                pov=case["pov"],
            )
            # ... and SD_est on one setup, positional + keyword, incl. defaults
            ref, mov = Y[0]["ref"], Y[0]["mov"]
            allch = np.vstack((ref, mov))
            dt = 1 / case["fs"]
            for yref, nm in ((ref, "ref"), (mov, "mov"), (allch, "all")):
                same_outcome(
                    new_fdd.SD_est,
                    orig_fdd.SD_est,
                    f"{tag}/SD_est/{nm}",
                    allch,
                    yref,
                    dt,
                    case["nxseg"],
                    method,
                    case["pov"],
                )
            same_outcome(
                new_fdd.SD_est,
                orig_fdd.SD_est,
                f"{tag}/SD_est/kw",
                allch,
                ref,
                dt,
                case["nxseg"],
                method=method,
                pov=case["pov"],
            )
        # defaults of both functions (nxseg=1024, pov=0.5, per / cor)
        if c % 6 == 0:
            same_outcome(new_fdd.SD_PreGER, orig_fdd.SD_PreGER, f"case{c}/dflt", Y, 100.0)
            same_outcome(
                new_fdd.SD_est, orig_fdd.SD_est, f"case{c}/dflt_est", allch, ref, 0.01
            )


def check_exceptions(rng):
    Y = [
        {"ref": rng.normal(size=(2, 600)), "mov": rng.normal(size=(3, 600))},
        {"ref": rng.normal(size=(2, 600)), "mov": rng.normal(size=(1, 600))},
    ]
    kinds = set()
    for kw in (
        dict(method="welch"),  # unknown estimator
        dict(method=None),
        dict(nxseg=0),
        dict(nxseg=64, pov=1.0),  # noverlap == nperseg
        dict(nxseg=64, pov=1.5),
        dict(nxseg=64, method="cor", pov=7.0),  # pov is irrelevant for 'cor'
        dict(nxseg=4096),  # longer than the record
        dict(nxseg=4096, method="cor"),
        dict(nxseg=63, method="cor"),  # odd segment length
        dict(nxseg=63, method="per"),
        dict(nxseg=64.0),
        dict(pov=None),
        dict(pov=None, method="cor"),
    ):
        r = same_outcome(
            new_fdd.SD_PreGER, orig_fdd.SD_PreGER, f"exc/{kw}", Y, 100.0, **kw
        )
        kinds.add(r[0])
    for bad in (
        [],  # no setup
        [{"ref": Y[0]["ref"]}],  # missing key
        [Y[0], {"ref": Y[1]["ref"][:, :500], "mov": Y[1]["mov"]}],  # ragged setup
        [Y[0], {"ref": Y[1]["ref"][:, :500], "mov": Y[1]["mov"][:, :500]}],  # shorter
        [Y[0], {"ref": Y[1]["ref"][:1], "mov": Y[1]["mov"]}],  # fewer references
        [{"ref": Y[0]["ref"], "mov": Y[0]["mov"][:0]}, Y[1]],  # no roving channel
        [{"ref": np.zeros((2, 600)), "mov": Y[0]["mov"]}, Y[1]],  # singular reference
        [{"ref": Y[0]["ref"][0], "mov": Y[0]["mov"]}],  # 1-D reference
    ):
        for method in ("per", "cor"):
            r = same_outcome(
                new_fdd.SD_PreGER,
                orig_fdd.SD_PreGER,
                f"exc/bad/{method}",
                bad,
                100.0,
                nxseg=128,
                method=method,
            )
            kinds.add(r[0])
    for args in (
        (Y[0]["mov"], Y[0]["ref"], 0.01, 128, "welch", 0.5),
        (Y[0]["mov"], Y[0]["ref"][:, :100], 0.01, 128, "per", 0.5),
        (Y[0]["mov"], Y[0]["ref"], 0, 128, "per", 0.5),
        (Y[0]["mov"], Y[0]["ref"], 0, 128, "welch", 0.5),
        (Y[0]["mov"], Y[0]["ref"][0], 0.01, 128, "cor", 0.5),
        (Y[0]["mov"].tolist(), Y[0]["ref"], 0.01, 128, "cor", 0.5),
    ):
        r = same_outcome(new_fdd.SD_est, orig_fdd.SD_est, "exc/SD_est", *args)
        kinds.add(r[0])
    assert kinds == {"ok", "exc"}, kinds


def result_dict(alg):
    return alg.result.model_dump()


def check_classes(rng, n_cases):
    for c in range(n_cases):
        case = random_case(rng, simultaneous=(c % 2 == 1))
        case["nxseg"] = min(case["nxseg"], 512)
        n_ref = len(case["ref_ind"][0])
        for method in ("per", "cor"):
            pairs = []
            for new_mod, old_mod, cls, extra in (
                (new_alg_fdd, orig_alg_fdd, "FDD_MS", {}),
                (new_alg_fdd, orig_alg_fdd, "EFDD_MS", {}),
                (new_alg_plscf, orig_alg_plscf, "pLSCF_MS", {"ordmax": 6}),
            ):
                kw = dict(nxseg=case["nxseg"], method_SD=method, pov=case["pov"], **extra)
                pairs.append(
                    (
                        cls,
                        getattr(new_mod, cls)(name=cls + "_new", **kw),
                        getattr(old_mod, cls)(name=cls + "_old", **kw),
                    )
                )
            ms = MultiSetup_PreGER(
                fs=case["fs"], ref_ind=case["ref_ind"], datasets=case["datasets"]
            )
            ms.add_algorithms(*[a for _, a, _ in pairs], *[b for _, _, b in pairs])
            for cls, a_new, a_old in pairs:
                r_new = outcome(ms.run_by_name, a_new.name)
                r_old = outcome(ms.run_by_name, a_old.name)
                tag = f"class{c}/{method}/{cls}"
                assert r_new[0] == r_old[0], (tag, r_new, r_old)
                N_RUNS[r_new[0]] += 1
                if r_new[0] == "exc":
                    assert r_new[1:] == r_old[1:], (tag, r_new, r_old)
                    continue
                d_new, d_old = result_dict(a_new), result_dict(a_old)
                same(d_new, d_old, tag)
                assert d_new["Sy"].shape[1] == n_ref
                assert len(d_new["freq"]) == d_new["Sy"].shape[2]


def main():
    rng = np.random.default_rng(20261003)
    check_functions(rng, n_cases=36)
    check_exceptions(rng)
    check_classes(rng, n_cases=8)
    assert N_RUNS["ok"] >= 40, N_RUNS
    print(f"algorithm runs compared: {N_RUNS}")
    print(f"arrays compared: {N_EXACT}, all bit-identical (values, dtype, shape, strides)")
    print("PASS")


if __name__ == "__main__":
    main()
