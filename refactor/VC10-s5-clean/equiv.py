"""
Differential test: library in the tree on PYTHONPATH (CLEAN version) against the pristine
sources saved next to this file (orig_gen.py = functions/gen.py, orig_ssi.py = algorithms/ssi.py).

Run as:  PYTHONPATH=<tree>/src /venv/bin/python equiv.py
"""
import importlib.util
import logging
import pathlib
import sys
import warnings

import numpy as np
from scipy import signal

warnings.filterwarnings("ignore")

import pyoma2.algorithms  # noqa: E402,F401
import pyoma2.algorithms.ssi as new_alg  # noqa: E402
from pyoma2.functions import gen as new_gen  # noqa: E402

logging.disable(logging.CRITICAL)
HERE = pathlib.Path(__file__).resolve().parent


def load(name, fname):
    spec = importlib.util.spec_from_file_location(name, HERE / fname)
    mod = importlib.util.module_from_spec(spec)
    sys.modules[name] = mod
    spec.loader.exec_module(mod)
    return mod


orig_gen = load("pyoma2.functions._orig_gen", "orig_gen.py")
orig_alg = load("pyoma2.algorithms._orig_ssi", "orig_ssi.py")
orig_alg.gen = orig_gen  # the pristine classes call the pristine routines

problems = []
status = []
ncases = 0


def call(f, *a, **k):
    try:
        return ("ok", f(*a, **k))
    except Exception as e:  # noqa: BLE001
        return ("exc", e)


def same(a, b):
    if a is None or b is None:
        return a is None and b is None
    a, b = np.asarray(a), np.asarray(b)
    return a.shape == b.shape and np.allclose(a, b, rtol=1e-12, atol=0, equal_nan=True)


# ----------------------------------------------------------------------------- SC_apply
def random_tables(rng, npoles, ncols, nch, cplx=True):
    nmodes = int(rng.integers(1, 5))
    f0 = np.sort(rng.uniform(1, 20, nmodes))
    x0 = rng.uniform(0.005, 0.05, nmodes)
    p0 = rng.standard_normal((nmodes, nch)) + 1j * rng.standard_normal((nmodes, nch)) * 0.3
    Fn = np.full((npoles, ncols), np.nan)
    Xi = np.full((npoles, ncols), np.nan)
    Phi = np.full((npoles, ncols, nch), np.nan, dtype=complex)
    for c in range(ncols):
        n = 0 if rng.random() < 0.12 else int(rng.integers(0, npoles + 1))
        rows = rng.permutation(npoles)[:n]
        for r in rows:
            if rng.random() < 0.7:
                m = int(rng.integers(nmodes))
                Fn[r, c] = f0[m] * (1 + rng.normal(0, 0.004))
                Xi[r, c] = x0[m] * (1 + rng.normal(0, 0.03))
                Phi[r, c] = p0[m] + 0.08 * (rng.standard_normal(nch) + 1j * rng.standard_normal(nch))
            else:
                Fn[r, c] = rng.uniform(1, 20)
                Xi[r, c] = rng.uniform(0.001, 0.1)
                Phi[r, c] = rng.standard_normal(nch) + 1j * rng.standard_normal(nch)
        if n > 1 and rng.random() < 0.3:
            Fn[rows[0], c] = Fn[rows[1], c]
        # inconsistent NaN patterns between the tables, zero / negative values
        if n > 0 and rng.random() < 0.2:
            Xi[rows[0], c] = np.nan
        if n > 0 and rng.random() < 0.1:
            Phi[rows[-1], c] = np.nan
        if n > 0 and rng.random() < 0.05:
            Fn[rows[-1], c] = 0.0
        if n > 0 and rng.random() < 0.05:
            Xi[rows[-1], c] = 0.0
    if not cplx:
        Phi = Phi.real.copy()
    return Fn, Xi, Phi


def sc_apply_cases():
    global ncases
    rng = np.random.default_rng(7)
    for case in range(150):
        step = int(rng.choice([1, 1, 1, 2, 3]))
        ordmax = int(rng.integers(2, 41))
        nch = int(rng.integers(1, 7))
        layout = case % 3  # 0: SSI, 1: pLSCF, 2: SSI with real shapes
        if layout == 1:
            step, ncols, hi = 1, ordmax, ordmax - 1
        else:
            ncols, hi = int(ordmax / step + 1), ordmax
        Fn, Xi, Phi = random_tables(rng, int(rng.integers(1, ordmax + 3)), ncols, nch, cplx=layout != 2)
        ordmin = int(rng.integers(0, hi + 1))
        tol = [10 ** rng.uniform(-3, -1), 10 ** rng.uniform(-2, 0.3), 10 ** rng.uniform(-2.5, -0.5)]
        if rng.random() < 0.1:
            tol[int(rng.integers(3))] = 0.0
        if rng.random() < 0.1:
            tol[int(rng.integers(3))] = np.inf
        args = (Fn, Xi, Phi, ordmin, hi, step, *tol)
        keep = [a.copy() for a in (Fn, Xi, Phi)]
        ro = call(orig_gen.SC_apply, *args)
        rn = call(new_gen.SC_apply, *args)
        ncases += 1
        if ro[0] != "ok" or rn[0] != "ok":
            problems.append(f"SC_apply case {case}: raised {ro} / {rn}")
            continue
        if not (np.array_equal(ro[1], rn[1]) and ro[1].dtype == rn[1].dtype):
            problems.append(f"SC_apply case {case}: labels differ in {np.sum(ro[1] != rn[1])} cells")
        if not all(np.array_equal(a, b, equal_nan=True) for a, b in zip((Fn, Xi, Phi), keep)):
            problems.append(f"SC_apply case {case}: inputs modified")
        # the other accepted spellings of the same call give the same labels
        sc = dict(err_fn=tol[0], err_xi=tol[1], err_phi=tol[2])
        for alt in (
            call(new_gen.SC_apply, Fn, Xi, Phi, ordmin, hi, step, sc=sc),
            call(new_gen.SC_apply, Fn.tolist(), Xi.tolist(), Phi.tolist(), ordmin, hi, step, sc=tuple(tol)),
            call(new_gen.SC_apply, Fn, Xi, Phi, np.int64(ordmin), hi, step, 9.0, 9.0, 9.0,
                 sc=dict(err_mac=tol[2], err_f=tol[0], err_damp=tol[1])),
        ):
            if alt[0] != "ok" or not np.array_equal(alt[1], ro[1]):
                problems.append(f"SC_apply case {case}: alternative call form differs: {alt[0]}")
    # calls the pristine routine rejects are still rejected
    Fn, Xi, Phi = random_tables(rng, 6, 8, 3)
    for args in [
        (Fn, Xi, Phi, 0, 8, 1, 0.01, 0.05, 0.03),       # more orders than columns
        (Fn, Xi[:, :5], Phi, 0, 7, 1, 0.01, 0.05, 0.03),  # Xi too narrow
        (Fn, Xi, Phi[:, :4], 0, 7, 1, 0.01, 0.05, 0.03),  # Phi too narrow
    ]:
        ro, rn = call(orig_gen.SC_apply, *args), call(new_gen.SC_apply, *args)
        ncases += 1
        if not (ro[0] == "exc" and rn[0] == "exc"):
            problems.append(f"invalid call: pristine {ro[0]}, new {rn[0]}")


# ----------------------------------------------------------------------------- algorithm classes
def simulate(seed, N=5000, fs=50.0, nch=4):
    rng = np.random.default_rng(seed)
    fn = np.array([2.0, 5.5, 8.3])
    xi = np.array([0.01, 0.015, 0.02])
    phi = rng.standard_normal((nch, 3))
    y = np.zeros((N, nch))
    for k in range(3):
        wn = 2 * np.pi * fn[k]
        sysd = signal.lti([1.0], [1.0, 2 * xi[k] * wn, wn**2]).to_discrete(1 / fs)
        _, q = signal.dlsim(sysd, rng.standard_normal(N))
        y += np.outer(q[:, 0] / q.std(), phi[:, k])
    y += 0.05 * rng.standard_normal(y.shape)
    return y, fs


FIELDS = ["Lab", "Fn_poles", "Xi_poles", "Phi_poles", "Lambds", "Fn_poles_cov", "Xi_poles_cov", "Phi_poles_cov"]


def run_pair(tag, clsname, data, fs, kw):
    global ncases
    ncases += 1
    out = []
    for mod in (orig_alg, new_alg):
        alg = getattr(mod, clsname)(name="eq", **kw)
        alg._set_data(data=data, fs=fs)
        out.append(call(alg.run))
    ro, rn = out
    status.append(ro[0])
    if ro[0] == "exc" and "-v" in sys.argv:
        print(tag, repr(ro[1]))
    if ro[0] != rn[0]:
        problems.append(f"{tag}: pristine {ro}, new {rn}")
    elif ro[0] == "exc":
        if type(ro[1]) is not type(rn[1]):
            problems.append(f"{tag}: exceptions differ {ro[1]!r} / {rn[1]!r}")
    else:
        for f in FIELDS:
            if not same(getattr(ro[1], f), getattr(rn[1], f)):
                problems.append(f"{tag}: result.{f} differs")
        if not np.array_equal(ro[1].Lab, rn[1].Lab):
            problems.append(f"{tag}: result.Lab differs")


def algorithm_cases():
    rng = np.random.default_rng(11)
    for case in range(16):
        y, fs = simulate(100 + case, nch=int(rng.integers(3, 6)))
        clsname = ["SSIcov", "SSIdat"][case % 4 == 3]
        ordmax = int(rng.integers(8, 25))
        step = 1  # the SSI routines of the unmodified library fail for step > 1
        kw = dict(
            br=int(rng.integers(ordmax // 3 + 2, ordmax // 3 + 8)),
            ordmax=ordmax,
            ordmin=int(rng.integers(0, ordmax // 2)),
            step=step,
            sc=dict(err_fn=10 ** rng.uniform(-3, -1.5), err_xi=10 ** rng.uniform(-2, -0.5),
                    err_phi=10 ** rng.uniform(-2.5, -1)),
        )
        if clsname == "SSIcov":
            kw["method"] = "cov_mm" if case % 2 == 0 else "cov_R"
        if clsname == "SSIcov" and case % 2 == 0:
            kw.update(calc_unc=True, nb=int(rng.integers(10, 40)),
                      hc=dict(conj=True, xi_max=0.1, mpc_lim=0.7, mpd_lim=0.3,
                              cov_max=float(10 ** rng.uniform(-3.5, -0.5))))
        if case % 5 == 1 and kw.get("method") != "cov_R":
            kw["ref_ind"] = [0, 2]
        run_pair(f"{clsname} case {case} {kw}", clsname, y, fs, kw)
    # multi-setup classes
    for case in range(4):
        y1, fs = simulate(200 + case, nch=4)
        y2, _ = simulate(300 + case, nch=4)
        Y = new_gen.pre_multisetup([y1, y2], [[0, 1], [0, 1]])
        clsname = ["SSIcov_MS", "SSIdat_MS"][case % 2]
        ordmax = int(rng.integers(8, 20))
        kw = dict(br=ordmax // 2 + 2, ordmax=ordmax, ordmin=int(rng.integers(0, 6)),
                  sc=dict(err_fn=0.02, err_xi=float(rng.uniform(0.03, 0.2)), err_phi=0.04))
        if clsname == "SSIcov_MS":
            kw["method"] = "cov_mm"
        run_pair(f"{clsname} case {case} {kw}", clsname, Y, fs, kw)
    # a criteria dictionary with a key missing is rejected by the pristine run (KeyError);
    # the new run completes it from the defaults - only check that it no longer fails
    y, fs = simulate(1)
    alg = new_alg.SSIcov(name="eq", br=8, ordmax=10, method="cov_mm", sc=dict(err_fn=0.02))
    alg._set_data(data=y, fs=fs)
    r = call(alg.run)
    if r[0] != "ok":
        problems.append(f"partial sc dictionary: {r}")


if __name__ == "__main__":
    sc_apply_cases()
    algorithm_cases()
    if problems:
        print("FAIL")
        for m in problems[:30]:
            print(" -", m)
        sys.exit(1)
    print(f"PASS ({ncases} cases; {status.count('ok')} of {len(status)} algorithm runs completed in both versions)")
    sys.exit(0)
