"""
Differential test: the refactored SSI routines (functions/ssi.py, algorithms/ssi.py of the
tree on PYTHONPATH) against the pristine implementation (orig_ssi.py, orig_alg_ssi.py next
to this file) on randomly generated inputs and configurations.

Run:  PYTHONPATH=<tree>/src /venv/bin/python equiv.py      -> prints PASS, exit 0
"""
import importlib.util
import logging
import os
import sys
import warnings

os.environ.setdefault("TQDM_DISABLE", "1")
warnings.filterwarnings("ignore")
logging.disable(logging.CRITICAL)

import numpy as np  # noqa: E402

import pyoma2.algorithms  # noqa: E402,F401  (package context for the pristine copy)
from pyoma2.algorithms import ssi as new_alg  # noqa: E402
from pyoma2.functions import ssi as new_ssi  # noqa: E402
from pyoma2.setup import SingleSetup  # noqa: E402

HERE = os.path.dirname(os.path.abspath(__file__))


def _load(name, fname):
    spec = importlib.util.spec_from_file_location(name, os.path.join(HERE, fname))
    mod = importlib.util.module_from_spec(spec)
    sys.modules[name] = mod
    spec.loader.exec_module(mod)
    return mod


orig_ssi = _load("pyoma2.functions.orig_ssi", "orig_ssi.py")
orig_alg = _load("pyoma2.algorithms.orig_alg_ssi", "orig_alg_ssi.py")
orig_alg.ssi = orig_ssi  # the pristine algorithm layer drives the pristine routines

FAILS = []
N_CASES = 0
RAISED = []


def same(a, b):
    if a is None or b is None:
        return a is None and b is None
    if isinstance(a, (list, tuple)):
        return (
            isinstance(b, (list, tuple))
            and len(a) == len(b)
            and all(same(x, y) for x, y in zip(a, b))
        )
    a = np.asarray(a)
    b = np.asarray(b)
    if a.shape != b.shape or a.dtype.kind != b.dtype.kind:
        return False
    if a.dtype.kind in "OUS":
        return bool(np.all(a == b))
    return bool(
        np.array_equal(a, b, equal_nan=True)
        or np.allclose(a, b, rtol=1e-12, atol=0.0, equal_nan=True)
    )


def outcome(fn, *args, **kwargs):
    try:
        return ("ok", fn(*args, **kwargs))
    except Exception as exc:  # compared by type and message
        return ("exc", (type(exc).__name__, str(exc)))


def check(label, fn_new, fn_old, *args, **kwargs):
    global N_CASES
    N_CASES += 1
    kn, vn = outcome(fn_new, *args, **kwargs)
    ko, vo = outcome(fn_old, *args, **kwargs)
    if kn != ko:
        FAILS.append(f"{label}: new -> {kn} {vn if kn == 'exc' else ''}, old -> {ko} "
                     f"{vo if ko == 'exc' else ''}")
    elif kn == "exc":
        RAISED.append(f"{label}: {vn[0]}")
        if vn != vo:
            FAILS.append(f"{label}: exceptions differ: {vn} vs {vo}")
    elif not same(vn, vo):
        FAILS.append(f"{label}: results differ")


# ----------------------------------------------------------------------------------------
def random_layout(rng):
    l = int(rng.integers(1, 7))  # noqa: E741
    r = int(rng.integers(1, l + 1))
    br = int(rng.integers(2, 9))
    return l, r, br


def realisation_routines(rng):
    for k in range(30):
        l, r, br = random_layout(rng)  # noqa: E741
        q = br + 1
        extra = int(rng.integers(0, 3)) if k % 5 == 0 else 0  # ragged column count
        H = rng.normal(size=(q * l, q * r + extra))
        hi = min(br * l, q * r)
        ordmax = int(rng.integers(1, hi + 1))
        step = int(rng.choice([1, 1, 2, 3]))
        check(f"SSI_fast[{k}] l={l} r={r} br={br} ord={ordmax} step={step}",
              new_ssi.SSI_fast, orig_ssi.SSI_fast, H, br, ordmax, step=step)
        check(f"SSI[{k}] l={l} r={r} br={br} ord={ordmax} step={step}",
              new_ssi.SSI, orig_ssi.SSI, H, br, ordmax, step)
        # low-rank (exact product) Hankel, as in a noise-free identification
        n = int(rng.integers(1, hi + 1))
        Hl = rng.normal(size=(q * l, n)) @ rng.normal(size=(n, q * r))
        check(f"SSI_fast/lowrank[{k}]", new_ssi.SSI_fast, orig_ssi.SSI_fast, Hl, br, n)
        check(f"SSI/lowrank[{k}]", new_ssi.SSI, orig_ssi.SSI, Hl, br, n, 1)
    # orders that the matrices cannot support: the same exception must come out
    for k in range(6):
        l, r, br = random_layout(rng)  # noqa: E741
        q = br + 1
        H = rng.normal(size=(q * l, q * r))
        ordmax = q * r + int(rng.integers(1, 4)) if k % 2 else br * l + 1
        check(f"SSI_fast/too-large-order[{k}]",
              new_ssi.SSI_fast, orig_ssi.SSI_fast, H, br, ordmax)
        check(f"SSI/too-large-order[{k}]", new_ssi.SSI, orig_ssi.SSI, H, br, ordmax, 1)


def with_uncertainty(rng):
    for k in range(6):
        l = int(rng.integers(1, 4))  # noqa: E741
        r = int(rng.integers(1, l + 1))
        br = int(rng.integers(2, 5))
        nb = int(rng.integers(4, 9))
        Y = rng.normal(size=(l, 400))
        ref = sorted(rng.choice(l, size=r, replace=False).tolist())
        H, T = orig_ssi.build_hank(Y, Y[ref, :], br, "cov_mm", calc_unc=True, nb=nb)
        ordmax = int(rng.integers(1, min(br * l, (br + 1) * r) + 1))
        check(f"SSI_fast/unc[{k}] l={l} r={r} br={br} ord={ordmax}",
              new_ssi.SSI_fast, orig_ssi.SSI_fast, H, br, ordmax,
              step=1, calc_unc=True, T=T, nb=nb)


def multi_setup(rng):
    for k in range(20):
        n_ref = int(rng.integers(1, 4))
        n_set = int(rng.integers(1, 4))
        br = int(rng.integers(2, 6))
        Y = [
            {"ref": rng.normal(size=(n_ref, 300)),
             "mov": rng.normal(size=(int(rng.integers(1, 4)), 300))}
            for _ in range(n_set)
        ]
        ordmax = int(rng.integers(1, min(br * n_ref, (br + 1) * n_ref) + 1))
        meth = str(rng.choice(["cov_mm", "dat", "cov_R"]))
        step = int(rng.choice([1, 1, 2]))
        check(f"SSI_multi_setup[{k}] {meth} ref={n_ref} sets={n_set} br={br} ord={ordmax}",
              new_ssi.SSI_multi_setup, orig_ssi.SSI_multi_setup,
              Y, 100.0, br, ordmax, meth, step)
    Y = [{"ref": rng.normal(size=(2, 100)), "mov": rng.normal(size=(2, 100))}]
    check("SSI_multi_setup/invalid", new_ssi.SSI_multi_setup, orig_ssi.SSI_multi_setup,
          Y, 1.0, 3, 2, "INVALID")


RESULT_FIELDS = ["Obs", "A", "C", "H", "Lambds", "Fn_poles", "Xi_poles", "Phi_poles", "Lab",
                 "Fn_poles_cov", "Xi_poles_cov", "Phi_poles_cov",
                 "Fn", "Xi", "Phi", "order_out"]


def _run_algorithm(cls, data, fs, kwargs, sel):
    ss = SingleSetup(data.copy(), fs=fs)
    alg = cls(name="alg", **kwargs)
    ss.add_algorithms(alg)
    ss.run_by_name("alg")
    res = ss["alg"].result
    order = kwargs["ordmax"]
    col = res.Fn_poles[:, order]
    if np.any(~np.isnan(col)):
        f0 = float(np.nanmin(col))
        ss.mpe("alg", sel_freq=[f0] if sel == "int" else [f0, f0],
               order=order if sel == "int" else [order, order - 1], rtol=0.5)
        res = ss["alg"].result
    return [getattr(res, f, None) for f in RESULT_FIELDS]


def algorithm_layer(rng):
    for k in range(24):
        n_ch = int(rng.integers(2, 7))
        fs = float(rng.choice([50.0, 100.0, 256.0]))
        n_dat = int(rng.integers(300, 700))
        # lightly damped oscillations plus noise, so that some poles survive the criteria
        t = np.arange(n_dat) / fs
        f = rng.uniform(0.05, 0.4, size=3) * fs
        modal = np.array([np.exp(-0.02 * 2 * np.pi * fi * t) * np.cos(2 * np.pi * fi * t)
                          for fi in f])
        data = (rng.normal(size=(n_ch, 3)) @ modal).T + 1e-3 * rng.normal(size=(n_dat, n_ch))
        choice = k % 4
        if choice == 0:
            ref_ind = None
        elif choice == 1:
            ref_ind = sorted(rng.choice(n_ch, size=int(rng.integers(1, n_ch + 1)),
                                        replace=False).tolist())
        elif choice == 2:
            ref_ind = rng.permutation(n_ch)[: int(rng.integers(1, n_ch + 1))].tolist()
        else:
            ref_ind = [int(n_ch - 1)]
        r = n_ch if ref_ind is None else len(ref_ind)
        br = int(rng.integers(4, 10))
        ordmax = int(rng.integers(2, min(br * n_ch, (br + 1) * r, 12) + 1))
        kwargs = dict(br=br, ordmax=ordmax, ref_ind=ref_ind,
                      hc=dict(conj=True, xi_max=0.3, mpc_lim=0.2, mpd_lim=0.8, cov_max=0.2))
        name = ("SSIcov", "SSIdat")[k % 2]
        if k % 6 == 5:
            kwargs["method"] = "cov_R"
        check(f"{name}.run/mpe[{k}] ch={n_ch} ref={ref_ind} br={br} ord={ordmax}",
              lambda *a: _run_algorithm(getattr(new_alg, name), *a),
              lambda *a: _run_algorithm(getattr(orig_alg, name), *a),
              data, fs, kwargs, "int" if k % 3 else "list")
    # uncertainty path through the algorithm
    for k in range(2):
        data = rng.normal(size=(600, 3))
        kwargs = dict(br=4, ordmax=5, ref_ind=[0, 2] if k else None, calc_unc=True, nb=6)
        check(f"SSIcov.run/unc[{k}]",
              lambda *a: _run_algorithm(new_alg.SSIcov, *a),
              lambda *a: _run_algorithm(orig_alg.SSIcov, *a),
              data, 100.0, kwargs, "int")
    # reference helper on its own
    for k in range(4):
        Y = rng.normal(size=(5, 40))
        ref_ind = [None, [4, 0], [1], [0, 1, 2, 3, 4]][k]
        alg = new_alg.SSIdat(name="x", br=3, ordmax=2, ref_ind=ref_ind)
        want = Y if ref_ind is None else Y[ref_ind, :]
        check(f"_reference_data[{k}]", alg._reference_data, lambda y, w=want: w, Y)


def main():
    rng = np.random.default_rng(987654321)
    realisation_routines(rng)
    with_uncertainty(rng)
    multi_setup(rng)
    algorithm_layer(rng)
    if FAILS:
        print(f"FAIL ({len(FAILS)} of {N_CASES} comparisons)")
        for line in FAILS[:30]:
            print("  " + line)
        return 1
    print(f"PASS ({N_CASES} comparisons, {len(RAISED)} of them on a raised exception)")
    if "-v" in sys.argv:
        for line in RAISED:
            print("  raised in both: " + line)
    return 0


if __name__ == "__main__":
    sys.exit(main())
