"""
Equivalence check of the refactored C02 code (PoSER merging) against the pristine copies.

Run:  cd /tmp/wt/U02 && PYTHONPATH=/tmp/wt/U02/src /venv/bin/python _refactor/equiv.py
Prints PASS and exits 0 when every comparison is bit-identical.
"""

import importlib.util
import logging
import pathlib
import sys
import types

import numpy as np
import pandas as pd

HERE = pathlib.Path(__file__).resolve().parent
sys.path.insert(0, str(HERE.parent / "src"))

from pyoma2.functions import gen as new_gen  # noqa: E402
from pyoma2.setup import multi as new_multi  # noqa: E402

assert str(HERE.parent) in new_gen.__file__, new_gen.__file__


def _load(name, path):
    spec = importlib.util.spec_from_file_location(name, path)
    mod = importlib.util.module_from_spec(spec)
    sys.modules[name] = mod
    spec.loader.exec_module(mod)
    return mod


orig_gen = _load("orig_gen", HERE / "orig_gen.py")
orig_multi = _load("orig_multi", HERE / "orig_multi.py")
# the pristine PoSER class must call the pristine numerical routine
orig_multi.merge_mode_shapes = orig_gen.merge_mode_shapes
assert new_multi.merge_mode_shapes is new_gen.merge_mode_shapes
assert orig_gen.merge_mode_shapes is not new_gen.merge_mode_shapes

logging.disable(logging.CRITICAL)
N_CHECKS = 0


def same_array(a, b, what):
    global N_CHECKS
    N_CHECKS += 1
    assert type(a) is type(b), (what, type(a), type(b))
    assert a.dtype == b.dtype, (what, a.dtype, b.dtype)
    assert a.shape == b.shape, (what, a.shape, b.shape)
    # bitwise identity (also NaN pattern and signed zeros)
    assert a.tobytes() == b.tobytes(), (what, np.max(np.abs(a - b)))
    assert np.array_equal(a, b, equal_nan=True), what


def call(f, *args, **kwargs):
    """Return ('ok', value) or ('exc', type, message)."""
    try:
        return ("ok", f(*args, **kwargs))
    except Exception as e:  # noqa: BLE001
        return ("exc", type(e), str(e))


# ----------------------------------------------------------------------------
# random multi-setup layouts
# ----------------------------------------------------------------------------
def random_layout(rng, cplx, exact=True, neg_idx=False, as_array=False, layout="C"):
    n_modes = int(rng.integers(1, 9))
    n_setups = int(rng.integers(2, 6))
    n_ref = int(rng.integers(1, 5))
    n_rovs = [int(rng.integers(0, 6)) for _ in range(n_setups)]
    n_glob = n_ref + sum(n_rovs)
    Phi = rng.standard_normal((n_glob, n_modes)) * 10.0 ** rng.uniform(-2, 2)
    if cplx:
        Phi = Phi + 1j * rng.standard_normal((n_glob, n_modes))
    glob_ref = np.arange(n_ref)
    start = n_ref
    MS, refl = [], []
    for s in range(n_setups):
        glob_rov = np.arange(start, start + n_rovs[s])
        start += n_rovs[s]
        n_ch = n_ref + n_rovs[s]
        # positions of the reference sensors in the channel list: any position, any order
        pos = rng.permutation(n_ch)[:n_ref]
        chan = np.empty(n_ch, dtype=int)
        chan[pos] = glob_ref
        rov_pos = np.array([c for c in range(n_ch) if c not in pos], dtype=int)
        chan[rov_pos] = glob_rov  # roving in channel order = global order
        scale = rng.uniform(0.05, 20, n_modes) * rng.choice([-1.0, 1.0], n_modes)
        arr = Phi[chan, :] * scale[None, :]
        if not exact:  # perturbed shapes: scale factor is a real least-squares fit
            arr = arr + 0.1 * rng.standard_normal(arr.shape) * (1 + 1j if cplx else 1)
        if layout == "F":
            arr = np.asfortranarray(arr)
        elif layout == "strided":
            big = np.zeros((2 * n_ch, 2 * n_modes), dtype=arr.dtype)
            big[::2, ::2] = arr
            arr = big[::2, ::2]
        ref = [int(p) for p in pos]
        if neg_idx:
            ref = [p - n_ch if rng.random() < 0.5 else p for p in ref]
        refl.append(np.array(ref) if as_array else ref)
        MS.append(arr)
    return MS, refl, Phi


def check_merge(rng):
    n = 0
    for cplx in (False, True):
        for exact in (True, False):
            for neg_idx in (False, True):
                for as_array in (False, True):
                    for layout in ("C", "F", "strided"):
                        for _ in range(6):
                            MS, refl, Phi = random_layout(
                                rng, cplx, exact, neg_idx, as_array, layout
                            )
                            MS_in = [m.copy(order="K") for m in MS]
                            r_new = new_gen.merge_mode_shapes(MS, refl)
                            r_old = orig_gen.merge_mode_shapes(MS, refl)
                            same_array(r_new, r_old, "merge_mode_shapes")
                            assert r_new.flags["C_CONTIGUOUS"] == r_old.flags["C_CONTIGUOUS"]
                            assert r_new.dtype == np.complex128
                            # inputs are not modified
                            for a, b in zip(MS, MS_in):
                                assert np.array_equal(a, b)
                            if exact:
                                # the property itself: global shape in the scale of setup 1
                                ref0 = refl[0]
                                k0 = MS[0][ref0[0], :] / Phi[0, :]
                                assert np.allclose(r_new, Phi * k0[None, :], rtol=1e-9)
                            n += 1
    # mixed dtypes: integer / float32 / real-complex mix
    for _ in range(40):
        MS, refl, _ = random_layout(rng, False)
        kind = rng.integers(0, 3)
        if kind == 0:
            MS = [np.round(m * 7).astype(int) + 1 for m in MS]
        elif kind == 1:
            MS = [m.astype(np.float32) for m in MS]
        else:
            MS = [m.astype(complex) * (1 + 0.3j) if i % 2 else m for i, m in enumerate(MS)]
        with np.errstate(all="ignore"):
            r_new = new_gen.merge_mode_shapes(MS, refl)
            r_old = orig_gen.merge_mode_shapes(MS, refl)
        same_array(r_new, r_old, "merge_mode_shapes mixed dtype")
        n += 1
    # NaN / zero reference rows (NaN pattern must be kept)
    for _ in range(20):
        MS, refl, _ = random_layout(rng, bool(rng.integers(0, 2)))
        s = int(rng.integers(0, len(MS)))
        MS[s] = MS[s].copy()
        if rng.random() < 0.5:
            MS[s][refl[s][0], 0] = np.nan
        else:
            MS[s][refl[s], 0] = 0.0
        with np.errstate(all="ignore"):
            r_new = new_gen.merge_mode_shapes(MS, refl)
            r_old = orig_gen.merge_mode_shapes(MS, refl)
        same_array(r_new, r_old, "merge_mode_shapes nan")
        n += 1
    # unit-test inputs
    MS = [np.array([[1, 2], [3, 4]]), np.array([[5, 6], [7, 8]])]
    same_array(
        new_gen.merge_mode_shapes(MS, [[0], [1]]),
        orig_gen.merge_mode_shapes(MS, [[0], [1]]),
        "unit test input",
    )
    # exceptions: different number of modes
    MS = [np.array([[1, 2], [3, 4]]), np.array([[5], [7]])]
    r_new = call(new_gen.merge_mode_shapes, MS, [[0], [1], [2]])
    r_old = call(orig_gen.merge_mode_shapes, MS, [[0], [1], [2]])
    assert r_new == r_old and r_new[1] is ValueError, (r_new, r_old)
    # exceptions: different number of reference sensors (type only; the message quotes
    # the shapes of the compared blocks)
    MS = [rng.standard_normal((4, 3)), rng.standard_normal((5, 3))]
    r_new = call(new_gen.merge_mode_shapes, MS, [[0, 1], [1, 2, 3]])
    r_old = call(orig_gen.merge_mode_shapes, MS, [[0, 1], [1, 2, 3]])
    assert r_new[0] == r_old[0] == "exc" and r_new[1] is r_old[1] is Exception
    # exceptions: reference index out of range
    r_new = call(new_gen.merge_mode_shapes, MS, [[0, 1], [1, 7]])
    r_old = call(orig_gen.merge_mode_shapes, MS, [[0, 1], [1, 7]])
    assert r_new[0] == r_old[0] == "exc" and r_new[1] is r_old[1] is IndexError
    return n


def check_msf(rng):
    n = 0
    for _ in range(300):
        nloc = int(rng.integers(1, 12))
        nm = int(rng.integers(1, 9))
        cplx = rng.random() < 0.5
        one_d = rng.random() < 0.3
        shape = (nloc,) if one_d else (nloc, nm)
        a = rng.standard_normal(shape)
        b = rng.standard_normal(shape)
        if cplx:
            a = a + 1j * rng.standard_normal(shape)
            b = b + 1j * rng.standard_normal(shape)
        if not one_d and rng.random() < 0.5:
            a, b = np.asfortranarray(a), np.asfortranarray(b)
        same_array(new_gen.MSF(a, b), orig_gen.MSF(a, b), "MSF")
        n += 1
    # 1D against a single column
    a = rng.standard_normal(5)
    b = rng.standard_normal((5, 1))
    same_array(new_gen.MSF(a, b), orig_gen.MSF(a, b), "MSF 1D/2D")
    # unit-test input
    p1, p2 = np.array([1.0, 2.0, 3.0]), np.array([1.5, 2.5, 4.2])
    same_array(new_gen.MSF(p1, p2), orig_gen.MSF(p1, p2), "MSF unit")
    # exceptions
    for sa, sb in (((4, 2), (5, 2)), ((4, 2), (4, 3)), ((4,), (5,))):
        r_new = call(new_gen.MSF, np.ones(sa), np.ones(sb))
        r_old = call(orig_gen.MSF, np.ones(sa), np.ones(sb))
        assert r_new == r_old and r_new[0] == "exc", (r_new, r_old)
        n += 1
    return n


def check_flatten(rng):
    n = 0
    for _ in range(200):
        n_setups = int(rng.integers(2, 6))
        n_ref = int(rng.integers(1, 5))
        names, refl = [], []
        for s in range(n_setups):
            n_ch = n_ref + int(rng.integers(0, 6))
            names.append([f"s{s}_ch{c}" for c in range(n_ch)])
            refl.append([int(p) for p in rng.permutation(n_ch)[:n_ref]])
        r_new = new_gen.flatten_sns_names(names, refl)
        r_old = orig_gen.flatten_sns_names(names, refl)
        assert r_new == r_old and type(r_new) is type(r_old)
        # DataFrame (rows padded with NaN / None)
        df = pd.DataFrame(names)
        r_new = new_gen.flatten_sns_names(df, refl)
        r_old = orig_gen.flatten_sns_names(df, refl)
        assert r_new == r_old
        # reference indices as arrays
        refa = [np.array(r) for r in refl]
        assert new_gen.flatten_sns_names(names, refa) == orig_gen.flatten_sns_names(
            names, refa
        )
        # consistency with the merged rows: same length as the merged mode shape
        MS = [rng.standard_normal((len(nm), 2)) for nm in names]
        assert len(r_new) == new_gen.merge_mode_shapes(MS, refl).shape[0]
        n += 3
    single = ["a", "b", "c"]
    for arg in (single, np.array(single), pd.DataFrame([single])):
        assert new_gen.flatten_sns_names(arg) == orig_gen.flatten_sns_names(arg)
    for args in (([["a", "b"], ["c", "d"]],), (3,), ([1, 2],), (np.ones((2, 2)),)):
        r_new = call(new_gen.flatten_sns_names, *args)
        r_old = call(orig_gen.flatten_sns_names, *args)
        assert r_new == r_old and r_new[0] == "exc", (r_new, r_old)
    return n


# ----------------------------------------------------------------------------
# calling layer: MultiSetup_PoSER
# ----------------------------------------------------------------------------
class _AlgA:
    def __init__(self, name, Fn, Xi, Phi):
        self.name = name
        self.result = types.SimpleNamespace(Fn=Fn, Xi=Xi, Phi=Phi)


class _AlgB(_AlgA):
    pass


def compare_poser(setups, refl, names):
    r = {}
    objs = {}
    for tag, mod in (("new", new_multi), ("old", orig_multi)):
        msp = mod.MultiSetup_PoSER(ref_ind=refl, single_setups=setups, names=names)
        assert msp.setups == list(setups) and msp.ref_ind is refl and msp.names is names
        try:
            _ = msp.result
            raise AssertionError("result available before merge")
        except ValueError as e:
            assert "merge_results" in str(e)
        out = msp.merge_results()
        assert out is msp.result
        first = dict(out)
        out2 = msp.merge_results()  # second call re-uses the same dictionary
        assert out2 is out and list(out2) == list(first)
        r[tag] = out
        objs[tag] = msp
    assert list(r["new"]) == list(r["old"])
    for key in r["new"]:
        a, b = r["new"][key], r["old"][key]
        assert type(a).__name__ == type(b).__name__ == "MsPoserResult"
        assert set(a.model_dump()) == set(b.model_dump())
        for field in ("Phi", "Fn", "Fn_cov", "Xi", "Xi_cov"):
            same_array(getattr(a, field), getattr(b, field), f"PoSER {key}.{field}")
    return r["new"]


def check_poser_synthetic(rng):
    n = 0
    for it in range(60):
        cplx = bool(it % 2)
        MS, refl, Phi = random_layout(rng, cplx, exact=bool(it % 3))
        MS2, _, _ = random_layout(rng, not cplx)  # unused layout, only to vary rng
        n_modes = MS[0].shape[1]
        n_alg = int(rng.integers(1, 3))
        names = ["first", "second"][:n_alg]
        if n_alg == 2 and rng.random() < 0.2:
            names = ["same", "same"]  # two positions share a name
        setups = []
        fn0 = np.sort(rng.uniform(0.5, 40, n_modes))
        xi0 = rng.uniform(0.002, 0.08, n_modes)
        for s, phi in enumerate(MS):
            algs = {}
            for j, cls in enumerate((_AlgA, _AlgB)[:n_alg]):
                fn = fn0 * (1 + 0.01 * rng.standard_normal(n_modes))
                xi = xi0 * (1 + 0.1 * rng.standard_normal(n_modes))
                if rng.random() < 0.1:
                    fn = fn.tolist()  # results given as plain lists
                    xi = xi.tolist()
                phi_j = phi if j == 0 else phi * rng.uniform(0.05, 20) * (-1) ** s
                algs[f"alg{j}_{s}"] = cls(f"alg{j}_{s}", fn, xi, phi_j)
            setups.append(types.SimpleNamespace(algorithms=algs))
        if names == ["same", "same"]:
            # grouping puts 2 x n_setups shapes in one group: reference list must match
            r_new = call(
                lambda: new_multi.MultiSetup_PoSER(refl, setups, names).merge_results()
            )
            r_old = call(
                lambda: orig_multi.MultiSetup_PoSER(refl, setups, names).merge_results()
            )
            assert r_new[0] == r_old[0], (r_new, r_old)
            if r_new[0] == "exc":
                assert r_new[1] is r_old[1]
            else:
                for f in ("Phi", "Fn", "Fn_cov", "Xi", "Xi_cov"):
                    same_array(
                        getattr(r_new[1]["same"], f), getattr(r_old[1]["same"], f), f
                    )
            continue
        out = compare_poser(setups, refl, names)
        # statement of the property on Fn / Xi
        res = out[names[0]]
        all_fn = np.array([list(s.algorithms.values())[0].result.Fn for s in setups])
        assert np.allclose(res.Fn, all_fn.mean(axis=0))
        assert np.allclose(res.Fn_cov, all_fn.std(axis=0, ddof=0) / all_fn.mean(axis=0))
        n += 1
    # constructor errors are the same
    ok = types.SimpleNamespace(
        algorithms={"a": _AlgA("a", np.ones(2), np.ones(2), np.ones((3, 2)))}
    )
    okb = types.SimpleNamespace(
        algorithms={"a": _AlgB("a", np.ones(2), np.ones(2), np.ones((3, 2)))}
    )
    empty = types.SimpleNamespace(algorithms={})
    notrun = types.SimpleNamespace(algorithms={"a": _AlgA("a", None, None, None)})
    for setups, names in (
        ([ok], ["x"]),
        (None, ["x"]),
        ([], ["x"]),
        ([ok, empty], ["x"]),
        ([ok, okb], ["x"]),
        ([ok, ok], ["x", "y"]),
        ([ok, notrun], ["x"]),
    ):
        r_new = call(new_multi.MultiSetup_PoSER, [[0], [0]], setups, names)
        r_old = call(orig_multi.MultiSetup_PoSER, [[0], [0]], setups, names)
        assert r_new[0] == r_old[0] == "exc" and r_new[1:] == r_old[1:], (r_new, r_old)
        n += 1
    return n


def check_poser_ssi(rng):
    """Setups whose shapes come from SSI runs on noise-free data of one global system."""
    from pyoma2.algorithms import SSIcov
    from pyoma2.setup import SingleSetup

    ndof, fs, T = 6, 50.0, 120.0
    K = 2 * np.eye(ndof) - np.eye(ndof, k=1) - np.eye(ndof, k=-1)
    K[-1, -1] = 1.0
    lam, V = np.linalg.eigh(K * 400.0)
    wn = np.sqrt(lam)
    fn = wn / 2 / np.pi
    xi = 0.01
    t = np.arange(int(T * fs)) / fs
    # noise-free free decay (sum of the modal responses)
    q = np.array(
        [
            np.exp(-xi * w * t) * np.cos(w * np.sqrt(1 - xi**2) * t + ph)
            for w, ph in zip(wn, rng.uniform(0, 2 * np.pi, ndof))
        ]
    )
    Y = (V @ q).T  # time x dof
    layouts = [[0, 1, 2, 3], [4, 1, 0], [1, 5, 0]]  # global dofs per setup channel
    refl = [[0, 1], [2, 1], [2, 0]]  # positions of dofs 0, 1 (non-ascending)
    amps = [1.0, -7.5, 0.08]
    setups = []
    for s, (chan, amp) in enumerate(zip(layouts, amps)):
        ss = SingleSetup(amp * Y[:, chan], fs=fs)
        alg = SSIcov(name=f"SSIcov{s}", method="cov_mm", br=15, ordmax=20)
        ss.add_algorithms(alg)
        ss.run_all()
        ss.mpe(f"SSIcov{s}", sel_freq=list(fn[:3]), order=12)
        setups.append(ss)
    names = ["ssi"]
    out = compare_poser(setups, refl, names)
    res = out["ssi"]
    assert res.Phi.shape == (2 + 2 + 1 + 1, 3)
    # informative: distance from the global shape (dofs 0,1,2,3,4,5) in the scale of setup 1
    glob = V[:, :3]
    k0 = res.Phi[0, :] / glob[0, :]
    err = np.max(np.abs(res.Phi - glob * k0[None, :])) / np.max(np.abs(res.Phi))
    return err


def main():
    rng = np.random.default_rng(20260402)
    n1 = check_merge(rng)
    n2 = check_msf(rng)
    n3 = check_flatten(rng)
    n4 = check_poser_synthetic(rng)
    err = check_poser_ssi(rng)
    print(
        f"merge_mode_shapes cases: {n1}; MSF cases: {n2}; flatten_sns_names cases: {n3}; "
        f"PoSER synthetic cases: {n4}; SSI end-to-end identical "
        f"(distance of the merged shape from the global one: {err:.2e}); "
        f"array comparisons (bitwise): {N_CHECKS}"
    )
    print("PASS")


if __name__ == "__main__":
    main()
