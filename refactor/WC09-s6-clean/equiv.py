"""
Differential test: CLEAN version of the commit against the unmodified library.

Run as:  PYTHONPATH=<tree>/src /venv/bin/python equiv.py   (with the CLEAN patch applied)

The pristine implementation is loaded from orig_gen.py / orig_ssi.py (copies of
src/pyoma2/functions/gen.py and src/pyoma2/algorithms/ssi.py at HEAD) that live next
to this script.  Compared, on randomly generated inputs / configurations:

  1. gen.applymask, HC_conj, HC_damp, HC_phi_comp (positional and keyword calls),
     HC_cov                                                        - function level
  2. SSIdat / SSIcov .run() (ref_ind, calc_unc, conj on/off ...)    - touched methods
  3. SSIdat_MS / SSIcov_MS .run()                                   - touched methods
  4. pLSCF / pLSCF_MS .run(), which call the touched gen routines from an
     untouched module, once with the new gen and once with the pristine gen

Outputs are compared with numpy.array_equal / allclose(rtol=1e-12, equal_nan=True),
raised exceptions are compared by type.  Prints PASS and exits 0 if all agree.
"""
import os

os.environ.setdefault("OMP_NUM_THREADS", "1")
os.environ.setdefault("OPENBLAS_NUM_THREADS", "1")
os.environ.setdefault("MKL_NUM_THREADS", "1")
import importlib.util  # noqa: E402
import logging  # noqa: E402
import sys  # noqa: E402
import warnings  # noqa: E402

import numpy as np  # noqa: E402

warnings.filterwarnings("ignore")
logging.disable(logging.CRITICAL)

HERE = os.path.dirname(os.path.abspath(__file__))

import pyoma2.functions.fdd as _ffdd  # noqa: E402
import pyoma2.functions.plscf as _fplscf  # noqa: E402
import pyoma2.functions.ssi as _fssi  # noqa: E402

for _m in (_fssi, _fplscf, _ffdd):  # no progress bars
    _m.trange = lambda *a, **k: range(*a)

import pyoma2.algorithms.plscf as new_plscf_mod  # noqa: E402
import pyoma2.algorithms.ssi as new_ssi  # noqa: E402
from pyoma2.functions import gen as new_gen  # noqa: E402
from pyoma2.setup import MultiSetup_PreGER, SingleSetup  # noqa: E402


def load(name, fname):
    spec = importlib.util.spec_from_file_location(name, os.path.join(HERE, fname))
    mod = importlib.util.module_from_spec(spec)
    sys.modules[name] = mod
    spec.loader.exec_module(mod)
    return mod


orig_gen = load("orig_gen", "orig_gen.py")
orig_ssi = load("pyoma2.algorithms._orig_ssi", "orig_ssi.py")
orig_ssi.gen = orig_gen  # the pristine classes use the pristine helpers

FAILS = []
COUNT = {"functions": 0, "ssi": 0, "ssi_ms": 0, "plscf": 0}


# ---------------------------------------------------------------------------
def equal(a, b):
    if a is None or b is None:
        return a is None and b is None
    if isinstance(a, (list, tuple)):
        return (
            isinstance(b, (list, tuple))
            and len(a) == len(b)
            and all(equal(x, y) for x, y in zip(a, b))
        )
    if isinstance(a, dict):
        return isinstance(b, dict) and a.keys() == b.keys() and all(equal(a[k], b[k]) for k in a)
    a_, b_ = np.asarray(a), np.asarray(b)
    if a_.shape != b_.shape:
        return False
    if a_.dtype.kind in "OUS" or b_.dtype.kind in "OUS":
        return bool(np.all(a_ == b_))
    if a_.dtype.kind != b_.dtype.kind:
        return False
    return bool(
        np.array_equal(a_, b_, equal_nan=True)
        or np.allclose(a_, b_, rtol=1e-12, atol=0.0, equal_nan=True)
    )


def call(f, *a, **k):
    try:
        return ("ok", f(*a, **k))
    except Exception as e:  # noqa: BLE001
        return ("exc", type(e).__name__)


STATS = {"ok": 0, "exc": 0, "poles_kept": 0}


def compare(tag, new, old):
    STATS[old[0]] += 1
    if old[0] == "ok" and isinstance(old[1], dict) and "Fn_poles" in old[1]:
        STATS["poles_kept"] += int(np.sum(~np.isnan(old[1]["Fn_poles"])))
    if new[0] != old[0]:
        FAILS.append(f"{tag}: new {new[0]} / old {old[0]} ({new[1] if new[0]=='exc' else ''}"
                     f"{old[1] if old[0]=='exc' else ''})")
    elif new[0] == "exc":
        if new[1] != old[1]:
            FAILS.append(f"{tag}: exception {new[1]} vs {old[1]}")
    elif not equal(new[1], old[1]):
        FAILS.append(f"{tag}: results differ")


# ---------------------------------------------------------------------------
# 1. function level
# ---------------------------------------------------------------------------
def random_tables(rng):
    npol = int(rng.integers(2, 9))
    nord = int(rng.integers(2, 9))  # non-square on purpose most of the time
    nch = int(rng.integers(1, 7))
    lam = -rng.random((npol, nord)) * 2 + 1j * rng.standard_normal((npol, nord)) * 20
    # a part of the poles comes in conjugate pairs, some damping is negative
    half = npol // 2
    lam[half : 2 * half] = np.conj(lam[:half])
    flip = rng.random(lam.shape) < 0.15
    lam = np.where(flip, -lam.real + 1j * lam.imag, lam)
    xi = -lam.real / np.abs(lam)
    fn = np.abs(lam) / 2 / np.pi
    phi = rng.standard_normal((npol, nord, nch)) + 1j * rng.standard_normal(
        (npol, nord, nch)
    ) * rng.random((npol, nord, 1))
    cov = rng.random((npol, nord)) * 0.4
    hole = rng.random((npol, nord)) < 0.2
    fn, xi, cov = (np.where(hole, np.nan, t) for t in (fn, xi, cov))
    lam = np.where(hole, np.nan, lam)
    phi = np.where(hole[:, :, None], np.nan, phi)
    return fn, xi, phi, lam, cov


def functions_level(rng, n=40):
    for it in range(n):
        fn, xi, phi, lam, cov = random_tables(rng)
        xi_max = float(rng.choice([0.05, 0.1, 0.3, 1.0, rng.random()]))
        mpc_lim = float(rng.choice([0.0, 0.5, 0.7, 0.95, 1.0, rng.random()]))
        mpd_lim = float(rng.choice([0.0, 0.1, 0.3, np.pi / 2, rng.random() * np.pi / 2]))
        cov_max = float(rng.choice([0.05, 0.2, 1.0, rng.random()]))
        mask = rng.random(fn.shape) < 0.6
        tag = f"functions #{it}"
        compare(tag + " HC_conj", call(new_gen.HC_conj, lam.copy()), call(orig_gen.HC_conj, lam.copy()))
        compare(tag + " HC_damp", call(new_gen.HC_damp, xi.copy(), xi_max), call(orig_gen.HC_damp, xi.copy(), xi_max))
        compare(
            tag + " HC_damp kw",
            call(new_gen.HC_damp, xi.copy(), max_damp=xi_max),
            call(orig_gen.HC_damp, xi.copy(), xi_max),
        )
        compare(
            tag + " HC_phi_comp positional",
            call(new_gen.HC_phi_comp, phi.copy(), mpc_lim, mpd_lim),
            call(orig_gen.HC_phi_comp, phi.copy(), mpc_lim, mpd_lim),
        )
        compare(
            tag + " HC_phi_comp keyword",
            call(new_gen.HC_phi_comp, phi.copy(), mpd_lim=mpd_lim, mpc_lim=mpc_lim),
            call(orig_gen.HC_phi_comp, phi.copy(), mpc_lim, mpd_lim),
        )
        compare(tag + " HC_cov", call(new_gen.HC_cov, cov.copy(), cov_max), call(orig_gen.HC_cov, cov.copy(), cov_max))
        compare(
            tag + " HC_cov kw",
            call(new_gen.HC_cov, cov.copy(), max_cov=cov_max),
            call(orig_gen.HC_cov, cov.copy(), cov_max),
        )
        lista = [fn, xi, phi, lam, cov, None]
        compare(
            tag + " applymask",
            call(new_gen.applymask, lista, mask, phi.shape[2]),
            call(orig_gen.applymask, lista, mask, phi.shape[2]),
        )
        # inputs must not be modified by the new routines either
        phi_c, xi_c, cov_c = phi.copy(), xi.copy(), cov.copy()
        new_gen.HC_phi_comp(phi_c, mpc_lim, mpd_lim)
        new_gen.HC_damp(xi_c, xi_max)
        new_gen.HC_cov(cov_c, cov_max)
        if not (equal(phi_c, phi) and equal(xi_c, xi) and equal(cov_c, cov)):
            FAILS.append(tag + ": an input array was modified")
        COUNT["functions"] += 1
    # malformed input: same exception type
    compare("functions bad type phi", call(new_gen.HC_phi_comp, None, 0.5, 0.5), call(orig_gen.HC_phi_comp, None, 0.5, 0.5))
    compare("functions bad type", call(new_gen.HC_damp, None, 0.5), call(orig_gen.HC_damp, None, 0.5))
    compare("functions bad type cov", call(new_gen.HC_cov, None, 0.5), call(orig_gen.HC_cov, None, 0.5))


# ---------------------------------------------------------------------------
# 2.-4. class level
# ---------------------------------------------------------------------------
def random_data(rng, N, nch):
    """a few noisy damped oscillators seen through a random mixing matrix"""
    t = np.arange(N)
    nm = nch + 1
    q = np.empty((N, nm))
    for m in range(nm):
        f = 0.03 + 0.4 * rng.random()
        z = 0.005 + 0.03 * rng.random()
        w = 2 * np.pi * f
        a1, a2 = 2 * np.exp(-z * w) * np.cos(w * np.sqrt(1 - z * z)), -np.exp(-2 * z * w)
        e = rng.standard_normal(N)
        y = np.zeros(N)
        for i in range(2, N):
            y[i] = a1 * y[i - 1] + a2 * y[i - 2] + e[i]
        q[:, m] = y / y.std()
    del t
    mix = rng.standard_normal((nm, nch))
    return q @ mix + 0.05 * rng.standard_normal((N, nch))


def random_hc(rng, with_cov=True):
    hc = dict(
        conj=bool(rng.random() < 0.7),
        xi_max=float(rng.choice([0.05, 0.1, 0.2, 1.0, 0.01 + rng.random()])),
        mpc_lim=float(rng.choice([0.0, 0.5, 0.7, 0.9, rng.random()])),
        mpd_lim=float(rng.choice([0.0, 0.15, 0.3, np.pi / 2, rng.random() * np.pi / 2])),
    )
    if with_cov:
        hc["cov_max"] = float(rng.choice([1e-4, 1e-2, 0.2, 10 ** rng.uniform(-5, 0)]))
    return hc


def result_of(setup, algo):
    setup.add_algorithms(algo)
    setup.run_by_name(algo.name)
    res = algo.result
    return {k: getattr(res, k) for k in type(res).model_fields}


def ssi_single(rng, n=14):
    for it in range(n):
        nch = int(rng.integers(2, 6))
        Y = random_data(rng, 1500, nch)
        kind = ["SSIcov", "SSIdat"][it % 2]
        calc_unc = it % 4 == 2  # SSIcov with uncertainty
        kw = dict(
            br=int(rng.integers(5, 10)),
            ordmax=int(rng.integers(6, 13)),
            hc=random_hc(rng),
            calc_unc=bool(calc_unc),
            nb=10,
        )
        if rng.random() < 0.4 and nch > 2:
            kw["ref_ind"] = sorted(rng.choice(nch, size=2, replace=False).tolist())
        if kind == "SSIcov" and not calc_unc and rng.random() < 0.5:
            kw["method"] = "cov_R"
        fs = float(rng.choice([10.0, 50.0, 100.0]))
        new = call(result_of, SingleSetup(Y.copy(), fs=fs), getattr(new_ssi, kind)(name="x", **kw))
        old = call(result_of, SingleSetup(Y.copy(), fs=fs), getattr(orig_ssi, kind)(name="x", **kw))
        compare(f"{kind} #{it} {kw}", new, old)
        COUNT["ssi"] += 1
    # a criteria dictionary with a missing key is rejected in the same way
    Y = random_data(rng, 800, 3)
    kw = dict(br=5, ordmax=6, hc=dict(conj=True, xi_max=0.1, mpc_lim=0.7))
    new = call(result_of, SingleSetup(Y.copy(), fs=10.0), new_ssi.SSIcov(name="x", **kw))
    old = call(result_of, SingleSetup(Y.copy(), fs=10.0), orig_ssi.SSIcov(name="x", **kw))
    compare("SSIcov missing key", new, old)


def multi_setup(rng, Ys, fs):
    return MultiSetup_PreGER(
        fs=fs, ref_ind=[[0, 1]] * len(Ys), datasets=[y.copy() for y in Ys]
    )


def ssi_multi(rng, n=8):
    for it in range(n):
        nset = int(rng.integers(2, 4))
        nch = int(rng.integers(3, 5))
        Ys = [random_data(rng, 1500, nch) for _ in range(nset)]
        kind = ["SSIcov_MS", "SSIdat_MS"][it % 2]
        kw = dict(br=int(rng.integers(5, 10)), ordmax=int(rng.integers(6, 13)), hc=random_hc(rng))
        fs = float(rng.choice([10.0, 50.0]))
        new = call(result_of, multi_setup(rng, Ys, fs), getattr(new_ssi, kind)(name="x", **kw))
        old = call(result_of, multi_setup(rng, Ys, fs), getattr(orig_ssi, kind)(name="x", **kw))
        compare(f"{kind} #{it} {kw}", new, old)
        COUNT["ssi_ms"] += 1


def plscf_classes(rng, n=8):
    for it in range(n):
        multi = it % 2 == 1
        nch = int(rng.integers(3, 6))
        kw = dict(
            ordmax=int(rng.integers(4, 10)),
            nxseg=int(rng.choice([128, 256])),
            method_SD=str(rng.choice(["per", "cor"])),
            hc=random_hc(rng, with_cov=False),
        )
        fs = float(rng.choice([10.0, 50.0]))
        if multi:
            Ys = [random_data(rng, 1500, nch) for _ in range(2)]
            mk = lambda: multi_setup(rng, Ys, fs)  # noqa: E731
            cls = new_plscf_mod.pLSCF_MS
        else:
            Y = random_data(rng, 1500, nch)
            mk = lambda: SingleSetup(Y.copy(), fs=fs)  # noqa: E731
            cls = new_plscf_mod.pLSCF
        new = call(result_of, mk(), cls(name="x", **kw))
        new_plscf_mod.gen = orig_gen
        try:
            old = call(result_of, mk(), cls(name="x", **kw))
        finally:
            new_plscf_mod.gen = new_gen
        compare(f"{cls.__name__} #{it} {kw}", new, old)
        COUNT["plscf"] += 1


def main():
    rng = np.random.default_rng(20240909)
    functions_level(rng)
    ssi_single(rng)
    ssi_multi(rng)
    plscf_classes(rng)
    print("cases:", COUNT)
    print("comparisons:", STATS)
    if FAILS:
        print("FAIL")
        for f in FAILS[:15]:
            print("  -", f[:300])
        sys.exit(1)
    print("PASS")
    sys.exit(0)


if __name__ == "__main__":
    main()
