"""
Equivalence check for the C18 refactoring (mode-shape indicators and their callers).

Runs the refactored code (src/pyoma2) against pristine copies of the touched files
(_refactor/orig_gen.py, _refactor/orig_plscf.py, taken from HEAD) and asserts
identical outputs (bit for bit, same type / dtype / shape / NaN pattern) or equal
exceptions.  Prints PASS and exits 0 on success.
"""

import importlib.util
import os

os.environ.setdefault("TQDM_DISABLE", "1")
import sys
import warnings

import numpy as np

HERE = os.path.dirname(os.path.abspath(__file__))
sys.path.insert(0, os.path.join(os.path.dirname(HERE), "src"))

import pyoma2.algorithms  # noqa: E402
from pyoma2.algorithms import plscf as new_plscf  # noqa: E402
from pyoma2.functions import fdd as fdd_mod  # noqa: E402
from pyoma2.functions import gen as new_gen  # noqa: E402
from pyoma2.functions import plscf as plscf_fun  # noqa: E402


def _load(name, filename):
    spec = importlib.util.spec_from_file_location(name, os.path.join(HERE, filename))
    mod = importlib.util.module_from_spec(spec)
    sys.modules[name] = mod
    spec.loader.exec_module(mod)
    return mod


orig_gen = _load("orig_gen", "orig_gen.py")
# loaded as a member of the package so that its relative import (.base) works
orig_plscf = _load("pyoma2.algorithms.orig_plscf", "orig_plscf.py")
# the pristine algorithm classes must call the pristine numerical routines
orig_plscf.gen = orig_gen

assert new_gen.__file__ != orig_gen.__file__
assert not hasattr(orig_plscf.pLSCF, "_validate_poles")
assert hasattr(new_plscf.pLSCF, "_validate_poles")

warnings.simplefilter("ignore")
np.seterr(all="ignore")

N_CMP = 0


def same(a, b, ctx):
    """Strict equality: type, dtype, shape, bits (NaN == NaN)."""
    global N_CMP
    N_CMP += 1
    if isinstance(a, (tuple, list)):
        assert type(a) is type(b) and len(a) == len(b), ctx
        for k, (x, y) in enumerate(zip(a, b)):
            same(x, y, f"{ctx}[{k}]")
        return
    if isinstance(a, dict):
        assert isinstance(b, dict) and list(a) == list(b), ctx
        for k in a:
            same(a[k], b[k], f"{ctx}[{k!r}]")
        return
    if a is None or isinstance(a, (str, bool, int)):
        assert type(a) is type(b) and a == b, ctx
        return
    assert type(a) is type(b), (ctx, type(a), type(b))
    aa, bb = np.asarray(a), np.asarray(b)
    assert aa.dtype == bb.dtype, (ctx, aa.dtype, bb.dtype)
    assert aa.shape == bb.shape, (ctx, aa.shape, bb.shape)
    assert np.array_equal(aa, bb, equal_nan=True), (ctx, aa, bb)
    # sign of zero / bit pattern of the finite entries
    if aa.dtype.kind in "fc":
        fin = np.isfinite(aa)
        assert np.array_equal(np.signbit(aa.real[fin]), np.signbit(bb.real[fin])), ctx


def call(f, *args, **kwargs):
    try:
        return ("ok", f(*args, **kwargs))
    except Exception as e:  # noqa: BLE001
        return ("exc", type(e), str(e))


def both(name, *args, **kwargs):
    r_new = call(getattr(new_gen, name), *args, **kwargs)
    r_old = call(getattr(orig_gen, name), *args, **kwargs)
    assert r_new[0] == r_old[0], (name, r_new, r_old)
    if r_new[0] == "exc":
        assert r_new[1:] == r_old[1:], (name, r_new, r_old)
    else:
        same(r_new[1], r_old[1], name)
    return r_new


# ---------------------------------------------------------------------------
# input generators covering the quantifier of the property
# ---------------------------------------------------------------------------
rng = np.random.default_rng(20240918)


def cscale():
    return 10.0 ** rng.uniform(-6, 6) * np.exp(1j * rng.uniform(0, 2 * np.pi))


def shape_vec(n, kind):
    v = rng.standard_normal(n) + 1j * rng.standard_normal(n)
    if kind == "generic":
        pass
    elif kind == "unit":  # normalised to a unit component
        v = v / v[np.argmax(np.abs(v))]
    elif kind == "zeros":  # some zero components
        v[rng.random(n) < 0.4] = 0
        if not np.any(v):
            v[0] = 1 + 1j
    elif kind == "collinear":  # complex multiple of a real vector
        v = rng.standard_normal(n) * cscale()
    elif kind == "collinear_zeros":
        r = rng.standard_normal(n)
        r[rng.random(n) < 0.4] = 0
        if not np.any(r):
            r[-1] = 2.0
        v = r * cscale()
    elif kind == "nearly":  # nearly collinear
        r = rng.standard_normal(n)
        v = (r + 1j * 10.0 ** rng.uniform(-16, -3) * rng.standard_normal(n)) * cscale()
    elif kind == "real":
        v = rng.standard_normal(n) + 0j
    elif kind == "imag":
        v = 1j * rng.standard_normal(n)
    elif kind == "int":
        v = rng.integers(-3, 4, n) + 1j * rng.integers(-3, 4, n)
        if not np.any(v):
            v[0] = 1
    else:
        raise ValueError(kind)
    return v


KINDS = [
    "generic",
    "unit",
    "zeros",
    "collinear",
    "collinear_zeros",
    "nearly",
    "real",
    "imag",
    "int",
]


def layouts(M):
    """The same values in different memory layouts / dtypes."""
    yield M
    yield np.asfortranarray(M)
    big = np.zeros((M.shape[0] * 2,) + M.shape[1:], dtype=M.dtype)
    big[::2] = M
    yield big[::2]  # strided view


# ---------------------------------------------------------------------------
# A. single-shape indicators MPC, MPD, MCF, and MAC / MSF of pairs
# ---------------------------------------------------------------------------
n_single = 0
for rep in range(60):
    for kind in KINDS:
        n = int(rng.integers(2, 65))
        v = shape_vec(n, kind)
        for w in (v, v * cscale(), v[::-1], np.conj(v)):
            for name in ("MPC", "MPD", "MCF"):
                both(name, w)
            c = rng.uniform(-1e6, 1e6)
            both("MSF", w, c * w)
            both("MSF", c * w, w)
            both("MAC", w, w * cscale())
            both("MAC", w, shape_vec(n, "generic"))
            if kind in ("collinear", "collinear_zeros"):
                both("MAC", w, w.real if np.any(w.real) else w.imag)
                both("MSF", w.real.copy(), c * w.real)
            n_single += 1

# real dtypes, complex64, read-only inputs
for rep in range(40):
    n = int(rng.integers(2, 65))
    r1, r2 = rng.standard_normal(n), rng.standard_normal(n)
    for name in ("MPC", "MPD", "MCF"):
        both(name, r1)
        both(name, (r1 + 1j * r2).astype(np.complex64))
    both("MAC", r1, r2)
    both("MAC", r1, r1 * 3.0)
    both("MAC", r1.astype(np.float32), (r2 + 1j * r1).astype(np.complex64))
    both("MAC", rng.integers(-5, 6, n), rng.integers(-5, 6, n) + 1)
    both("MSF", r1, r2)
    both("MSF", r1, -2.5 * r1)
    both("MSF", r1.astype(np.float32), r2.astype(np.float32))
    ro = r1 + 1j * r2
    ro.setflags(write=False)
    for name in ("MPC", "MPD", "MCF"):
        both(name, ro)
    both("MAC", ro, ro)

# ---------------------------------------------------------------------------
# B. sets of shapes (matrices): MAC, MSF, MCF
# ---------------------------------------------------------------------------
n_sets = 0
for rep in range(150):
    n = int(rng.integers(2, 65))
    m = int(rng.integers(1, 7))
    k = int(rng.integers(1, 7))
    X = np.column_stack([shape_vec(n, KINDS[rng.integers(len(KINDS))]) for _ in range(m)])
    A = np.column_stack([shape_vec(n, KINDS[rng.integers(len(KINDS))]) for _ in range(k)])
    X = X * np.array([cscale() for _ in range(m)])
    for XX in layouts(X):
        for AA in layouts(A):
            both("MAC", XX, AA)
            both("MAC", AA, XX)
        both("MAC", XX, XX)
        both("MAC", XX, XX * cscale())
        both("MAC", XX, XX[:, 0])
        both("MAC", XX[:, -1], XX)
        both("MCF", XX)
        B = XX * rng.uniform(-1e3, 1e3, m)
        both("MSF", XX, B)
        both("MSF", B, XX)
        both("MSF", XX, np.conj(XX))
        both("MSF", XX.real.copy(), B.real.copy())
    n_sets += 1

# degenerate inputs: zero shapes (NaN pattern), NaN / inf entries, empty sets,
# mismatching shapes, too many dimensions, wrong types
z = np.zeros(5, dtype=complex)
g = shape_vec(5, "generic")
G = np.column_stack([g, z, shape_vec(5, "real")])
for name in ("MPC", "MPD", "MCF"):
    both(name, z)
    both(name, np.zeros(4))
    both(name, np.array([np.nan, 1, 2]) + 0j)
    both(name, np.array([np.inf, 1, 2]) + 1j)
    both(name, np.array([1 + 1j]))
    both(name, [1 + 2j, 2 + 3j])
both("MCF", G)
both("MCF", np.zeros((5, 0), dtype=complex))
both("MAC", z, g)
both("MAC", g, z)
both("MAC", z, z)
both("MAC", G, G)
both("MAC", G, g)
both("MAC", np.zeros((5, 0), dtype=complex), G)
both("MAC", G, np.zeros((5, 0), dtype=complex))
both("MAC", np.zeros((5, 0)), np.zeros((5, 0)))
both("MAC", g, shape_vec(6, "generic"))
both("MAC", G, G[:4])
both("MAC", np.zeros((2, 2, 2)), np.zeros((2, 2)))
both("MAC", np.zeros((2, 2)), np.zeros((2, 2, 2)))
both("MAC", np.array([np.nan, 1, 2]) + 0j, np.array([1, 1, 2]) + 0j)
both("MAC", [1, 2], np.array([1, 2]))
both("MSF", z, g)
both("MSF", g, z)
both("MSF", G, G[:, ::-1])
both("MSF", G, G[:, :2])
both("MSF", g, shape_vec(6, "generic"))
both("MSF", G, g)
both("MSF", [1, 2], np.array([1, 2]))

# the values pinned by the unit tests
pin = np.array([1 + 2j, 2 + 3j, 3 + 4j])
for name in ("MPC", "MPD", "MCF"):
    both(name, pin)
both("MAC", pin, pin)
both("MSF", pin, pin)

# ---------------------------------------------------------------------------
# C. calling layer in gen: HC_phi_comp (MPC / MPD hard criteria) and SC_apply (MAC)
# ---------------------------------------------------------------------------
n_hc = 0
for rep in range(40):
    n_ord = int(rng.integers(1, 7))
    n_pol = int(rng.integers(1, 9))
    n_ch = int(rng.integers(2, 9))
    phi = np.empty((n_ord, n_pol, n_ch), dtype=complex)
    for o in range(n_ord):
        for i in range(n_pol):
            phi[o, i] = shape_vec(n_ch, KINDS[rng.integers(len(KINDS))]) * cscale()
    phi[rng.random((n_ord, n_pol)) < 0.25] = np.nan
    if rep % 7 == 0:
        phi[0, 0] = 0
    mpc_lim = rng.uniform(0, 1)
    mpd_lim = rng.uniform(0, 1.6)
    both("HC_phi_comp", phi, mpc_lim, mpd_lim)
    both("HC_phi_comp", phi, mpc_lim=mpc_lim, mpd_lim=mpd_lim)
    both("HC_phi_comp", phi.real.copy(), mpc_lim, mpd_lim)
    both("HC_phi_comp", phi, None, mpd_lim)
    both("HC_phi_comp", phi, mpc_lim, "x")
    Fn = rng.uniform(1, 20, (n_ord, n_pol)).T.copy()
    Xi = rng.uniform(0.001, 0.1, (n_ord, n_pol)).T.copy()
    Phi_sc = np.moveaxis(phi, 0, 1).copy()
    Fn[np.isnan(Phi_sc[:, :, 0])] = np.nan
    both("SC_apply", Fn, Xi, Phi_sc, 0, n_ord - 1, 1, 0.05, 0.5, 0.3)
    n_hc += 1
both("HC_phi_comp", np.zeros((2, 3)), 0.5, 0.5)
both("HC_phi_comp", np.zeros(3), 0.5, 0.5)
both("HC_phi_comp", np.zeros((0, 3, 4), dtype=complex), 0.5, 0.5)
both("HC_phi_comp", np.zeros((2, 0, 4), dtype=complex), 0.5, 0.5)
both("HC_phi_comp", np.ones((2, 3, 4), dtype=int), 0.5, 0.5)
both("HC_phi_comp", np.arange(24).reshape(2, 3, 4) % 3, 0.5, 0.5)

# merge_mode_shapes is the library caller of MSF
for rep in range(20):
    n_modes = int(rng.integers(1, 5))
    ms1 = rng.standard_normal((6, n_modes)) + 1j * rng.standard_normal((6, n_modes))
    ms2 = rng.standard_normal((5, n_modes)) + 1j * rng.standard_normal((5, n_modes))
    ms3 = rng.standard_normal((4, n_modes)) + 1j * rng.standard_normal((4, n_modes))
    both("merge_mode_shapes", [ms1, ms2, ms3], [[0, 3], [1, 2], [3, 0]])
    both("merge_mode_shapes", [ms1.real, ms2.real, ms3.real], [[0, 3], [1, 2], [3, 0]])


# ---------------------------------------------------------------------------
# D. algorithm classes: pLSCF.run / pLSCF_MS.run (original class + original gen
#    versus refactored class + refactored gen)
# ---------------------------------------------------------------------------
def result_dict(res):
    return res.model_dump() if hasattr(res, "model_dump") else dict(res.__dict__)


def run_pair(cls_name, data, fs, **params):
    out = []
    for mod in (new_plscf, orig_plscf):
        alg = getattr(mod, cls_name)(name="x", **params)
        alg.data = data
        alg.fs = fs
        alg.dt = 1 / fs
        r = call(alg.run)
        if r[0] == "ok":
            assert type(r[1]).__name__ == "pLSCFResult"
            r = ("ok", result_dict(r[1]))
        out.append(r)
    r_new, r_old = out
    assert r_new[0] == r_old[0], (cls_name, params, r_new, r_old)
    if r_new[0] == "exc":
        assert r_new[1:] == r_old[1:], (r_new, r_old)
    else:
        same(r_new[1], r_old[1], f"{cls_name}.run {params}")
    return r_new


def simulate(n_ch, n_t, fs, seed):
    """Response of a few lightly damped oscillators mixed into n_ch channels."""
    from scipy import signal

    r = np.random.default_rng(seed)
    t = np.arange(n_t) / fs
    y = np.zeros((n_t, n_ch))
    for f0, xi in ((2.0, 0.01), (5.5, 0.015), (9.0, 0.02)):
        w0 = 2 * np.pi * f0
        sysd = signal.cont2discrete(([w0**2], [1, 2 * xi * w0, w0**2]), 1 / fs)
        q = signal.lfilter(sysd[0].ravel(), sysd[1], r.standard_normal(n_t))
        y += np.outer(q, r.standard_normal(n_ch))
    y += 0.01 * r.standard_normal(y.shape)
    del t
    return y


fs = 50.0
data = simulate(4, 6000, fs, 1)
PARAMS = [
    dict(ordmax=8, nxseg=256),
    dict(ordmax=10, ordmin=2, nxseg=256, method_SD="cor"),
    dict(
        ordmax=8,
        nxseg=256,
        hc=dict(conj=False, xi_max=0.2, mpc_lim=0.5, mpd_lim=0.6),
        sc=dict(err_fn=0.05, err_xi=0.2, err_phi=0.1),
    ),
    dict(ordmax=6, nxseg=128, hc=dict(conj=True, xi_max=0.05, mpc_lim=0.9, mpd_lim=0.1)),
    # hand-over errors must be the same errors
    dict(ordmax=6, nxseg=128, hc=dict(conj=True, xi_max=0.1, mpc_lim=0.7)),
    dict(ordmax=6, nxseg=128, hc=dict(xi_max=0.1, mpd_lim=0.7)),
    dict(ordmax=6, nxseg=128, sc=dict(err_fn=0.01, err_xi=0.05)),
]
n_runs = 0
n_stable = 0
n_kept = 0
kinds_seen = set()
for p in PARAMS:
    r = run_pair("pLSCF", data, fs, **p)
    kinds_seen.add(r[0])
    if r[0] == "ok":
        n_stable += int(np.sum(r[1]["Lab"]))
        n_kept += int(np.sum(~np.isnan(r[1]["Fn_poles"])))
    n_runs += 1
assert n_stable > 0 and n_kept > n_stable, (n_stable, n_kept)
assert kinds_seen == {"ok", "exc"}, kinds_seen

# multi-setup variant
d1 = simulate(4, 5000, fs, 2)
d2 = simulate(4, 5000, fs, 3)
ms_data = new_gen.pre_multisetup([d1, d2], [[0, 1], [0, 1]])
for p in PARAMS[:4] + PARAMS[4:5]:
    run_pair("pLSCF_MS", ms_data, fs, **p)
    n_runs += 1

# canned random poles: the numerical front end is replaced by stubs so that the
# hand-over to the hard / soft criteria sees many different pole tables
_saved = (plscf_fun.pLSCF, plscf_fun.pLSCF_poles, fdd_mod.SD_est)
try:
    for rep in range(25):
        n_ord = int(rng.integers(2, 8))
        n_pol = int(rng.integers(2, 10))
        n_ch = int(rng.integers(2, 7))
        seed = int(rng.integers(1 << 30))

        def fake_poles(Ad, Bn, dt, methodSy, nxseg, seed=seed, s=(n_ord, n_pol, n_ch)):
            r = np.random.default_rng(seed)
            n_ord, n_pol, n_ch = s
            base = r.uniform(1, 20, n_pol)[:, None]
            Fns = base * (1 + 0.004 * r.standard_normal((n_pol, n_ord)))
            Xis = r.uniform(-0.02, 0.15, (n_pol, n_ord))
            shp = r.standard_normal((n_pol, 1, n_ch)) * np.exp(
                1j * r.uniform(0, 6.28, (n_pol, n_ord, 1))
            )
            Phis = shp + 0.2 * r.random() * (
                r.standard_normal((n_pol, n_ord, n_ch))
                + 1j * r.standard_normal((n_pol, n_ord, n_ch))
            )
            lam = r.standard_normal((n_pol, n_ord)) + 1j * r.standard_normal((n_pol, n_ord))
            half = n_pol // 2
            lam[half : 2 * half] = np.conj(lam[:half])
            hole = r.random((n_pol, n_ord)) < 0.15
            Fns[hole] = np.nan
            Xis[hole] = np.nan
            Phis[hole] = np.nan
            return Fns, Xis, Phis, lam

        plscf_fun.pLSCF = lambda Sy, dt, ordmax, sgn_basf: ([np.zeros(1)], [np.zeros(1)])
        plscf_fun.pLSCF_poles = fake_poles
        fdd_mod.SD_est = lambda *a, **k: (np.arange(3.0), np.zeros((2, 2, 3)))
        hc = dict(
            conj=bool(rep % 2),
            xi_max=float(rng.uniform(0.05, 0.2)),
            mpc_lim=float(rng.uniform(0.2, 0.95)),
            mpd_lim=float(rng.uniform(0.1, 1.0)),
        )
        sc = dict(
            err_fn=float(rng.uniform(0.001, 0.05)),
            err_xi=float(rng.uniform(0.05, 2.0)),
            err_phi=float(rng.uniform(0.01, 0.5)),
        )
        r = run_pair(
            "pLSCF",
            np.zeros((10, 2)),
            fs,
            ordmax=n_ord,
            ordmin=int(rng.integers(0, 2)),
            nxseg=16,
            hc=hc,
            sc=sc,
        )
        assert r[0] == "ok", r
        n_stable += int(np.sum(r[1]["Lab"]))
        n_kept += int(np.sum(~np.isnan(r[1]["Fn_poles"])))
        n_runs += 1
finally:
    plscf_fun.pLSCF, plscf_fun.pLSCF_poles, fdd_mod.SD_est = _saved

print(
    f"single shapes: {n_single}, shape sets: {n_sets}, HC/SC tables: {n_hc}, "
    f"algorithm runs: {n_runs} (poles kept: {n_kept}, labelled stable: {n_stable}), "
    f"comparisons: {N_CMP}"
)
print("PASS")
