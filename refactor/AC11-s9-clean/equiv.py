"""
Differential test: the library in <tree>/src (CLEAN version applied) against the
pristine implementation saved next to this file as orig_functions_ssi.py and
orig_algorithms_ssi.py.

Run as:  PYTHONPATH=<tree>/src /venv/bin/python equiv.py
"""

import importlib.util
import logging
import os
import sys

os.environ.setdefault("TQDM_DISABLE", "1")

import numpy as np  # noqa: E402

logging.disable(logging.CRITICAL)
HERE = os.path.dirname(os.path.abspath(__file__))


def load(name, fname):
    spec = importlib.util.spec_from_file_location(name, os.path.join(HERE, fname))
    mod = importlib.util.module_from_spec(spec)
    sys.modules[name] = mod
    spec.loader.exec_module(mod)
    return mod


import pyoma2.algorithms.ssi as new_alg  # noqa: E402
import pyoma2.functions.ssi as new_fn  # noqa: E402
from pyoma2.algorithms.data.result import SSIResult  # noqa: E402

orig_fn = load("pyoma2.functions._orig_ssi", "orig_functions_ssi.py")
orig_alg = load("pyoma2.algorithms._orig_ssi", "orig_algorithms_ssi.py")
orig_alg.ssi = orig_fn  # the pristine classes call the pristine functions


def same(a, b):
    if isinstance(a, Exception) or isinstance(b, Exception):
        return type(a) is type(b)
    if isinstance(a, (tuple, list)) and isinstance(b, (tuple, list)):
        return len(a) == len(b) and all(same(x, y) for x, y in zip(a, b))
    if a is None or b is None:
        return a is None and b is None
    a_, b_ = np.asarray(a), np.asarray(b)
    if a_.shape != b_.shape or a_.dtype != b_.dtype:
        return False
    return np.array_equal(a_, b_, equal_nan=True) or np.allclose(
        a_, b_, rtol=1e-12, atol=0, equal_nan=True
    )


def call(f, *a, **k):
    try:
        return f(*a, **k)
    except Exception as e:  # noqa: BLE001
        return e


def make_case(rng):
    n_poles = int(rng.integers(3, 16))
    n_ord = int(rng.integers(4, 22))
    n_ch = int(rng.integers(1, 7))
    n_modes = int(rng.integers(1, 5))
    modes = np.sort(rng.uniform(0.5, 20.0, n_modes))
    kind = rng.choice(["structured", "uniform"])
    if kind == "uniform":
        Fn = rng.uniform(0.3, 21.0, (n_poles, n_ord))
    else:
        Fn = np.full((n_poles, n_ord), np.nan)
        for oo in range(n_ord):
            rows = list(rng.permutation(n_poles))
            for f in modes:
                if rows and rng.random() < 0.8:
                    Fn[rows.pop(), oo] = f * (1 + rng.uniform(-0.03, 0.03))
            while rows and rng.random() < 0.6:
                Fn[rows.pop(), oo] = rng.uniform(0.3, 21.0)
    Fn[rng.random(Fn.shape) < rng.choice([0.0, 0.1, 0.4])] = np.nan
    if rng.random() < 0.15:
        Fn[:, int(rng.integers(0, n_ord))] = np.nan  # an order without poles
    Xi = rng.uniform(0.001, 0.1, Fn.shape)
    Phi = rng.normal(size=Fn.shape + (n_ch,)) + 1j * rng.normal(size=Fn.shape + (n_ch,))
    if rng.random() < 0.3:
        Phi = Phi.real.copy()
    Lab = (rng.random(Fn.shape) < 0.7).astype(int)
    if rng.random() < 0.5:
        cov = dict(
            Fn_cov=rng.uniform(0, 1e-2, Fn.shape),
            Xi_cov=rng.uniform(0, 1e-2, Fn.shape),
            Phi_cov=rng.uniform(0, 1e-2, Fn.shape + (n_ch,)),
        )
    else:
        cov = dict(Fn_cov=None, Xi_cov=None, Phi_cov=None)
    sel_freq = list(modes * (1 + rng.uniform(-0.01, 0.01, n_modes)))
    if rng.random() < 0.2:
        sel_freq = [float(round(f)) + 1.0 for f in sel_freq]
    if rng.random() < 0.1:
        sel_freq = [int(round(f)) + 1 for f in sel_freq]
    rtol = float(rng.choice([1e-3, 1e-2, 2e-2, 5e-2, 0.2, 0.0]))
    r = rng.random()
    if r < 0.3:
        order = int(rng.integers(0, n_ord))
    elif r < 0.35:
        order = -int(rng.integers(1, n_ord))
    elif r < 0.7:
        n = n_modes + int(rng.choice([0, 0, 0, 1, -1]))
        order = [int(o) for o in rng.integers(0, n_ord, max(n, 0))]
    elif r < 0.9:
        order = "find_min"
    elif r < 0.95:
        order = "invalid"
    else:
        order = 2.5
    if order == "find_min" and rng.random() < 0.1:
        Lab = None
    return sel_freq, Fn, Xi, Phi, order, Lab, rtol, cov


def make_alg(mod, tabs):
    sel_freq, Fn, Xi, Phi, order, Lab, rtol, cov = tabs
    alg = mod.SSIcov(name="SSIcov", br=10, ordmax=Fn.shape[1] - 1)
    alg.result = SSIResult(
        Fn_poles=Fn.copy(), Xi_poles=Xi.copy(), Phi_poles=Phi.copy(),
        Lab=None if Lab is None else Lab.copy(),
        Fn_poles_cov=cov["Fn_cov"], Xi_poles_cov=cov["Xi_cov"],
        Phi_poles_cov=cov["Phi_cov"],
    )
    return alg


def alg_state(alg, exc):
    if isinstance(exc, Exception):
        return exc
    r, p = alg.result, alg.run_params
    return (
        r.Fn, r.Xi, r.Phi, r.order_out, r.Fn_cov, r.Xi_cov, r.Phi_cov,
        r.Fn_poles, r.Xi_poles, r.Phi_poles,
        p.rtol,
    )


class FakeSFP:
    picks = ([], [])

    def __init__(self, algo, freqlim=None, plot="SSI"):
        self.result = FakeSFP.picks


def main():
    rng = np.random.default_rng(20240611)
    n_bad = 0
    stats = {"ok": 0, "exc": 0}
    N = 400
    for it in range(N):
        case = make_case(rng)
        sel_freq, Fn, Xi, Phi, order, Lab, rtol, cov = case

        # --- functions: SSI_mpe
        a = call(orig_fn.SSI_mpe, sel_freq, Fn.copy(), Xi, Phi, order, Lab=Lab, rtol=rtol, **cov)
        b = call(new_fn.SSI_mpe, sel_freq, Fn.copy(), Xi, Phi, order, Lab=Lab, rtol=rtol, **cov)
        stats["exc" if isinstance(a, Exception) else "ok"] += 1
        if not same(a, b):
            n_bad += 1
            print(f"[{it}] SSI_mpe differs: order={order} rtol={rtol} sel_freq={sel_freq}")
            print("   orig:", a if isinstance(a, Exception) else [np.asarray(x) for x in a[:4]])
            print("   new :", b if isinstance(b, Exception) else [np.asarray(x) for x in b[:4]])

        # positional call, as in the unit tests
        a = call(orig_fn.SSI_mpe, sel_freq, Fn, Xi, Phi, order, Lab)
        b = call(new_fn.SSI_mpe, sel_freq, Fn, Xi, Phi, order, Lab)
        if not same(a, b):
            n_bad += 1
            print(f"[{it}] SSI_mpe (positional, default rtol) differs: order={order}")

        # --- classes: mpe
        A, B = make_alg(orig_alg, case), make_alg(new_alg, case)
        ea = call(A.mpe, sel_freq=sel_freq, order=order, rtol=rtol)
        eb = call(B.mpe, sel_freq=sel_freq, order=order, rtol=rtol)
        if not same(alg_state(A, ea), alg_state(B, eb)):
            n_bad += 1
            print(f"[{it}] SSIcov.mpe differs: order={order} rtol={rtol}")
        # second call on the same object with another request
        order2 = int(rng.integers(0, Fn.shape[1]))
        ea = call(A.mpe, sel_freq[:1], order2)
        eb = call(B.mpe, sel_freq[:1], order2)
        if not same(alg_state(A, ea), alg_state(B, eb)):
            n_bad += 1
            print(f"[{it}] SSIcov.mpe (second call) differs: order={order2}")

        # --- classes: mpe_from_plot (interactive selection replaced by a stub)
        if isinstance(order, list) and len(order) >= len(sel_freq):
            FakeSFP.picks = (sel_freq, order)
            orig_alg.SelFromPlot = FakeSFP
            saved = new_alg.SelFromPlot
            new_alg.SelFromPlot = FakeSFP
            try:
                A, B = make_alg(orig_alg, case), make_alg(new_alg, case)
                kw = {} if it % 2 else {"rtol": rtol}
                ea = call(A.mpe_from_plot, **kw)
                eb = call(B.mpe_from_plot, **kw)
            finally:
                new_alg.SelFromPlot = saved
            if not same(alg_state(A, ea), alg_state(B, eb)):
                n_bad += 1
                print(f"[{it}] SSIcov.mpe_from_plot differs: order={order}")

    print(f"{N} random cases ({stats['ok']} returning, {stats['exc']} raising in the original)")
    if n_bad:
        print(f"FAIL: {n_bad} differences")
        return 1
    print("PASS")
    return 0


if __name__ == "__main__":
    sys.exit(main())
