"""
Equivalence check for the C16 refactoring (interactive pole picking).

Runs the ORIGINAL code (pristine copies orig_*.py, taken from HEAD) and the
REFACTORED code (the package under src/) on the same inputs and asserts that every
observable is identical:

  A. exhaustive: every sequence of up to 4 actions (plus the same sequences with the
     modifier key already held) over a small pole table / frequency axis, for the
     SSI, pLSCF and FDD variants of the dialog; state compared after EVERY event.
  B. random: sequences of up to 6 actions on random pole tables (NaN holes, ties,
     all-NaN orders, clicks outside the axes -> xdata None), with the real matplotlib
     Figure and the real stab_plot / CMIF_plot.
  C. end to end: SingleSetup.mpe_from_plot for SSIcov, pLSCF and FDD, original vs.
     refactored algorithm classes, comparing result.{Fn,Xi,Phi,order_out,*_cov}.

The dialog is driven head-less: tkinter.Tk / tkinter.Menu / FigureCanvasTkAgg /
NavigationToolbar2Tk are replaced by dummies and the fake ``mainloop`` fires the
scripted events through the callbacks that the dialog itself registered with
``fig.canvas.mpl_connect`` (so the wiring event -> handler is exercised too).

Prints PASS and exits 0 on success.
"""

from __future__ import annotations

import contextlib
import importlib.util
import itertools
import logging
import os
import sys
import tkinter
from types import SimpleNamespace
from unittest import mock

import matplotlib

matplotlib.use("Agg")
import matplotlib.pyplot as plt  # noqa: E402
import numpy as np  # noqa: E402
from matplotlib.cbook import CallbackRegistry  # noqa: E402

HERE = os.path.dirname(os.path.abspath(__file__))
logging.disable(logging.CRITICAL)


def _load(name: str, filename: str):
    spec = importlib.util.spec_from_file_location(name, os.path.join(HERE, filename))
    mod = importlib.util.module_from_spec(spec)
    sys.modules[name] = mod
    spec.loader.exec_module(mod)
    return mod


import pyoma2.algorithms.fdd as new_fdd  # noqa: E402
import pyoma2.algorithms.plscf as new_plscf  # noqa: E402
import pyoma2.algorithms.ssi as new_ssi  # noqa: E402
import pyoma2.support.sel_from_plot as new_sel  # noqa: E402

assert new_sel.__file__.startswith("/tmp/wt/R16/src/"), new_sel.__file__

orig_sel = _load("orig_sel_from_plot", "orig_sel_from_plot.py")
# loaded under a name inside the package so that their relative imports resolve
orig_ssi = _load("pyoma2.algorithms._orig_ssi", "orig_ssi.py")
orig_plscf = _load("pyoma2.algorithms._orig_plscf", "orig_plscf.py")
# the pristine algorithm modules must talk to the pristine dialog
orig_ssi.SelFromPlot = orig_sel.SelFromPlot
orig_plscf.SelFromPlot = orig_sel.SelFromPlot
assert new_ssi.SelFromPlot is new_sel.SelFromPlot
assert new_plscf.SelFromPlot is new_sel.SelFromPlot
assert new_fdd.SelFromPlot is new_sel.SelFromPlot


# ----------------------------------------------------------------------------------
# events
# ----------------------------------------------------------------------------------
def key_down(key="shift"):
    return SimpleNamespace(name="key_press_event", key=key)


def key_up(key="shift"):
    return SimpleNamespace(name="key_release_event", key=key)


def click(button, x, y):
    return SimpleNamespace(name="button_press_event", button=button, xdata=x, ydata=y)


def pick(x, y):
    return click(1, x, y)


def desel_last(x=0.0, y=0.0):
    return click(3, x, y)


def desel_near(x, y=0.0):
    return click(2, x, y)


# ----------------------------------------------------------------------------------
# light-weight GUI fakes (used for the exhaustive part, where speed matters)
# ----------------------------------------------------------------------------------
class _Dummy:
    """Accepts any attribute access / call and does nothing."""

    def __init__(self, *a, **k):
        pass

    def __getattr__(self, name):
        return _Dummy()

    def __call__(self, *a, **k):
        return _Dummy()


class _FakeLine:
    def __init__(self, x, y):
        self.x, self.y = np.array(x, dtype=float), np.array(y, dtype=float)

    def set_xdata(self, x):
        self.x = np.array(x, dtype=float)

    def set_ydata(self, y):
        self.y = np.array(y, dtype=float)

    def get_xdata(self):
        return self.x

    def get_ydata(self):
        return self.y


class _FakeAxes:
    def plot(self, x, y, *a, **k):
        return (_FakeLine(x, y),)

    def clear(self):
        pass

    def grid(self, *a, **k):
        pass


class _FakeCanvas:
    def __init__(self):
        self.callbacks = CallbackRegistry()

    def mpl_connect(self, name, func):
        return self.callbacks.connect(name, func)

    def draw_idle(self):
        pass


class _FakeFigure:
    def __init__(self, *a, **k):
        self.canvas = _FakeCanvas()
        self._ax = _FakeAxes()

    def add_subplot(self, *a, **k):
        return self._ax

    def savefig(self, *a, **k):
        pass


# ----------------------------------------------------------------------------------
# head-less driver
# ----------------------------------------------------------------------------------
def _snapshot(inst):
    """Everything observable on the dialog that relates to the selection."""
    ind_name = "freq_ind" if inst.plot == "FDD" else "pole_ind"
    ind = getattr(inst, ind_name)
    marker = getattr(inst, "MARKER", None)
    return {
        "sel_freq": [(type(v).__name__, float(v)) for v in inst.sel_freq],
        "sel_freq_type": type(inst.sel_freq).__name__,
        ind_name: [(type(v).__name__, int(v)) for v in ind],
        ind_name + "_type": type(ind).__name__,
        "other_ind_present": hasattr(inst, "pole_ind" if inst.plot == "FDD" else "freq_ind"),
        "shift": inst.shift_is_held,
        "x_data_pole": repr(getattr(inst, "x_data_pole", "<unset>")),
        "y_data_pole": repr(getattr(inst, "y_data_pole", "<unset>")),
        "marker_x": None if marker is None else np.asarray(marker.get_xdata(), float).tolist(),
        "marker_y": None if marker is None else np.asarray(marker.get_ydata(), float).tolist(),
    }


@contextlib.contextmanager
def headless(sel_mod, script, log, light):
    """
    Patch the GUI of ``sel_mod`` so that constructing SelFromPlot replays ``script``.
    ``log`` receives one entry per event: (exception-or-None, snapshot).
    """
    figs = []
    real_figure = sel_mod.Figure

    def make_fig(*a, **k):
        f = _FakeFigure(*a, **k) if light else real_figure(*a, **k)
        figs.append(f)
        return f

    def own_handlers(cbs, name):
        """Handlers registered by the dialog itself (a real Figure also carries
        matplotlib's default handlers, which need genuine backend events)."""
        own = []
        for ref in cbs.callbacks.get(name, {}).values():
            h = ref()
            bound_to = getattr(h, "__self__", None)
            code = getattr(h, "__code__", None)
            if isinstance(bound_to, sel_mod.SelFromPlot) or (
                code is not None and code.co_filename == sel_mod.__file__
            ):
                own.append(h)
        return own

    def mainloop():
        fig = figs[-1]
        cbs = fig.canvas.callbacks
        names = ("key_press_event", "key_release_event", "button_press_event")
        handlers = {name: own_handlers(cbs, name) for name in names}
        # the dialog registers exactly one handler per event type
        for name in names:
            assert len(handlers[name]) == 1, (name, handlers[name])
        inst = handlers["key_press_event"][0].__self__
        assert isinstance(inst, sel_mod.SelFromPlot)
        log.append((None, _snapshot(inst)))
        for ev in script:
            exc = None
            try:
                handlers[ev.name][0](ev)
            except Exception as e:  # the Tk loop would print it and carry on
                exc = (type(e).__name__, str(e))
            log.append((exc, _snapshot(inst)))

    def make_root(*a, **k):
        root = _Dummy()
        root.mainloop = mainloop
        return root

    patches = [
        mock.patch.object(tkinter, "Tk", make_root),
        mock.patch.object(tkinter, "Menu", _Dummy),
        mock.patch.object(sel_mod, "FigureCanvasTkAgg", _Dummy),
        mock.patch.object(sel_mod, "NavigationToolbar2Tk", _Dummy),
        mock.patch.object(sel_mod, "Figure", make_fig),
    ]
    if light:
        patches += [
            mock.patch.object(sel_mod, "stab_plot", lambda *a, **k: None),
            mock.patch.object(sel_mod, "CMIF_plot", lambda *a, **k: None),
        ]
    with contextlib.ExitStack() as st:
        for p in patches:
            st.enter_context(p)
        yield


def run_dialog(sel_mod, algo, kind, script, freqlim=None, light=False):
    log = []
    with headless(sel_mod, script, log, light):
        try:
            dlg = sel_mod.SelFromPlot(algo=algo, freqlim=freqlim, plot=kind)
            res = dlg.result
            out = (
                "ok",
                type(res).__name__,
                len(res),
                [(type(v).__name__, float(v)) for v in res[0]],
                type(res[0]).__name__,
                None if res[1] is None else [(type(v).__name__, int(v)) for v in res[1]],
                type(res[1]).__name__,
                res[0] is dlg.sel_freq,
                None if res[1] is None else res[1] is dlg.pole_ind,
            )
        except Exception as e:
            out = ("raised", type(e).__name__, str(e))
    return out, log


def same(a, b):
    """Strict structural equality, NaN == NaN."""
    if type(a) is not type(b):
        return False
    if isinstance(a, dict):
        return a.keys() == b.keys() and all(same(a[k], b[k]) for k in a)
    if isinstance(a, (list, tuple)):
        return len(a) == len(b) and all(same(x, y) for x, y in zip(a, b))
    if isinstance(a, float):
        return a == b or (a != a and b != b)
    if isinstance(a, np.ndarray):
        return a.dtype == b.dtype and a.shape == b.shape and np.array_equal(a, b, equal_nan=a.dtype.kind in "fc")
    return a == b


def describe(script):
    out = []
    for ev in script:
        if ev.name.startswith("key"):
            out.append(f"{ev.name}:{ev.key}")
        else:
            out.append(f"btn{ev.button}@({ev.xdata},{ev.ydata})")
    return " ; ".join(out)


def compare_dialogs(algo, kind, script, freqlim=None, light=False):
    o = run_dialog(orig_sel, algo, kind, script, freqlim, light)
    n = run_dialog(new_sel, algo, kind, script, freqlim, light)
    if not same(o, n):
        print("MISMATCH for", kind, "script:", describe(script))
        print(" orig:", o)
        print(" new :", n)
        raise SystemExit(1)
    return o


# ----------------------------------------------------------------------------------
# fake algorithm objects (only what the dialog reads)
# ----------------------------------------------------------------------------------
def stab_algo(Fn_poles, Lab=None, fs=20.0):
    n_ord = Fn_poles.shape[1]
    if Lab is None:
        Lab = np.where(np.isnan(Fn_poles), 0, 1)
    return SimpleNamespace(
        fs=fs,
        result=SimpleNamespace(Fn_poles=Fn_poles, Lab=Lab),
        run_params=SimpleNamespace(ordmin=0, ordmax=n_ord - 1, step=1),
    )


def fdd_algo(freq, S_val, fs=20.0):
    return SimpleNamespace(fs=fs, result=SimpleNamespace(freq=freq, S_val=S_val))


# ----------------------------------------------------------------------------------
# A. exhaustive enumeration over a small table
# ----------------------------------------------------------------------------------
def part_A():
    nan = np.nan
    table = np.array(
        [
            [nan, 1.0, 1.0, 1.1],
            [nan, nan, 2.0, 2.0],
            [nan, 3.0, nan, 3.0],
        ]
    )  # order 0 has no pole at all; 1.0 and 2.0 appear at two orders (ties)
    stab_alphabet = [
        key_down(),
        key_up(),
        pick(1.04, 1.2),  # -> order 1
        pick(2.4, 2.6),  # -> order 3
        pick(1.5, 1.5),  # tie between orders 1/2 and between poles 1.0/2.0
        pick(3.0, 0.1),  # order 0: all NaN -> nanargmin raises
        pick(2.9, 3.4),  # -> order 3, above the table
        desel_last(),
        desel_near(1.05),
        desel_near(2.5),
    ]
    freq = np.linspace(0.0, 5.0, 11)
    rng = np.random.default_rng(0)
    S_val = np.abs(rng.standard_normal((2, 2, 11))) + 0.1
    fdd_alphabet = [
        key_down(),
        key_up(),
        pick(1.04, -3.0),
        pick(2.25, -10.0),  # exactly between two lines
        pick(1.1, 0.0),  # same line as the first pick -> duplicate entry
        pick(7.0, 1.0),  # beyond the axis -> last line
        pick(-1.0, 1.0),
        desel_last(),
        desel_near(1.05),
        desel_near(2.5),
    ]
    n = 0
    picked_nonempty = 0
    for kind, algo, alphabet in (
        ("SSI", stab_algo(table), stab_alphabet),
        ("pLSCF", stab_algo(table), stab_alphabet),
        ("FDD", fdd_algo(freq, S_val), fdd_alphabet),
    ):
        for prefix in ([], [key_down()]):
            for length in range(0, 5):
                for seq in itertools.product(alphabet, repeat=length):
                    script = prefix + list(seq)
                    out, log = compare_dialogs(algo, kind, script, light=True)
                    assert out[0] == "ok" and len(log) == len(script) + 1, out
                    n += 1
                    if out[3]:
                        picked_nonempty += 1
    assert picked_nonempty > 1000, picked_nonempty
    return n, picked_nonempty


# ----------------------------------------------------------------------------------
# B. random tables / random histories, real Figure and real plot functions
# ----------------------------------------------------------------------------------
def random_table(rng):
    n_pol, n_ord = int(rng.integers(2, 9)), int(rng.integers(2, 13))
    Fn = np.round(rng.uniform(0.2, 9.8, (n_pol, n_ord)), int(rng.integers(0, 3)))
    Fn[rng.random((n_pol, n_ord)) < 0.3] = np.nan
    if rng.random() < 0.5:
        Fn[:, 0] = np.nan
    Lab = rng.integers(0, 2, (n_pol, n_ord))
    return Fn, Lab


def random_script(rng, xmax, ymax, max_len=6, outside=0.05):
    script = []
    if rng.random() < 0.8:
        script.append(key_down())
    for _ in range(int(rng.integers(0, max_len + 1))):
        r = rng.random()
        x = float(rng.uniform(-0.5, xmax + 0.5))
        y = float(rng.uniform(-1.0, ymax + 1.0))
        if rng.random() < outside:
            x, y = None, None  # click outside the axes
        if r < 0.5:
            script.append(pick(x, y))
        elif r < 0.65:
            script.append(desel_last(x, y))
        elif r < 0.85:
            script.append(desel_near(x, y))
        elif r < 0.90:
            script.append(key_up())
        elif r < 0.95:
            script.append(key_down())
        else:
            script.append(key_down("control"))
    return script


def part_B(n_cases=40):
    rng = np.random.default_rng(16)
    n = 0
    nonempty = 0
    for _ in range(n_cases):
        Fn, Lab = random_table(rng)
        freqlim = None if rng.random() < 0.5 else (0.0, 10.0)
        for kind in ("SSI", "pLSCF"):
            script = random_script(rng, 10.0, Fn.shape[1])
            out, log = compare_dialogs(stab_algo(Fn, Lab), kind, script, freqlim)
            assert out[0] == "ok" and len(log) == len(script) + 1, out
            nonempty += bool(out[3])
            n += 1
        nf = int(rng.integers(8, 65))
        freq = np.linspace(0.0, 10.0, nf)
        S_val = np.abs(rng.standard_normal((3, 3, nf))) + 0.05
        script = random_script(rng, 10.0, 5.0)
        out, log = compare_dialogs(fdd_algo(freq, S_val), "FDD", script, freqlim)
        assert out[0] == "ok" and len(log) == len(script) + 1, out
        nonempty += bool(out[3])
        n += 1
        plt.close("all")
    assert nonempty > n // 3, (nonempty, n)
    return n


# ----------------------------------------------------------------------------------
# C. end to end through SingleSetup.mpe_from_plot
# ----------------------------------------------------------------------------------
def synth(rng, n=3000, fs=50.0, nch=4):
    t = np.arange(n) / fs
    f0 = np.array([2.1, 5.3, 8.7, 12.4])
    shapes = rng.standard_normal((len(f0), nch))
    mod = np.stack(
        [np.convolve(rng.standard_normal(n), np.exp(-0.05 * 2 * np.pi * f * t[:400]) * np.sin(2 * np.pi * f * t[:400]))[:n] for f in f0]
    )
    return mod.T @ shapes + 0.05 * rng.standard_normal((n, nch)), fs


RES_FIELDS = ("Fn", "Xi", "Phi", "order_out", "Fn_cov", "Xi_cov", "Phi_cov")


def result_view(alg):
    out = {}
    for f in RES_FIELDS:
        if hasattr(alg.result, f):
            v = getattr(alg.result, f)
            out[f] = v if v is None or isinstance(v, (int, float)) else np.asarray(v)
    return out


def e2e_once(make_orig, make_new, sel_for_orig, sel_for_new, data, fs, scripts, kw, patch_target=None):
    from pyoma2.setup import SingleSetup

    views = []
    for make, sel_mod in ((make_orig, sel_for_orig), (make_new, sel_for_new)):
        ss = SingleSetup(data=data.copy(), fs=fs)
        alg = make()
        ss.add_algorithms(alg)
        ss.run_all()
        per_script = []
        for script in scripts(alg):
            log = []
            with contextlib.ExitStack() as st:
                st.enter_context(headless(sel_mod, script, log, light=False))
                if patch_target is not None:
                    st.enter_context(mock.patch.object(patch_target, "SelFromPlot", sel_mod.SelFromPlot))
                try:
                    ret = ss.mpe_from_plot(alg.name, **kw)
                    status = ("ok", ret)
                except Exception as e:
                    status = ("raised", type(e).__name__, str(e))
            per_script.append((status, log, result_view(alg), repr(alg.run_params.model_dump().get("rtol"))))
            plt.close("all")
        views.append(per_script)
    for i, (o, n) in enumerate(zip(*views)):
        if not same(o, n):
            print("E2E MISMATCH at script", i)
            print(" orig:", o[0], o[2])
            print(" new :", n[0], n[2])
            raise SystemExit(1)
    return views[0]


def part_C():
    rng = np.random.default_rng(1616)
    data, fs = synth(rng)
    n = 0
    n_modes = 0

    def stab_scripts(seed):
        def gen(alg):
            r = np.random.default_rng(seed)
            Fn = alg.result.Fn_poles
            out = [[], [key_down()]]
            for _ in range(12):
                out.append(random_script(r, fs / 2, Fn.shape[1], outside=0.0))
            # clicks exactly on existing poles, in scrambled frequency order
            for _ in range(6):
                s = [key_down()]
                cols = r.permutation(Fn.shape[1])[:5]
                for c in cols:
                    col = Fn[:, c]
                    ok = np.flatnonzero(~np.isnan(col))
                    if ok.size:
                        s.append(pick(float(col[r.choice(ok)]) + 0.01, float(c) + 0.2))
                if r.random() < 0.5:
                    s.append(desel_near(float(r.uniform(0, fs / 2))))
                out.append(s)
            return out

        return gen

    # SSIcov: pristine class + pristine dialog vs refactored class + refactored dialog
    for rtol in (1e-2, 5e-2):
        v = e2e_once(
            lambda: orig_ssi.SSIcov(name="SSIcov", br=8, ordmax=16),
            lambda: new_ssi.SSIcov(name="SSIcov", br=8, ordmax=16),
            orig_sel,
            new_sel,
            data,
            fs,
            stab_scripts(3),
            dict(freqlim=(0.0, fs / 2), rtol=rtol),
        )
        n += len(v)
        n_modes += sum(len(x[2]["Fn"]) for x in v if x[0][0] == "ok")
    # SSIdat with uncertainty disabled is covered by SSIcov; pLSCF:
    v = e2e_once(
        lambda: orig_plscf.pLSCF(name="pLSCF", ordmax=10, nxseg=256),
        lambda: new_plscf.pLSCF(name="pLSCF", ordmax=10, nxseg=256),
        orig_sel,
        new_sel,
        data,
        fs,
        stab_scripts(5),
        dict(freqlim=None, rtol=5e-2),
    )
    n += len(v)
    n_modes += sum(len(x[2]["Fn"]) for x in v if x[0][0] == "ok")

    # FDD: the algorithm module is untouched; only the dialog it uses differs
    def fdd_scripts(alg):
        r = np.random.default_rng(7)
        return [[], [key_down()]] + [random_script(r, fs / 2, 5.0, outside=0.0) for _ in range(12)]

    v = e2e_once(
        lambda: new_fdd.FDD(name="FDD", nxseg=256),
        lambda: new_fdd.FDD(name="FDD", nxseg=256),
        orig_sel,
        new_sel,
        data,
        fs,
        fdd_scripts,
        dict(freqlim=(0.0, fs / 2)),
        patch_target=new_fdd,
    )
    n += len(v)
    n_modes += sum(len(x[2]["Fn"]) for x in v if x[0][0] == "ok")
    assert n_modes > 30, n_modes
    return n, n_modes


if __name__ == "__main__":
    nB = part_B()
    print(f"B: {nB} random dialogs (real Figure, real plot functions) identical")
    nC, modes = part_C()
    print(f"C: {nC} end-to-end mpe_from_plot runs identical ({modes} modes extracted in total)")
    nA, nonempty = part_A()
    print(f"A: {nA} exhaustively enumerated dialogs identical ({nonempty} with a non-empty final selection)")
    print("PASS")
