"""
Differential test: the library on PYTHONPATH (CLEAN version of the commit) against the
pristine implementation saved next to this file as orig_ssi.py
(copy of src/pyoma2/functions/ssi.py at HEAD).

Run:  PYTHONPATH=<tree>/src /venv/bin/python equiv.py
Prints PASS and exits 0 when every compared output is equal.
"""
import importlib.util
import logging
import os
import sys
import time
import warnings

import numpy as np

warnings.filterwarnings("ignore")
logging.disable(logging.CRITICAL)

HERE = os.path.dirname(os.path.abspath(__file__))

from pyoma2.functions import ssi as new  # noqa: E402

spec = importlib.util.spec_from_file_location("orig_ssi", os.path.join(HERE, "orig_ssi.py"))
old = importlib.util.module_from_spec(spec)
spec.loader.exec_module(old)

import pyoma2.algorithms.ssi as alg_mod  # noqa: E402
from pyoma2.algorithms import SSIcov, SSIdat  # noqa: E402
from pyoma2.setup import SingleSetup  # noqa: E402

logging.disable(logging.CRITICAL)

for mod in (new, old):
    mod.trange = lambda *a, **k: range(*a)
    mod.tqdm = lambda x, **k: x

RTOL = 1e-12
n_cmp = 0
n_exc = 0
failures = []


def same(a, b):
    """array_equal, or allclose(rtol=1e-12, equal_nan=True), recursively."""
    if a is None or b is None:
        return a is None and b is None
    if isinstance(a, (list, tuple)):
        return (
            isinstance(b, (list, tuple))
            and len(a) == len(b)
            and all(same(x, y) for x, y in zip(a, b))
        )
    a = np.asarray(a)
    b = np.asarray(b)
    if a.shape != b.shape:
        return False
    if a.dtype != b.dtype:
        return False
    if np.array_equal(a, b, equal_nan=True):
        return True
    return bool(np.allclose(a, b, rtol=RTOL, equal_nan=True))


def call(f, *a, **k):
    try:
        return ("ok", f(*a, **k))
    except Exception as e:  # noqa: BLE001
        return ("exc", type(e).__name__)


def compare(label, fname, *a, **k):
    global n_cmp, n_exc
    n_cmp += 1
    r_new = call(getattr(new, fname), *a, **k)
    r_old = call(getattr(old, fname), *a, **k)
    n_exc += r_old[0] == "exc"
    if r_new[0] != r_old[0]:
        failures.append(f"{label}: new {r_new[0]} {r_new[1] if r_new[0]=='exc' else ''} / old {r_old[0]} {r_old[1] if r_old[0]=='exc' else ''}")
        return r_new, r_old
    if r_new[0] == "exc":
        if r_new[1] != r_old[1]:
            failures.append(f"{label}: exception {r_new[1]} vs {r_old[1]}")
    elif not same(r_new[1], r_old[1]):
        failures.append(f"{label}: outputs differ")
    return r_new, r_old


def free_decay(rng, m, l, fs, ndat, complex_modes, noise=0.0):
    fn = np.sort(rng.uniform(0.03, 0.43, m)) * fs
    xi = rng.uniform(0.002, 0.08, m)
    wn = 2 * np.pi * fn
    lam = -xi * wn + 1j * wn * np.sqrt(1 - xi**2)
    phi = rng.standard_normal((l, m)).astype(complex)
    if complex_modes:
        phi = phi + 1j * rng.standard_normal((l, m))
    t = np.arange(ndat) / fs
    q0 = rng.uniform(0.5, 1.5, m) * np.exp(1j * rng.uniform(0, 2 * np.pi, m))
    y = 2 * np.real((phi * q0) @ np.exp(np.outer(lam, t))).T
    if noise:
        y = y + noise * rng.standard_normal(y.shape)
    return y, fn


t_start = time.time()
rng = np.random.default_rng(20240607)

# --------------------------------------------------------------------------- ac2mp
for k in range(40):
    n = int(rng.integers(1, 14))
    nch = int(rng.integers(1, 9))
    A = rng.standard_normal((n, n))
    if k % 5 == 0:
        A = np.triu(A)  # real eigenvalues only -> real eigenvectors
    C = rng.standard_normal((nch, n))
    dt = float(rng.uniform(0.001, 0.5))
    for cu in (False, True):
        compare(f"ac2mp[{k},{cu}]", "ac2mp", A, C, dt, calc_unc=cu)
compare("ac2mp[default]", "ac2mp", rng.standard_normal((4, 4)), rng.standard_normal((3, 4)), 0.01)
compare("ac2mp[truthy]", "ac2mp", rng.standard_normal((4, 4)), rng.standard_normal((3, 4)), 0.01, 1)
compare("ac2mp[int]", "ac2mp", np.array([[-1, -2], [3, -4]]), np.array([[1, 0], [0, 1]]), 0.1)
compare("ac2mp[bad shape]", "ac2mp", rng.standard_normal((4, 4)), rng.standard_normal((3, 5)), 0.01)

# ------------------------------------------------- realisation: SSI, SSI_fast, SSI_poles
for k in range(24):
    l = int(rng.integers(1, 6))  # noqa: E741
    r = int(rng.integers(1, l + 1))
    br = int(rng.integers(2, 9))
    # Hankel-like matrices: random full rank, random low rank, tall (reference subset)
    shape = ((br + 1) * l, (br + 1) * r)
    if k % 3 == 0:
        rank = int(rng.integers(2, 7))
        H = rng.standard_normal((shape[0], rank)) @ rng.standard_normal((rank, shape[1]))
        H = H + 1e-6 * rng.standard_normal(shape)
    else:
        H = rng.standard_normal(shape)
    top = min(shape[1], br * l)
    ordmax = int(rng.integers(1, top + 1))
    dt = float(rng.uniform(0.005, 0.1))
    compare(f"SSI[{k}]", "SSI", H, br, ordmax)
    compare(f"SSI[{k},pos step]", "SSI", H, br, ordmax, 1)
    rn, ro = compare(f"SSI_fast[{k}]", "SSI_fast", H, br, ordmax)
    compare(f"SSI_fast[{k},step]", "SSI_fast", H, br, ordmax, step=2)
    if rn[0] == "ok":
        Obs, A, C = ro[1][:3]
        compare(f"SSI_poles[{k}]", "SSI_poles", Obs, A, C, ordmax, dt)
        compare(f"SSI_poles[{k},kw]", "SSI_poles", Obs=Obs, AA=A, CC=C, ordmax=ordmax, dt=dt, step=1, calc_unc=False)
    # legacy lists into the pole table
    rn, ro = compare(f"SSI[{k}] again", "SSI", H, br, ordmax, step=1)
    if ro[0] == "ok":
        A, C = ro[1]
        compare(f"SSI_poles[legacy {k}]", "SSI_poles", None, A, C, ordmax, dt)

# orders beyond what the matrix supports (exceptions must agree)
H = rng.standard_normal((12, 4))
compare("SSI_fast[too large]", "SSI_fast", H, 3, 6)
compare("SSI[too large]", "SSI", H, 3, 6)
H = rng.standard_normal((8, 8))
compare("SSI_fast[sat]", "SSI_fast", H, 3, 10)
compare("SSI[sat]", "SSI", H, 3, 10)
compare("SSI_poles[unc, no Q]", "SSI_poles", rng.standard_normal((8, 2)),
        [np.zeros((0, 0)), np.eye(1) * 0.5, np.array([[0.5, 0.1], [-0.1, 0.5]])],
        [np.zeros((2, 0)), np.ones((2, 1)), np.ones((2, 2))], 2, 0.01, calc_unc=True)

# ------------------------------------------ covariance driven chain with uncertainties
for k in range(8):
    l = int(rng.integers(2, 5))  # noqa: E741
    m = int(rng.integers(1, 4))
    br = int(rng.integers(max(3, 2 * m), 2 * m + 4))
    fs = float(rng.choice([50.0, 100.0, 256.0]))
    y, _ = free_decay(rng, m, l, fs, int(rng.integers(600, 1200)), bool(k % 2), noise=0.05)
    Y = y.T
    ref = sorted(rng.choice(l, size=int(rng.integers(1, l + 1)), replace=False).tolist())
    Yref = Y[ref, :]
    nb = int(rng.choice([20, 50]))
    ordmax = int(rng.integers(2, min(2 * m + 3, br * l, (br + 1) * len(ref)) + 1))
    rn, ro = compare(f"build_hank[{k}]", "build_hank", Y, Yref, br, "cov_mm", True, nb)
    if ro[0] != "ok":
        continue
    H, T = ro[1]
    rn, ro = compare(f"SSI_fast[unc {k}]", "SSI_fast", H, br, ordmax, step=1, calc_unc=True, T=T, nb=nb)
    if ro[0] != "ok":
        continue
    Obs, A, C, Q1, Q2, Q3, Q4 = ro[1]
    compare(f"SSI_poles[unc {k}]", "SSI_poles", Obs, A, C, ordmax, 1 / fs, step=1,
            calc_unc=True, Q1=Q1, Q2=Q2, Q3=Q3, Q4=Q4)
    compare(f"SSI_poles[unc off {k}]", "SSI_poles", Obs, A, C, ordmax, 1 / fs, 1, False, Q1, Q2, Q3, Q4)

# ------------------------------------------------------- whole algorithms, single setup
FIELDS = ["Fn_poles", "Xi_poles", "Phi_poles", "Lambds", "Lab", "Fn_poles_cov",
          "Xi_poles_cov", "Phi_poles_cov", "Obs", "A", "C", "H", "Fn", "Xi", "Phi",
          "order_out", "Fn_cov", "Xi_cov", "Phi_cov"]


def run_algo(module, cls, data, fs, kwargs, sel, order):
    alg_mod.ssi = module
    try:
        ss = SingleSetup(data.copy(), fs)
        alg = cls(name="x", **kwargs)
        ss.add_algorithms(alg)
        ss.run_by_name("x")
        ss.mpe("x", sel_freq=sel, order=order)
        return {f: getattr(alg.result, f) for f in FIELDS}
    finally:
        alg_mod.ssi = new


for k in range(14):
    l = int(rng.integers(2, 7))  # noqa: E741
    m = int(rng.integers(1, 5))
    fs = float(rng.choice([20.0, 100.0, 512.0]))
    noise = [0.0, 0.02][k % 2]
    y, fn = free_decay(rng, m, l, fs, int(rng.integers(500, 1500)), bool((k // 2) % 2), noise)
    cls = [SSIcov, SSIdat][k % 2] if k < 10 else SSIcov
    br = int(rng.integers(2 * m + 1, 2 * m + 6))
    ref = None
    if k % 3 == 1:
        ref = rng.permutation(l)[: int(rng.integers(1, l + 1))].tolist()
    calc_unc = k >= 10
    top = min(br * l, (br + 1) * (len(ref) if ref else l))
    ordmax = min(2 * m + int(rng.integers(0, 5)), top) if not calc_unc else min(2 * m, top)
    kwargs = dict(br=br, ordmax=ordmax, ref_ind=ref, calc_unc=calc_unc, nb=20,
                  hc=dict(conj=True, xi_max=0.2, mpc_lim=0.1, mpd_lim=5.0, cov_max=1e6))
    order = min(2 * m, ordmax)
    order = [order] * m if k % 4 == 3 else order
    n_cmp += 1
    r_new = call(run_algo, new, cls, y, fs, kwargs, list(fn), order)
    r_old = call(run_algo, old, cls, y, fs, kwargs, list(fn), order)
    n_exc += r_old[0] == "exc"
    if r_new[0] != r_old[0] or (r_new[0] == "exc" and r_new[1] != r_old[1]):
        failures.append(f"algo[{k}]: {r_new[:2]} vs {r_old[:2]}")
    elif r_new[0] == "ok":
        for f in FIELDS:
            if not same(r_new[1][f], r_old[1][f]):
                failures.append(f"algo[{k}] {cls.__name__} {kwargs}: result.{f} differs")

print(f"{n_cmp} comparisons ({n_exc} of them on raised exceptions) in {time.time() - t_start:.1f} s")
if failures:
    print("FAIL")
    for f in failures[:40]:
        print("  ", f)
    sys.exit(1)
print("PASS")
