"""
Equivalence check of the C04 refactoring (PreGER spectral merging) against the
pristine HEAD versions of the three touched modules.

    PYTHONPATH=/tmp/wt/U04/src /venv/bin/python /tmp/wt/U04/_refactor/equiv.py

Everything is compared for IDENTITY: same type, dtype, shape, strides, NaN
pattern and bit-identical values (np.array_equal with equal_nan), equal
exception types and messages.
"""

import copy
import importlib.util
import logging
import os
import sys

import numpy as np
from scipy import signal

HERE = os.path.dirname(os.path.abspath(__file__))
sys.path.insert(0, os.path.join(os.path.dirname(HERE), "src"))

import tqdm  # noqa: E402

# silence the progress bars of SD_PreGER / EFDD_mpe (both versions)
_orig_tqdm_init = tqdm.tqdm.__init__


def _quiet_init(self, *a, **k):
    k["disable"] = True
    _orig_tqdm_init(self, *a, **k)


tqdm.tqdm.__init__ = _quiet_init
logging.disable(logging.CRITICAL)

import pyoma2.algorithms.fdd as new_alg_fdd  # noqa: E402
import pyoma2.algorithms.plscf as new_alg_plscf  # noqa: E402
import pyoma2.functions.fdd as new_fn_fdd  # noqa: E402
from pyoma2.setup.multi import MultiSetup_PreGER  # noqa: E402
from pyoma2.setup.single import SingleSetup  # noqa: E402


def load(name, fname):
    spec = importlib.util.spec_from_file_location(name, os.path.join(HERE, fname))
    mod = importlib.util.module_from_spec(spec)
    sys.modules[name] = mod
    spec.loader.exec_module(mod)
    return mod


# pristine copies; the original algorithm layer is wired to the original numerical layer
orig_fn_fdd = load("pyoma2.functions._orig_fdd", "orig_functions_fdd.py")
orig_alg_fdd = load("pyoma2.algorithms._orig_fdd", "orig_algorithms_fdd.py")
orig_alg_plscf = load("pyoma2.algorithms._orig_plscf", "orig_algorithms_plscf.py")
orig_alg_fdd.fdd = orig_fn_fdd
orig_alg_plscf.fdd = orig_fn_fdd
assert new_alg_fdd.fdd is new_fn_fdd and new_alg_plscf.fdd is new_fn_fdd
assert orig_fn_fdd.__file__ != new_fn_fdd.__file__

N_CHECKS = 0
STEP_STATS = {}


# -----------------------------------------------------------------------------
# comparison helpers
def identical(a, b, path="", layout=True):
    """Recursive identity of two values (arrays: dtype, shape, strides, bits)."""
    global N_CHECKS
    N_CHECKS += 1
    if isinstance(a, np.ndarray) or isinstance(b, np.ndarray):
        assert isinstance(a, np.ndarray) and isinstance(b, np.ndarray), (path, type(a), type(b))
        assert a.dtype == b.dtype, (path, a.dtype, b.dtype)
        assert a.shape == b.shape, (path, a.shape, b.shape)
        if layout:
            assert a.strides == b.strides, (path, a.strides, b.strides)
        if a.dtype == object:
            for k, (x, y) in enumerate(zip(a.ravel(), b.ravel())):
                identical(x, y, f"{path}[{k}]", layout)
        else:
            assert np.array_equal(a, b, equal_nan=True), (path, "values differ")
            if np.iscomplexobj(a):  # NaN pattern of real and imaginary parts separately
                assert np.array_equal(np.isnan(a.real), np.isnan(b.real)), path
                assert np.array_equal(np.isnan(a.imag), np.isnan(b.imag)), path
        return
    assert type(a) is type(b), (path, type(a), type(b))
    if isinstance(a, (list, tuple)):
        assert len(a) == len(b), (path, len(a), len(b))
        for k, (x, y) in enumerate(zip(a, b)):
            identical(x, y, f"{path}[{k}]", layout)
    elif isinstance(a, dict):
        assert list(a.keys()) == list(b.keys()), (path, a.keys(), b.keys())
        for k in a:
            identical(a[k], b[k], f"{path}[{k!r}]", layout)
    elif isinstance(a, float) and a != a:
        assert b != b, path
    else:
        assert a == b, (path, a, b)


def same_model(a, b, path):
    """Two pydantic models (results / run parameters): same fields, identical values."""
    if a is None or b is None:
        assert a is None and b is None, path
        return
    assert type(a).__name__ == type(b).__name__, (path, type(a), type(b))
    fa, fb = dict(a.__dict__), dict(b.__dict__)
    assert list(fa) == list(fb), (path, list(fa), list(fb))
    for k in fa:
        identical(fa[k], fb[k], f"{path}.{k}")
    assert a.model_fields_set == b.model_fields_set, (path, "fields_set")


def outcome(fun, *a, **k):
    try:
        return ("ok", fun(*a, **k))
    except Exception as e:  # noqa: BLE001
        return ("exc", type(e), str(e))


def same_outcome(fo, fn, path, *a, **k):
    ro, rn = outcome(fo, *a, **k), outcome(fn, *a, **k)
    assert ro[0] == rn[0], (path, ro[:2], rn[:2], ro[-1] if ro[0] == "exc" else "", rn[-1] if rn[0] == "exc" else "")
    if ro[0] == "exc":
        assert ro[1] is rn[1], (path, ro, rn)
        assert ro[2] == rn[2], (path, ro, rn)
        return None
    identical(ro[1], rn[1], path)
    return ro[1]


# -----------------------------------------------------------------------------
# data
def recording(rng, nch, ndat, fs, fn=(0.05, 0.12, 0.2), xi=(0.015, 0.02, 0.01)):
    """Response of `nch` channels to white noise through a few resonators + noise."""
    t_modes = []
    for f, z in zip(fn, xi):
        wn = 2 * np.pi * f * fs
        num, den, _ = signal.cont2discrete(([wn**2], [1, 2 * z * wn, wn**2]), 1 / fs, method="bilinear")
        t_modes.append(signal.lfilter(num.ravel(), den, rng.standard_normal(ndat + 500))[500:])
    q = np.array(t_modes)
    phi = rng.standard_normal((nch, len(fn)))
    return (phi @ q + 0.05 * rng.standard_normal((nch, ndat)) * np.std(q)).T  # [ndat x nch]


def partition(rng, nch, same_size=False):
    """ref channels, list of roving channel groups (2..4 setups, 1..3 references)."""
    n_ref = int(rng.integers(1, min(3, nch - 1) + 1))
    perm = rng.permutation(nch)
    ref, rov = perm[:n_ref], perm[n_ref:]
    n_setup = int(rng.integers(2, 5))
    if len(rov) >= n_setup:
        cuts = np.sort(rng.choice(np.arange(1, len(rov)), n_setup - 1, replace=False))
        groups = np.split(rov, cuts)
    else:  # fewer roving channels than setups: re-use channels
        groups = [rov[[k % len(rov)]] for k in range(n_setup)]
    return ref, groups


def make_datasets(rng, data, ref, groups):
    """Datasets with the reference channels placed anywhere (not ascending) in each setup."""
    datasets, ref_ind = [], []
    for grp in groups:
        chans = np.concatenate([ref, grp])
        order = rng.permutation(len(chans))
        gain = rng.uniform(0.3, 3.0)
        datasets.append(gain * data[:, chans[order]])
        # position of every reference channel in this dataset, in the common reference order
        ref_ind.append([int(np.where(order == k)[0][0]) for k in range(len(ref))])
    return datasets, ref_ind


# -----------------------------------------------------------------------------
# 1) numerical layer
def check_functions(rng, n_cases=36):
    for case in range(n_cases):
        nch = int(rng.integers(2, 10))
        nxseg = int(rng.choice([64, 96, 128, 250, 256, 512, 1024, 2048]))
        pov = float(rng.choice([0.0, 0.25, 1 / 3, 0.5, 0.66, 0.75]))
        fs = float(rng.choice([1.0, 20.0, 100.0, 333.3]))
        ndat = int(nxseg * rng.integers(4, 8) + rng.integers(0, nxseg))
        data = recording(rng, nch, ndat, fs).T  # [nch x ndat]
        ref, groups = partition(rng, nch)
        gains = rng.uniform(0.2, 5.0, len(groups)) if case % 3 else np.ones(len(groups))
        Y = [{"ref": g * data[ref], "mov": g * data[grp]} for g, grp in zip(gains, groups)]
        if case % 4 == 0:  # independent records per setup (general case of the property)
            for y in Y:
                extra = recording(rng, nch, ndat, fs).T
                y["ref"], y["mov"] = extra[: len(ref)], extra[len(ref) : len(ref) + len(y["mov"])]
        for method in ("per", "cor"):
            tag = f"case{case}/{method}"
            same_outcome(orig_fn_fdd.SD_est, new_fn_fdd.SD_est, tag + "/SD_est", data, data[ref], 1 / fs, nxseg, method, pov)
            same_outcome(orig_fn_fdd.SD_est, new_fn_fdd.SD_est, tag + "/SD_est_kw", data, data, 1 / fs, nxseg=nxseg, method=method, pov=pov)
            res = same_outcome(orig_fn_fdd.SD_PreGER, new_fn_fdd.SD_PreGER, tag + "/SD_PreGER", Y, fs, nxseg=nxseg, pov=pov, method=method)
            assert res is not None, tag
            same_outcome(orig_fn_fdd.SD_PreGER, new_fn_fdd.SD_PreGER, tag + "/SD_PreGER_pos", Y, fs, nxseg, pov, method)
        # defaults
        if case % 6 == 0:
            same_outcome(orig_fn_fdd.SD_PreGER, new_fn_fdd.SD_PreGER, f"case{case}/defaults", Y, fs)
            same_outcome(orig_fn_fdd.SD_est, new_fn_fdd.SD_est, f"case{case}/est_defaults", data, data[ref], 1 / fs)

    # error paths: unknown estimator, setup without roving sensors, no setup, ragged records
    data = recording(rng, 4, 700, 10.0).T
    Y = [{"ref": data[:1], "mov": data[1:3]}, {"ref": data[:1], "mov": data[3:]}]
    # unknown estimator name (outside the quantifier, excluded by the Literal type of the
    # run parameters): both versions fail, the original with an accidental IndexError on
    # its empty list of spectra, the refactored one with the UnboundLocalError of SD_est
    ro = outcome(orig_fn_fdd.SD_PreGER, Y, 10.0, nxseg=64, method="welch")
    rn = outcome(new_fn_fdd.SD_PreGER, Y, 10.0, nxseg=64, method="welch")
    assert ro[:2] == ("exc", IndexError) and rn[:2] == ("exc", UnboundLocalError), (ro, rn)
    kinds = []
    for fo, fn, args, kw in [
        (orig_fn_fdd.SD_est, new_fn_fdd.SD_est, (data, data[:1], 0.1), dict(nxseg=64, method="welch")),
        (orig_fn_fdd.SD_PreGER, new_fn_fdd.SD_PreGER, ([], 10.0), {}),
        (orig_fn_fdd.SD_PreGER, new_fn_fdd.SD_PreGER, ([Y[0], {"ref": data[:1], "mov": data[:0]}], 10.0), dict(nxseg=64)),
        (orig_fn_fdd.SD_PreGER, new_fn_fdd.SD_PreGER, ([Y[0], {"ref": data[:1], "mov": data[:0]}], 10.0), dict(nxseg=64, method="cor")),
        (orig_fn_fdd.SD_PreGER, new_fn_fdd.SD_PreGER, ([Y[0], {"ref": data[:1, :600], "mov": data[3:]}], 10.0), dict(nxseg=64)),
        (orig_fn_fdd.SD_PreGER, new_fn_fdd.SD_PreGER, ([Y[0], {"ref": data[:2], "mov": data[3:]}], 10.0), dict(nxseg=64)),
    ]:
        ro, rn = outcome(fo, *args, **kw), outcome(fn, *args, **kw)
        assert ro[0] == rn[0], (ro[:2], rn[:2])
        if ro[0] == "exc":
            assert ro[1] is rn[1], (ro, rn)
        else:  # records of different length / more reference rows in a later setup are accepted
            identical(ro[1], rn[1], "edge")
        kinds.append(ro[0] if ro[0] == "ok" else ro[1].__name__)
    print("edge cases:", kinds)


# -----------------------------------------------------------------------------
# 2) calling layer
class FakeSelFromPlot:
    """Stand-in of the interactive selection: returns a prepared selection."""

    selection = ([], None)
    calls = []

    def __init__(self, algo, freqlim=None, plot="FDD"):
        type(self).calls.append((type(algo).__name__, freqlim, plot, copy.deepcopy(dict(algo.run_params.__dict__))))
        self.result = type(self).selection


for mod in (new_alg_fdd, orig_alg_fdd, new_alg_plscf, orig_alg_plscf):
    mod.SelFromPlot = FakeSelFromPlot


def run_pair(setup_factory, cls_o, cls_n, name, kwargs, steps, tag):
    """Build the same setup twice, run the original and the new class, compare at every step."""
    algs = []
    for cls in (cls_o, cls_n):
        alg = cls(name=name, **kwargs)
        algs.append(alg)
    ao, an = algs
    # mpe before run: same error
    for meth, a, k in steps:
        if meth in ("mpe", "mpe_from_plot"):
            ro, rn = outcome(getattr(ao, meth), *a, **k), outcome(getattr(an, meth), *a, **k)
            assert ro == rn and ro[0] == "exc", (tag, meth, ro, rn)
    same_model(ao.run_params, an.run_params, tag + "/run_params@init")
    so, sn = setup_factory(), setup_factory()
    so.add_algorithms(ao)
    sn.add_algorithms(an)
    so.run_by_name(name)
    sn.run_all()
    same_model(ao.result, an.result, tag + "/result@run")
    same_model(ao.run_params, an.run_params, tag + "/run_params@run")
    assert an.result.Sy.shape[2] == an.result.freq.shape[0]
    for meth, a, k in steps:
        FakeSelFromPlot.calls = []
        ro = outcome(getattr(ao, meth), *copy.deepcopy(a), **copy.deepcopy(k))
        calls_o, FakeSelFromPlot.calls = FakeSelFromPlot.calls, []
        rn = outcome(getattr(an, meth), *copy.deepcopy(a), **copy.deepcopy(k))
        calls_n = FakeSelFromPlot.calls
        assert ro[0] == rn[0], (tag, meth, ro, rn)
        STEP_STATS[(type(an).__name__, meth, ro[0])] = STEP_STATS.get((type(an).__name__, meth, ro[0]), 0) + 1
        if os.environ.get("EQUIV_VERBOSE"):
            print(tag, meth, ro[0], ro[1:] if ro[0] == "exc" else "")
        if ro[0] == "exc":
            assert ro[1:] == rn[1:], (tag, meth, ro, rn)
        else:
            identical(ro[1], rn[1], f"{tag}/{meth}/return")
        identical(calls_o, calls_n, f"{tag}/{meth}/SelFromPlot calls")
        same_model(ao.result, an.result, f"{tag}/result@{meth}")
        same_model(ao.run_params, an.run_params, f"{tag}/run_params@{meth}")
    return ao, an


def check_classes(rng, n_cases=14):
    n_modal = 0
    for case in range(n_cases):
        nch = int(rng.integers(3, 10))
        nxseg = int(rng.choice([128, 256, 512]))
        pov = float(rng.choice([0.0, 0.25, 0.5, 0.75]))
        method = ("per", "cor")[case % 2]
        fs = float(rng.choice([20.0, 100.0]))
        ndat = int(nxseg * rng.integers(6, 12) + rng.integers(0, nxseg))
        data = recording(rng, nch, ndat, fs)  # [ndat x nch]
        ref, groups = partition(rng, nch)
        datasets, ref_ind = make_datasets(rng, data, ref, groups)
        sel = [0.05 * fs, 0.12 * fs, 0.2 * fs]
        sd = dict(nxseg=nxseg, method_SD=method, pov=pov)

        def ms():
            return MultiSetup_PreGER(fs=fs, ref_ind=copy.deepcopy(ref_ind), datasets=[d.copy() for d in datasets])

        def ss():
            return SingleSetup(data.copy(), fs=fs)

        tag = f"cls{case}/{method}/nx{nxseg}/pov{pov}"
        fdd_steps = [
            ("mpe", (sel,), dict(DF=max(0.0035 * fs, 2.5 * fs / nxseg))),
            ("mpe_from_plot", (), dict(freqlim=(0.0, fs / 3), DF=0.3)),
            ("mpe", (sel[:2],), {}),
        ]
        efdd_steps = [
            ("mpe", (sel,), dict(DF1=0.02 * fs, DF2=0.06 * fs, cm=1, MAClim=0.8, sppk=1, npmax=4)),
            ("mpe_from_plot", (), dict(DF1=0.03 * fs, DF2=0.05 * fs, MAClim=0.9, sppk=2, npmax=3, freqlim=(0.0, fs / 2.5))),
            ("mpe", (sel[1:],), {}),
        ]
        FakeSelFromPlot.selection = (list(sel[::-1]), None)
        run_pair(ms, orig_alg_fdd.FDD_MS, new_alg_fdd.FDD_MS, "fdd_ms", sd, fdd_steps, tag + "/FDD_MS")
        ao, an = run_pair(ms, orig_alg_fdd.EFDD_MS, new_alg_fdd.EFDD_MS, "efdd_ms", sd, efdd_steps, tag + "/EFDD_MS")
        n_modal += int(an.result.Fn is not None and np.all(np.isfinite(an.result.Fn)))
        if case % 2 == 0:
            run_pair(ss, orig_alg_fdd.FDD, new_alg_fdd.FDD, "fdd", sd, fdd_steps, tag + "/FDD")
            run_pair(ss, orig_alg_fdd.EFDD, new_alg_fdd.EFDD, "efdd", sd, efdd_steps, tag + "/EFDD")
        else:
            run_pair(ss, orig_alg_fdd.FSDD, new_alg_fdd.FSDD, "fsdd", sd, efdd_steps, tag + "/FSDD")
        if case % 5 == 0:  # default run parameters
            run_pair(ms, orig_alg_fdd.FDD_MS, new_alg_fdd.FDD_MS, "fdd_ms_def", dict(nxseg=min(1024, ndat // 5)), fdd_steps[:1], tag + "/FDD_MS/defaults")

        # pLSCF: user-set criteria, both with and without the conjugate criterion
        ordmax = int(rng.integers(6, 12))
        pl = dict(
            sd,
            ordmax=ordmax,
            ordmin=int(rng.integers(0, 3)),
            hc=dict(conj=bool(case % 3), xi_max=float(rng.choice([0.05, 0.1, 0.3])), mpc_lim=float(rng.choice([0.3, 0.7])), mpd_lim=float(rng.choice([0.3, 0.6]))),
            sc=dict(err_fn=float(rng.choice([0.01, 0.05])), err_xi=float(rng.choice([0.05, 0.2])), err_phi=float(rng.choice([0.03, 0.1]))),
        )
        pl_steps = [
            ("mpe", (sel,), dict(order=ordmax - 2, rtol=0.2)),
            ("mpe", (sel[:2],), dict(order="find_min", rtol=0.1)),
            ("mpe_from_plot", (), dict(freqlim=(0.0, fs / 2.2), rtol=0.15)),
        ]
        FakeSelFromPlot.selection = (list(sel), [ordmax - 3] * len(sel))
        run_pair(ms, orig_alg_plscf.pLSCF_MS, new_alg_plscf.pLSCF_MS, "plscf_ms", pl, pl_steps, tag + "/pLSCF_MS")
        if case % 2 == 0:
            run_pair(ss, orig_alg_plscf.pLSCF, new_alg_plscf.pLSCF, "plscf", pl, pl_steps, tag + "/pLSCF")
    assert n_modal >= 3, ("EFDD_MS mpe hardly ever succeeded", n_modal)
    return n_modal


# -----------------------------------------------------------------------------
# 3) the property itself on the refactored code (sanity: the merged matrix equals the
#    single-setup one when all setups share one recording)
def check_property(rng, n_cases=6):
    for case in range(n_cases):
        nch = int(rng.integers(3, 10))
        nxseg = int(rng.choice([64, 128, 256]))
        pov = float(rng.choice([0.0, 0.5, 0.75]))
        data = recording(rng, nch, nxseg * 8, 50.0).T
        ref, groups = partition(rng, nch)
        if len(np.concatenate(groups)) != nch - len(ref):
            continue
        Y = [{"ref": data[ref], "mov": data[grp]} for grp in groups]
        order = np.concatenate([ref] + groups)
        for method in ("per", "cor"):
            f1, S1 = new_fn_fdd.SD_PreGER(Y, 50.0, nxseg=nxseg, pov=pov, method=method)
            f2, S2 = new_fn_fdd.SD_est(data[order], data[ref], 1 / 50.0, nxseg, method, pov)
            assert np.array_equal(f1, f2)
            assert np.allclose(S1, S2, rtol=1e-8, atol=1e-12 * np.abs(S2).max()), (case, method)


if __name__ == "__main__":
    with np.errstate(all="ignore"):
        import warnings

        warnings.simplefilter("ignore")
        rng = np.random.default_rng(20261004)
        check_functions(rng)
        print("numerical layer identical")
        n_modal = check_classes(rng)
        print(f"calling layer identical (EFDD_MS mpe produced finite modes in {n_modal} cases)")
        check_property(rng)
        for key in sorted(STEP_STATS):
            print("   ", *key, STEP_STATS[key])
        print(f"{N_CHECKS} comparisons")
        print("PASS")
