"""
Differential test: the library in <tree>/src (CLEAN version applied) against the
pristine implementation kept next to this file as orig_functions_fdd.py and
orig_algorithms_fdd.py.

Run as:  PYTHONPATH=<tree>/src /venv/bin/python equiv.py
Prints PASS and exits 0 when every compared output (or raised exception type) agrees.
"""

import importlib.util
import logging
import os
import sys
import warnings

os.environ.setdefault("TQDM_DISABLE", "1")
logging.disable(logging.CRITICAL)
warnings.filterwarnings("ignore")

import numpy as np  # noqa: E402
from scipy import signal  # noqa: E402

import pyoma2.algorithms.fdd as new_alg  # noqa: E402
import pyoma2.functions.fdd as new_fun  # noqa: E402

HERE = os.path.dirname(os.path.abspath(__file__))


def _load(modname, filename):
    spec = importlib.util.spec_from_file_location(modname, os.path.join(HERE, filename))
    mod = importlib.util.module_from_spec(spec)
    sys.modules[modname] = mod
    spec.loader.exec_module(mod)
    return mod


# the pristine function module lives inside the package so that `from .gen import MAC` works
old_fun = _load("pyoma2.functions._orig_fdd", "orig_functions_fdd.py")
old_alg = _load("pyoma2.algorithms._orig_fdd", "orig_algorithms_fdd.py")
old_alg.fdd = old_fun  # pristine classes call the pristine functions

N_CASES = 0
MISMATCH = []


def same(a, b):
    if isinstance(a, (tuple, list)) and isinstance(b, (tuple, list)):
        return len(a) == len(b) and all(same(x, y) for x, y in zip(a, b))
    if a is None or b is None:
        return a is None and b is None
    a = np.asarray(a)
    b = np.asarray(b)
    if a.shape != b.shape:
        return False
    if np.array_equal(a, b):
        return True
    return bool(np.allclose(a, b, rtol=1e-12, atol=0.0, equal_nan=True))


def call(f, *args, **kwargs):
    try:
        return ("ok", f(*args, **kwargs))
    except Exception as e:  # noqa: BLE001
        return ("exc", type(e).__name__)


def compare(tag, fo, fn, *args, **kwargs):
    global N_CASES
    N_CASES += 1
    ro = call(fo, *args, **kwargs)
    rn = call(fn, *args, **kwargs)
    if ro[0] != rn[0]:
        MISMATCH.append(f"{tag}: old {ro[0]} ({ro[1] if ro[0] == 'exc' else ''}) "
                        f"new {rn[0]} ({rn[1] if rn[0] == 'exc' else ''})")
        return None
    if ro[0] == "exc":
        if ro[1] != rn[1]:
            MISMATCH.append(f"{tag}: exception {ro[1]} vs {rn[1]}")
        return None
    if not same(ro[1], rn[1]):
        MISMATCH.append(f"{tag}: outputs differ")
    return rn[1]


def random_sd(rng, nr, nc, nf, kind):
    if kind == "real":
        return rng.standard_normal((nr, nc, nf))
    A = rng.standard_normal((nr, nc, nf)) + 1j * rng.standard_normal((nr, nc, nf))
    if kind == "herm" and nr == nc:
        # Hermitian positive semi-definite with a few resonance-like peaks
        w = 1.0 + 50.0 * np.exp(-0.5 * ((np.arange(nf) - rng.integers(nf)) / 3.0) ** 2)
        return np.einsum("ijk,ljk->ilk", A * w, A.conj())
    return A


def functions_level(rng):
    shapes = [(2, 2), (3, 3), (4, 4), (5, 5), (8, 8), (6, 2), (7, 3), (5, 4), (2, 3), (3, 5)]
    for case in range(30):
        nr, nc = shapes[case % len(shapes)]
        nf = int(rng.integers(40, 400))
        kind = ["herm", "half", "real"][case % 3]
        SD = random_sd(rng, nr, nc, nf, kind)
        out = compare(f"SD_svalsvec[{case}] {nr}x{nc}x{nf} {kind}",
                      old_fun.SD_svalsvec, new_fun.SD_svalsvec, SD)
        if out is None:
            continue
        Sval, Svec = out
        if Sval.shape[0] < 2:
            continue
        fmax = float(rng.uniform(0.02, 0.2)) * (nf - 1)  # line spacing 0.02..0.2
        freq = np.arange(nf) * (fmax / (nf - 1))
        if case % 7 == 3:
            freq = freq + 1.5  # grid not starting at zero
        df = freq[1] - freq[0]
        nsel = int(rng.integers(1, 6))
        picks = rng.uniform(freq[0], freq[-1], size=nsel)
        variants = [
            (list(picks), float(rng.uniform(1.0, 8.0) * df)),
            (picks, max(0.1, 1.5 * float(df))),
            (np.sort(picks)[::-1], float(df)),
            ([int(p) for p in picks], float(rng.uniform(1.0, 3.0))),
            (np.asarray(picks, dtype=np.float32), float(3 * df)),
            (tuple(picks), 1e-9),  # empty band
            (list(picks), float(fmax)),  # band wider than the grid
            ([freq[0], freq[-1]], float(2 * df)),
        ]
        for j, (sel_freq, DF) in enumerate(variants):
            compare(f"FDD_mpe[{case}.{j}]", old_fun.FDD_mpe, new_fun.FDD_mpe,
                    Sval, Svec, freq, sel_freq, DF)
        compare(f"FDD_mpe[{case}.kw]", old_fun.FDD_mpe, new_fun.FDD_mpe,
                Sval=Sval, Svec=Svec, freq=freq, sel_freq=list(picks))
    # the unit-test style call: real random "singular values / vectors"
    for case in range(5):
        Sval = rng.random((2, 2, 1000))
        Svec = rng.random((2, 2, 1000))
        freq = np.linspace(0, 100, 1000)
        compare(f"FDD_mpe[dummy {case}]", old_fun.FDD_mpe, new_fun.FDD_mpe,
                Sval, Svec, freq, [25, 50, 75], 0.1 + case)


def records(rng, fs, n, nch, fns):
    Y = 0.05 * rng.standard_normal((n, nch))
    for fn in fns:
        wn = 2 * np.pi * fn
        xi = float(rng.uniform(0.005, 0.02))
        num, den, _ = signal.cont2discrete(([1.0], [1.0, 2 * xi * wn, wn**2]), 1 / fs)
        q = signal.lfilter(num.ravel(), den, rng.standard_normal(n))
        Y += np.outer(q / q.std(), rng.standard_normal(nch))
    return Y


RES_FIELDS = ("freq", "Sy", "S_val", "S_vec", "Fn", "Phi", "Xi")


def result_tuple(algo):
    return tuple(getattr(algo.result, f, None) for f in RES_FIELDS)


def run_algo(cls, data, fs, run_kwargs, mpe_kwargs):
    algo = cls(name="x", **run_kwargs)
    algo._set_data(data=data, fs=fs)
    algo.result = algo.run()
    first = result_tuple(algo)
    algo.mpe(**mpe_kwargs)
    second = result_tuple(algo)
    rp = algo.run_params
    return first, second, np.asarray(rp.sel_freq, dtype=float), np.asarray(
        getattr(rp, "DF", getattr(rp, "DF1", None)), dtype=float
    )


def classes_level(rng):
    fs = 50.0
    fns = [2.03, 4.97, 9.04]
    case = 0
    for method_SD in ("per", "cor"):
        for nch in (2, 4):
            Y = records(rng, fs, 12000, nch, fns)
            for sel_freq, DF in [([2.0, 5.0, 9.0], 0.2), ([9, 2, 5], 0.3), ([4.97], 0.1)]:
                case += 1
                compare(f"FDD[{case}] {method_SD} nch={nch}",
                        lambda: run_algo(old_alg.FDD, Y, fs,
                                         dict(nxseg=512, method_SD=method_SD),
                                         dict(sel_freq=sel_freq, DF=DF)),
                        lambda: run_algo(new_alg.FDD, Y, fs,
                                         dict(nxseg=512, method_SD=method_SD),
                                         dict(sel_freq=sel_freq, DF=DF)))
            for name in ("EFDD", "FSDD"):
                case += 1
                compare(f"{name}[{case}] {method_SD} nch={nch}",
                        lambda: run_algo(getattr(old_alg, name), Y, fs,
                                         dict(nxseg=1024, method_SD=method_SD),
                                         dict(sel_freq=[2.0, 5, 9.04], DF1=0.2, npmax=8)),
                        lambda: run_algo(getattr(new_alg, name), Y, fs,
                                         dict(nxseg=1024, method_SD=method_SD),
                                         dict(sel_freq=[2.0, 5, 9.04], DF1=0.2, npmax=8)))
    # multi-setup (non-square spectral matrix: all channels x reference channels)
    for method_SD in ("per", "cor"):
        Yall = records(rng, fs, 12000, 7, fns).T
        data = [
            {"ref": Yall[:2, :6000], "mov": Yall[2:5, :6000]},
            {"ref": Yall[:2, 6000:], "mov": Yall[5:7, 6000:]},
        ]
        for sel_freq, DF in [([2.0, 5.0, 9.0], 0.2), ([9, 5], 0.4)]:
            case += 1
            compare(f"FDD_MS[{case}] {method_SD}",
                    lambda: run_algo(old_alg.FDD_MS, data, fs,
                                     dict(nxseg=512, method_SD=method_SD),
                                     dict(sel_freq=sel_freq, DF=DF)),
                    lambda: run_algo(new_alg.FDD_MS, data, fs,
                                     dict(nxseg=512, method_SD=method_SD),
                                     dict(sel_freq=sel_freq, DF=DF)))
        case += 1
        compare(f"EFDD_MS[{case}] {method_SD}",
                lambda: run_algo(old_alg.EFDD_MS, data, fs,
                                 dict(nxseg=1024, method_SD=method_SD),
                                 dict(sel_freq=[2.0, 5, 9.04], DF1=0.2, npmax=8)),
                lambda: run_algo(new_alg.EFDD_MS, data, fs,
                                 dict(nxseg=1024, method_SD=method_SD),
                                 dict(sel_freq=[2.0, 5, 9.04], DF1=0.2, npmax=8)))
    # mpe before run raises in both
    compare("FDD mpe before run",
            lambda: old_alg.FDD(name="x", nxseg=256).mpe(sel_freq=[1.0]),
            lambda: new_alg.FDD(name="x", nxseg=256).mpe(sel_freq=[1.0]))


def main():
    rng = np.random.default_rng(606)
    functions_level(rng)
    classes_level(rng)
    print(f"{N_CASES} comparisons")
    if MISMATCH:
        print("FAIL")
        for m in MISMATCH[:20]:
            print(" -", m)
        return 1
    print("PASS")
    return 0


if __name__ == "__main__":
    sys.exit(main())
