"""
Differential test: the library with the CLEAN commit applied against the unmodified library.

Run as:  PYTHONPATH=<tree>/src /venv/bin/python equiv.py

The pristine implementations of the two touched files are loaded from the copies saved next to this
script (orig_setup_base.py = src/pyoma2/setup/base.py at HEAD, orig_algorithms_base.py =
src/pyoma2/algorithms/base.py at HEAD).  The same random histories of add / run / mpe calls are played on

  * "new":  the setup classes and algorithm classes of the library on PYTHONPATH, called the old way
            (no ch_idx / detrend), and
  * "orig": the same classes with add_algorithms (setup side) and _set_data (algorithm side) replaced by
            the pristine functions,

and everything observable is compared after every call: raised exception (type and text), keys and order
of setup.algorithms, identity of the bound data, fs / dt, digest of the data, run parameters and results
(numpy.array_equal or allclose(rtol=1e-12, equal_nan=True)).
"""

from __future__ import annotations

import hashlib
import importlib.util
import logging
import os
import pathlib
import sys
import warnings

os.environ.setdefault("TQDM_DISABLE", "1")
for _v in ("OMP_NUM_THREADS", "OPENBLAS_NUM_THREADS", "MKL_NUM_THREADS"):
    os.environ.setdefault(_v, "1")
warnings.filterwarnings("ignore")
logging.disable(logging.CRITICAL)

import numpy as np  # noqa: E402
from scipy import signal  # noqa: E402
from pyoma2.algorithms import (  # noqa: E402
    EFDD,
    FDD,
    FDD_MS,
    FSDD,
    SSIcov,
    SSIcov_MS,
    SSIdat,
    pLSCF,
)
from pyoma2.setup import MultiSetup_PreGER, SingleSetup  # noqa: E402
from pyoma2.setup.base import BaseSetup  # noqa: E402

HERE = pathlib.Path(__file__).resolve().parent


def load(name: str, fname: str):
    spec = importlib.util.spec_from_file_location(name, HERE / fname)
    mod = importlib.util.module_from_spec(spec)
    sys.modules[name] = mod
    spec.loader.exec_module(mod)
    return mod


orig_setup = load("orig_setup_base", "orig_setup_base.py")
orig_alg = load("orig_algorithms_base", "orig_algorithms_base.py")
ORIG_ADD = orig_setup.BaseSetup.add_algorithms
ORIG_SET_DATA = orig_alg.BaseAlgorithm._set_data

_orig_cls_cache: dict = {}


def orig_cls(cls):
    """`cls` with the pristine version of the touched method(s)."""
    if cls not in _orig_cls_cache:
        ns = {}
        if issubclass(cls, BaseSetup):
            ns["add_algorithms"] = ORIG_ADD
        else:
            ns["_set_data"] = ORIG_SET_DATA
        _orig_cls_cache[cls] = type("Orig" + cls.__name__, (cls,), ns)
    return _orig_cls_cache[cls]


# --------------------------------------------------------------------------- comparison helpers
def digest(obj) -> str:
    h = hashlib.sha256()
    if isinstance(obj, np.ndarray):
        h.update(np.ascontiguousarray(obj).tobytes())
    else:  # PreGER: list of {"ref": arr, "mov": arr}
        for d in obj:
            for k in sorted(d):
                h.update(k.encode())
                h.update(np.ascontiguousarray(d[k]).tobytes())
    return h.hexdigest()


def leaves(obj, prefix=""):
    if isinstance(obj, dict):
        for k, v in obj.items():
            yield from leaves(v, f"{prefix}.{k}")
    elif isinstance(obj, (list, tuple)):
        for i, v in enumerate(obj):
            yield from leaves(v, f"{prefix}[{i}]")
    else:
        yield prefix, obj


def equal_models(a, b) -> bool:
    if a is None or b is None:
        return a is b
    la, lb = list(leaves(a.model_dump())), list(leaves(b.model_dump()))
    if [k for k, _ in la] != [k for k, _ in lb]:
        return False
    for (_, x), (_, y) in zip(la, lb):
        if isinstance(x, np.ndarray) or isinstance(y, np.ndarray):
            x, y = np.asarray(x), np.asarray(y)
            if x.shape != y.shape:
                return False
            if x.dtype == object or y.dtype == object:
                if not all(np.array_equal(p, q) for p, q in zip(x.ravel(), y.ravel())):
                    return False
            elif not (
                np.array_equal(x, y)
                or np.allclose(x, y, rtol=1e-12, atol=0.0, equal_nan=True)
            ):
                return False
        elif isinstance(x, float) and isinstance(y, float):
            if not (x == y or (x != x and y != y)):
                return False
        elif x != y:
            return False
    return True


class Mismatch(AssertionError):
    pass


def snapshot_compare(tag, s_new, s_orig, d_new, d_orig):
    """Compare the complete observable state of the two setups."""
    a_new, a_orig = getattr(s_new, "algorithms", None), getattr(s_orig, "algorithms", None)
    if (a_new is None) != (a_orig is None):
        raise Mismatch(f"{tag}: algorithms attribute present on one side only")
    if digest(s_new.data) != d_new or digest(s_orig.data) != d_orig:
        raise Mismatch(f"{tag}: setup data modified")
    if a_new is None:
        return
    if list(a_new) != list(a_orig):
        raise Mismatch(f"{tag}: algorithm names / order differ: {list(a_new)} vs {list(a_orig)}")
    for name in a_new:
        x, y = a_new[name], a_orig[name]
        if (x.data is s_new.data) != (y.data is s_orig.data):
            raise Mismatch(f"{tag}: {name}: identity of the bound data differs")
        if digest(x.data) != digest(y.data):
            raise Mismatch(f"{tag}: {name}: bound data differ")
        if (x.fs, x.dt) != (y.fs, y.dt):
            raise Mismatch(f"{tag}: {name}: fs / dt differ")
        if getattr(x, "ch_idx", None) is not None:
            raise Mismatch(f"{tag}: {name}: ch_idx set although no selection was asked for")
        if not equal_models(x.run_params, y.run_params):
            raise Mismatch(f"{tag}: {name}: run_params differ")
        if not equal_models(x.result, y.result):
            raise Mismatch(f"{tag}: {name}: results differ")


def call_both(tag, f_new, f_orig):
    out = []
    for f in (f_new, f_orig):
        try:
            f()
            out.append(None)
        except Exception as e:  # noqa: BLE001
            out.append((type(e).__name__, str(e)))
    if out[0] != out[1]:
        raise Mismatch(f"{tag}: outcome differs: new={out[0]} orig={out[1]}")
    return out[0]


# --------------------------------------------------------------------------- random material
def make_data(rng, n, nch, fs):
    fn = np.sort(rng.uniform(0.06, 0.4, size=3)) * fs / 2
    xi = rng.uniform(0.01, 0.03, size=3)
    phi = rng.normal(size=(nch, 3))
    q = np.zeros((n, 3))
    for k, (f, z) in enumerate(zip(fn, xi)):
        wn = 2 * np.pi * f
        sysd = signal.cont2discrete(([1.0], [1.0, 2 * z * wn, wn**2]), 1 / fs)
        q[:, k] = signal.lfilter(sysd[0].ravel(), sysd[1], rng.normal(size=n))
    y = q @ phi.T
    y /= y.std(axis=0)
    y += 0.05 * rng.normal(size=y.shape) + rng.uniform(-1, 1, size=nch)
    return np.ascontiguousarray(y), fn


def random_algorithm(rng, kind, name, nch, with_params=True):
    """(class, kwargs) so that an identical instance can be built for both sides."""
    if kind in ("FDD", "EFDD", "FSDD"):
        kw = dict(
            nxseg=int(rng.choice([256, 512])),
            method_SD=str(rng.choice(["per", "cor"])),
            pov=float(rng.choice([0.5, 0.66])),
        )
        cls = {"FDD": FDD, "EFDD": EFDD, "FSDD": FSDD}[kind]
    elif kind in ("SSIcov", "SSIdat"):
        kw = dict(
            br=int(rng.integers(6, 11)),
            ordmax=int(rng.choice([10, 14])),
            step=int(rng.choice([1, 2])),
            ref_ind=None if rng.random() < 0.6 else sorted(rng.choice(nch, size=2, replace=False).tolist()),
        )
        if kind == "SSIcov":
            kw["method"] = str(rng.choice(["cov_mm", "cov_R"]))
        cls = {"SSIcov": SSIcov, "SSIdat": SSIdat}[kind]
    else:
        kw = dict(ordmax=int(rng.choice([8, 12])), nxseg=int(rng.choice([256, 512])))
        cls = pLSCF
    if not with_params:
        kw = {}
    return cls, dict(name=name, **kw)


def mpe_kwargs(kind, fn, rng):
    sel = [float(f) for f in fn[: int(rng.integers(1, 3))]]
    if kind == "FDD":
        return dict(sel_freq=sel, DF=0.3)
    if kind in ("EFDD", "FSDD"):
        return dict(sel_freq=sel, DF1=0.3, DF2=2.0, npmax=10)
    return dict(sel_freq=sel, order=8, rtol=0.3)


KINDS = ["FDD", "EFDD", "FSDD", "SSIcov", "SSIdat", "pLSCF"]


# --------------------------------------------------------------------------- scenarios
def single_history(seed):
    rng = np.random.default_rng(seed)
    fs = float(rng.choice([20.0, 50.0, 100.0]))
    nch = int(rng.integers(2, 7))
    data, fn = make_data(rng, int(rng.integers(1500, 2600)), nch, fs)
    use_base = rng.random() < 0.3
    if use_base:  # bare BaseSetup as in the test-suite fixture
        s_new, s_orig = BaseSetup(), orig_cls(BaseSetup)()
        s_new.data, s_new.fs = data.copy(), fs
        s_orig.data, s_orig.fs = data.copy(), fs
    else:
        s_new, s_orig = SingleSetup(data.copy(), fs), orig_cls(SingleSetup)(data.copy(), fs)
    d_new, d_orig = digest(s_new.data), digest(s_orig.data)

    nalg = int(rng.integers(1, 4))
    kinds = list(rng.choice(KINDS, size=nalg, replace=False))
    specs = []
    for i, kind in enumerate(kinds):
        with_params = rng.random() > 0.12
        # now and then two algorithms share a name: the later one must win on both sides
        name = f"a{i}" if rng.random() > 0.1 or i == 0 else "a0"
        specs.append((kind, *random_algorithm(rng, kind, name, nch, with_params)))

    tag = f"single[{seed}] {'BaseSetup' if use_base else 'SingleSetup'} {kinds}"
    # ---- add: all together or in random groups
    groups = [specs] if rng.random() < 0.5 else [[s] for s in specs]
    for g in groups:
        new_objs = [cls(**kw) for _, cls, kw in g]
        orig_objs = [orig_cls(cls)(**kw) for _, cls, kw in g]
        call_both(tag + " add", lambda: s_new.add_algorithms(*new_objs), lambda: s_orig.add_algorithms(*orig_objs))
        snapshot_compare(tag + " add", s_new, s_orig, d_new, d_orig)
    kind_of = {kw["name"]: kind for kind, _, kw in specs}

    # ---- random history of run_by_name / run_all / mpe calls (mpe may come before the run)
    names = list(s_new.algorithms)
    for step in range(int(rng.integers(3, 6))):
        op = rng.choice(["run_by_name", "run_all", "mpe", "mpe"])
        if step == 0 and rng.random() < 0.7:
            op = "run_all"
        if op == "run_all":
            r = call_both(f"{tag} #{step} run_all", s_new.run_all, s_orig.run_all)
        else:
            nm = "missing" if rng.random() < 0.08 else str(rng.choice(names))
            if op == "run_by_name":
                r = call_both(
                    f"{tag} #{step} run {nm}", lambda: s_new.run_by_name(nm), lambda: s_orig.run_by_name(nm)
                )
            else:
                kw = mpe_kwargs(kind_of.get(nm, "FDD"), fn, rng)
                r = call_both(
                    f"{tag} #{step} mpe {nm}", lambda: s_new.mpe(nm, **kw), lambda: s_orig.mpe(nm, **kw)
                )
        snapshot_compare(f"{tag} #{step} {op} -> {r}", s_new, s_orig, d_new, d_orig)


def preger_history(seed):
    rng = np.random.default_rng(seed)
    fs = 50.0
    nset = int(rng.integers(2, 4))
    datasets, fn = [], None
    for _ in range(nset):
        d, fn = make_data(np.random.default_rng(seed), int(rng.integers(1500, 2000)), 4, fs)
        datasets.append(d + 0.01 * rng.normal(size=d.shape))
    ref_ind = [[0, 1]] * nset
    s_new = MultiSetup_PreGER(fs=fs, ref_ind=ref_ind, datasets=[d.copy() for d in datasets])
    s_orig = orig_cls(MultiSetup_PreGER)(fs=fs, ref_ind=ref_ind, datasets=[d.copy() for d in datasets])
    d_new, d_orig = digest(s_new.data), digest(s_orig.data)
    tag = f"preger[{seed}]"
    specs = [
        (FDD_MS, dict(name="fdd", nxseg=256, method_SD=str(rng.choice(["per", "cor"])))),
        (SSIcov_MS, dict(name="ssi", br=int(rng.integers(6, 10)), ordmax=10)),
    ]
    rng.shuffle(specs)
    new_objs = [c(**kw) for c, kw in specs]
    orig_objs = [orig_cls(c)(**kw) for c, kw in specs]
    call_both(tag + " add", lambda: s_new.add_algorithms(*new_objs), lambda: s_orig.add_algorithms(*orig_objs))
    snapshot_compare(tag + " add", s_new, s_orig, d_new, d_orig)
    call_both(tag + " run_all", s_new.run_all, s_orig.run_all)
    snapshot_compare(tag + " run_all", s_new, s_orig, d_new, d_orig)
    kw = dict(sel_freq=[float(fn[0])], DF=0.3)
    call_both(tag + " mpe", lambda: s_new.mpe("fdd", **kw), lambda: s_orig.mpe("fdd", **kw))
    snapshot_compare(tag + " mpe", s_new, s_orig, d_new, d_orig)


def set_data_direct(seed):
    """_set_data called directly, positionally and by keyword, on assorted inputs."""
    rng = np.random.default_rng(seed)
    shape = (int(rng.integers(5, 50)), int(rng.integers(1, 6)))
    candidates = [
        rng.normal(size=shape),
        rng.integers(-5, 5, size=shape),
        np.asfortranarray(rng.normal(size=shape)),
        rng.normal(size=shape)[:, ::-1],
        [{"ref": rng.normal(size=(2, 30)), "mov": rng.normal(size=(3, 30))}],
        None,
    ]
    data = candidates[int(rng.integers(len(candidates)))]
    fs = [float(rng.uniform(1, 500)), int(rng.integers(1, 500)), 0, None][int(rng.integers(4))]
    a_new, a_orig = FDD(name="x"), orig_cls(FDD)(name="x")
    res = []
    for alg, positional in ((a_new, rng.random() < 0.5), (a_orig, None)):
        positional = res[0][2] if positional is None else positional
        try:
            ret = alg._set_data(data, fs) if positional else alg._set_data(data=data, fs=fs)
            res.append((None, ret is alg, positional))
        except Exception as e:  # noqa: BLE001
            res.append(((type(e).__name__, str(e)), None, positional))
    if res[0][:2] != res[1][:2]:
        raise Mismatch(f"set_data[{seed}]: outcome differs {res}")
    for attr in ("data", "fs", "dt"):
        x, y = getattr(a_new, attr, "<unset>"), getattr(a_orig, attr, "<unset>")
        if attr == "data":
            ok = x is y
        else:
            ok = x == y and type(x) is type(y)
        if not ok:
            raise Mismatch(f"set_data[{seed}]: attribute {attr} differs: {x!r} vs {y!r}")


def main() -> int:
    n = 0
    try:
        for seed in range(100, 124):
            single_history(seed)
            n += 1
        for seed in range(200, 204):
            preger_history(seed)
            n += 1
        for seed in range(300, 340):
            set_data_direct(seed)
            n += 1
    except Mismatch as e:
        print("FAIL", e)
        return 1
    print(f"PASS ({n} random configurations: 24 single-setup histories, 4 PreGER histories, 40 direct _set_data calls)")
    return 0


if __name__ == "__main__":
    sys.exit(main())
